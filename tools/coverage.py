#!/usr/bin/env python3
"""tools/coverage.py [Cnn ...]: which lines of /repo's crates do the correspondence runs execute?

Builds the harness with `-C instrument-coverage` (own target directories, nightly tool-chain for the
matching llvm-tools), runs the quick tier of the given checks (default: all) with it, merges the
profiles and writes coverage/REPORT.md + coverage/uncovered.json: per source file the executed /
executable lines and every function with lines that no run reached.  The report is an instrument for
finding *generator gaps* (DESIGN §0.9) — it is not evidence and decides nothing.  Evidence files
are restored afterwards (the instrumented runs must not replace the registered ones)."""
import json, os, re, shutil, subprocess, sys, glob
V = os.path.dirname(os.path.dirname(os.path.abspath(__file__)))
sys.path.insert(0, os.path.join(V, "tools"))
from props import PROPS

TOOLS = "/root/.rustup/toolchains/nightly-x86_64-unknown-linux-gnu/lib/rustlib/x86_64-unknown-linux-gnu/bin"
PROF = os.path.join(V, "build", "cov", "prof")
OUT = os.path.join(V, "coverage")


def main():
    props = [a for a in sys.argv[1:] if a in PROPS] or sorted(PROPS)
    keep = "--keep" in sys.argv
    if not keep:
        shutil.rmtree(PROF, ignore_errors=True)
    os.makedirs(PROF, exist_ok=True)
    os.makedirs(OUT, exist_ok=True)
    ev_backup = os.path.join(V, "build", "cov", "evidence-backup")
    shutil.rmtree(ev_backup, ignore_errors=True)
    shutil.copytree(os.path.join(V, "evidence"), ev_backup)
    env = dict(os.environ, VERIF_COVERAGE="1", LLVM_PROFILE_FILE=os.path.join(PROF, "%p-%m.profraw"))
    verdicts = {}
    try:
        for p in props:
            r = subprocess.run([os.path.join(V, "check"), p, "--tier", os.environ.get("COV_TIER", "quick")], cwd=V, env=env,
                               capture_output=True, text=True)
            last = [l for l in r.stdout.split("\n") if " tier=" in l]
            verdicts[p] = (r.returncode, last[-1] if last else r.stdout[-300:])
            print(p, r.returncode, last[-1] if last else "", flush=True)
    finally:
        shutil.rmtree(os.path.join(V, "evidence"))
        shutil.copytree(ev_backup, os.path.join(V, "evidence"))
    raws = glob.glob(os.path.join(PROF, "*.profraw"))
    merged = os.path.join(V, "build", "cov", "merged.profdata")
    lst = os.path.join(V, "build", "cov", "raws.txt")
    open(lst, "w").write("\n".join(raws))
    subprocess.run([f"{TOOLS}/llvm-profdata", "merge", "-sparse", "-f", lst, "-o", merged], check=True)
    bins = [b for b in glob.glob(os.path.join(V, "build", "cov-target*", "*", "harness")) if os.access(b, os.X_OK)]
    cmd = [f"{TOOLS}/llvm-cov", "export", "-format=lcov", f"-instr-profile={merged}", bins[0]]
    for b in bins[1:]:
        cmd += ["-object", b]
    cmd += ["/repo/cstree/src"]
    lcov = subprocess.run(cmd, capture_output=True, text=True).stdout
    files, cur = {}, None
    for l in lcov.split("\n"):
        if l.startswith("SF:"):
            cur = files.setdefault(l[3:], {})
        elif l.startswith("DA:") and cur is not None:
            ln, cnt = l[3:].split(",")[:2]
            cur[int(ln)] = cur.get(int(ln), 0) + int(cnt)
    report, unc_json = [], {}
    tot_e = tot_x = 0
    for f in sorted(files):
        if "/verif.rs" in f:
            continue
        da = files[f]
        src = open(f).read().split("\n")
        # enclosing function of each line; test modules are skipped
        fn_at, cur_fn, in_tests = {}, None, False
        for i, line in enumerate(src, 1):
            if re.match(r"\s*mod tests\b", line) or "#[cfg(test)]" in line:
                in_tests = True
            m = re.match(r"\s*(?:pub(?:\([a-z]+\))?\s+)?(?:const\s+)?(?:unsafe\s+)?fn\s+([A-Za-z0-9_]+)", line)
            if m:
                cur_fn = m.group(1)
                # qualify by the nearest preceding impl
                for j in range(i - 1, 0, -1):
                    mi = re.match(r"(?:unsafe\s+)?impl\b(.*?)\{?\s*$", src[j - 1])
                    if mi:
                        cur_fn = re.sub(r"\s+", " ", mi.group(1).strip())[:70] + " :: " + m.group(1)
                        break
            fn_at[i] = (cur_fn, in_tests)
        ex = [l for l in da if not fn_at.get(l, (None, False))[1]]
        hit = [l for l in ex if da[l] > 0]
        tot_e += len(hit)
        tot_x += len(ex)
        miss = {}
        for l in sorted(ex):
            if da[l] == 0:
                miss.setdefault(fn_at.get(l, ("?", False))[0], []).append(l)
        rel = f.replace("/repo/", "")
        report.append(f"### {rel}: {len(hit)}/{len(ex)} executable lines reached")
        unc_json[rel] = {}
        for fn, ls in miss.items():
            # a function of which nothing was executed vs. one with unexecuted branches
            fn_lines = [l for l in ex if fn_at.get(l, ("?",))[0] == fn]
            whole = len(ls) == len(fn_lines)
            report.append(f"- {'**never called**' if whole else 'partly'}: `{fn}` lines {compact(ls)}")
            unc_json[rel][fn] = {"never_called": whole, "lines": ls}
        report.append("")
    head = [f"# Lines of /repo/cstree/src executed by the correspondence runs ({os.environ.get('COV_TIER', 'quick')} tier of {', '.join(props)})", "",
            f"total: {tot_e}/{tot_x} executable lines ({100.0 * tot_e / max(1, tot_x):.1f} %), test modules and verif.rs excluded", "",
            "Written by tools/coverage.py; an instrument for finding generator gaps, not evidence.", ""]
    open(os.path.join(OUT, "REPORT.md"), "w").write("\n".join(head + report))
    json.dump({"total_hit": tot_e, "total_lines": tot_x, "files": unc_json, "verdicts": verdicts}, open(os.path.join(OUT, "uncovered.json"), "w"), indent=1)
    print(f"total {tot_e}/{tot_x}")


def compact(ls):
    out, s, p = [], None, None
    for l in ls:
        if s is None:
            s = p = l
        elif l == p + 1:
            p = l
        else:
            out.append(f"{s}-{p}" if p > s else str(s))
            s = p = l
    if s is not None:
        out.append(f"{s}-{p}" if p > s else str(s))
    return ", ".join(out)


main()
