#!/usr/bin/env python3
"""one-off generator: prints the unfolding lemmas of the evaluator of Model/Rs.lean (each is `rfl`), by cutting the
definition's own cases out of the source text.  Output: lean/CstModel/Proofs/RsEval.lean"""
import re, os
V = os.path.dirname(os.path.dirname(os.path.abspath(__file__)))
src = open(os.path.join(V, "lean/CstModel/Model/Rs.lean")).read().split("\n")
TAIL = r"""
theorem evalL_nil : evalL S (fuel + 1) ρ [] = .ok [] ρ := rfl
theorem evalL_cons (e : Expr) (es : List Expr) : evalL S (fuel + 1) ρ (e :: es) =
    (match eval S fuel ρ e with
    | .ok v ρ' => (match evalL S fuel ρ' es with
      | .ok vs ρ'' => .ok (v :: vs) ρ''
      | r => r)
    | .ret v ρ' => .ret v ρ'
    | .brk ρ' => .brk ρ'
    | .panic => .panic
    | .stuck => .stuck) := rfl
theorem evalArms_nil (v : Val) : evalArms S (fuel + 1) ρ v [] = .stuck := rfl
theorem evalArms_cons (v : Val) (p : Pat) (g : Option Expr) (body : Expr) (arms : List Arm) :
    evalArms S (fuel + 1) ρ v (.mk p g body :: arms) =
    (match matchPat p v ρ with
    | some ρ' => (match g with
      | none => eval S fuel ρ' body
      | some ge => (match eval S fuel ρ' ge with
        | .ok (.bool true) ρ'' => eval S fuel ρ'' body
        | .ok (.bool false) _ => evalArms S fuel ρ v arms
        | .ok _ _ => .stuck
        | r => r))
    | none => evalArms S fuel ρ v arms) := rfl
theorem evalStmts_nil (result : Expr) : evalStmts S (fuel + 1) ρ [] result = eval S fuel ρ result := rfl
theorem evalStmts_let (p : Pat) (e : Expr) (ss : List Stmt) (result : Expr) :
    evalStmts S (fuel + 1) ρ (.letS p e :: ss) result =
    (match eval S fuel ρ e with
      | .ok v ρ' => (match matchPat p v ρ' with
        | some ρ'' => evalStmts S fuel ρ'' ss result
        | none => .stuck)
      | r => r) := rfl
theorem evalStmts_assign (pl e : Expr) (ss : List Stmt) (result : Expr) :
    evalStmts S (fuel + 1) ρ (.assign pl e :: ss) result =
    (match eval S fuel ρ e with
      | .ok v ρ' => (match writePlace ρ' pl v with
        | some ρ'' => evalStmts S fuel ρ'' ss result
        | none => .stuck)
      | r => r) := rfl
theorem evalStmts_expr (e : Expr) (ss : List Stmt) (result : Expr) :
    evalStmts S (fuel + 1) ρ (.exprS e :: ss) result =
    (match eval S fuel ρ e with
      | .ok _ ρ' => evalStmts S fuel ρ' ss result
      | r => r) := rfl
theorem evalFor_zero (x i : Nat) (body : Expr) : evalFor S (fuel + 1) ρ x i 0 body = .ok .unit ρ := rfl
theorem evalFor_succ (x i k : Nat) (body : Expr) : evalFor S (fuel + 1) ρ x i (k + 1) body =
    (match eval S fuel (ρ.set x (.nat i)) body with
    | .ok _ ρ' => evalFor S fuel ρ' x (i + 1) k body
    | .brk ρ' => .ok .unit ρ'
    | r => r) := rfl
"""

def block(start_pat, end_pat):
    a = next(i for i, l in enumerate(src) if l.startswith(start_pat))
    b = next(i for i in range(a + 1, len(src)) if re.match(end_pat, src[i]))
    return src[a:b]
out = ["/- GENERATED once by tools/gen_rs_eqns.py from Model/Rs.lean: the evaluator's cases as rewriting lemmas (all `rfl`). -/",
       "import CstModel.Model.Rs", "namespace Cst", "namespace Rs", "variable (S : Sem) (fuel : Nat) (ρ : Env)", ""]
# eval: cases of the inner `match e with`, indented by 4
ev = block("def eval ", r"^def evalL")
i = next(k for k, l in enumerate(ev) if l.strip() == "match e with") + 1
cases, cur = [], None
for l in ev[i:]:
    if l.startswith("    | ."):
        if cur: cases.append(cur)
        cur = [l]
    elif cur is not None:
        cur.append(l)
if cur: cases.append(cur)
for c in cases:
    m = re.match(r"    \| (\.\w+)((?: \w+)*) =>(.*)", c[0])
    ctor, args, rest = m.group(1), m.group(2).split(), m.group(3)
    while c and c[-1].strip() == "": c.pop()
    body = "\n".join(([("      " + rest.strip())] if rest.strip() else []) + c[1:])
    binders = ""
    pat = f"({ctor}{''.join(' ' + a for a in args)})" if args else f"{ctor}"
    name = ctor[1:].rstrip("_")
    tys = {"var": "(x : Nat)", "nat": "(n : Nat)", "bool": "(b : Bool)", "strlit": "(k : Nat)", "closure": "(ps : List Pat) (cb : Expr)",
           "ctor": "(c : Nat) (args : List Expr)", "call": "(f : Nat) (args : List Expr)", "app": "(f : Expr) (args : List Expr)",
           "field": "(e : Expr) (f : Nat)", "meth": "(recv : Expr) (m : Nat) (args : List Expr)", "mtch": "(s : Expr) (arms : List Arm)",
           "ite": "(c t e : Expr)", "iflet": "(p : Pat) (s t e : Expr)", "bin": "(op : Nat) (a b : Expr)", "neg": "(a : Expr)",
           "block": "(ss : List Stmt) (result : Expr)", "ret": "(e : Expr)", "try": "(e : Expr)", "forRange": "(x : Nat) (lo hi body : Expr)",
           "loop": "(body : Expr)", "mac": "(m : Nat) (args : List Expr)"}
    if name == "closure":
        pat = "(.closure ps cb)"
    out.append(f"theorem eval_{name} {tys.get(name, '')} :\n    eval S (fuel + 1) ρ {pat} =\n{body} := rfl\n")
# evalMeth: the whole body
em = block("def evalMeth ", r"^end$")
k = next(i for i, l in enumerate(em) if "| fuel + 1, ρ, recv, rv, m, args =>" in l)
out.append("theorem evalMeth_succ (recv : Expr) (rv : Val) (m : Nat) (args : List Expr) :\n    evalMeth S (fuel + 1) ρ recv rv m args =\n" + "\n".join(em[k + 1:]) + " := rfl\n")
out.append(TAIL)
open(os.path.join(V, "lean/CstModel/Proofs/RsEval.lean"), "w").write("\n".join(out) + "\nend Rs\nend Cst\n")
