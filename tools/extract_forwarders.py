#!/usr/bin/env python3
"""tools/extract_forwarders.py: translate the wrapper layer of the red tree into a Lean table.

`syntax/element.rs` and `syntax/resolved.rs` consist almost entirely of forwarders: the element enums
(`SyntaxElement`, `SyntaxElementRef`, `ResolvedElement`, `ResolvedElementRef`) dispatch on node / token, the
resolved wrappers (`ResolvedNode`, `ResolvedToken`) re-type the answer of the method of the same name of the
wrapped handle.  The model has one function per operation and treats the wrappers as the identity; this
translator is what justifies that: every `pub fn` of those six types is parsed and its body is classified

  element enums:   per arm   fwd m        `it.m(<params, a subsequence in order>)`
                             someFwd m    `Some(it.m())`
                             someSelf     `Some(it)`
                             viaParent m  `it.parent().m()`
                             other <src>  anything else
  resolved types:            same         exactly one call `self.syntax.<own name>(<own params in order>)`, nothing else
                                          called on the wrapped handle
                             selfId       `self` / `Some(self)`
                             other <src>  anything else

and written to lean/CstModel/Generated/Forwarders.lean.  `Props/C03.lean` proves (by `decide`) that the table is
what the model assumes (`Model/Forward.lean`: `elemSpec`, `resolvedSame`).  Prints a JSON summary."""
import json, os, re, sys

V = os.path.dirname(os.path.dirname(os.path.abspath(__file__)))
REPO = os.environ.get("VERIF_REPO", "/repo")
OUT = os.path.join(V, "lean", "CstModel", "Generated", "Forwarders.lean")


def strip_comments(src):
    src = re.sub(r"/\*.*?\*/", " ", src, flags=re.S)
    out = []
    for line in src.split("\n"):
        # strings in these two files contain no `//`
        i = line.find("//")
        out.append(line if i < 0 else line[:i])
    return "\n".join(out)


def matching(src, i, open_c="{", close_c="}"):
    """index just past the bracket matching the one at src[i]"""
    depth = 0
    for j in range(i, len(src)):
        if src[j] == open_c:
            depth += 1
        elif src[j] == close_c:
            depth -= 1
            if depth == 0:
                return j + 1
    return len(src)


def impl_blocks(src, type_name):
    """bodies of the inherent `impl<..> Type<..> {` blocks (no `for`: trait impls are not forwarders of the API)"""
    out = []
    for m in re.finditer(r"(?m)^impl\s*(<[^{]*?>)?\s*" + re.escape(type_name) + r"\s*<[^{]*?>\s*(where[^{]*)?\{", src):
        head = src[m.start():m.end()]
        if re.search(r"\bfor\b", head):
            continue
        end = matching(src, m.end() - 1)
        out.append(src[m.end():end - 1])
    return out


def pub_fns(block):
    """(name, [param names], body) of every `pub fn` directly in an impl block (not pub(crate)/pub(super))"""
    out = []
    for m in re.finditer(r"\bpub\s+(?:unsafe\s+)?fn\s+([A-Za-z0-9_]+)\s*(<[^>(]*>)?\s*\(", block):
        name = m.group(1)
        pend = matching(block, m.end() - 1, "(", ")")
        params_src = block[m.end():pend - 1]
        params = []
        for p in split_top(params_src):
            p = p.strip()
            if not p or re.match(r"&?\s*(mut\s+)?self\b", p) or p == "self":
                continue
            pm = re.match(r"(?:mut\s+)?([A-Za-z0-9_]+)\s*:", p)
            params.append(pm.group(1) if pm else p)
        b = block.find("{", pend)
        semi = block.find(";", pend)
        if b < 0 or (0 <= semi < b):
            continue
        bend = matching(block, b)
        out.append((name, params, block[b + 1:bend - 1]))
    return out


def split_top(s):
    parts, depth, cur = [], 0, ""
    for ch in s:
        if ch in "(<[{":
            depth += 1
        elif ch in ")>]}":
            depth -= 1
        if ch == "," and depth == 0:
            parts.append(cur)
            cur = ""
        else:
            cur += ch
    if cur.strip():
        parts.append(cur)
    return parts


def squash(s):
    return re.sub(r"\s+", "", s)


def is_subseq(args, params):
    it = iter(params)
    return all(a in it for a in args)


def classify_arm(arm, params):
    a = squash(arm).rstrip(",")
    m = re.fullmatch(r"it\.([A-Za-z0-9_]+)\(([^()]*)\)", a)
    if m:
        args = [x for x in m.group(2).split(",") if x]
        if is_subseq(args, params):
            return ("fwd", m.group(1))
    m = re.fullmatch(r"Some\(it\.([A-Za-z0-9_]+)\(\)\)", a)
    if m:
        return ("someFwd", m.group(1))
    if a == "Some(it)":
        return ("someSelf", "")
    m = re.fullmatch(r"it\.parent\(\)\.([A-Za-z0-9_]+)\(\)", a)
    if m:
        return ("viaParent", m.group(1))
    return ("other", a[:120])


def classify_elem_fn(body, params):
    b = body.strip()
    m = re.fullmatch(r"match\s+self\s*\{(.*)\}", b, flags=re.S)
    if not m:
        return None
    inner = m.group(1)
    arms = {}
    for am in re.finditer(r"NodeOrToken::(Node|Token)\s*\(\s*([A-Za-z0-9_]+)\s*\)\s*=>", inner):
        arms[am.group(1)] = (am.start(), am.end(), am.group(2))
    if set(arms) != {"Node", "Token"}:
        return None
    order = sorted(arms.items(), key=lambda kv: kv[1][0])
    res = {}
    for i, (which, (st, en, var)) in enumerate(order):
        stop = order[i + 1][1][0] if i + 1 < len(order) else len(inner)
        arm = inner[en:stop]
        # the binder may be called anything: normalise it to `it`
        arm = re.sub(r"\b" + re.escape(var) + r"\b", "it", arm)
        arm = re.sub(r"\(\*it\)", "it", arm)
        res[which] = classify_arm(arm, params)
    return res["Node"], res["Token"]


def classify_resolved_fn(name, params, body):
    b = squash(body)
    if b in ("self", "Some(self)"):
        return ("selfId", "")
    calls = re.findall(r"self\.syntax\.([A-Za-z0-9_]+)\(([^()]*)\)", b)
    others = re.findall(r"self\.syntax\.([A-Za-z0-9_]+)", b)
    if len(calls) == 1 and len(others) == 1 and calls[0][0] == name:
        args = [x for x in calls[0][1].split(",") if x]
        if args == params:
            return ("same", "")
    return ("other", b[:120])


def lean_str(s):
    return '"' + s.replace("\\", "\\\\").replace('"', '\\"') + '"'


def lean_arm(a):
    kind, arg = a
    if kind == "someSelf":
        return ".someSelf"
    return f"(.{kind} {lean_str(arg)})"


def main():
    el = strip_comments(open(os.path.join(REPO, "cstree/src/syntax/element.rs")).read())
    rs = strip_comments(open(os.path.join(REPO, "cstree/src/syntax/resolved.rs")).read())
    elem_rows, res_rows, notes = [], [], []
    for ty, src in (("SyntaxElement", el), ("SyntaxElementRef", el), ("ResolvedElement", rs), ("ResolvedElementRef", rs)):
        blocks = impl_blocks(src, ty)
        if not blocks:
            notes.append(f"no inherent impl of {ty} found")
        for blk in blocks:
            for name, params, body in pub_fns(blk):
                c = classify_elem_fn(body, params)
                if c is None:
                    c = (("other", squash(body)[:120]), ("other", squash(body)[:120]))
                elem_rows.append((ty, name, c[0], c[1]))
    for ty in ("ResolvedNode", "ResolvedToken"):
        blocks = impl_blocks(rs, ty)
        if not blocks:
            notes.append(f"no inherent impl of {ty} found")
        for blk in blocks:
            for name, params, body in pub_fns(blk):
                res_rows.append((ty, name, classify_resolved_fn(name, params, body)))
    lines = ["/- generated by tools/extract_forwarders.py from cstree/src/syntax/{element,resolved}.rs — do not edit -/",
             "import CstModel.Model.Forward", "namespace Cst.Fwd.Generated", "",
             "def elemForwarders : List ElemFwd := ["]
    lines += [f"  ⟨{lean_str(t)}, {lean_str(n)}, {lean_arm(a)}, {lean_arm(b)}⟩," for (t, n, a, b) in elem_rows]
    if elem_rows:
        lines[-1] = lines[-1].rstrip(",")
    lines += ["]", "", "def resolvedForwarders : List ResFwd := ["]
    rl = []
    for (t, n, (k, arg)) in res_rows:
        r = ".same" if k == "same" else ".selfId" if k == "selfId" else f"(.other {lean_str(arg)})"
        rl.append(f"  ⟨{lean_str(t)}, {lean_str(n)}, {r}⟩,")
    if rl:
        rl[-1] = rl[-1].rstrip(",")
    lines += rl + ["]", "", "end Cst.Fwd.Generated", ""]
    text = "\n".join(lines)
    old = open(OUT).read() if os.path.exists(OUT) else None
    if old != text:
        with open(OUT, "w") as f:
            f.write(text)
    summary = {
        "element_forwarders": len(elem_rows), "resolved_forwarders": len(res_rows),
        "element_other": [f"{t}::{n}" for (t, n, a, b) in elem_rows if a[0] == "other" or b[0] == "other"],
        "resolved_other": [f"{t}::{n}" for (t, n, c) in res_rows if c[0] == "other"],
        "notes": notes, "changed": old != text,
    }
    json.dump(summary, sys.stdout, indent=1)
    print()


if __name__ == "__main__":
    main()
