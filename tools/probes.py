#!/usr/bin/env python3
"""rustc probes (C08 markers, C17 derive): generate one crate per batch against /repo's current
source, compile it once, map the JSON diagnostics back to probes by line, run the well-formed
binary; the Lean driver answers the same probe descriptors (correspondence) and the property
itself is the oracle."""
import json, os, random, re, shutil, subprocess, sys, time

import runner as R

PROBE_DIR = os.path.join(R.BUILD, "probes")
CARGO_TOML = """[package]
name = "probe"
version = "0.1.0"
edition = "2021"

[workspace]

[dependencies]
cstree = { path = "/repo/cstree", features = ["derive"] }
"""


def cargo_check(name, src, run=False, release=False):
    """write the crate, `cargo build` it with JSON diagnostics.  Returns (errors, stdout-of-run)"""
    d = os.path.join(PROBE_DIR, name)
    os.makedirs(os.path.join(d, "src"), exist_ok=True)
    with open(os.path.join(d, "Cargo.toml"), "w") as f:
        f.write(CARGO_TOML)
    if os.path.exists("/repo/Cargo.lock") and not os.path.exists(os.path.join(d, "Cargo.lock")):
        shutil.copy("/repo/Cargo.lock", os.path.join(d, "Cargo.lock"))
    with open(os.path.join(d, "src", "main.rs"), "w") as f:
        f.write(src)
    env = dict(R.ENV)
    env["CARGO_TARGET_DIR"] = os.path.join(R.BUILD, "target-probes")
    with R.Lock("cargo-probes"):
        cmd = ["cargo", "build", "--offline", "--message-format=json"] + (["--release"] if release else [])
        p = subprocess.run(cmd, cwd=d, env=env, stdout=subprocess.PIPE, stderr=subprocess.PIPE, text=True, timeout=1800)
        errors = []
        other = []
        for line in p.stdout.split("\n"):
            if not line.startswith("{"):
                continue
            try:
                m = json.loads(line)
            except Exception:
                continue
            if m.get("reason") != "compiler-message":
                continue
            msg = m["message"]
            if msg.get("level") != "error":
                continue
            tgt = m.get("target", {}).get("name")
            spans = [s for s in msg.get("spans", []) if s.get("file_name", "").endswith("src/main.rs")]
            if tgt != "probe":
                other.append(msg.get("message", ""))
                continue
            lines = sorted({s["line_start"] for s in spans})
            # expansion sites of macro errors
            for s in msg.get("spans", []):
                e = s.get("expansion")
                while e:
                    sp = e.get("span", {})
                    if sp.get("file_name", "").endswith("src/main.rs"):
                        lines.append(sp["line_start"])
                    e = sp.get("expansion")
            errors.append({"message": msg.get("message", ""), "lines": sorted(set(lines)), "code": (msg.get("code") or {}).get("code")})
        out = None
        if run and p.returncode == 0:
            exe = os.path.join(env["CARGO_TARGET_DIR"], "release" if release else "debug", "probe")
            q = subprocess.run([exe], stdout=subprocess.PIPE, stderr=subprocess.DEVNULL, text=True, timeout=600)
            out = q.stdout
    return {"rc": p.returncode, "errors": errors, "dep_errors": other, "stderr": p.stderr[-2000:], "run": out, "dir": d}


def drive(lines):
    p = subprocess.run([R.DRIVER], input="\n".join(lines) + "\n", stdout=subprocess.PIPE, stderr=subprocess.PIPE, text=True, timeout=600)
    out = p.stdout.split("\n")
    if out and out[-1] == "":
        out.pop()
    return out


# -------------------------------------------------------------------------------------------------
# C08 — thread-safety markers

PRELUDE08 = """#![allow(dead_code, unused)]
use cstree::prelude::*;
use cstree::syntax::{ResolvedNode, ResolvedToken, ResolvedElement, SyntaxElementRef, ResolvedElementRef, SyntaxToken};
use cstree::green::{GreenNode, GreenToken};
use cstree::interning::{Resolver, TokenKey};
use std::rc::Rc;
use std::cell::{Cell, RefCell};
use std::sync::{Arc, Mutex};

#[derive(Debug, Clone, Copy, PartialEq, Eq)]
#[repr(transparent)]
pub struct K(u32);
impl Syntax for K {
    fn from_raw(raw: cstree::RawSyntaxKind) -> Self { K(raw.0) }
    fn into_raw(self) -> cstree::RawSyntaxKind { cstree::RawSyntaxKind(self.0) }
    fn static_text(self) -> Option<&'static str> { None }
}
#[derive(Debug, Clone, Copy, PartialEq, Eq)]
pub struct KP(u32, std::marker::PhantomData<*const ()>);
impl Syntax for KP {
    fn from_raw(raw: cstree::RawSyntaxKind) -> Self { KP(raw.0, std::marker::PhantomData) }
    fn into_raw(self) -> cstree::RawSyntaxKind { cstree::RawSyntaxKind(self.0) }
    fn static_text(self) -> Option<&'static str> { None }
}
struct RawPtr(*const u8);
struct SendOnly(Cell<u8>);           // Send, not Sync
struct SyncOnly(std::sync::MutexGuard<'static, u8>);   // Sync, not Send
struct RcResolver(Rc<String>);
impl Resolver<TokenKey> for RcResolver { fn try_resolve(&self, _k: TokenKey) -> Option<&str> { Some(&self.0) } }
struct CellResolver(Cell<u8>, String);
impl Resolver<TokenKey> for CellResolver { fn try_resolve(&self, _k: TokenKey) -> Option<&str> { Some(&self.1) } }
struct GoodResolver(Arc<String>);
impl Resolver<TokenKey> for GoodResolver { fn try_resolve(&self, _k: TokenKey) -> Option<&str> { Some(&self.0) } }
fn send<T: Send>() {}
fn sync<T: Sync>() {}
fn any<T>() -> T { unimplemented!() }
fn green() -> GreenNode { let mut b: GreenNodeBuilder<K> = GreenNodeBuilder::new(); b.start_node(K(0)); b.finish_node(); b.finish().0 }
fn main() {}
"""

DATA_TYPES = [
    # (rust type, Send?, Sync?)
    ("()", True, True), ("String", True, True), ("Arc<Mutex<Vec<u8>>>", True, True), ("u64", True, True),
    ("Rc<()>", False, False), ("Cell<u8>", True, False), ("RefCell<String>", True, False), ("RawPtr", False, False),
    ("SendOnly", True, False), ("SyncOnly", False, True), ("Arc<Cell<u8>>", False, False), ("Rc<Mutex<u8>>", False, False),
]
HANDLES = ["SyntaxNode<K, {D}>", "SyntaxToken<K, {D}>", "SyntaxElement<K, {D}>", "ResolvedNode<K, {D}>",
           "ResolvedToken<K, {D}>", "ResolvedElement<K, {D}>", "SyntaxElementRef<'static, K, {D}>"]
RESOLVERS = [("GoodResolver(Arc::new(String::new()))", True, True), ("RcResolver(Rc::new(String::new()))", False, False),
             ("CellResolver(Cell::new(0), String::new())", True, False)]


def gen_c08(seed, tier):
    rng = random.Random(seed)
    probes = []  # dict(desc=protocol descriptor, code=rust item, expect=bool must compile)
    handles = HANDLES if tier == "thorough" else HANDLES[:4] + HANDLES[6:]
    datas = DATA_TYPES if tier == "thorough" else DATA_TYPES[:2] + DATA_TYPES[4:10]
    for h in handles:
        for (d, ds, dy) in datas:
            for marker in ("send", "sync"):
                ty = h.replace("{D}", d)
                probes.append(dict(desc=f"marker handle {marker} {int(ds)} {int(dy)} 1 1",
                                   code=f"{marker}::<{ty}>();", expect=ds and dy, what=f"{marker}::<{ty}>"))
    # generic: decided by the type checker for every instantiation at once
    for h in handles[:3] + (handles[3:4] if tier == "thorough" else []):
        ty = h.replace("{D}", "D")
        for marker in ("send", "sync"):
            probes.append(dict(desc=f"marker generic {marker} 0 0 1 1", code=None, generic=f"fn {{name}}<D: 'static>() {{ {marker}::<{ty}>(); }}",
                               expect=False, what=f"unconstrained D: {marker}::<{ty}>"))
            probes.append(dict(desc=f"marker generic {marker} 1 1 1 1", code=None, generic=f"fn {{name}}<D: Send + Sync + 'static>() {{ {marker}::<{ty}>(); }}",
                               expect=True, what=f"D: Send + Sync: {marker}::<{ty}>"))
            probes.append(dict(desc=f"marker generic {marker} 1 0 1 1", code=None, generic=f"fn {{name}}<D: Send + 'static>() {{ {marker}::<{ty}>(); }}",
                               expect=False, what=f"D: Send only: {marker}::<{ty}>"))
            probes.append(dict(desc=f"marker generic {marker} 0 1 1 1", code=None, generic=f"fn {{name}}<D: Sync + 'static>() {{ {marker}::<{ty}>(); }}",
                               expect=False, what=f"D: Sync only: {marker}::<{ty}>"))
    # resolvers: a tree can only be given a resolver that is thread-safe (through either constructor, for either marker)
    for (r, rs, ry) in RESOLVERS:
        for ctor in ("SyntaxNode", "ResolvedNode"):
            probes.append(dict(desc=f"marker resolver send 1 1 {int(rs)} {int(ry)}",
                               code=f"let t: ResolvedNode<K> = {ctor}::new_root_with_resolver(green(), {r}); fn s<T: Send>(_: T) {{}} s(t);",
                               expect=rs and ry, what=f"send a tree with resolver {r} attached by {ctor}::new_root_with_resolver"))
            probes.append(dict(desc=f"marker resolver sync 1 1 {int(rs)} {int(ry)}",
                               code=f"let t: ResolvedNode<K> = {ctor}::new_root_with_resolver(green(), {r}); fn s<T: Sync>(_: &T) {{}} s(&t);",
                               expect=rs and ry, what=f"share a tree with resolver {r} attached by {ctor}::new_root_with_resolver"))
    # the syntax kind type is never stored in a tree: it does not matter for the markers (generic and a kind type
    # without the auto traits)
    for h in handles[:3]:
        for marker in ("send", "sync"):
            ty = h.replace("K,", "S,").replace("{D}", "D")
            probes.append(dict(desc=f"marker kindfree {marker} 1 1 1 1", code=None,
                               generic=f"fn {{name}}<S: Syntax, D: Send + Sync + 'static>() {{ {marker}::<{ty}>(); }}",
                               expect=True, what=f"any S: Syntax, D: Send + Sync: {marker}::<{ty}>"))
            ty = h.replace("K,", "KP,").replace("{D}", "String")
            probes.append(dict(desc=f"marker kindfree {marker} 1 1 1 1", code=f"{marker}::<{ty}>();", expect=True,
                               what=f"kind type without auto traits: {marker}::<{ty}>"))
    # lazy text views pair a node with a caller-supplied resolver: they are as thread-safe as both
    for (r, rs, ry) in [("GoodResolver", True, True), ("RcResolver", False, False), ("CellResolver", True, False)]:
        for (d, ds, dy) in [("()", True, True), ("Rc<()>", False, False)]:
            for marker in ("send", "sync"):
                ty = f"cstree::text::SyntaxText<'static, 'static, {r}, K, {d}>"
                probes.append(dict(desc=f"marker text {marker} {int(ds)} {int(dy)} {int(rs)} {int(ry)}", code=f"{marker}::<{ty}>();",
                                   expect=ds and dy and ry, what=f"{marker}::<{ty}>"))
    for marker in ("send", "sync"):
        ty = "cstree::text::SyntaxText<'static, 'static, I, K, ()>"
        probes.append(dict(desc=f"marker textgeneric {marker} 1 1 0 0", code=None,
                           generic=f"fn {{name}}<I: Resolver<TokenKey> + 'static>() {{ {marker}::<{ty}>(); }}",
                           expect=False, what=f"unconstrained resolver: {marker}::<{ty}>"))
        probes.append(dict(desc=f"marker textgeneric {marker} 1 1 1 1", code=None,
                           generic=f"fn {{name}}<I: Resolver<TokenKey> + Send + Sync + 'static>() {{ {marker}::<{ty}>(); }}",
                           expect=True, what=f"thread-safe resolver: {marker}::<{ty}>"))
    # traversal iterators: opaque `impl Iterator` values whose auto traits are whatever the implementation captures
    walks = ["ancestors()", "children()", "children_with_tokens()", "siblings(cstree::traversal::Direction::Next)",
             "siblings_with_tokens(cstree::traversal::Direction::Prev)", "descendants()", "descendants_with_tokens()", "preorder()",
             "preorder_with_tokens()"]
    for node_ty in ("SyntaxNode", "ResolvedNode"):
        for w in walks:
            for (d, ds, dy) in [("String", True, True), ("Rc<()>", False, False)]:
                for marker, bound in (("send", "Send"), ("sync", "Sync")):
                    probes.append(dict(desc=f"marker iter {marker} {int(ds)} {int(dy)} 1 1",
                                       code=f"let n: &'static {node_ty}<K, {d}> = any(); fn s<T: {bound}>(_: &T) {{}} s(&n.{w});",
                                       expect=ds and dy, what=f"{bound} for the value of {node_ty}<K, {d}>::{w}"))
    for tok_ty in ("SyntaxToken", "ResolvedToken"):
        for w in ["ancestors()", "siblings_with_tokens(cstree::traversal::Direction::Next)"]:
            for (d, ds, dy) in [("String", True, True), ("Rc<()>", False, False)]:
                for marker, bound in (("send", "Send"), ("sync", "Sync")):
                    probes.append(dict(desc=f"marker iter {marker} {int(ds)} {int(dy)} 1 1",
                                       code=f"let n: &'static {tok_ty}<K, {d}> = any(); fn s<T: {bound}>(_: &T) {{}} s(&n.{w});",
                                       expect=ds and dy, what=f"{bound} for the value of {tok_ty}<K, {d}>::{w}"))
    # green elements are always sendable and shareable
    for ty in ["GreenNode", "GreenToken", "cstree::util::NodeOrToken<GreenNode, GreenToken>"]:
        for marker in ("send", "sync"):
            probes.append(dict(desc=f"marker green {marker} 1 1 1 1", code=f"{marker}::<{ty}>();", expect=True, what=f"{marker}::<{ty}>"))
    return probes


def run_c08(prop, seed, tier):
    probes = gen_c08(seed, tier)
    src = PRELUDE08
    base = src.count("\n") + 1
    ranges = []
    for i, p in enumerate(probes):
        start = src.count("\n") + 1
        if p.get("generic"):
            src += p["generic"].replace("{name}", f"probe_{i}") + "\n"
        else:
            src += f"fn probe_{i}() {{\n    {p['code']}\n}}\n"
        ranges.append((start, src.count("\n")))
    res = cargo_check("c08", src)
    return probes, ranges, res, src


def classify(ranges, res):
    """probe index -> list of error messages located in it; plus errors outside every probe"""
    per = {i: [] for i in range(len(ranges))}
    outside = []
    for e in res["errors"]:
        hit = False
        for ln in e["lines"]:
            for i, (a, b) in enumerate(ranges):
                if a <= ln <= b:
                    per[i].append(e["message"])
                    hit = True
        if not hit:
            outside.append(e["message"])
    return per, outside


def result_skeleton(gen, n):
    return {"gen": gen, "flavor": "rustc", "lines": n, "cases": n, "dist": {}, "disagreements": [], "oracle": [],
            "nontrivial": n, "distinct_nontrivial": 0, "samples": [], "disagreeing_lines": 0, "disagreeing_cases": 0, "error": None}


def probe_c08(prop, seed, tier):
    probes, ranges, res, src = run_c08(prop, seed, tier)
    out = result_skeleton("probe:c08", len(probes))
    if res["dep_errors"]:
        out["error"] = "cstree does not compile for the probes: " + "; ".join(res["dep_errors"][:3])
        return out
    per, outside = classify(ranges, res)
    if outside:
        out["error"] = "probe prelude does not compile: " + "; ".join(outside[:3])
        return out
    model = drive([p["desc"] for p in probes])
    distinct = set()
    dist = {"must_compile": 0, "must_not_compile": 0, "compiled": 0, "rejected": 0, "generic": 0}
    for i, p in enumerate(probes):
        compiles = not per[i]
        impl = "accept" if compiles else "reject"
        distinct.add((p["desc"], p["what"]))
        dist["must_compile" if p["expect"] else "must_not_compile"] += 1
        dist["compiled" if compiles else "rejected"] += 1
        if p.get("generic"):
            dist["generic"] += 1
        m = model[i] if i < len(model) else "<missing>"
        snippet = src.split("\n")[ranges[i][0] - 1:ranges[i][1]]
        if m != impl:
            out["disagreeing_lines"] += 1
            if len(out["disagreements"]) < 3:
                path = R.write_replay(prop, f"disagree-probe{i}", [p["desc"]] ,
                                      ["model/implementation disagreement (rustc probe)", f"probe: {p['what']}", f"rustc: {impl}, model: {m}"] + snippet + per[i][:2])
                out["disagreements"].append({"case": p["what"], "replay": path, "detail": [f"rustc={impl} model={m}"]})
        if compiles != p["expect"]:
            what = (f"thread-unsafe use compiles: {p['what']}" if compiles else f"documented thread-safe use is rejected: {p['what']}")
            path = R.write_replay(prop, f"oracle-probe{i}", [p["desc"]], ["rustc probe", what] + snippet + per[i][:2])
            out["oracle"].append({"case": i, "prop": prop, "what": what, "line": 0, "n": 1, "replay": path})
        if len(out["samples"]) < 3 and (p.get("generic") or not p["expect"]):
            out["samples"].append({"probe": p["what"], "must_compile": p["expect"], "rustc": impl, "model": m})
    out["distinct_nontrivial"] = len(distinct)
    out["dist"] = dist
    out["disagreeing_cases"] = out["disagreeing_lines"]
    return out


def run_probe(prop, gen, seed, tier):
    if gen == "probe:c08":
        return probe_c08(prop, seed, tier)
    if gen == "probe:c17":
        return probe_c17(prop, seed, tier)
    return {"error": f"unknown probe {gen}"}


# -------------------------------------------------------------------------------------------------
# C17 — derived syntax kinds

def hexs(s):
    return "-" if s == "" else s.encode().hex()


def rust_str(s):
    out = '"'
    for ch in s:
        if ch == '"':
            out += '\\"'
        elif ch == "\\":
            out += "\\\\"
        elif ch == "\n":
            out += "\\n"
        elif ord(ch) < 32:
            out += "\\u{%x}" % ord(ch)
        else:
            out += ch
    return out + '"'


TEXTS17 = ["+", "", "fn", "é→", "a\"b", "->", "\\", "let mut", "\n", "😀"]


DEFECTS17 = ["struct", "union", "norepr", "repr_u16", "repr_c", "repr_two", "repr_dup", "fields_named", "fields_tuple",
             "discr", "discr_const", "discr_shift", "discr_paren", "discr_sum", "attr_path", "attr_nv", "attr_bad", "attr_dup", "attr_dup_after",
             "attr_two_args", "attr_three_args", "combo"]


def gen_enum(rng, wellformed, nmax, defect=None):
    """-> dict(kind, reprs, variants=[(fields, discr, attrs)])  attrs: ('l', text) | ('p',) | ('n',) | ('b',)"""
    n = rng.randint(1, nmax)
    variants = []
    for _ in range(n):
        attrs = []
        if rng.random() < 0.4:
            attrs.append(("l", rng.choice(TEXTS17)))
        variants.append([0, None, attrs])
    d = dict(kind="enum", reprs=[["u32"]], variants=variants)
    if wellformed:
        return d
    if defect is None:
        defect = rng.choice(DEFECTS17)
    v = rng.randrange(n)
    if defect == "struct":
        d["kind"] = "struct"
    elif defect == "union":
        d["kind"] = "union"
    elif defect == "norepr":
        d["reprs"] = []
    elif defect == "repr_u16":
        d["reprs"] = [["u16"]]
    elif defect == "repr_c":
        d["reprs"] = [["C"]]
    elif defect == "repr_two":
        d["reprs"] = [["C", "u32"]]
    elif defect == "repr_dup":
        d["reprs"] = [["u32"], ["u32"]]
    elif defect == "fields_named":
        variants[v][0] = 1
    elif defect == "fields_tuple":
        variants[v][0] = 2
    elif defect == "discr":
        variants[v][1] = rng.choice([0, 5, 100])
    elif defect in ("discr_const", "discr_shift", "discr_paren", "discr_sum"):
        # an explicit discriminant that is not a literal
        variants[v][1] = 16
        d["discr_src"] = {v: {"discr_const": "K16", "discr_shift": "1 << 4", "discr_paren": "(16)", "discr_sum": "8 + 8"}[defect]}
    elif defect == "attr_dup_after":
        # a second annotation after a well-formed one (duplicate), and a malformed one after a well-formed one
        variants[v][2] = [("l", "a"), rng.choice([("l", "a"), ("p",), ("b",)])]
    elif defect == "attr_path":
        variants[v][2].append(("p",))
    elif defect == "attr_nv":
        variants[v][2].append(("n",))
    elif defect == "attr_bad":
        variants[v][2].append(("b",))
    elif defect in ("attr_two_args", "attr_three_args"):
        # several literals in one annotation: which one would be the static text?
        variants[v][2] = [("b", '"+", "-"' if defect == "attr_two_args" else '"let", "var", "const"')]
    elif defect == "attr_dup":
        variants[v][2] = [("l", "a"), ("l", "b")]
    else:
        variants[v][1] = 7
        variants[(v + 1) % n][2].append(("p",))
        d["reprs"] = [["u8"]]
    d["defect"] = defect
    return d


def enum_desc(d):
    reprs = "/".join("+".join(a) for a in d["reprs"]) if d["reprs"] else "-"
    vs = []
    for (f, disc, attrs) in d["variants"]:
        a = ",".join(("l" + hexs(x[1])) if x[0] == "l" else x[0] for x in attrs) or "-"   # ("b", args) is a malformed argument list like ("b",)
        vs.append(f"{f}/{'-' if disc is None else disc}:{a}")
    return f"enum {d['kind']} {reprs} {';'.join(vs)}"


def enum_rust(name, d):
    lines = ["#[derive(Debug, Clone, Copy, PartialEq, Eq, Syntax)]"]
    for r in d["reprs"]:
        lines.append(f"#[repr({', '.join(r)})]")
    if d["kind"] == "struct":
        lines.append(f"pub struct {name};")
        return lines
    if d["kind"] == "union":
        lines.append(f"pub union {name} {{ a: u32 }}")
        return lines
    lines.append(f"pub enum {name} {{")
    for i, (f, disc, attrs) in enumerate(d["variants"]):
        for a in attrs:
            if a[0] == "l":
                lines.append(f"    #[static_text({rust_str(a[1])})]")
            elif a[0] == "p":
                lines.append("    #[static_text]")
            elif a[0] == "n":
                lines.append('    #[static_text = "x"]')
            elif len(a) > 1:
                lines.append(f"    #[static_text({a[1]})]")
            else:
                lines.append("    #[static_text(5)]")
        v = f"    V{i}"
        if f == 1:
            v += " { x: u8 }"
        elif f == 2:
            v += "(u8)"
        if disc is not None:
            v += f" = {d.get('discr_src', {}).get(i, disc)}"
        lines.append(v + ",")
    lines.append("}")
    return lines


PRELUDE17 = """#![allow(dead_code, unused)]
use cstree::{Syntax, RawSyntaxKind};
const K16: u32 = 16;
"""


def build_crate17(name, defs, with_main):
    src = PRELUDE17
    ranges = []
    for i, d in enumerate(defs):
        start = src.count("\n") + 1
        src += "\n".join(enum_rust(f"E{i}", d)) + "\n"
        ranges.append((start, src.count("\n")))
    if with_main:
        src += "fn hexs(s: &str) -> String { if s.is_empty() { \"-\".into() } else { s.bytes().map(|b| format!(\"{:02x}\", b)).collect() } }\n"
        src += "fn main() {\n    std::panic::set_hook(Box::new(|_| {}));\n"
        for i, d in enumerate(defs):
            n = len(d["variants"])
            src += f"""    {{
        let n: u32 = {n};
        let mut ok = true;
        let mut texts: Vec<String> = vec![];
        for raw in 0..n + 3 {{
            let r = std::panic::catch_unwind(|| <E{i} as Syntax>::from_raw(RawSyntaxKind(raw)));
            if raw < n {{
                match r {{
                    Ok(v) => {{
                        if <E{i} as Syntax>::into_raw(v).0 != raw {{ ok = false; }}
                        texts.push(match <E{i} as Syntax>::static_text(v) {{ Some(t) => hexs(t), None => "none".into() }});
                    }}
                    Err(_) => ok = false,
                }}
            }} else if r.is_ok() {{ ok = false; }}
        }}
        println!("E{i} accept {{}} {{}} {{}}", n, ok, texts.join(","));
    }}
"""
        # second pass: raw values far outside the range (sign bit, byte / half-word wrap-arounds of valid values).  A conversion
        # that lets one of them through produces an invalid enum value: in a debug build rustc's own check then aborts the
        # process, so everything else has been printed before and every enum announces itself first.
        for i, d in enumerate(defs):
            n = len(d["variants"])
            src += f"""    {{
        let n: u32 = {n};
        println!("B{i} begin");
        let mut bad: Vec<u32> = vec![];
        for raw in [u32::MAX, 0x7FFF_FFFFu32, 0x8000_0000, 0x8000_0001, 0xFFFF_FFFE, (n - 1) | 0x8000_0000, (n - 1) + 256, (n - 1) + 65536, n + (1 << 24), n.wrapping_neg()] {{
            if raw >= n && std::panic::catch_unwind(|| <E{i} as Syntax>::from_raw(RawSyntaxKind(raw))).is_ok() {{ bad.push(raw); }}
        }}
        println!("B{i} done {{:?}}", bad);
    }}
"""
        src += "}\n"
    else:
        src += "fn main() {}\n"
    return src, ranges


def probe_c17(prop, seed, tier):
    rng = random.Random(seed * 7919 + 17)
    n_good = 60 if tier == "thorough" else 30
    n_bad = 90 if tier == "thorough" else 36
    nmax = 300 if tier == "thorough" else 24
    good = [gen_enum(rng, True, nmax if i % 10 == 0 else 8) for i in range(n_good)]
    # every kind of defect at least once, the rest at random
    bad = [gen_enum(rng, False, 6, defect=DEFECTS17[i] if i < len(DEFECTS17) else None) for i in range(n_bad)]
    # every rejection reason at least once
    controls = [gen_enum(rng, True, 4) for _ in range(4)]
    out = result_skeleton("probe:c17", len(good) + len(bad) + len(controls))
    model_good = drive([enum_desc(d) for d in good])
    model_bad = drive([enum_desc(d) for d in bad + controls])
    # --- well-formed crate: must compile, then the laws are checked at run time
    src, ranges = build_crate17("c17good", good, True)
    res = cargo_check("c17good", src, run=True)
    if res["dep_errors"]:
        out["error"] = "cstree does not compile for the probes: " + "; ".join(res["dep_errors"][:3])
        return out
    per, outside = classify(ranges, res)
    dist = {"wellformed": len(good), "illformed": len(bad), "controls": len(controls), "variants_total": sum(len(d["variants"]) for d in good),
            "max_variants": max(len(d["variants"]) for d in good), "defects": {}}
    failing = [i for i in range(len(good)) if per[i]]
    if failing or outside:
        for i in failing[:3]:
            what = f"accepted definition does not compile: {enum_desc(good[i])}: {per[i][0]}"
            path = R.write_replay(prop, f"oracle-good{i}", [enum_desc(good[i])], [what] + enum_rust(f"E{i}", good[i]))
            out["oracle"].append({"case": i, "prop": prop, "what": what, "line": 0, "n": 1, "replay": path})
        if outside and not failing:
            out["error"] = "well-formed probe crate does not compile: " + "; ".join(outside[:3])
            return out
        # rebuild without the failing ones to get the run-time table of the rest
        keep = [d for i, d in enumerate(good) if i not in failing]
        src2, _ = build_crate17("c17good", keep, True)
        res = cargo_check("c17good", src2, run=True)
        table_defs = keep
        table_model = [m for i, m in enumerate(model_good) if i not in failing]
    else:
        table_defs = good
        table_model = model_good
    table = {}
    for line in (res["run"] or "").split("\n"):
        if line.startswith("E"):
            k, rest = line.split(" ", 1)
            table[int(k[1:])] = rest.strip()
    # the far-out-of-range pass, in both profiles: the generated guard must not depend on debug assertions
    src_tab, _ = build_crate17("c17good", table_defs, True)
    res_rel = cargo_check("c17good", src_tab, run=True, release=True)
    dist["profiles"] = ["debug", "release" if res_rel.get("run") is not None else "release: did not build"]
    for profile, rr in (("debug", res), ("release", res_rel)):
        begun, done = set(), {}
        for line in (rr["run"] or "").split("\n"):
            if line.startswith("B"):
                k, rest = line.split(" ", 1)
                if rest.startswith("begin"):
                    begun.add(int(k[1:]))
                elif rest.startswith("done"):
                    done[int(k[1:])] = rest[5:].strip()
        for i, d in enumerate(table_defs):
            what = None
            if i in begun and i not in done:
                what = (f"[{profile} build] from_raw of a raw value far outside 0..{len(d['variants'])} neither panicked nor returned: the process was aborted "
                        f"(an invalid enum value was produced) ({enum_desc(d)})")
            elif i in done and done[i] != "[]":
                what = f"[{profile} build] from_raw accepts the out-of-range raw values {done[i]} ({enum_desc(d)})"
            elif i not in begun and begun and i == max(begun) + 1 and max(begun) in done:
                what = f"[{profile} build] the probe stopped before the out-of-range pass of {enum_desc(d)}"
            if what and len([o for o in out["oracle"] if "out-of-range" in o["what"] or "far outside" in o["what"]]) < 3:
                path = R.write_replay(prop, f"oracle-range{i}-{profile}", [enum_desc(d)], [what] + enum_rust(f"E{i}", d))
                out["oracle"].append({"case": i, "prop": prop, "what": what, "line": 0, "n": 1, "replay": path})
        if profile == "release" and rr.get("run") is not None:
            # the conversion table must not depend on the profile either
            table_rel = {}
            for line in (rr["run"] or "").split("\n"):
                if line.startswith("E"):
                    k, rest = line.split(" ", 1)
                    table_rel[int(k[1:])] = rest.strip()
            for i, d in enumerate(table_defs):
                if i in table and table_rel.get(i) != table[i] and len(out["oracle"]) < 6:
                    what = f"conversions of {enum_desc(d)} differ between the debug and the release build: {table[i]} vs {table_rel.get(i)}"
                    path = R.write_replay(prop, f"oracle-profile{i}", [enum_desc(d)], [what] + enum_rust(f"E{i}", d))
                    out["oracle"].append({"case": i, "prop": prop, "what": what, "line": 0, "n": 1, "replay": path})
    distinct = set()
    for i, d in enumerate(table_defs):
        impl = table.get(i, "<no output>")
        m = table_model[i] if i < len(table_model) else "<missing>"
        distinct.add(enum_desc(d))
        if impl.rstrip() != m.rstrip():
            out["disagreeing_lines"] += 1
            if len(out["disagreements"]) < 3:
                path = R.write_replay(prop, f"disagree-good{i}", [enum_desc(d)], ["model/implementation disagreement (derive probe)", f"impl: {impl}", f"model: {m}"] + enum_rust(f"E{i}", d))
                out["disagreements"].append({"case": enum_desc(d), "replay": path, "detail": [f"impl={impl} model={m}"]})
        parts = impl.split(" ")
        if len(parts) < 3 or parts[0] != "accept" or parts[2] != "true":
            what = f"conversion laws fail for an accepted enum ({enum_desc(d)}): {impl}"
            path = R.write_replay(prop, f"oracle-laws{i}", [enum_desc(d)], [what] + enum_rust(f"E{i}", d))
            out["oracle"].append({"case": i, "prop": prop, "what": what, "line": 0, "n": 1, "replay": path})
        else:
            # static texts are exactly the annotated ones
            want = ",".join(("none" if not [a for a in v[2] if a[0] == "l"] else hexs([a for a in v[2] if a[0] == "l"][0][1])) for v in d["variants"])
            got = parts[3] if len(parts) > 3 else ""
            if want != got:
                what = f"static texts of {enum_desc(d)} are {got}, annotated {want}"
                path = R.write_replay(prop, f"oracle-texts{i}", [enum_desc(d)], [what] + enum_rust(f"E{i}", d))
                out["oracle"].append({"case": i, "prop": prop, "what": what, "line": 0, "n": 1, "replay": path})
        if len(out["samples"]) < 2:
            out["samples"].append({"probe": enum_desc(d), "impl": impl, "model": m})
    # --- ill-formed crate: every definition must draw an error located in it, the controls none
    alldefs = bad + controls
    src, ranges = build_crate17("c17bad", alldefs, False)
    res = cargo_check("c17bad", src)
    per, outside = classify(ranges, res)
    for i, d in enumerate(alldefs):
        is_control = i >= len(bad)
        rejected = bool(per[i])
        impl = "reject" if rejected else "accept"
        m = model_bad[i].split(" ")[0] if i < len(model_bad) else "<missing>"
        distinct.add(enum_desc(d))
        if not is_control:
            dist["defects"][d["defect"]] = dist["defects"].get(d["defect"], 0) + 1
        if m != impl:
            out["disagreeing_lines"] += 1
            if len(out["disagreements"]) < 3:
                path = R.write_replay(prop, f"disagree-bad{i}", [enum_desc(d)], ["model/implementation disagreement (derive probe)", f"rustc: {impl}", f"model: {m}"] + enum_rust(f"E{i}", d) + per[i][:2])
                out["disagreements"].append({"case": enum_desc(d), "replay": path, "detail": [f"rustc={impl} model={m}"]})
        if not is_control and not rejected:
            what = f"ill-formed definition ({d['defect']}) is accepted: {enum_desc(d)}"
            path = R.write_replay(prop, f"oracle-bad{i}", [enum_desc(d)], [what] + enum_rust(f"E{i}", d))
            out["oracle"].append({"case": i, "prop": prop, "what": what, "line": 0, "n": 1, "replay": path})
        if is_control and rejected:
            what = f"well-formed control next to ill-formed definitions is rejected: {per[i][0]}"
            path = R.write_replay(prop, f"oracle-control{i}", [enum_desc(d)], [what] + enum_rust(f"E{i}", d))
            out["oracle"].append({"case": i, "prop": prop, "what": what, "line": 0, "n": 1, "replay": path})
        if len(out["samples"]) < 4 and not is_control:
            out["samples"].append({"probe": enum_desc(d), "defect": d["defect"], "rustc": impl, "model": m, "first_error": (per[i] or [""])[0][:100]})
    out["distinct_nontrivial"] = len(distinct)
    out["dist"] = dist
    out["disagreeing_cases"] = out["disagreeing_lines"]
    return out
