#!/usr/bin/env python3
"""rustc probes (C08 markers, C17 derive): generate one crate per batch against /repo's current
source, compile it once, map the JSON diagnostics back to probes by line, run the well-formed
binary; the Lean driver answers the same probe descriptors (correspondence) and the property
itself is the oracle."""
import json, os, random, re, shutil, subprocess, sys, time

import runner as R

PROBE_DIR = os.path.join(R.BUILD, "probes")
CARGO_TOML = """[package]
name = "probe"
version = "0.1.0"
edition = "2021"

[workspace]

[dependencies]
cstree = { path = "/repo/cstree", features = ["derive"] }
"""


def cargo_check(name, src, run=False):
    """write the crate, `cargo build` it with JSON diagnostics.  Returns (errors, stdout-of-run)"""
    d = os.path.join(PROBE_DIR, name)
    os.makedirs(os.path.join(d, "src"), exist_ok=True)
    with open(os.path.join(d, "Cargo.toml"), "w") as f:
        f.write(CARGO_TOML)
    if os.path.exists("/repo/Cargo.lock") and not os.path.exists(os.path.join(d, "Cargo.lock")):
        shutil.copy("/repo/Cargo.lock", os.path.join(d, "Cargo.lock"))
    with open(os.path.join(d, "src", "main.rs"), "w") as f:
        f.write(src)
    env = dict(R.ENV)
    env["CARGO_TARGET_DIR"] = os.path.join(R.BUILD, "target-probes")
    with R.Lock("cargo-probes"):
        cmd = ["cargo", "build", "--offline", "--message-format=json"]
        p = subprocess.run(cmd, cwd=d, env=env, stdout=subprocess.PIPE, stderr=subprocess.PIPE, text=True, timeout=1800)
        errors = []
        other = []
        for line in p.stdout.split("\n"):
            if not line.startswith("{"):
                continue
            try:
                m = json.loads(line)
            except Exception:
                continue
            if m.get("reason") != "compiler-message":
                continue
            msg = m["message"]
            if msg.get("level") != "error":
                continue
            tgt = m.get("target", {}).get("name")
            spans = [s for s in msg.get("spans", []) if s.get("file_name", "").endswith("src/main.rs")]
            if tgt != "probe":
                other.append(msg.get("message", ""))
                continue
            lines = sorted({s["line_start"] for s in spans})
            # expansion sites of macro errors
            for s in msg.get("spans", []):
                e = s.get("expansion")
                while e:
                    sp = e.get("span", {})
                    if sp.get("file_name", "").endswith("src/main.rs"):
                        lines.append(sp["line_start"])
                    e = sp.get("expansion")
            errors.append({"message": msg.get("message", ""), "lines": sorted(set(lines)), "code": (msg.get("code") or {}).get("code")})
        out = None
        if run and p.returncode == 0:
            exe = os.path.join(env["CARGO_TARGET_DIR"], "debug", "probe")
            q = subprocess.run([exe], stdout=subprocess.PIPE, stderr=subprocess.DEVNULL, text=True, timeout=600)
            out = q.stdout
    return {"rc": p.returncode, "errors": errors, "dep_errors": other, "stderr": p.stderr[-2000:], "run": out, "dir": d}


def drive(lines):
    p = subprocess.run([R.DRIVER], input="\n".join(lines) + "\n", stdout=subprocess.PIPE, stderr=subprocess.PIPE, text=True, timeout=600)
    out = p.stdout.split("\n")
    if out and out[-1] == "":
        out.pop()
    return out


# -------------------------------------------------------------------------------------------------
# C08 — thread-safety markers

PRELUDE08 = """#![allow(dead_code, unused)]
use cstree::prelude::*;
use cstree::syntax::{ResolvedNode, ResolvedToken, ResolvedElement, SyntaxElementRef, ResolvedElementRef};
use cstree::green::{GreenNode, GreenToken};
use cstree::interning::{Resolver, TokenKey};
use std::rc::Rc;
use std::cell::{Cell, RefCell};
use std::sync::{Arc, Mutex};

#[derive(Debug, Clone, Copy, PartialEq, Eq)]
#[repr(transparent)]
pub struct K(u32);
impl Syntax for K {
    fn from_raw(raw: cstree::RawSyntaxKind) -> Self { K(raw.0) }
    fn into_raw(self) -> cstree::RawSyntaxKind { cstree::RawSyntaxKind(self.0) }
    fn static_text(self) -> Option<&'static str> { None }
}
struct RawPtr(*const u8);
struct SendOnly(Cell<u8>);           // Send, not Sync
struct SyncOnly(std::sync::MutexGuard<'static, u8>);   // Sync, not Send
struct RcResolver(Rc<String>);
impl Resolver<TokenKey> for RcResolver { fn try_resolve(&self, _k: TokenKey) -> Option<&str> { Some(&self.0) } }
struct CellResolver(Cell<u8>, String);
impl Resolver<TokenKey> for CellResolver { fn try_resolve(&self, _k: TokenKey) -> Option<&str> { Some(&self.1) } }
struct GoodResolver(Arc<String>);
impl Resolver<TokenKey> for GoodResolver { fn try_resolve(&self, _k: TokenKey) -> Option<&str> { Some(&self.0) } }
fn send<T: Send>() {}
fn sync<T: Sync>() {}
fn green() -> GreenNode { let mut b: GreenNodeBuilder<K> = GreenNodeBuilder::new(); b.start_node(K(0)); b.finish_node(); b.finish().0 }
fn main() {}
"""

DATA_TYPES = [
    # (rust type, Send?, Sync?)
    ("()", True, True), ("String", True, True), ("Arc<Mutex<Vec<u8>>>", True, True), ("u64", True, True),
    ("Rc<()>", False, False), ("Cell<u8>", True, False), ("RefCell<String>", True, False), ("RawPtr", False, False),
    ("SendOnly", True, False), ("SyncOnly", False, True), ("Arc<Cell<u8>>", False, False), ("Rc<Mutex<u8>>", False, False),
]
HANDLES = ["SyntaxNode<K, {D}>", "SyntaxToken<K, {D}>", "SyntaxElement<K, {D}>", "ResolvedNode<K, {D}>",
           "ResolvedToken<K, {D}>", "ResolvedElement<K, {D}>", "SyntaxElementRef<'static, K, {D}>"]
RESOLVERS = [("GoodResolver(Arc::new(String::new()))", True, True), ("RcResolver(Rc::new(String::new()))", False, False),
             ("CellResolver(Cell::new(0), String::new())", True, False)]


def gen_c08(seed, tier):
    rng = random.Random(seed)
    probes = []  # dict(desc=protocol descriptor, code=rust item, expect=bool must compile)
    handles = HANDLES if tier == "thorough" else HANDLES[:4] + HANDLES[6:]
    datas = DATA_TYPES if tier == "thorough" else DATA_TYPES[:2] + DATA_TYPES[4:10]
    for h in handles:
        for (d, ds, dy) in datas:
            for marker in ("send", "sync"):
                ty = h.replace("{D}", d)
                probes.append(dict(desc=f"marker handle {marker} {int(ds)} {int(dy)} 1 1",
                                   code=f"{marker}::<{ty}>();", expect=ds and dy, what=f"{marker}::<{ty}>"))
    # generic: decided by the type checker for every instantiation at once
    for h in handles[:3] + (handles[3:4] if tier == "thorough" else []):
        ty = h.replace("{D}", "D")
        for marker in ("send", "sync"):
            probes.append(dict(desc=f"marker generic {marker} 0 0 1 1", code=None, generic=f"fn {{name}}<D: 'static>() {{ {marker}::<{ty}>(); }}",
                               expect=False, what=f"unconstrained D: {marker}::<{ty}>"))
            probes.append(dict(desc=f"marker generic {marker} 1 1 1 1", code=None, generic=f"fn {{name}}<D: Send + Sync + 'static>() {{ {marker}::<{ty}>(); }}",
                               expect=True, what=f"D: Send + Sync: {marker}::<{ty}>"))
            probes.append(dict(desc=f"marker generic {marker} 1 0 1 1", code=None, generic=f"fn {{name}}<D: Send + 'static>() {{ {marker}::<{ty}>(); }}",
                               expect=False, what=f"D: Send only: {marker}::<{ty}>"))
            probes.append(dict(desc=f"marker generic {marker} 0 1 1 1", code=None, generic=f"fn {{name}}<D: Sync + 'static>() {{ {marker}::<{ty}>(); }}",
                               expect=False, what=f"D: Sync only: {marker}::<{ty}>"))
    # resolvers: a tree can only be given a resolver that is thread-safe
    for (r, rs, ry) in RESOLVERS:
        probes.append(dict(desc=f"marker resolver send 1 1 {int(rs)} {int(ry)}",
                           code=f"let t: ResolvedNode<K> = SyntaxNode::new_root_with_resolver(green(), {r}); fn s<T: Send>(_: T) {{}} s(t);",
                           expect=rs and ry, what=f"send a tree with resolver {r}"))
        probes.append(dict(desc=f"marker resolver sync 1 1 {int(rs)} {int(ry)}",
                           code=f"let t: ResolvedNode<K> = ResolvedNode::new_root_with_resolver(green(), {r}); fn s<T: Sync>(_: &T) {{}} s(&t);",
                           expect=rs and ry, what=f"share a tree with resolver {r}"))
    # green elements are always sendable and shareable
    for ty in ["GreenNode", "GreenToken", "cstree::util::NodeOrToken<GreenNode, GreenToken>"]:
        for marker in ("send", "sync"):
            probes.append(dict(desc=f"marker green {marker} 1 1 1 1", code=f"{marker}::<{ty}>();", expect=True, what=f"{marker}::<{ty}>"))
    return probes


def run_c08(prop, seed, tier):
    probes = gen_c08(seed, tier)
    src = PRELUDE08
    base = src.count("\n") + 1
    ranges = []
    for i, p in enumerate(probes):
        start = src.count("\n") + 1
        if p.get("generic"):
            src += p["generic"].replace("{name}", f"probe_{i}") + "\n"
        else:
            src += f"fn probe_{i}() {{\n    {p['code']}\n}}\n"
        ranges.append((start, src.count("\n")))
    res = cargo_check("c08", src)
    return probes, ranges, res, src


def classify(ranges, res):
    """probe index -> list of error messages located in it; plus errors outside every probe"""
    per = {i: [] for i in range(len(ranges))}
    outside = []
    for e in res["errors"]:
        hit = False
        for ln in e["lines"]:
            for i, (a, b) in enumerate(ranges):
                if a <= ln <= b:
                    per[i].append(e["message"])
                    hit = True
        if not hit:
            outside.append(e["message"])
    return per, outside


def result_skeleton(gen, n):
    return {"gen": gen, "flavor": "rustc", "lines": n, "cases": n, "dist": {}, "disagreements": [], "oracle": [],
            "nontrivial": n, "distinct_nontrivial": 0, "samples": [], "disagreeing_lines": 0, "disagreeing_cases": 0, "error": None}


def probe_c08(prop, seed, tier):
    probes, ranges, res, src = run_c08(prop, seed, tier)
    out = result_skeleton("probe:c08", len(probes))
    if res["dep_errors"]:
        out["error"] = "cstree does not compile for the probes: " + "; ".join(res["dep_errors"][:3])
        return out
    per, outside = classify(ranges, res)
    if outside:
        out["error"] = "probe prelude does not compile: " + "; ".join(outside[:3])
        return out
    model = drive([p["desc"] for p in probes])
    distinct = set()
    dist = {"must_compile": 0, "must_not_compile": 0, "compiled": 0, "rejected": 0, "generic": 0}
    for i, p in enumerate(probes):
        compiles = not per[i]
        impl = "accept" if compiles else "reject"
        distinct.add((p["desc"], p["what"]))
        dist["must_compile" if p["expect"] else "must_not_compile"] += 1
        dist["compiled" if compiles else "rejected"] += 1
        if p.get("generic"):
            dist["generic"] += 1
        m = model[i] if i < len(model) else "<missing>"
        snippet = src.split("\n")[ranges[i][0] - 1:ranges[i][1]]
        if m != impl:
            out["disagreeing_lines"] += 1
            if len(out["disagreements"]) < 3:
                path = R.write_replay(prop, f"disagree-probe{i}", [p["desc"]] ,
                                      ["model/implementation disagreement (rustc probe)", f"probe: {p['what']}", f"rustc: {impl}, model: {m}"] + snippet + per[i][:2])
                out["disagreements"].append({"case": p["what"], "replay": path, "detail": [f"rustc={impl} model={m}"]})
        if compiles != p["expect"]:
            what = (f"thread-unsafe use compiles: {p['what']}" if compiles else f"documented thread-safe use is rejected: {p['what']}")
            path = R.write_replay(prop, f"oracle-probe{i}", [p["desc"]], ["rustc probe", what] + snippet + per[i][:2])
            out["oracle"].append({"case": i, "prop": prop, "what": what, "line": 0, "n": 1, "replay": path})
        if len(out["samples"]) < 3 and (p.get("generic") or not p["expect"]):
            out["samples"].append({"probe": p["what"], "must_compile": p["expect"], "rustc": impl, "model": m})
    out["distinct_nontrivial"] = len(distinct)
    out["dist"] = dist
    out["disagreeing_cases"] = out["disagreeing_lines"]
    return out


def run_probe(prop, gen, seed, tier):
    if gen == "probe:c08":
        return probe_c08(prop, seed, tier)
    if gen == "probe:c17":
        return probe_c17(prop, seed, tier)
    return {"error": f"unknown probe {gen}"}
