#!/usr/bin/env python3
"""tools/seeded.py <Cnn> [k...]: copy a mutation agent's output from /tmp/mut/out_<id> into seeded/<id>/,
apply each patch to /repo, run the property's quick check, record the result, undo the patch."""
import json, os, shutil, subprocess, sys
V = os.path.dirname(os.path.dirname(os.path.abspath(__file__)))
pid = sys.argv[1]
rnd = os.environ.get("SEEDED_ROUND", "1")
src = f"/tmp/mut/out_{pid}" if rnd == "1" else f"/tmp/mut/out{rnd}_{pid}"
dst = os.path.join(V, "seeded", pid) if rnd == "1" else os.path.join(V, "seeded", pid, "r" + rnd)
os.makedirs(dst, exist_ok=True)
if os.path.isdir(src):
    for fn in os.listdir(src):
        p = os.path.join(src, fn)
        if os.path.isdir(p):
            shutil.copytree(p, os.path.join(dst, fn), dirs_exist_ok=True)
        elif os.path.getsize(p) < 400000:
            shutil.copy(p, os.path.join(dst, fn))
patches = sorted(f for f in os.listdir(dst) if f.startswith("patch") and f.endswith(".diff"))
if len(sys.argv) > 2:
    patches = [f"patch{k}.diff" for k in sys.argv[2:]]
checks = os.environ.get("SEEDED_CHECKS", pid).split(",")
results = {}
rp = os.path.join(dst, "results.json")
if os.path.exists(rp):
    results = json.load(open(rp))
for pf in patches:
    st = subprocess.run(["git", "-C", "/repo", "status", "--porcelain"], capture_output=True, text=True).stdout.strip()
    if st:
        print("repo not clean:", st); sys.exit(2)
    r = subprocess.run(["git", "-C", "/repo", "apply", os.path.join(dst, pf)], capture_output=True, text=True)
    if r.returncode != 0:
        print(pf, "does not apply:", r.stderr[:300]); results[pf] = {"applies": False}; continue
    try:
        for c in checks:
            p = subprocess.run([os.path.join(V, "check"), c, "--tier", os.environ.get("SEEDED_TIER", "quick")], capture_output=True, text=True, cwd=V)
            lines = [l for l in p.stdout.split("\n") if l.startswith("VIOLATION") or " tier=" in l]
            detail = []
            for l in lines:
                if l.startswith("VIOLATION"):
                    path = l.split("replay=")[1].split()[0]
                    try:
                        detail.append(open(path).read()[-1500:])
                    except Exception:
                        pass
            results.setdefault(pf, {})[c] = {"rc": p.returncode, "lines": lines, "caught": p.returncode == 1 and any(l.startswith("VIOLATION") for l in lines),
                                              "with_failing_input": any(l.startswith("VIOLATION") and "no-failing-input-found" not in l for l in lines),
                                              "replay_tail": detail[:1]}
            print(pf, c, "rc=%d" % p.returncode, *lines, sep="\n  ")
    finally:
        subprocess.run(["git", "-C", "/repo", "checkout", "--", "."])
        subprocess.run(["git", "-C", "/repo", "clean", "-fdq"])
json.dump(results, open(rp, "w"), indent=1)
