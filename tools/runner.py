#!/usr/bin/env python3
"""Runner library: builds (lake, cargo), correspondence runs, oracle evaluation, shrinking,
verdicts (DESIGN §5), evidence files."""
import fcntl, hashlib, json, os, re, subprocess, sys, time

VERIF = os.path.dirname(os.path.dirname(os.path.abspath(__file__)))
LEAN = os.path.join(VERIF, "lean")
HARNESS = os.path.join(VERIF, "harness")
BUILD = os.path.join(VERIF, "build")
DRIVER = os.path.join(LEAN, ".lake", "build", "bin", "driver")
ALLOWED_AXIOMS = {"propext", "Classical.choice", "Quot.sound"}
FORBIDDEN = re.compile(r"\b(sorry|admit|native_decide|bv_decide|implemented_by|unsafe)\b|^\s*axiom\s|maxHeartbeats\s+0")

ENV = dict(os.environ)
ENV.update({"CARGO_NET_OFFLINE": "true", "GOPROXY": "off", "PIP_NO_INDEX": "1"})


def sh(cmd, cwd=None, timeout=3600, env=None, stdin=None):
    p = subprocess.run(cmd, cwd=cwd, env=env or ENV, stdout=subprocess.PIPE, stderr=subprocess.STDOUT,
                       timeout=timeout, stdin=stdin, text=True, errors="replace")
    return p.returncode, p.stdout


class Lock:
    def __init__(self, name):
        os.makedirs(BUILD, exist_ok=True)
        self.path = os.path.join(BUILD, name + ".lock")

    def __enter__(self):
        self.f = open(self.path, "w")
        fcntl.flock(self.f, fcntl.LOCK_EX)
        return self

    def __exit__(self, *a):
        fcntl.flock(self.f, fcntl.LOCK_UN)
        self.f.close()


# ------------------------------------------------------------------------------------------------
# (T) facts

FACTS_DYNAMIC = []
FORWARDERS = {}
TRANSCRIBED = {}


def extract_facts():
    """the translator; a fact whose source pattern no longer matches is, where that is possible, *observed* on instrumented
    executions of the current code instead (`harness facts`) -- the names of such facts are kept in FACTS_DYNAMIC"""
    script = os.path.join(VERIF, "tools", "extract_facts.py")
    with Lock("lake"):
        rc, out = sh([sys.executable, script])
        # second translator: the wrapper layer (element enums, resolved wrappers) as a table of forwarders
        rcf, outf = sh([sys.executable, os.path.join(VERIF, "tools", "extract_forwarders.py")])
        # third translator: function bodies transcribed into the deep embedding (Generated/RsFns.lean)
        rct, outt = sh([sys.executable, os.path.join(VERIF, "tools", "rs2lean.py")])
    TRANSCRIBED.clear()
    try:
        TRANSCRIBED.update(json.loads(outt) if rct == 0 else {"error": outt[-300:]})
    except Exception:
        TRANSCRIBED.update({"error": outt[-300:]})
    FORWARDERS.clear()
    try:
        FORWARDERS.update(json.loads(outf) if rcf == 0 else {"error": outf[-300:]})
    except Exception:
        FORWARDERS.update({"error": outf[-300:]})
    if rc != 0:
        return None, out
    j = json.loads(out)
    del FACTS_DYNAMIC[:]
    if j.get("wants_dynamic"):
        hb, errs, _ = cargo_build("release")
        if hb is not None:
            dyn = os.path.join(BUILD, "facts_observed.json")
            rc2, out2 = sh([hb, "facts", "--out", dyn], timeout=600)
            if rc2 == 0 and os.path.exists(dyn):
                with Lock("lake"):
                    rc3, out3 = sh([sys.executable, script, "--dynamic", dyn])
                if rc3 == 0:
                    j = json.loads(out3)
                    FACTS_DYNAMIC.extend(j.get("dynamic", []))
    return j["facts"], None


# ------------------------------------------------------------------------------------------------
# Lean side

def strip_lean_comments(src):
    # nested block comments
    out, depth, i = [], 0, 0
    while i < len(src):
        if src.startswith("/-", i):
            depth += 1
            i += 2
        elif src.startswith("-/", i) and depth > 0:
            depth -= 1
            i += 2
        elif depth > 0:
            i += 1
        elif src.startswith("--", i):
            j = src.find("\n", i)
            i = len(src) if j < 0 else j
        else:
            out.append(src[i])
            i += 1
    return "".join(out)


def forbidden_tokens():
    hits = []
    for root, _, files in os.walk(os.path.join(LEAN, "CstModel")):
        for fn in files:
            if fn.endswith(".lean"):
                p = os.path.join(root, fn)
                src = strip_lean_comments(open(p).read())
                for n, line in enumerate(src.split("\n"), 1):
                    if FORBIDDEN.search(line):
                        hits.append(f"{os.path.relpath(p, LEAN)}: {line.strip()[:120]}")
    return hits


def lean_check(prop, thorough=False, extra_modules=()):
    """build Props.<prop> + driver, audit axioms.  Returns dict."""
    res = {"ok": False, "build_ok": False, "theorems": [], "errors": [], "bad_axioms": [], "forbidden": []}
    with Lock("lake"):
        t0 = time.time()
        rc, out = sh(["lake", "build", f"CstModel.Props.{prop}", "driver"] + list(extra_modules), cwd=LEAN, timeout=3000)
        res["lake_s"] = round(time.time() - t0, 1)
        if rc != 0:
            errs = [l for l in out.split("\n") if "error" in l.lower()]
            res["errors"] = errs[:20] or out.split("\n")[-20:]
            # the driver is needed for the search even when a theorem file is broken
            rc2, out2 = sh(["lake", "build", "driver"], cwd=LEAN, timeout=3000)
            res["driver_ok"] = rc2 == 0
            return res
        res["build_ok"] = True
        res["driver_ok"] = True
        rc, out = sh(["lake", "env", "lean", f"CstModel/Audit/{prop}.lean"], cwd=LEAN, timeout=1200)
        if thorough:
            mods = [f"CstModel.Props.{prop}"] + list(extra_modules)
            rcc, outc = sh(["lake", "env", "leanchecker"] + mods, cwd=LEAN, timeout=3000)
            res["leanchecker"] = {"rc": rcc, "out": outc[-400:]}
            if rcc != 0:
                res["errors"].append("leanchecker failed: " + outc[-300:])
    if rc != 0:
        res["errors"] = out.split("\n")[-20:]
        return res
    # parse `#print axioms`
    text = out.replace("\n ", " ")
    for m in re.finditer(r"'([^']+)' depends on axioms: \[([^\]]*)\]", text):
        axs = [a.strip() for a in m.group(2).split(",") if a.strip()]
        res["theorems"].append({"name": m.group(1), "axioms": axs})
        bad = [a for a in axs if a not in ALLOWED_AXIOMS]
        if bad:
            res["bad_axioms"].append({"name": m.group(1), "axioms": bad})
    for m in re.finditer(r"'([^']+)' does not depend on any axioms", text):
        res["theorems"].append({"name": m.group(1), "axioms": []})
    res["forbidden"] = forbidden_tokens()
    res["ok"] = bool(res["theorems"]) and not res["bad_axioms"] and not res["forbidden"] and not res["errors"]
    return res


# ------------------------------------------------------------------------------------------------
# Rust side

FLAVORS = {
    "release": dict(target="target", args=["--release"], sub="release", debug=False, lasso=False),
    "debug": dict(target="target", args=[], sub="debug", debug=True, lasso=False),
    "lasso": dict(target="target-lasso", args=["--release", "--features", "lasso"], sub="release", debug=False, lasso=True),
    "lasso-debug": dict(target="target-lasso", args=["--features", "lasso"], sub="debug", debug=True, lasso=True),
}


COVERAGE = bool(os.environ.get("VERIF_COVERAGE"))


def cargo_build(flavor):
    fl = FLAVORS[flavor]
    tdir = os.path.join(BUILD, fl["target"])
    env = dict(ENV)
    if COVERAGE:
        # tools/coverage.py: same harness, instrumented (own target directory, nightly's llvm-tools read the profiles)
        tdir = os.path.join(BUILD, "cov-" + fl["target"])
        env["RUSTFLAGS"] = "--cfg cstree_verif -C instrument-coverage"
        env["RUSTUP_TOOLCHAIN"] = "nightly"
    env["CARGO_TARGET_DIR"] = tdir
    with Lock("cargo-" + fl["target"]):
        # the lock file of the repository pins the versions available offline
        lock_src = "/repo/Cargo.lock"
        lock_dst = os.path.join(HARNESS, "Cargo.lock")
        if not os.path.exists(lock_dst) and os.path.exists(lock_src):
            import shutil
            shutil.copy(lock_src, lock_dst)
        t0 = time.time()
        rc, out = sh(["cargo", "build", "--offline", "--bin", "harness"] + fl["args"], cwd=HARNESS, env=env, timeout=3000)
        dt = round(time.time() - t0, 1)
    if rc != 0:
        errs = [l for l in out.split("\n") if l.startswith("error")]
        return None, (errs[:10] or out.split("\n")[-15:]), dt
    return os.path.join(tdir, fl["sub"], "harness"), None, dt


# ------------------------------------------------------------------------------------------------
# correspondence run

SESSION_PREFIXES = ("syn ", "cfg ", "reset")


def split_cases(lines):
    """-> list of (start, end) line ranges for each case, and the list of session line indices"""
    cases, session = [], []
    cur = None
    for i, l in enumerate(lines):
        if l.startswith("case "):
            if cur is not None:
                cases.append((cur, i))
            cur = i
        elif l.startswith(SESSION_PREFIXES):
            session.append(i)
            # a `syn` line may also stand inside a case (a second dialect over the same cache); it does not end it
            if cur is not None and not l.startswith("syn "):
                cases.append((cur, i))
                cur = None
    if cur is not None:
        cases.append((cur, len(lines)))
    return cases, session


def case_of(cases, line):
    for (a, b) in cases:
        if a <= line < b:
            return (a, b)
    return None


def replay_lines(lines, session, rng):
    a, b = rng
    sess = [lines[i] for i in session if i < a]
    # drop everything before the last reset
    if "reset" in sess:
        k = len(sess) - 1 - sess[::-1].index("reset")
        # `reset` clears the syntax table and the objects, not the `cfg` settings
        sess = [l for l in sess[:k] if l.startswith("cfg ")] + sess[k:]
    return sess + lines[a:b]


def run_pair(harness_bin, ops_lines, workdir):
    os.makedirs(workdir, exist_ok=True)
    ops = os.path.join(workdir, "ops.txt")
    with open(ops, "w") as f:
        f.write("\n".join(ops_lines) + "\n")
    live = os.path.join(workdir, "oracle_live.txt")
    if os.path.exists(live):
        os.remove(live)
    rc, out = sh([harness_bin, "run", ops, "--out", workdir], timeout=3000)
    if rc != 0:
        # the process died (heap corruption by the code under test, stack overflow, abort): what its journal holds is what
        # the oracle had found until then, and the case it died in is a failure of its own
        oracle, last_case = [], None
        if os.path.exists(live):
            for l in open(live, errors="replace").read().split("\n"):
                parts = l.split("\t", 3)
                if len(parts) == 3 and parts[0] == "@case":
                    last_case = (int(parts[1]), int(parts[2]))
                elif len(parts) == 4 and parts[0].lstrip("-").isdigit() and parts[1].isdigit():
                    oracle.append((int(parts[0]), int(parts[1]), parts[2], parts[3]))
        if last_case is not None:
            msg = (out.strip().split("\n") or [""])[-1][:200]
            oracle.append((last_case[0], last_case[1] + 1, "ANY", f"the process died in this case (exit status {rc}): {msg}"))
            return dict(impl=[], model=[], oracle=oracle, dist={"dist": {"process_died": 1}, "nontrivial_cases": []}, crashed=True), None
        return None, f"harness run failed rc={rc}: {out[-500:]}"
    with open(ops) as fin:
        p = subprocess.run([DRIVER], stdin=fin, stdout=subprocess.PIPE, stderr=subprocess.PIPE, timeout=3000, text=True)
    if p.returncode != 0:
        return None, f"driver failed rc={p.returncode}: {p.stderr[-500:]}"
    model = p.stdout.split("\n")
    if model and model[-1] == "":
        model.pop()
    impl = open(os.path.join(workdir, "impl.txt")).read().split("\n")
    if impl and impl[-1] == "":
        impl.pop()
    oracle = []
    for l in open(os.path.join(workdir, "oracle.txt")).read().split("\n"):
        if l:
            parts = l.split("\t", 3)
            if len(parts) == 4 and parts[0].lstrip("-").isdigit() and parts[1].isdigit():
                oracle.append((int(parts[0]), int(parts[1]), parts[2], parts[3]))
            elif oracle:
                # continuation of a message that contained a line break
                c, ln, prop, what = oracle[-1]
                oracle[-1] = (c, ln, prop, what + " " + l.strip())
    dist = json.load(open(os.path.join(workdir, "dist.json")))
    return dict(impl=impl, model=model, oracle=oracle, dist=dist), None


def first_diffs(impl, model, limit=50):
    out = []
    n = max(len(impl), len(model))
    for i in range(n):
        a = impl[i] if i < len(impl) else "<missing>"
        b = model[i] if i < len(model) else "<missing>"
        if a != b:
            out.append(i)
            if len(out) >= limit:
                break
    return out


def shrink(harness_bin, case_lines, n_session, predicate, workdir, budget=150):
    """greedy one-line deletion over the non-session, non-`case` lines of a replay"""
    cur = list(case_lines)
    evals = 0
    changed = True
    while changed and evals < budget:
        changed = False
        i = len(cur) - 1
        while i > n_session and evals < budget:
            cand = cur[:i] + cur[i + 1:]
            evals += 1
            r, err = run_pair(harness_bin, cand, workdir)
            if r is not None and predicate(r):
                cur = cand
                changed = True
            i -= 1
    return cur


def clear_replays(prop):
    d = os.path.join(BUILD, "replays")
    if os.path.isdir(d):
        for fn in os.listdir(d):
            if fn.startswith(prop + "-"):
                os.remove(os.path.join(d, fn))


def write_replay(prop, name, lines, extra):
    d = os.path.join(BUILD, "replays")
    os.makedirs(d, exist_ok=True)
    p = os.path.join(d, f"{prop}-{name}.txt")
    with open(p, "w") as f:
        f.write("\n".join(lines) + "\n")
        for l in extra:
            f.write("# " + l + "\n")
    return p


def gen_and_run(prop, harness_bin, flavor, gen, seed, tier, header, tag):
    """returns result dict with keys: evaluations, cases, nontrivial, distinct_nontrivial,
    disagreements (list of dicts), oracle (list), dist, samples, error"""
    workdir = os.path.join(BUILD, "run", f"{prop}-{tag}")
    os.makedirs(workdir, exist_ok=True)
    gen_file = os.path.join(workdir, "gen.txt")
    rc, out = sh([harness_bin, "gen", gen, "--seed", str(seed), "--tier", tier, "--out", gen_file], timeout=3000)
    if rc != 0:
        return {"error": f"generator {gen} failed: {out[-400:]}"}
    lines = header + [l for l in open(gen_file).read().split("\n") if l]
    r, err = run_pair(harness_bin, lines, workdir)
    if err:
        return {"error": err}
    cases, session = split_cases(lines)
    res = {"gen": gen, "flavor": flavor, "lines": len(lines), "cases": len(cases), "dist": r["dist"]["dist"],
           "disagreements": [], "oracle": [], "error": None}
    # distinct non-trivial cases
    nontriv = set(r["dist"]["nontrivial_cases"])
    seen = set()
    samples = []
    for (a, b) in cases:
        m = re.match(r"case (\d+)", lines[a])
        num = int(m.group(1)) if m else -1
        if num in nontriv:
            h = hashlib.sha1("\n".join(lines[a + 1:b]).encode()).hexdigest()
            if h not in seen:
                seen.add(h)
                if len(samples) < 3 and b - a <= 40:
                    samples.append({"ops": lines[a:b], "impl": r["impl"][a:b]})
    res["nontrivial"] = len(nontriv)
    res["distinct_nontrivial"] = len(seen)
    res["samples"] = samples
    # disagreements: group by case, keep the first few
    diffs = first_diffs(r["impl"], r["model"], limit=2000)
    res["disagreeing_lines"] = len(diffs)
    seen_cases = []
    for i in diffs:
        c = case_of(cases, i)
        if c and c not in seen_cases:
            seen_cases.append(c)
    for c in seen_cases[:3]:
        rl = replay_lines(lines, session, c)
        n_sess = len(rl) - (c[1] - c[0])
        small = shrink(harness_bin, rl, n_sess, lambda rr: bool(first_diffs(rr["impl"], rr["model"], 1)),
                       os.path.join(workdir, "shrink"))
        rr, _ = run_pair(harness_bin, small, os.path.join(workdir, "shrink"))
        extra = []
        if rr:
            for j in first_diffs(rr["impl"], rr["model"], 5):
                extra.append(f"line {j}: `{small[j]}` impl=`{rr['impl'][j] if j < len(rr['impl']) else ''}` model=`{rr['model'][j] if j < len(rr['model']) else ''}`")
        path = write_replay(prop, f"disagree-{tag}-{lines[c[0]].replace(' ', '')}", small,
                            ["model/implementation disagreement (flavor %s)" % flavor] + extra)
        res["disagreements"].append({"case": lines[c[0]], "replay": path, "detail": extra})
    res["disagreeing_cases"] = len(seen_cases)
    # oracle failures
    by_case = {}
    for (cnum, ln, p, what) in r["oracle"]:
        by_case.setdefault((cnum, p), []).append((ln, what))
    for (cnum, p), items in by_case.items():
        res["oracle"].append({"case": cnum, "prop": p, "what": items[0][1], "line": items[0][0], "n": len(items)})
    res["_lines"] = lines
    res["_cases"] = cases
    res["_session"] = session
    res["_harness"] = harness_bin
    res["_workdir"] = workdir
    return res


def conc_run(prop, harness_bin, flavor, gen, seed, tier, tag):
    """concurrency suites: the harness executes programs under its deterministic scheduler and writes
    the monitor protocol (ops.txt), the expected answers (impl.txt: every event must be accepted by
    the model), oracle failures and the distribution itself; the model monitor replays the events"""
    what = gen.split(":", 1)[1]
    workdir = os.path.join(BUILD, "run", f"{prop}-{tag}")
    os.makedirs(workdir, exist_ok=True)
    rc, out = sh([harness_bin, "conc", what, "--seed", str(seed), "--tier", tier, "--out", workdir], timeout=6000)
    fatal = os.path.join(workdir, "fatal.json")
    if rc == 4 and os.path.exists(fatal):
        # the instrumentation saw a double free / use after free coming and stopped the process before it happened
        fj = json.load(open(fatal))
        path = write_replay(prop, f"oracle-{tag}-fatal", [],
                            ["implementation-side oracle failure (flavor %s): %s" % (flavor, fj["what"]),
                             "execution: " + fj["execution"], "schedule (thread granted at each step): " + fj["schedule"],
                             "last events:"] + fj["trace_tail"])
        return {"gen": gen, "flavor": flavor, "lines": 0, "cases": 1, "dist": {"aborted_on_heap_violation": 1}, "disagreements": [],
                "oracle": [{"case": 0, "prop": fj["prop"], "what": fj["what"], "line": 0, "n": 1, "replay": path}],
                "error": None, "nontrivial": 1, "distinct_nontrivial": 1, "samples": [], "disagreeing_lines": 0, "disagreeing_cases": 0,
                "_lines": [], "_cases": [], "_session": [], "_harness": harness_bin, "_workdir": workdir}
    if rc != 0:
        return {"error": f"conc {what} failed rc={rc}: {out[-600:]}"}
    ops = os.path.join(workdir, "ops.txt")
    with open(ops) as fin:
        p = subprocess.run([DRIVER], stdin=fin, stdout=subprocess.PIPE, stderr=subprocess.PIPE, timeout=3000, text=True)
    if p.returncode != 0:
        return {"error": f"driver failed rc={p.returncode}: {p.stderr[-500:]}"}
    rd = lambda f: [l for l in open(os.path.join(workdir, f)).read().split("\n")]
    lines, impl, model = rd("ops.txt"), rd("impl.txt"), p.stdout.split("\n")
    for l in (lines, impl, model):
        if l and l[-1] == "":
            l.pop()
    dist = json.load(open(os.path.join(workdir, "dist.json")))
    cases, session = split_cases(lines)
    res = {"gen": gen, "flavor": flavor, "lines": len(lines), "cases": len(cases), "dist": dist["dist"],
           "disagreements": [], "oracle": [], "error": None}
    nontriv = set(dist["nontrivial_cases"])
    seen, samples = set(), []
    for (a, b) in cases:
        num = int(lines[a].split()[1])
        if num in nontriv:
            h = hashlib.sha1("\n".join(lines[a + 2:b]).encode()).hexdigest()
            if h not in seen:
                seen.add(h)
                if len(samples) < 2 and b - a <= 60:
                    samples.append({"ops": lines[a:b]})
    res["nontrivial"], res["distinct_nontrivial"], res["samples"] = len(nontriv), len(seen), samples
    diffs = first_diffs(impl, model, limit=2000)
    res["disagreeing_lines"] = len(diffs)
    seen_cases = []
    for i in diffs:
        c = case_of(cases, i)
        if c and c not in seen_cases:
            seen_cases.append(c)

    def describe(c):
        try:
            return bytes.fromhex(lines[c[0] + 1].split()[1]).decode()
        except Exception:
            return ""
    for c in seen_cases[:3]:
        extra = ["the model of the slot / counter protocol does not accept this execution of the implementation (flavor %s)" % flavor,
                 "execution: " + describe(c)]
        for j in [i for i in diffs if c[0] <= i < c[1]][:5]:
            extra.append(f"line {j - c[0]}: `{lines[j]}` model=`{model[j] if j < len(model) else ''}`")
        path = write_replay(prop, f"disagree-{tag}-{lines[c[0]].replace(' ', '')}", lines[c[0]:c[1]], extra)
        res["disagreements"].append({"case": lines[c[0]], "replay": path, "detail": extra})
    res["disagreeing_cases"] = len(seen_cases)
    by_case = {}
    for l in open(os.path.join(workdir, "oracle.txt")).read().split("\n"):
        if l:
            parts = l.split("\t", 3)
            if len(parts) != 4 or not parts[0].isdigit() or not parts[1].isdigit():
                continue
            cnum, ln, pr, w = parts
            by_case.setdefault((int(cnum), pr), []).append((int(ln), w))
    written = {}
    for (cnum, pr), items in by_case.items():
        c = case_of(cases, items[0][0] - 1) or case_of(cases, items[0][0])
        path = None
        if c and written.get(pr, 0) < 2:
            written[pr] = written.get(pr, 0) + 1
            path = write_replay(prop, f"oracle-{tag}-case{cnum}", lines[c[0]:c[1]],
                                ["implementation-side oracle failure (flavor %s)" % flavor, "execution: " + describe(c)]
                                + [f"{pr}: {w}" for (_, w) in items[:5]])
        res["oracle"].append({"case": cnum, "prop": pr, "what": items[0][1], "line": items[0][0], "n": len(items), "replay": path})
    res["_lines"], res["_cases"], res["_session"], res["_harness"], res["_workdir"] = lines, cases, session, harness_bin, workdir
    return res


MIRI_PROGRAMS = ["clone_clone", "drop_unjoined", "race_create", "inner_handles", "data_slots", "data_churn", "cold_calls", "resolved", "green_share", "green_tokens"]


def miri_run(prop, seed, tier, tag):
    """C07's search for a failing execution: free-running multi-threaded programs over the *unhooked* crate under
    Miri's happens-before race detector (weak-memory emulation, several schedules per program)."""
    n = 32 if tier == "thorough" else 4
    lo = (seed % 1000) * n
    env = dict(os.environ, CARGO_TARGET_DIR=os.path.join(BUILD, "target-miri"), CARGO_NET_OFFLINE="true",
               MIRIFLAGS=f"-Zmiri-many-seeds={lo}..{lo + n}")
    mdir = os.path.join(VERIF, "miri")
    t0 = time.time()
    rc, out = sh(["cargo", "+nightly", "miri", "run", "--offline", "--", "all"], cwd=mdir, env=env, timeout=3000)
    ran = len(re.findall(r"^ran (\w+)", out, flags=re.M))
    res = {"gen": "miri:all", "flavor": "miri", "lines": ran, "cases": len(MIRI_PROGRAMS) * n,
           "dist": {"programs": len(MIRI_PROGRAMS), "seeds_per_program": n, "first_seed": lo, "program_runs_completed": ran,
                    "wall_s": round(time.time() - t0, 1)},
           "disagreements": [], "oracle": [], "error": None, "nontrivial": len(MIRI_PROGRAMS) * n,
           "distinct_nontrivial": len(MIRI_PROGRAMS) * n, "samples": [{"programs": MIRI_PROGRAMS, "seeds": [lo, lo + n]}],
           "disagreeing_lines": 0, "disagreeing_cases": 0, "_lines": [], "_cases": [], "_session": [], "_harness": None, "_workdir": mdir}
    if rc == 0:
        return res
    if "Undefined Behavior" not in out and "error: unsupported operation" not in out and "FAILING SEED" not in out:
        return {"error": f"miri run failed rc={rc}: {out[-800:]}"}
    # attribute: run the programs one by one
    k = 0
    for prog in MIRI_PROGRAMS:
        rc1, out1 = sh(["cargo", "+nightly", "miri", "run", "--offline", "--", prog], cwd=mdir, env=env, timeout=3000)
        if rc1 == 0:
            continue
        m = re.search(r"error: (Undefined Behavior: [^\n]*|[^\n]*)", out1)
        what = m.group(1) if m else "miri reported an error"
        seeds = re.findall(r"FAILING SEED: (\d+)", out1)
        i = out1.find("error: ")
        block = out1[i:i + 2500].split("\n") if i >= 0 else out1[-2500:].split("\n")
        path = write_replay(prop, f"oracle-{tag}-{prog}", [],
                            [f"Miri (happens-before race detector, language memory model) on the un-hooked crate: program `{prog}` of /verif/miri/src/main.rs",
                             f"failing seeds: {' '.join(seeds[:8])}   (cd /verif/miri && MIRIFLAGS=-Zmiri-seed={seeds[0] if seeds else lo} cargo +nightly miri run --offline -- {prog})"]
                            + block[:40])
        res["oracle"].append({"case": k, "prop": prop, "what": f"{prog}: {what}", "line": 0, "n": len(seeds) or 1, "replay": path})
        k += 1
    if not res["oracle"]:
        return {"error": f"miri run failed rc={rc} but no single program reproduces it: {out[-600:]}"}
    return res


def leakcheck(prop, res, tag):
    """allocation-level oracle: after a warm-up, re-running the whole session must not change the
    number of live heap bytes.  Returns None when clean, else a dict with a (bisected) replay."""
    hb, workdir = res["_harness"], res["_workdir"]
    lines, cases, session = res["_lines"], res["_cases"], res["_session"]

    def leaks(ls):
        f = os.path.join(workdir, "leak.txt")
        with open(f, "w") as fh:
            fh.write("\n".join(ls) + "\n")
        rc, out = sh([hb, "leakcheck", f], timeout=3000)
        try:
            return json.loads(out.strip().split("\n")[-1])["net_bytes"]
        except Exception:
            return -1 if rc != 0 else 0
    n = leaks(lines)
    if n == 0:
        return None
    lo, hi = 0, len(cases)
    while hi - lo > 1:
        mid = (lo + hi) // 2
        sub = [lines[i] for i in session if i < cases[lo][0]] + lines[cases[lo][0]:cases[mid - 1][1]]
        if leaks(sub) != 0:
            hi = mid
        else:
            lo = mid
    rl = replay_lines(lines, session, cases[lo])
    path = write_replay(prop, f"leak-{tag}-{lines[cases[lo][0]].replace(' ', '')}", rl,
                        [f"allocation oracle: {n} net bytes per run of the session (flavor {res['flavor']}); "
                         f"this case leaks {leaks(rl)} bytes per run"])
    return {"net_bytes": n, "replay": path}


def oracle_replay(prop, res, failure, tag):
    """cut + shrink the case of an oracle failure, return replay path"""
    lines, cases, session = res["_lines"], res["_cases"], res["_session"]
    c = case_of(cases, failure["line"])
    if c is None:
        return None
    rl = replay_lines(lines, session, c)
    n_sess = len(rl) - (c[1] - c[0])
    want = failure["prop"]
    small = shrink(res["_harness"], rl, n_sess, lambda rr: any(o[2] == want for o in rr["oracle"]),
                   os.path.join(res["_workdir"], "shrink"))
    rr, _ = run_pair(res["_harness"], small, os.path.join(res["_workdir"], "shrink"))
    extra = ["implementation-side oracle failure (flavor %s)" % res["flavor"]]
    if rr:
        extra += [f"{o[2]}: {o[3]}" for o in rr["oracle"][:5]]
    return write_replay(prop, f"oracle-{tag}-{lines[c[0]].replace(' ', '')}", small, extra)


# ------------------------------------------------------------------------------------------------
# known findings

def load_known():
    p = os.path.join(VERIF, "known_findings.json")
    if not os.path.exists(p):
        return []
    return json.load(open(p))["findings"]


def match_known(known, prop, what):
    for k in known:
        if k.get("status") == "open" and k["property"] == prop and re.search(k["match"], what):
            return k
    return None


# ------------------------------------------------------------------------------------------------
# evidence

def write_evidence(prop, ev):
    d = os.path.join(VERIF, "evidence")
    os.makedirs(d, exist_ok=True)
    with open(os.path.join(d, f"{prop}.json"), "w") as f:
        json.dump(ev, f, indent=1, sort_keys=True)
        f.write("\n")
