#!/usr/bin/env python3
"""tools/benign.py <group> [k...]: copy a refactoring agent's behaviour-preserving changes from /tmp/mut/outB_<group> into
benign/<group>/, apply each to /repo, run EVERY property's quick check, record the verdicts (anything but rc=0 is a false
alarm of the machinery), undo the patch."""
import json, os, shutil, subprocess, sys
V = os.path.dirname(os.path.dirname(os.path.abspath(__file__)))
g = sys.argv[1]
src = f"/tmp/mut/outB_{g}"
dst = os.path.join(V, "benign", g)
os.makedirs(dst, exist_ok=True)
if os.path.isdir(src):
    for fn in os.listdir(src):
        p = os.path.join(src, fn)
        if os.path.isfile(p) and os.path.getsize(p) < 400000:
            shutil.copy(p, os.path.join(dst, fn))
patches = sorted(f for f in os.listdir(dst) if f.startswith("benign") and f.endswith(".diff"))
if len(sys.argv) > 2:
    patches = [f"benign{k}.diff" for k in sys.argv[2:]]
props = os.environ.get("BENIGN_CHECKS")
props = props.split(",") if props else ["C%02d" % i for i in range(1, 21)]
rp = os.path.join(dst, "results.json")
results = json.load(open(rp)) if os.path.exists(rp) else {}
for pf in patches:
    st = subprocess.run(["git", "-C", "/repo", "status", "--porcelain"], capture_output=True, text=True).stdout.strip()
    if st:
        print("repo not clean:", st); sys.exit(2)
    r = subprocess.run(["git", "-C", "/repo", "apply", os.path.join(dst, pf)], capture_output=True, text=True)
    if r.returncode != 0:
        print(pf, "does not apply:", r.stderr[:300]); results[pf] = {"applies": False}; continue
    alarms = []
    try:
        for c in props:
            p = subprocess.run([os.path.join(V, "check"), c], capture_output=True, text=True, cwd=V)
            lines = [l for l in p.stdout.split("\n") if l.startswith("VIOLATION") or " tier=" in l]
            detail = []
            for l in lines:
                if l.startswith("VIOLATION"):
                    path = l.split("replay=")[1].split()[0]
                    try:
                        detail.append(open(path).read()[-1200:])
                    except Exception:
                        pass
            results.setdefault(pf, {})[c] = {"rc": p.returncode, "lines": lines, "replay_tail": detail[:1]}
            if p.returncode != 0:
                alarms.append(c)
                print(pf, c, "rc=%d" % p.returncode, *lines, sep="\n  ")
                for d in detail[:1]:
                    print("    | " + d[-600:].replace("\n", "\n    | "))
        print(pf, "alarms:", alarms or "none")
    finally:
        subprocess.run(["git", "-C", "/repo", "checkout", "--", "."])
        subprocess.run(["git", "-C", "/repo", "clean", "-fdq"])
    json.dump(results, open(rp, "w"), indent=1)
