#!/usr/bin/env python3
"""Write seeded/SUMMARY.md from seeded/<id>/meta.json and results.json."""
import json, os
V = os.path.dirname(os.path.dirname(os.path.abspath(__file__)))
S = os.path.join(V, "seeded")
rows = []
dirs = []
for pid in sorted(os.listdir(S)):
    d = os.path.join(S, pid)
    if os.path.isdir(d):
        dirs.append((pid, d))
        for sub in sorted(os.listdir(d)):
            if sub.startswith("r") and sub[1:].isdigit() and os.path.isdir(os.path.join(d, sub)):
                dirs.append((pid + "/" + sub, os.path.join(d, sub)))
for pid, d in dirs:
    meta = []
    try:
        meta = json.load(open(os.path.join(d, "meta.json")))
        if isinstance(meta, dict):
            meta = meta.get("changes") or meta.get("mutations") or [meta]
    except Exception:
        pass
    res = {}
    try:
        res = json.load(open(os.path.join(d, "results.json")))
    except Exception:
        pass
    bym = {}
    for m in meta:
        if isinstance(m, dict) and m.get("patch"):
            bym[os.path.basename(m["patch"]).replace(".diff", "")] = m
    for pf in sorted(res):
        key = pf.replace(".diff", "").replace("_ported", "")
        m = bym.get(key, {})
        summary = (m.get("summary") or "").replace("|", "/").replace("\n", " ")
        for chk, r in sorted(res[pf].items()) if isinstance(res[pf], dict) else []:
            if not isinstance(r, dict):
                continue
            verdict = "not caught"
            if r.get("caught"):
                verdict = "caught, replay = failing input" if r.get("with_failing_input") else "caught (theorem / correspondence broken, no-failing-input-found)"
            line = next((l for l in r.get("lines", []) if " tier=" in l), "")
            rows.append((pid, pf, chk, summary[:260], verdict, line.split(": ", 1)[-1] if line else ""))
with open(os.path.join(S, "SUMMARY.md"), "w") as f:
    f.write("# Seeded changes and what the checks said\n\n")
    f.write("Produced by fresh sub-agents from the property text alone (see DESIGN.md §0.8); verdicts written by `tools/seeded.py` "
            "(patch applied to /repo, quick check run, patch reverted).  `*_ported` = the agent's patch re-applied by hand after a later "
            "`fix:` commit changed the surrounding lines (original kept as `orig_*.txt`).\n\n")
    f.write("| property | patch | check | change | verdict | run summary |\n|---|---|---|---|---|---|\n")
    for r in rows:
        f.write("| " + " | ".join(r) + " |\n")
    n = len(rows)
    c = sum(1 for r in rows if r[4].startswith("caught"))
    ci = sum(1 for r in rows if "failing input" in r[4] and not r[4].startswith("caught (")) 
    notes = os.path.join(S, "NOTES.md")
    if os.path.exists(notes):
        f.write("\n" + open(notes).read() + "\n")
    f.write(f"\n{n} (patch, check) pairs: {c} caught, {ci} of them with a concrete failing input as the replay.\n")
print(open(os.path.join(S, "SUMMARY.md")).read()[-1500:])
