#!/usr/bin/env python3
"""(T) translator: regenerate lean/CstModel/Generated/SourceFacts.lean from /repo's current source.

Extraction is by tolerant patterns on the item that contains the fact (comments stripped,
brace-matched bodies), never by line number.  A fact whose pattern no longer matches is emitted as
an `unknown` marker value so that the instantiation theorems that depend on it stop type-checking.
"""
import json, os, re, sys

REPO = os.environ.get("VERIF_REPO", "/repo")
OUT = os.path.join(os.path.dirname(os.path.abspath(__file__)), "..", "lean", "CstModel", "Generated", "SourceFacts.lean")


def read(rel):
    with open(os.path.join(REPO, rel)) as f:
        return f.read()


def strip_comments(src):
    # remove // line comments and /* */ block comments, keep string literals intact (good enough:
    # the anchored files have no comment markers inside string literals on the lines we look at)
    src = re.sub(r"/\*.*?\*/", "", src, flags=re.S)
    out = []
    for line in src.split("\n"):
        i = 0
        in_str = False
        res = []
        while i < len(line):
            c = line[i]
            if c == '"' and (i == 0 or line[i - 1] != "\\"):
                in_str = not in_str
            if not in_str and line.startswith("//", i):
                break
            res.append(c)
            i += 1
        out.append("".join(res))
    return "\n".join(out)


def body_of(src, header_re):
    """text of the brace-matched block that follows the first match of header_re"""
    m = re.search(header_re, src)
    if not m:
        return None
    i = src.find("{", m.end() - 1 if src[m.end() - 1] == "{" else m.end())
    if i < 0:
        return None
    depth = 0
    for j in range(i, len(src)):
        if src[j] == "{":
            depth += 1
        elif src[j] == "}":
            depth -= 1
            if depth == 0:
                return src[i : j + 1]
    return None


def rust_int(tok):
    tok = tok.strip().replace("_", "")
    tok = re.sub(r"(usize|u32|u64|i32)$", "", tok)
    if tok == "u32::MAX" or tok == "u32::MAXas" or tok.startswith("u32::MAX"):
        return 2**32 - 1
    try:
        return int(tok, 0)
    except ValueError:
        return None


def extract():
    facts = {}
    notes = {}

    # ---- green/builder.rs -------------------------------------------------------------------
    b = strip_comments(read("cstree/src/green/builder.rs"))
    m = re.search(r"const\s+CHILDREN_CACHE_THRESHOLD\s*:\s*usize\s*=\s*([0-9_]+)\s*;", b)
    facts["childrenCacheThreshold"] = int(m.group(1).replace("_", "")) if m else None
    # which comparison guards the cached path (`children.len() <= T` then the cache, or the mirrored / negated early exit
    # `children.len() > T` / `T < children.len()` then the plain node); anything else is left to the dynamic observation
    lenx = r"(?:children\s*\.\s*len\s*\(\s*\)|\w+)"
    m = re.search(r"if\s+children\.len\(\)\s*(<=|<)\s*CHILDREN_CACHE_THRESHOLD", b)
    m_neg = re.search(r"if\s+" + lenx + r"\s*(>=|>)\s*CHILDREN_CACHE_THRESHOLD\s*\{\s*(?:let[^;]*;\s*)*return\b", b) or \
        re.search(r"if\s+CHILDREN_CACHE_THRESHOLD\s*(<=|<)\s*" + lenx + r"\s*\{\s*(?:let[^;]*;\s*)*return\b", b)
    if m:
        if m.group(1) == "<" and facts["childrenCacheThreshold"] is not None:
            facts["childrenCacheThreshold"] -= 1
    elif m_neg:
        # uncached iff len > T (or len >= T): cached iff len <= T (len <= T - 1)
        if m_neg.group(1) in (">=", "<=") and facts["childrenCacheThreshold"] is not None:
            facts["childrenCacheThreshold"] -= 1
    else:
        facts["childrenCacheThreshold"] = None
    # does a node-cache hit compare the children?  (behaviour; validated by correspondence under
    # forced collisions — this flag only selects which model variant the driver runs)
    g = body_of(b, r"fn\s+get_cached_node\s*[<(]")
    cmp_children = False
    if g is not None:
        # any equality test that mentions the candidate children inside the lookup, or inside a helper the lookup hands the
        # children to
        eqpat = r"(==|\.eq\(|\.all\(|\.zip\()"
        bodies = [g]
        for h in set(re.findall(r"\b([a-z_][a-z0-9_]*)\s*\([^;{}]*children[^;{}]*\)", g)):
            hb = body_of(b, r"fn\s+" + re.escape(h) + r"\s*[<(]")
            if hb is not None and hb is not g:
                bodies.append(hb)
        for bd in bodies:
            if re.search(r"children[^;]*" + eqpat, bd) or re.search(eqpat + r"[^;]*children", bd):
                cmp_children = True
    facts["nodeCacheComparesChildren"] = cmp_children

    # ---- interning ---------------------------------------------------------------------------
    i = strip_comments(read("cstree/src/interning.rs"))
    tf = body_of(i, r"fn\s+try_from_u32\s*\(")
    guard = up = down = None
    if tf:
        m = re.search(r"key\s*<\s*([A-Za-z0-9_:]+)", tf)
        if m:
            guard = rust_int(m.group(1))
        m = re.search(r"key\s*\+\s*([0-9_]+)", tf)
        if m:
            up = rust_int(m.group(1))
    iu = body_of(i, r"fn\s+into_u32\s*\(")
    if iu:
        m = re.search(r"\.get\(\)\s*-\s*([0-9_]+)", iu)
        if m:
            down = rust_int(m.group(1))
    facts["keyGuard"], facts["keyShiftUp"], facts["keyShiftDown"] = guard, up, down
    d = strip_comments(read("cstree/src/interning/default_interner.rs"))
    m = re.search(r"const\s+N_INDICES\s*:\s*usize\s*=\s*([^;]+);", d)
    n_idx = None
    if m:
        e = m.group(1).replace(" ", "")
        if e in ("u32::MAXasusize",):
            n_idx = 2**32 - 1
        else:
            n_idx = rust_int(e)
    facts["nIndices"] = n_idx
    m = re.search(r"id_set\.len\(\)\s*(>=|>)\s*N_INDICES", d)
    m_rev = re.search(r"N_INDICES\s*(<=|<)\s*(?:self\s*\.\s*)?id_set\.len\(\)", d)
    if m and m.group(1) == ">" and n_idx is not None:
        facts["nIndices"] = n_idx + 1
    elif m_rev and m_rev.group(1) == "<" and n_idx is not None:
        facts["nIndices"] = n_idx + 1
    if not m and not m_rev:
        facts["nIndices"] = None
    # ---- syntax/token.rs: debug abbreviation window ---------------------------------------------
    t = strip_comments(read("cstree/src/syntax/token.rs"))
    wd = body_of(t, r"fn\s+write_debug\s*<")
    thr = lo = hi = None
    if wd:
        m = re.search(r"text\.len\(\)\s*<\s*([0-9_]+)", wd) or re.search(r"([0-9_]+)\s*>\s*text\.len\(\)", wd)
        if m:
            thr = rust_int(m.group(1))
        else:
            m = re.search(r"text\.len\(\)\s*>=\s*([0-9_]+)", wd) or re.search(r"([0-9_]+)\s*<=\s*text\.len\(\)", wd)
            if m:
                thr = rust_int(m.group(1))
        # the window of candidate cut positions: the one literal integer range of the function (a `for` loop or an
        # iterator adaptor over it)
        rs = re.findall(r"(?<![\w\]\.])\(?\s*([0-9_]+)\s*\.\.(=?)\s*([0-9_]+)\s*\)?", wd)
        if len(rs) == 1:
            lo, hi = rust_int(rs[0][0]), rust_int(rs[0][2]) + (1 if rs[0][1] else 0)
    facts["debugAbbrevThreshold"], facts["debugWindowLo"], facts["debugWindowHi"] = thr, lo, hi

    # ---- thread-safety markers ---------------------------------------------------------------
    n = strip_comments(read("cstree/src/syntax/node.rs"))

    def impl_bounds(src, marker, ty):
        """bounds on the data parameter `D` of `unsafe impl<..> marker for ty<S, D>` (header + where)"""
        m = re.search(r"unsafe\s+impl\s*<([^>]*(?:<[^>]*>[^>]*)*)>\s*" + marker + r"\s+for\s+" + ty + r"\s*<[^>]*>\s*(where[^{]*)?\{", src)
        if not m:
            return None
        text = m.group(1) + " " + (m.group(2) or "")
        # collect everything said about D
        dparts = re.findall(r"\bD\s*:\s*([^,]*)", text)
        said = " + ".join(dparts)
        return (bool(re.search(r"\bSend\b", said)), bool(re.search(r"\bSync\b", said)))

    def impl_s_bounds(src, marker, ty):
        """does the impl say anything about the kind type `S` besides `Syntax`?"""
        m = re.search(r"unsafe\s+impl\s*<([^>]*(?:<[^>]*>[^>]*)*)>\s*" + marker + r"\s+for\s+" + ty + r"\s*<[^>]*>\s*(where[^{]*)?\{", src)
        if not m:
            return None
        text = m.group(1) + " " + (m.group(2) or "")
        sparts = re.findall(r"\bS\s*:\s*([^,]*)", text)
        said = " + ".join(sparts)
        return bool(re.search(r"\b(Send|Sync)\b", said))

    constrain_s = []
    for marker in ("Send", "Sync"):
        b = impl_bounds(n, marker, "SyntaxNode")
        facts[f"node{marker}NeedsDSend"] = None if b is None else b[0]
        facts[f"node{marker}NeedsDSync"] = None if b is None else b[1]
        constrain_s.append(impl_s_bounds(n, marker, "SyntaxNode"))
    # the kind type is never stored: the markers must not depend on it
    facts["nodeMarkersConstrainS"] = None if None in constrain_s else any(constrain_s)
    # every other unsafe impl of Send/Sync in the syntax module would bypass these bounds
    extra = 0
    for rel in ("cstree/src/syntax/token.rs", "cstree/src/syntax/resolved.rs", "cstree/src/syntax/element.rs",
                "cstree/src/syntax/iter.rs", "cstree/src/syntax/text.rs"):
        extra += len(re.findall(r"unsafe\s+impl[^{;]*\b(Send|Sync)\b\s+for", strip_comments(read(rel))))
    facts["otherUnsafeMarkerImpls"] = extra

    def ctor_bounds(src):
        m = re.search(r"fn\s+new_root_with_resolver\s*(<[^>]*>)?\s*\(([^)]*)\)[^{]*\{", src)
        if not m:
            return None
        sig = (m.group(1) or "") + m.group(2) + src[m.start():m.end()]
        return (bool(re.search(r"\bSend\b", sig)), bool(re.search(r"\bSync\b", sig)))

    cb1 = ctor_bounds(n)
    cb2 = ctor_bounds(strip_comments(read("cstree/src/syntax/resolved.rs")))
    facts["ctorNeedsRSend"] = None if (cb1 is None or cb2 is None) else (cb1[0] and cb2[0])
    facts["ctorNeedsRSync"] = None if (cb1 is None or cb2 is None) else (cb1[1] and cb2[1])
    # green elements: unconditional impls for GreenToken, PackedGreenElement conditional on the two green types
    gt = strip_comments(read("cstree/src/green/token.rs"))
    facts["greenTokenMarkersUnconditional"] = bool(re.search(r"unsafe\s+impl\s+Send\s+for\s+GreenToken\s*\{\s*\}", gt)) and bool(
        re.search(r"unsafe\s+impl\s+Sync\s+for\s+GreenToken\s*\{\s*\}", gt))
    # ---- reference-count protocol (syntax/node.rs) ---------------------------------------------
    ORD = {"Relaxed": 0, "Release": 1, "Acquire": 2, "AcqRel": 3, "SeqCst": 4}

    def rmw(body, op):
        """(amount, ordering code) of the only `ref_count.fetch_<op>(amount, Ordering::X)` in body"""
        if body is None:
            return (None, None)
        ms = re.findall(r"ref_count\s*\.\s*fetch_" + op + r"\s*\(\s*([0-9_]+)\s*,\s*(?:std::sync::atomic::)?Ordering::(\w+)\s*\)", body)
        if len(ms) != 1:
            return (None, None)
        return (rust_int(ms[0][0]), ORD.get(ms[0][1]))

    clone_body = body_of(n, r"impl\s*<[^>]*>\s*Clone\s+for\s+SyntaxNode\s*<[^>]*>\s*")
    drop_body = body_of(n, r"impl\s*<[^>]*>\s*Drop\s+for\s+SyntaxNode\s*<[^>]*>\s*")
    tw = body_of(n, r"fn\s+try_write\s*\(")
    node_branch = tok_branch = None
    if tw:
        mnode = re.search(r"SyntaxElement::Node\s*\(\s*\w+\s*\)\s*=>", tw)
        mtok = re.search(r"SyntaxElement::Token\s*\(\s*\w+\s*\)\s*=>", tw)
        if mnode and mtok:
            node_branch = body_of(tw[mnode.end():], r"\{")
            tok_branch = body_of(tw[mtok.end():], r"\{")
    ca, co = rmw(clone_body, "add")
    da, do = rmw(drop_body, "sub")
    na, no = rmw(node_branch, "add")
    ta, to = rmw(tok_branch, "add")
    facts["cloneAmount"], facts["cloneOrdering"] = ca, co
    facts["dropAmount"], facts["dropOrdering"] = da, do
    facts["loserNodeComp"], facts["loserNodeOrdering"] = na, no
    facts["loserTokenComp"], facts["loserTokenOrdering"] = ta, to
    # the drop path tears down exactly when the decrement saw 1
    m = re.search(r"let\s+(\w+)\s*=\s*ref_count\s*\.\s*fetch_sub[^;]*;\s*(?:#\[cfg\(cstree_verif\)\][^;]*;\s*)*if\s+(?:(\w+)\s*==\s*([0-9_]+)|([0-9_]+)\s*==\s*(\w+))\s*\{", drop_body or "")
    if m:
        var, lit = (m.group(2), m.group(3)) if m.group(2) else (m.group(5), m.group(4))
        facts["teardownWhenPrev"] = rust_int(lit) if var == m.group(1) else None
    else:
        facts["teardownWhenPrev"] = None
    # every access to the counter is a read-modify-write (loads/stores would break the release sequence argument);
    # loads inside cfg(cstree_verif) hooks are not part of the protocol
    no_hooks = re.sub(r"#\[cfg\(cstree_verif\)\]\s*(?:\{[^{}]*\}|[^;]*;)", "", n)
    no_hooks = re.sub(r"#\[cfg\(cstree_verif\)\]\s*impl[^{]*\{(?:[^{}]|\{[^{}]*\})*\}", "", no_hooks)
    facts["allRefCountOpsAreRmw"] = not re.search(r"ref_count\s*\.\s*(load|store)\s*\(", no_hooks) and not re.search(r"\}\s*\.\s*(load|store)\s*\(", no_hooks)

    # ---- per-node data slot: which lock mode each operation takes, and that it takes it once --------
    def data_locks(fn):
        b = body_of(no_hooks, r"pub\s+fn\s+" + fn + r"\s*\(")
        if b is None:
            return None
        return re.findall(r"\.\s*data\s*\.\s*(try_write|try_read|upgradable_read|write|read)\s*\(", b)
    modes = {}
    for (fn, key) in (("set_data", "dataSetW"), ("try_set_data", "dataTrySetW"), ("get_data", "dataGetW"), ("clear_data", "dataClearW")):
        ls = data_locks(fn)
        modes[fn] = ls
        facts[key] = None if not ls else (ls == ["write"])
    facts["dataOneSectionPerOp"] = None if any(not ls for ls in modes.values()) else all(len(ls) == 1 and ls[0] in ("write", "read") for ls in modes.values())
    # the slot is only reachable through its lock (the lock owns the value)
    facts["dataSlotInsideLock"] = bool(re.search(r"data\s*:\s*RwLock\s*<\s*Option\s*<\s*Arc\s*<\s*D\s*>\s*>\s*>", no_hooks))
    # ---- child slots: a candidate is installed only into an empty slot ----------------------------
    twn = body_of(no_hooks, r"fn\s+try_write\s*\(")
    def test(which):
        return r"(?:\w+\s*\.\s*" + which + r"\s*\(\s*\)|unsafe\s*\{\s*\(\s*\*\s*\w+\s*\)\s*\.\s*" + which + r"\s*\(\s*\)\s*\})"
    assign = r"(?:\*\s*\w+\s*=\s*Some\s*\(\s*\w+\s*\)\s*;|unsafe\s*\{\s*\*\s*\w+\s*=\s*Some\s*\(\s*\w+\s*\)\s*\}\s*;)"
    if twn and len(re.findall(r"=\s*Some\s*\(", twn)) == 1:
        if re.search(r"if\s+" + test("is_none") + r"\s*\{\s*" + assign + r"\s*\}\s*else\s*\{", twn):
            facts["slotInstallOnlyIfEmpty"] = True
        elif re.search(r"if\s+" + test("is_some") + r"\s*\{", twn) and re.search(r"\}\s*else\s*\{\s*" + assign + r"\s*\}\s*\}\s*$", twn):
            facts["slotInstallOnlyIfEmpty"] = True
        else:
            facts["slotInstallOnlyIfEmpty"] = None
    else:
        facts["slotInstallOnlyIfEmpty"] = None
    # assignments to a child slot: `*x = ..` where `x` was bound from the cell's `.get()` (not from a lock guard)
    def fn_bodies(src):
        out = []
        for m in re.finditer(r"\bfn\s+\w+", src):
            bd = body_of(src[m.start():], r"\bfn\s+\w+")
            if bd:
                out.append(bd)
        return out
    n_assign = 0
    n_sites = 0
    for bd in fn_bodies(no_hooks):
        cells = set()
        for m in re.finditer(r"let\s+(?:mut\s+)?(\w+)\s*(?::[^=;]*)?=\s*([^;]*);", bd):
            if re.search(r"\.\s*get\s*\(\s*\)", m.group(2)) and not re.search(r"\.\s*(?:write|read)\s*\(\s*\)", m.group(2)):
                cells.add(m.group(1))
        for c in cells:
            n_assign += len(re.findall(r"\*\s*" + re.escape(c) + r"\s*=(?!=)", bd))
        if re.search(r"children", bd):
            # every dereference of a cell (bound to a name or not)
            n_sites += len(re.findall(r"\.\s*get\s*\(\s*\)", bd))
    facts["slotAssignments"] = n_assign
    # lock modes of the slot accesses: `read` takes the slot's lock shared, `try_write` and the teardown exclusively,
    # and nothing else touches `children`
    rd = body_of(no_hooks, r"fn\s+read\s*\(\s*&self\s*,\s*index")
    dr = body_of(no_hooks, r"fn\s+drop_recursive\s*\(")
    def lock_calls(b):
        """lock acquisitions (argument-less `.read()` / `.write()` ...) in a body that mentions the slot locks"""
        if not b or "child_locks" not in b:
            return []
        return re.findall(r"\.\s*(read|write|try_read|try_write|upgradable_read)\s*\(\s*\)", b)
    def mode_fact(b, want):
        ls = lock_calls(b)
        return None if not ls else ls == [want]
    facts["slotReadUnderReadLock"] = mode_fact(rd, "read")
    facts["slotWriteUnderWriteLock"] = mode_fact(twn, "write")
    facts["teardownUnderWriteLock"] = mode_fact(dr, "write")
    # the shape of the recursive teardown (model: Teardown.tearSlot / tearL / tearRoot)
    def order(body, pats):
        """True / False: all landmarks found, in / out of order; None: a landmark is missing (shape not recognised)"""
        pos = []
        for pat in pats:
            m = re.search(pat, body or "")
            if not m:
                return None
            pos.append(m.start())
        return pos == sorted(pos) and len(set(pos)) == len(pos)
    facts["teardownLoopsAllSlots"] = True if re.search(r"for\s+(\w+)\s+in\s+0\s*\.\.\s*data\s*\.\s*children\s*\.\s*len\s*\(\s*\)", dr or "") else None
    o = order(dr, [r"child_locks", r"if\s+let\s+Some\s*\(\s*NodeOrToken::Node\s*\(\s*node\s*\)\s*\)\s*=\s*slot",
                   r"node\s*\.\s*drop_recursive\s*\(\s*\)", r"child_data\s*=\s*Some\s*\(\s*node\s*\.\s*data\s*\)",
                   r"\*\s*slot\s*=\s*None", r"if\s+let\s+Some\s*\(\s*data\s*\)\s*=\s*child_data", r"Box::from_raw\s*\(\s*data\s*\.\s*as_ptr\s*\(\s*\)\s*\)"])
    facts["teardownChildrenFirst"] = None if o is None else (o and len(re.findall(r"Box::from_raw", dr or "")) == 1 and len(re.findall(r"drop_recursive\s*\(", dr or "")) == 1)
    dp = body_of(no_hooks, r"impl\s*<\s*S\s*:\s*Syntax\s*,\s*D\s*>\s*Drop\s+for\s+SyntaxNode")
    o = order(dp, [r"fetch_sub", r"root\s*\.\s*drop_recursive\s*\(\s*\)", r"drop\s*\(\s*root\s*\)",
                   r"Box::from_raw\s*\(\s*root_data\s*\.\s*as_ptr\s*\(\s*\)\s*\)", r"Box::from_raw\s*\(\s*ref_count\s*\)"])
    facts["teardownRootLast"] = None if o is None else (o and len(re.findall(r"Box::from_raw", dp or "")) == 2)
    # places that reach into a child slot's cell (`.get()` of the `UnsafeCell`): one each in `read`, `try_write`, the teardown
    facts["slotCellAccessSites"] = n_sites

    # ---- derive macro: comparator of the generated range assertion ------------------------------
    dl = strip_comments(read("cstree-derive/src/lib.rs"))
    # the guard must be unconditional: `debug_assert!` (compiled out of optimised builds) is not the same statement
    m = re.search(r"(?<![A-Za-z0-9_])assert!\s*\(\s*raw\.0\s*(<=|<)\s*#variant_count", dl)
    facts["deriveAssertLt"] = None if not m else (m.group(1) == "<")
    m = re.search(r"let\s+variant_count\s*=\s*syntax_kind_enum\.variants\.len\(\)\s*as\s+u32\s*;", dl)
    facts["deriveCountIsVariantCount"] = bool(m)
    return facts, notes


UNKNOWN_NAT = 987654321987654321  # marker: pattern did not match


def lean_value(v):
    if isinstance(v, bool):
        return ("Bool", "true" if v else "false")
    if isinstance(v, int):
        return ("Nat", str(v))
    if v is None:
        return ("Nat", str(UNKNOWN_NAT))
    raise ValueError(v)


def render(facts):
    lines = ["/- GENERATED by tools/extract_facts.py from the repository source — do not edit. -/",
             "namespace Cst.SourceFacts",
             f"/-- marker value of a fact whose source pattern did not match -/",
             f"def unknownMarker : Nat := {UNKNOWN_NAT}"]
    for k in sorted(facts):
        ty, val = lean_value(facts[k])
        lines.append(f"def {k} : {ty} := {val}")
    lines.append("end Cst.SourceFacts")
    return "\n".join(lines) + "\n"


DEFAULTS = os.path.join(os.path.dirname(os.path.abspath(__file__)), "facts_default.json")


def render_driver(facts):
    """the same facts for the model driver; a fact whose pattern no longer matches takes the value it has on the pinned tree, so
    that the driver still builds (the theorems over SourceFacts break) and the model goes on answering as the pinned code would:
    the search for a concrete failing input can then run"""
    defaults = json.load(open(DEFAULTS)) if os.path.exists(DEFAULTS) else {}
    lines = ["/- GENERATED by tools/extract_facts.py — the facts as the model driver uses them; do not edit. -/",
             "namespace Cst.DriverFacts"]
    unknown = []
    for k in sorted(facts):
        v = facts[k]
        if v is None:
            unknown.append(k)
            v = defaults.get(k)
            if v is None:
                v = 0
        ty, val = lean_value(v)
        lines.append(f"def {k} : {ty} := {val}")
    lines.append("def unknownFacts : List String := [" + ", ".join('"%s"' % u for u in unknown) + "]")
    lines.append("end Cst.DriverFacts")
    return "\n".join(lines) + "\n"


def write_if_changed(path, text):
    old = None
    if os.path.exists(path):
        with open(path) as f:
            old = f.read()
    if old != text:
        with open(path, "w") as f:
            f.write(text)
    return old != text


# facts that can also be *observed* on instrumented executions (`harness facts`): used when the pattern does not match
DYNAMIC = ["cloneAmount", "dropAmount", "loserNodeComp", "loserTokenComp", "teardownWhenPrev", "slotReadUnderReadLock",
           "slotWriteUnderWriteLock", "teardownUnderWriteLock", "slotInstallOnlyIfEmpty", "dataSetW", "dataTrySetW", "dataGetW",
           "dataClearW", "dataOneSectionPerOp", "teardownRootLast", "teardownChildrenFirst", "teardownLoopsAllSlots",
           "childrenCacheThreshold", "nodeCacheComparesChildren", "debugAbbrevThreshold", "debugWindowLo", "debugWindowHi"]


def main():
    facts, notes = extract()
    dynamic_used = []
    if "--dynamic" in sys.argv:
        dyn = json.load(open(sys.argv[sys.argv.index("--dynamic") + 1])).get("facts", {})
        for k in DYNAMIC:
            if k in facts and dyn.get(k) is not None:
                if facts[k] is None or (k == "nodeCacheComparesChildren" and facts[k] is False):
                    facts[k] = dyn[k]
                    dynamic_used.append(k)
    if "--write-defaults" in sys.argv:
        assert all(v is not None for v in facts.values()), "defaults are taken from a tree on which every pattern matches"
        with open(DEFAULTS, "w") as f:
            json.dump(facts, f, indent=1, sort_keys=True)
            f.write("\n")
    text = render(facts)
    out = os.path.normpath(OUT)
    old = None
    if os.path.exists(out):
        with open(out) as f:
            old = f.read()
    if old != text:
        with open(out, "w") as f:
            f.write(text)
    write_if_changed(os.path.join(os.path.dirname(out), "DriverFacts.lean"), render_driver(facts))
    json.dump({"facts": facts, "changed": old != text, "dynamic": dynamic_used,
               "wants_dynamic": [k for k in DYNAMIC if k in facts and (facts[k] is None or (k == "nodeCacheComparesChildren" and facts[k] is False))]},
              sys.stdout, indent=1, sort_keys=True)
    print()


if __name__ == "__main__":
    main()
