#!/usr/bin/env python3
"""re-run every claimed check (quick tier) on the current tree and validate MANIFEST + evidence"""
import json, subprocess, sys, os, time
V = os.path.dirname(os.path.dirname(os.path.abspath(__file__)))
m = json.load(open(os.path.join(V, "MANIFEST.json")))
tier = sys.argv[1] if len(sys.argv) > 1 else "quick"
bad = []
for c in m["checks"]:
    t0 = time.time()
    p = subprocess.run(["./check", c["property_id"], "--tier", tier], cwd=V, stdout=subprocess.PIPE, stderr=subprocess.STDOUT, text=True)
    line = p.stdout.strip().split("\n")[-1] if p.stdout.strip() else ""
    print(f"{c['property_id']} rc={p.returncode} {time.time()-t0:.1f}s {line[:160]}")
    if p.returncode != 0:
        bad.append(c["property_id"])
try:
    import jsonschema
    ms = json.load(open("/root/.vp/MANIFEST.schema.json"))
    es = json.load(open("/root/.vp/EVIDENCE.schema.json"))
    jsonschema.validate(m, ms)
    for c in m["checks"]:
        e = json.load(open(os.path.join(V, "evidence", c["property_id"] + ".json")))
        jsonschema.validate(e, es)
        cov = e["coverage"]
        if cov["discharged"] != cov["obligations"] or cov["discharged"] < 1:
            bad.append(c["property_id"] + ":evidence")
    print("schemas ok")
except ImportError:
    print("(jsonschema not available in this interpreter)")
print("BAD:", bad)
sys.exit(1 if bad else 0)
