"""Per-property configuration of the runner: which generators run on which harness flavours, the
rule that makes a case non-trivial, assumptions, planned-but-unproved theorems."""

def runs(quick, thorough):
    return {"quick": quick, "thorough": thorough}

PROPS = {
    "C10": dict(
        runs=runs([("intern", "release"), ("intern", "lasso")],
                  [("intern", "release"), ("intern", "lasso"), ("intern", "debug"), ("intern", "lasso-debug")]),
        rule="cases = raw-key probe batch + every intern sequence of length 4 (thorough 5) over {'', a, b, é, ab} per back end "
             "+ random long sequences per back end (incl. exhaustion of MicroSpur/MiniSpur key spaces); a case is non-trivial when "
             "it re-interns an already interned string, hits a key-space error, or probes the raw conversion; distinct = distinct op text",
        assumptions=[
            "lasso's Rodeo/ThreadedRodeo and indexmap's IndexSet are insertion-ordered sets (their internals are not modelled)",
            "concurrent interning: the theorem quantifies over all interleavings of *atomic* intern steps; lasso's atomicity is trusted (exercised by the harness' multi-thread stress in thorough)",
        ],
        not_yet_proved=[],
    ),
}
