"""Per-property configuration of the runner: which generators run on which harness flavours, the
rule that makes a case non-trivial, assumptions, planned-but-unproved theorems."""

def runs(quick, thorough):
    return {"quick": quick, "thorough": thorough}

PROPS = {
    "C01": dict(
        extra_modules=["CstModel.Props.GenBuilder2", "CstModel.Props.GenBuilder3"],   # Gen.b_*_raw: token / static_token / finish_node / finish as transcribed from the source
        runs=runs([("build", "release")],
                  [("build", "release"), ("build", "lasso"), ("build", "debug")]),
        rule="cases = real Fx collision witness per back end + every tree with <= 4 (thorough 5) elements over 2 node kinds x 6 token forms "
             "(interned/static/static-empty/multi-byte/interned-equal-to-static) + random trees with duplicated sub-trees under hash masks "
             "{none, 0, 1, 3, 15} (forced head collisions), deep (200) and wide (64) shapes; non-trivial = the build shared at least one small node "
             "through the cache or collided; distinct = distinct op text",
        assumptions=["total text < 2^32 bytes and < 2^32 children (the crate's u32 domain)"],
        not_yet_proved=[],
    ),
    "C02": dict(
        extra_modules=["CstModel.Props.Gen", "CstModel.Props.GenIter", "CstModel.Props.GenNav", "CstModel.Props.GenToken", "CstModel.Proofs.TokenNav", "CstModel.Props.C03"],   # C03.forwarders_*: `text_range` of every wrapper type is the wrapped element's
        runs=runs([("red", "release")],
                  [("red", "release"), ("red", "debug"), ("red", "lasso")]),
        tags=["C02"],
        rule="cases = every tree with <= 4 (thorough 5) elements over {interned 'a', interned '', multi-byte 'é', static '+'} and empty nodes: for each of 13 "
             "routes (child iterator, backward hops, forward hops, indexed forward/backward look-ups with the documented argument, node-only hops / "
             "iterator / indexed, token chains forwards/backwards, preorder, offset+range queries) a FRESH red tree is traversed by that route first and "
             "re-visited forwards afterwards, every element's text resolved and compared with the slice of the whole text; then every operation from every "
             "element; + random programs (20-80 requests) on trees of up to 150 elements, depth up to 60, through the plain and the resolved API "
             "alternately; non-trivial = the case returned at least one element; distinct = distinct op text",
        assumptions=["total text < 2^32 bytes (offsets are u32 in the code, Nat in the model)",
                     "history theorem covers the 22 request kinds of C02.NavOp (element/node hops, iterators, sibling chains, walks, first/last/next/prev token, token_at_offset, covering_element, with any arguments) + the indexed look-ups with the documented argument"],
        not_yet_proved=[],
    ),
    "C03": dict(
        extra_modules=["CstModel.Props.Gen", "CstModel.Props.GenIter", "CstModel.Props.GenNav", "CstModel.Proofs.Walk", "CstModel.Proofs.WalkN", "CstModel.Proofs.TokenSpec", "CstModel.Proofs.BackN"],
        runs=runs([("red", "release")],
                  [("red", "release"), ("red", "debug"), ("red", "lasso")]),
        tags=["C03"],
        rule="same runs as C02: every tree with <= 4 (thorough 5) elements: every navigation operation (25 node operations, 11 token operations) from every "
             "element, child iterators driven with len/size_hint/next/count mixes and their reports compared with the items actually yielded, 13 first-visit "
             "routes; random programs on larger trees; plain and resolved API alternately; every returned element is checked against an arena reference "
             "(kind, node/token, span) and handle identity is checked to be a bijection with tree positions; non-trivial = the case returned at least one "
             "element; distinct = distinct op text",
        assumptions=["the resolved wrappers are re-typings (repr(transparent)); they are the same function in the model and are tied by running every operation through both APIs"],
        not_yet_proved=[],
    ),
    "C04": dict(
        extra_modules=["CstModel.Props.Gen"],   # gen_*: bodies transcribed from the source evaluate to the model (tools/rs2lean.py)
        tags=["C04", "C01"],   # the history runs also evaluate the structural oracle: "equal in structure, kinds and text" is part of C04
        runs=runs([("history", "release"), ("build", "release")],   # build: abandoned builders / speculative builds with reverts / node-vs-token collisions through one cache
                  [("history", "release"), ("history", "lasso"), ("build", "release")]),
        rule="cases = histories of 2-8 (thorough 2-21) trees built through one long-lived cache and interner, with sub-trees re-used across "
             "trees and earlier sub-trees rebuilt as roots, under hash masks {none, 1, 3, 0} (forced head collisions), plus the real Fx collision "
             "spread over two trees of one cache; every tree is dumped at creation and re-dumped after all later builds; allocation identity "
             "(verif_addr hook) is compared with the model's ghost ids; non-trivial = some small node was answered from the cache; distinct = distinct op text",
        assumptions=["total text < 2^32 bytes and < 2^32 children (the crate's u32 domain)",
                     "effectiveness: token_shared / node_shared for an immediately repeated request, token_entry_stable / node_entry_stable(_impl) for a request repeated after any number of other requests (cache entries are unique up to structural equality and only ever added)"],
        not_yet_proved=[],
    ),
    "C05": dict(
        extra_modules=["CstModel.Props.GenNode", "CstModel.Props.GenSlot", "CstModel.Proofs.Conc"],
        tags=["C05", "C06", "C02", "C03"],   # an element created at the wrong place by one route is a second element for the position for every other route
        runs=runs([("conc:traverse", "release"), ("red", "release")],
                  [("conc:traverse", "release"), ("conc:traverse", "debug"), ("conc:lifecycle", "release"), ("red", "release")]),
        rule="cases = executions of the real crate under the harness' deterministic scheduler (one thread runs at a time, from one hook point -- a slot/data "
             "lock acquisition or a read-modify-write of the tree counter -- to the next; a thread whose pending lock is held is not enabled): 8 fixed + 10 "
             "(thorough 60) random traversal programs of 2-3 threads x 1-3 navigation requests over 3 trees; per program ALL schedules with <= 1 (thorough 2) "
             "preemptions (stateless DFS) + 30 (thorough 200) random schedules; per execution: every handle any thread obtained is checked against the arena "
             "reference (kind, range, node/token, parent chain), Eq/Hash identity must be a bijection with tree positions across threads and routes, lock-set "
             "discipline of every slot access, no panic; then the event trace (rdhit/rdmiss/install/lose/add/reread/inc/dec with the counter value after every "
             "RMW) is replayed through the Lean model `Conc.step`, which must accept every event and predict every counter value; non-trivial = the scheduler "
             "had a real choice in the execution; distinct = distinct event trace",
        assumptions=["the model's atomic steps are the hook points: code between two points runs without interference from participating threads (true under the "
                     "scheduler; on real hardware it relies on the locks and on data-race freedom, which is C07's subject)",
                     "parking_lot::RwLock is a correct reader/writer lock"],
        not_yet_proved=[],
    ),
    "C06": dict(
        extra_modules=["CstModel.Props.GenNode", "CstModel.Proofs.Conc"],
        tags=["C06", "C05", "C08"],   # the slot / lock discipline the counter compensation relies on is evaluated on the same executions;
                                      # the teardown releases data and resolver on whichever thread drops last: only sound for thread-safe ones (marker probes)
        runs=runs([("conc:lifecycle", "release"), ("conc:traverse", "release"), ("miri:all", "miri"), ("probe:c08", "rustc"), ("queries", "release"), ("red", "release")],
                  [("conc:lifecycle", "release"), ("conc:lifecycle", "debug"), ("conc:traverse", "release"), ("conc:data", "release"), ("miri:all", "miri"), ("probe:c08", "rustc"),
                   ("queries", "release"), ("red", "release"), ("replace", "release")]),
        rule="cases = executions under the deterministic scheduler of 8 fixed + 10 (thorough 60) random clone/drop/traverse/send programs over 1-3 threads (handles "
             "to inner nodes and tokens outliving the root handle, the last drop on any thread incl. the main thread first or last, creation races whose loser "
             "is discarded); all schedules with <= 1 (thorough 2) preemptions + random schedules; instrumentation oracle per execution: every NodeData block and "
             "the count cell are freed exactly once, never accessed after being freed, nothing stays live after the last handle is gone, and nothing is freed "
             "before; the event trace with the counter value after every RMW and the number of blocks freed by the teardown is replayed through the Lean model, "
             "which must accept every event (a teardown event is only enabled when no handle is owned or owed); the sequence of decrements and frees of every teardown must be the one "
             "`Teardown.tearRoot` computes for the tree of installed elements (children before parents, left to right, two decrements per node, one per token, the root block "
             "and the count cell last); + the sequential navigation / query / replace runs of C02, C13, C14 through the plain and the resolved API with the handle-count oracle "
             "(after every operation the tree's counter equals the number of handles that exist: what an operation hands out and drops again was counted up and down); "
             "+ the marker probes of C08 (the last handle may be dropped on any thread: data and resolver must be thread-safe); + the 7 free-running Miri programs of C07 on the un-hooked "
             "crate (use-after-free, double free, leaks and races with the teardown under the language memory model; 4 (thorough 32) schedules each); "
             "non-trivial = the scheduler had a real choice",
        assumptions=["the green tree, resolver and per-node data are owned by red blocks (plain Rust ownership): their release is implied by the block being dropped exactly once",
                     "counter arithmetic is modelled on Int without wrap-around; the u32 counter wrapping at 2^32 clones is outside the property's histories"],
        not_yet_proved=[],   # the recursive teardown is Model/Teardown (teardown_frees_each_once / teardown_safe / teardown_counter)
    ),
    "C07": dict(
        extra_modules=["CstModel.Props.GenNode", "CstModel.Proofs.MemModel", "CstModel.Proofs.MemSlots"],
        # a premature / double free or an access outside its lock found by the scheduler is a conflicting pair of accesses that
        # nothing orders; a handle type that is Send/Sync for data that is not lets safe code share that data unsynchronised
        tags=["C07", "C06", "C05", "C08"],
        runs=runs([("conc:lifecycle", "release"), ("miri:all", "miri"), ("probe:c08", "rustc")],
                  [("conc:lifecycle", "release"), ("conc:traverse", "release"), ("conc:data", "release"), ("miri:all", "miri"), ("probe:c08", "rustc")]),
        rule="(a) cases = the scheduler executions of the lifecycle (thorough: + traverse, data) suites (see C06): their event streams -- every counter RMW with its site and "
             "resulting value, every hand-over of a handle, every dereference of a red node (`acc`) -- are replayed through the Lean happens-before model "
             "`Mem.step` with the extracted orderings: the model's counter must equal the implementation's after every RMW, every dereference must come from a "
             "thread the model says holds a handle (the model's only assumption about who touches the tree), the teardown must coincide and be race free in the "
             "model; lock-set discipline of every slot access is checked on the same executions. (b) 7 free-running programs (safe API only: concurrent clone/drop, "
             "last drop on an un-joined thread, creation races, inner-node / token handles outliving the root, data slots, resolved trees, shared green trees) over "
             "the UN-HOOKED crate under Miri's happens-before race detector with weak-memory emulation, 4 (thorough 32) schedules each; non-trivial = the "
             "scheduler had a real choice / every Miri run; distinct = distinct trace",
        assumptions=["green elements, interners and caches rely on triomphe/std `Arc`, lasso and `&mut` exclusivity: not in the happens-before model (Miri programs only); the value handed out by `get_data` is a std `Arc<D>` whose own protocol is trusted", "the model covers the release/acquire fragment: RMWs on one counter, hand-over of handles through synchronising operations of safe Rust; locks "
                     "(parking_lot) and Arc (triomphe, std) are assumed data-race free themselves",
                     "`Model/MemModel` (the one the scheduler traces are replayed through) treats accesses of handle holders as non-conflicting among themselves; `Model/MemSlots` "
                     "removes that assumption for the child slots (slot locks + references handed out of a slot + teardown) and is proved race free for all interleavings "
                     "(`slot_accesses_race_free`); it is tied to the source by the extracted lock modes (`slot_facts`) and by the lock-set check on every scheduled execution",
                     "Miri explores a handful of schedules per program; it is the search for a failing execution, the theorem is what covers all interleavings"],
        not_yet_proved=[],
    ),
    "C08": dict(
        extra_modules=["CstModel.Props.GenNav"],   # Gen.nd_accessors / tk_kinds: kind() converts afresh on every call, the tree keeps no value of the kind type
        tags=["C08"],
        runs=runs([("probe:c08", "rustc"), ("miri:all", "miri"), ("red", "release")], [("probe:c08", "rustc"), ("miri:all", "miri"), ("red", "release")]),   # red: the `kindstamp` probe (a kind type that remembers its thread)
        rule="cases = one rustc probe each (all in one crate compiled once against the current source; diagnostics mapped back by line): every handle type "
             "(node, token, element, resolved node/token/element, element ref) x {Send, Sync} x 8 (thorough 12) data types (thread-safe ones, Rc, Cell, RefCell, raw "
             "pointer holder, Send-only, Sync-only); generic functions over an unconstrained / Send-only / Sync-only / Send+Sync data parameter asserting Send and Sync "
             "(decides all instantiations inside the type checker); trees constructed with thread-safe and non-thread-safe resolvers and then moved / shared; green "
             "node/token/element; the kind type (generic and without auto traits); lazy text views over every resolver; + the free-running Miri programs (the markers of the green "
             "elements are unconditional `unsafe impl`s: two threads clone / drop the same green nodes and tokens, directly and through `replace_with`, under the language "
             "memory model); distinct = distinct probe",
        assumptions=["rustc's trait solver is the implementation here; the model covers exactly the extracted `unsafe impl` bounds and constructor bounds (and that no other unsafe marker impl exists in the syntax module)"],
        not_yet_proved=[],
    ),
    "C09": dict(
        extra_modules=["CstModel.Props.GenBuilder"],   # Gen.b_*: the builder's stack operations as transcribed from the source are the model's
        runs=runs([("checkpoints", "release")],
                  [("checkpoints", "release"), ("checkpoints", "debug"), ("checkpoints", "lasso")]),
        rule="cases = corpus of documented usage patterns + every sequence of length <= 5 (thorough 6) over {start, token, finish_node, checkpoint (<=2), "
             "start_node_at k_i, revert_to k_i} inside one root node + random parser-like walks (<= 65, thorough <= 205 ops) that mostly use "
             "checkpoints validly; each use is classified valid / wrap-while-open / invalid by the harness' identity-tracking reference; "
             "non-trivial = at least one *valid* wrap or revert happened; distinct = distinct op text",
        assumptions=["validity of a checkpoint is stated as: the stacks at checkpoint time are prefixes of the current stacks (implied by the ghost-identity definition the harness' reference uses)"],
        not_yet_proved=[],
    ),
    "C11": dict(
        extra_modules=["CstModel.Props.GenToken", "CstModel.Props.Gen"],   # gen_*: bodies transcribed from the source evaluate to the model (tools/rs2lean.py)
        tags=["C11", "C01"],   # "resolving a token yields the text it was built from": the finished tree is compared with the events' tree in the same runs
        runs=runs([("tokens", "release"), ("tokens", "debug")],
                  [("tokens", "release"), ("tokens", "debug"), ("tokens", "lasso"), ("tokens", "lasso-debug")]),
        rule="cases = two trees built through one cache (one interner) from 12 token forms: 4 static kinds (one with empty, one with multi-byte static text; "
             "added by text and by kind alone), interned kinds incl. interned tokens whose text equals a static text and the empty interned text; for every "
             "token: resolved text (external and attached resolver), static_text, text_key; text_eq for ALL ordered pairs within and across the two trees; "
             "run in a release and in a debug build (debug_assert); non-trivial = a pair over one interner was compared; distinct = distinct op text",
        assumptions=["both tokens of a comparison come from trees built with the same interner (the documented precondition of text_eq)"],
        not_yet_proved=[],
    ),
    "C12": dict(
        extra_modules=["CstModel.Proofs.Chunks", "CstModel.Proofs.ChunksTree"],
        runs=runs([("text", "release")], [("text", "release"), ("text", "debug"), ("text", "lasso")]),
        rule="cases = every text of <= 3 (thorough 4) characters over {a, é, →} + 120 (thorough 1500) random texts of 4-17 characters over {a, b, +, é, →}; each is "
             "built as a tree in one of 4 chunkings (whole / 1 char / 2 chars / random 1-3, with empty tokens, empty nodes, nested nodes, static tokens) "
             "together with a second tree over the same interner holding the same text in another chunking, the text with one character changed, a prefix, or "
             "an extension; views: both roots, every slice with character-boundary ends of short texts (24 random ones of long texts) through all five slice "
             "argument forms, slices of slices, out-of-range and reversed slices (must panic); on every view: len, is_empty, to_string (5 routes), chunks, "
             "contains/find for 6 probe characters (inside and outside the text), char_at at every boundary offset and beyond the end, == against the "
             "string / a longer string / a prefix / a one-character variant (4 directions); == between all (or 60 random) ordered pairs of views; "
             "non-trivial = an answer was compared with the materialised string; distinct = distinct op text",
        assumptions=["views have character-boundary ends (the documented domain of the string operations); chunk slicing at other offsets panics in both model and code and is outside the property"],
        not_yet_proved=[],
    ),
    "C13": dict(
        extra_modules=["CstModel.Props.Gen", "CstModel.Proofs.ChunksTree"],
        runs=runs([("queries", "release")], [("queries", "release"), ("queries", "debug")]),
        rule="cases = every tree with <= 4 (thorough 5) elements over {interned 'a', interned '', 'éb', static ''} incl. empty nodes and zero-length tokens at every "
             "boundary x every node as starting point x every offset in [start, end] x every range inside [start, end] (exhaustive), on a fresh red tree; "
             "+ the first offset / range outside the precondition (must panic); + 60 random queries on each of 200 (thorough 2000) random trees; plain and resolved API; "
             "non-trivial = a query inside the precondition was answered; distinct = distinct op text",
        assumptions=["theorems cover covering_element (contains the range, never panics inside the precondition); token_at_offset is tied by the exhaustive correspondence and the brute-force oracle, its totality/specification proof is listed under not_yet_proved"],
        not_yet_proved=[],
    ),
    "C14": dict(
        runs=runs([("replace", "release")], [("replace", "release"), ("replace", "debug"), ("replace", "lasso")]),
        rule="cases = every tree with <= 4 (thorough 5) elements x every position (root, inner node, leaf node, token; first/middle/last) x 4 (thorough 6) replacements "
             "(an equal element, an empty one, a larger one, a random one; occasionally one of another kind, which must panic), + a tree whose deduplicated sub-tree "
             "occurs three times, + random positions of 150 (thorough 1500) random trees; the replacement is built through the same cache; results are compared with "
             "substitution in the reference tree, heads (lengths/hashes), text, ==/hash for the identity replacement, allocation sharing off the spine; the original "
             "green tree and the red tree on it are re-dumped afterwards; non-trivial = a same-kind replacement was performed; distinct = distinct op text",
        assumptions=[],
        not_yet_proved=[],
    ),
    "C16": dict(
        extra_modules=["CstModel.Proofs.SerRed"],
        runs=runs([("serde", "release")], [("serde", "release"), ("serde", "debug"), ("serde", "lasso")]),
        rule="cases = 300 (thorough 3000) random trees, two thirds with token texts containing quotes, backslashes, control, multi-byte and U+2028 characters, "
             "each serialised in the four forms (plain, with resolver, with data, with data+resolver) under a random partial data assignment and read back "
             "through from_str, from_slice, from_reader and to_value/from_value (16 round trips per tree, compared with the original dump and data positions); "
             "rejection: every event stream of length <= 4 (thorough 6) over {EnterNode(0,false), EnterNode(1,true), Token, LeaveNode} x every data-list length "
             "0..2 (thorough 0..3), rotated through the four routes and classified by an independent reference parser; 12 type-level corruptions that stay valid JSON; "
             "non-trivial = a round trip or a classification was checked; distinct = distinct op text",
        assumptions=["JSON (serde_json) is not modelled: the model consumes and produces the event stream and data list; the harness converts both ways",
                     "token texts offered for kinds with static text equal that text (otherwise the builder's documented debug assertion fires in debug builds)",
                     "raw kinds in the input are valid for the user's Syntax (from_raw of a derived Syntax panics on unknown kinds; outside cstree's control)"],
        not_yet_proved=[],
    ),
    "C17": dict(
        runs=runs([("probe:c17", "rustc")], [("probe:c17", "rustc")]),
        rule="cases = generated enum definitions: 30 (thorough 60) well-formed ones with 1..24 (thorough 1..300) variants and random static_text annotations (empty, multi-byte, "
             "quotes, backslash, newline), compiled into ONE crate whose main checks, for every raw value 0..n+2 and u32::MAX under catch_unwind, from_raw/into_raw "
             "round trip, panic outside the range, and the static text of every variant; 36 (thorough 90) ill-formed definitions (struct, union, missing/wrong/double repr, "
             "variants with named or tuple fields, explicit discriminants, static_text without argument / as name-value / with a non-string / twice, combinations) plus 4 "
             "well-formed controls compiled into ONE crate: every ill-formed definition must draw an error located in it, the controls none; distinct = distinct definition",
        assumptions=["syn and rustc are the implementation of parsing and of discriminant assignment; the model covers the derive's decision logic, the generated conversions and Rust's discriminant rule"],
        not_yet_proved=[],
    ),
    "C18": dict(
        extra_modules=["CstModel.Props.GenData", "CstModel.Proofs.DataSlot"],
        tags=["C18", "C08"],   # the marker probes run here too: data is handed out as a shared `Arc<D>`
        runs=runs([("conc:data", "release"), ("probe:c08", "rustc")],
                  [("conc:data", "release"), ("conc:data", "debug"), ("probe:c08", "rustc")]),
        rule="cases = executions under the deterministic scheduler (a scheduling point before every data-lock and slot-lock acquisition and every counter RMW) of 6 fixed "
             "+ 10 (thorough 60) random programs of 2-3 threads x 1-3 operations from {set, try_set, get, clear} (with navigation to a second node, so one or two "
             "nodes, reached through different handles) -- all schedules with <= 1 (thorough 2) preemptions + 30 (thorough 200) random schedules; every stored "
             "value is unique per (thread, operation) and counts its own drops; oracle per execution: results replayed in completion order against a sequential "
             "optional slot, every payload dropped exactly once by the end, no payload dropped while a handle to it is still held; the same operations, in "
             "completion order, are run through the Lean model (`DataSlot.runOp` = acquire/body/release steps of `DataSlot.step`) whose results and final "
             "drop ledger must equal the implementation's; non-trivial = the scheduler had a real choice; distinct = distinct trace",
        assumptions=["parking_lot::RwLock is a correct reader/writer lock and Arc a correct reference count (the model's lock admission rule and owner count are theirs)",
                     "under the scheduler a critical section runs without a scheduling point inside it, so the correspondence exercises whole operations; that operations "
                     "whose sections overlap in time (two readers) still linearize is the theorem's part (`linearizable` quantifies over all step interleavings)"],
        not_yet_proved=[],
    ),
    "C19": dict(
        extra_modules=["CstModel.Props.Gen", "CstModel.Props.C03"],   # C03.forwarders_*: display / debug of every wrapper type forward to the node's / token's own
        runs=runs([("fmt", "release")], [("fmt", "release"), ("fmt", "debug"), ("fmt", "lasso")]),
        rule="cases = for every byte length 0..40 (thorough 0..60): 8 (thorough 12) texts built from 1-4 byte characters in different patterns + 4-byte runs shifted "
             "by 1-3 bytes, so that every alignment of character boundaries against the abbreviation window [21,25) occurs; texts needing escapes; all trees with "
             "<= 3 (thorough 4) elements and 200 (thorough 2000) random trees (depth up to 40): display, one-line debug and recursive debug of every element, through the "
             "external-resolver methods and through Display/Debug/{:#?} of the resolved wrappers; non-trivial = an output was compared with the reference; "
             "distinct = distinct op text",
        assumptions=["kind formatting is the user's Debug impl (the harness' kinds print as K<n>); Rust's {:?} escaping of str is undone before comparison"],
        not_yet_proved=[],
    ),
    "C15": dict(
        extra_modules=["CstModel.Props.GenToken"],   # Gen.gt_* / rt_text: the token layer as transcribed
        runs=runs([("greeneq", "release")],
                  [("greeneq", "release"), ("greeneq", "lasso"), ("greeneq", "debug")]),
        rule="cases = random tree T built four ways over one interner (builder, builder again through the shared cache, builder through a fresh cache "
             "after `recache`, bottom-up through GreenNode::new along a random spine) plus a single-edit mutant (one kind, one text byte, one child "
             "added/removed/swapped), under hash masks {none, 3, 0}; all pairs compared with ==, hashed through a recording hasher and DefaultHasher; "
             "sub-elements compared across routes; 4 random op mixes (next/next_back/nth/nth_back/len/size_hint + count/last/fold/rfold) per tree on "
             "children(); non-trivial = a pair with known reference trees was compared or an iterator over >= 2 children was driven; distinct = distinct op text",
        assumptions=["equality is stated over one interner whose keys are a bijection (C10); tokens come from builders (GreenToken has no public constructor)",
                     "slice::Iter (std) is trusted for next/next_back/nth/nth_back/len/size_hint/count; the three methods the crate codes itself (last, fold, rfold) are modelled as coded"],
        not_yet_proved=[],
    ),
    "C20": dict(
        extra_modules=["CstModel.Props.GenIntern", "CstModel.Props.GenBuilder2", "CstModel.Props.GenBuilder3"],   # Gen.b_*_raw: token / static_token / finish_node / finish as transcribed from the source
        tags=["C20", "C04", "C01"],   # "as if the failed token had never been offered" includes the cache's sharing and the finished tree
        runs=runs([("faults", "release")],
                  [("faults", "release"), ("faults", "lasso"), ("faults", "debug")]),
        leakcheck=True,
        rule="cases = every tree with <= 4 (thorough 5) elements over 2 node kinds x 4 token forms x an injected interner failure at every token "
             "position (single), at all positions, and twice in a row at the first position + random trees with random fault patterns (single and "
             "consecutive); after each caught panic the build continues, the tree is finished, and the same events are rebuilt fault-free through the "
             "same cache (ghost ids vs allocation addresses show the cache is as if the failed token had never been offered); allocation oracle: "
             "live heap bytes do not move when the whole session is re-run; non-trivial = at least one injected fault surfaced as a panic; distinct = distinct op text",
        assumptions=["the failing interner is the harness' wrapper (fails before delegating); what a back end leaves in its own table on a failure of its own is that back end's business",
                     "leaks / double frees are invisible to the Lean model (it has no heap): that half of the property is decided by the allocation oracle (and Miri in the thorough tier) only"],
        not_yet_proved=[],
    ),
    "C10": dict(
        extra_modules=["CstModel.Props.GenIntern"],   # Gen.i_*: provided methods and forwarding impl of the interner traits, as transcribed
        runs=runs([("intern", "release"), ("intern", "lasso"), ("conc:intern", "lasso")],
                  [("intern", "release"), ("intern", "lasso"), ("intern", "debug"), ("intern", "lasso-debug"), ("conc:intern", "lasso"), ("conc:intern", "lasso-debug")]),
        rule="cases = raw-key probe batch + every intern sequence of length 4 (thorough 5) over {'', a, b, é, ab} per back end "
             "+ random long sequences per back end (incl. exhaustion of MicroSpur/MiniSpur key spaces); a case is non-trivial when "
             "it re-interns an already interned string, hits a key-space error, or probes the raw conversion; distinct = distinct op text; "
             "+ concurrent interning (conc:intern): 2-8 free-running threads sweep overlapping vocabularies (300 to 40000, thorough 200000 strings; empty and multi-byte "
             "ones included) into one `Arc<MultiThreadedTokenInterner>` / `&ThreadedRodeo<Spur>` / `&ThreadedRodeo<TokenKey>`, alternating the fallible and the panicking entry "
             "point; every key is resolved at once through `try_resolve` and `resolve` by the thread that got it, all threads must agree on one key per string and one string "
             "per key, every key must still resolve afterwards; for the smaller vocabularies the strings in key order are replayed through the model as a sequential history, "
             "which must hand out the same keys",
        assumptions=[
            "lasso's Rodeo/ThreadedRodeo and indexmap's IndexSet are insertion-ordered sets (their internals are not modelled)",
            "concurrent interning: the theorem quantifies over all interleavings of *atomic* intern steps; lasso's atomicity is trusted and exercised by the free-running multi-thread runs (not exhaustive: the interleavings are the ones the machine produces)",
        ],
        not_yet_proved=[],
    ),
}
