#!/usr/bin/env python3
"""Regenerate MANIFEST.json from tools/props.py (claimed checks) + the fixed property list."""
import json, os, sys
sys.path.insert(0, os.path.dirname(os.path.abspath(__file__)))
from props import PROPS
V = os.path.dirname(os.path.dirname(os.path.abspath(__file__)))
ids = [json.loads(l)["id"] for l in open(os.path.join(V, "properties.jsonl")) if l.strip()]
hooks_commits = [l.strip() for l in open(os.path.join(V, "hooks_commits.txt")) if l.strip()] if os.path.exists(os.path.join(V, "hooks_commits.txt")) else []
checks = []
for pid in ids:
    if pid not in PROPS or not PROPS[pid].get("claimed", True):
        continue
    c = PROPS[pid]
    gen = any("Props.Gen" in m for m in c.get("extra_modules", ()))
    GEN_TEXT = (" For the functions listed in tools/rs2lean.py the model side is regenerated: their bodies are transcribed from /repo into a deep "
                "embedding (Generated/RsFns.lean) on every run and theorems Cst.Gen.* show that evaluating the transcribed body gives what the model function "
                "computes, for every argument.") if gen else ""
    GEN_NOTE = " tools/rs2lean.py and the evaluator Model/Rs.lean (meaning of the transcribed Rust fragment) are trusted for the Cst.Gen.* theorems." if gen else ""
    GEN_TECH = " + bodies of selected functions transcribed from the source on every run and proved to evaluate to the model" if gen else ""
    checks.append({
        "property_id": pid,
        "quick_cmd": f"./check {pid} --tier quick",
        "thorough_cmd": f"./check {pid} --tier thorough",
        "evidence_file": f"/verif/evidence/{pid}.json",
        "replay_cmd_template": f"./check {pid} --replay {{path}}",
        "engine": "lean4-model+correspondence",
        "level_claimed": {
            "category": "proof",
            "text": c.get("level_text", "Lean 4 theorems over a hand-written executable model, re-checked on every run together with instantiation lemmas over facts extracted from the source; the model is tied to the code by a differential correspondence check (same operations on the real crate and on the model's compiled definitions) plus an implementation-side oracle.") + GEN_TEXT,
            "design_ref": c.get("design_ref", "DESIGN.md §6 " + pid),
        },
        "level_note": c.get("level_note", "Trusted: Lean kernel (axioms propext, Classical.choice, Quot.sound only), tools/extract_facts.py, the harness/driver/diff machinery, the hand-written model; external crates are assumed to meet their contracts. " + " ".join(c.get("assumptions", []))) + GEN_NOTE,
        "technique": c.get("technique", "machine-checked proof in Lean 4 (induction/invariants over an executable model) + differential correspondence against the real crate") + GEN_TECH,
    })
na = []
for pid in ids:
    if pid not in [c["property_id"] for c in checks]:
        reason = PROPS.get(pid, {}).get("na_reason", "not yet covered by the framework at this commit (model/harness under construction; see DESIGN.md §6 for the planned theorems) — not a statement that the technique cannot apply")
        na.append({"property_id": pid, "reason": reason})
m = {
    "version": 1,
    "setup_cmd": "./check --setup",
    "hooks": {
        "guard": "cstree_verif",
        "enable": "RUSTFLAGS='--cfg cstree_verif' (set in /verif/harness/.cargo/config.toml; the harness crate path-depends on /repo/cstree)",
        "baseline_off_cmd": "cd /repo && cargo test --workspace --no-fail-fast --offline",
        "source_commits": hooks_commits,
        "add_only": True,
    },
    "engines": [
        {"name": "lean4-model+correspondence", "path": "/verif/lean", "serves_properties": [c["property_id"] for c in checks],
         "kind_free_text": "Lean 4.33 project (model, proofs, property theorems, axiom audit, compiled line-protocol driver) + Rust harness (/verif/harness) + source-fact translator (/verif/tools/extract_facts.py) + runner (/verif/check)"},
    ],
    "checks": checks,
    "not_applicable": na,
    "notes": "Every check: (T) regenerates Generated/SourceFacts.lean from /repo, (Thm) lake-builds the property's theorem module and audits axioms, (C) rebuilds the harness against /repo's working tree with --cfg cstree_verif, runs generated cases on the real crate and on the Lean driver and diffs, (Ora) evaluates the property directly on the implementation's answers. See DESIGN.md §5 for the verdict table.",
}
json.dump(m, open(os.path.join(V, "MANIFEST.json"), "w"), indent=1)
print("claimed:", [c["property_id"] for c in checks], "na:", len(na))
