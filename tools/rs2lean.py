#!/usr/bin/env python3
"""tools/rs2lean.py -- third translator: transcribes the *bodies* of selected functions of /repo into values of the
deep embedding `Cst.Rs.Expr` (lean/CstModel/Model/Rs.lean) and writes lean/CstModel/Generated/RsFns.lean.

Syntax only: a tokenizer and a recursive-descent parser for the expression fragment the evaluator of Model/Rs.lean
gives a meaning to.  Names become numbers: the table `namespace N` of Model/Rs.lean (read from that file) for
constructors / methods / functions / macros / operators, `self` = 0, parameters 1.. in order, locals in order of binding.
A body (or a sub-expression) outside the fragment becomes `.unknown`; a name outside the table becomes 9999.
Prints a JSON summary (function -> recognised / reason) on stdout.
"""
import json, os, re, sys, zlib

VERIF = os.path.dirname(os.path.dirname(os.path.abspath(__file__)))
REPO = os.environ.get("VERIF_REPO", "/repo")
LEAN = os.environ.get("VERIF_LEAN_DIR", os.path.join(VERIF, "lean"))
MODEL = os.path.join(LEAN, "CstModel", "Model", "Rs.lean")
OUT = os.path.join(LEAN, "CstModel", "Generated", "RsFns.lean")

# (lean name, file, impl type, trait or None, fn name)
TARGETS = [
    ("not_into_node", "cstree/src/utility_types.rs", "NodeOrToken", None, "into_node"),
    ("not_into_token", "cstree/src/utility_types.rs", "NodeOrToken", None, "into_token"),
    ("not_as_node", "cstree/src/utility_types.rs", "NodeOrToken", None, "as_node"),
    ("not_as_token", "cstree/src/utility_types.rs", "NodeOrToken", None, "as_token"),
    ("not_as_ref", "cstree/src/utility_types.rs", "NodeOrToken", None, "as_ref"),
    ("not_cloned", "cstree/src/utility_types.rs", "NodeOrToken", None, "cloned"),
    ("not_display", "cstree/src/utility_types.rs", "NodeOrToken", "Display", "fmt"),
    ("walk_map", "cstree/src/utility_types.rs", "WalkEvent", None, "map"),
    ("mo_into_owned", "cstree/src/utility_types.rs", "MaybeOwned", None, "into_owned"),
    ("mo_deref", "cstree/src/utility_types.rs", "MaybeOwned", "Deref", "deref"),
    ("mo_deref_mut", "cstree/src/utility_types.rs", "MaybeOwned", "DerefMut", "deref_mut"),
    ("tao_map", "cstree/src/utility_types.rs", "TokenAtOffset", None, "map"),
    ("tao_right_biased", "cstree/src/utility_types.rs", "TokenAtOffset", None, "right_biased"),
    ("tao_left_biased", "cstree/src/utility_types.rs", "TokenAtOffset", None, "left_biased"),
    ("tao_next", "cstree/src/utility_types.rs", "TokenAtOffset", "Iterator", "next"),
    ("tao_size_hint", "cstree/src/utility_types.rs", "TokenAtOffset", "Iterator", "size_hint"),
    ("tok_text_eq", "cstree/src/syntax/token.rs", "SyntaxToken", None, "text_eq"),
    ("tok_resolve_text", "cstree/src/syntax/token.rs", "SyntaxToken", None, "resolve_text"),
    ("tok_write_debug", "cstree/src/syntax/token.rs", "SyntaxToken", None, "write_debug"),
    ("tok_text_range", "cstree/src/syntax/token.rs", "SyntaxToken", None, "text_range"),
    ("b_token", "cstree/src/green/builder.rs", "GreenNodeBuilder", None, "token"),
    ("b_static_token", "cstree/src/green/builder.rs", "GreenNodeBuilder", None, "static_token"),
    ("b_start_node", "cstree/src/green/builder.rs", "GreenNodeBuilder", None, "start_node"),
    ("b_finish_node", "cstree/src/green/builder.rs", "GreenNodeBuilder", None, "finish_node"),
    ("b_checkpoint", "cstree/src/green/builder.rs", "GreenNodeBuilder", None, "checkpoint"),
    ("b_revert_to", "cstree/src/green/builder.rs", "GreenNodeBuilder", None, "revert_to"),
    ("b_start_node_at", "cstree/src/green/builder.rs", "GreenNodeBuilder", None, "start_node_at"),
    ("b_finish", "cstree/src/green/builder.rs", "GreenNodeBuilder", None, "finish"),
    ("rt_text", "cstree/src/syntax/resolved.rs", "ResolvedToken", None, "text"),
    ("gt_kind", "cstree/src/green/token.rs", "GreenToken", None, "kind"),
    ("gt_text", "cstree/src/green/token.rs", "GreenToken", None, "text"),
    ("gt_text_len", "cstree/src/green/token.rs", "GreenToken", None, "text_len"),
    ("gt_text_key", "cstree/src/green/token.rs", "GreenToken", None, "text_key"),
    ("tok_static_text", "cstree/src/syntax/token.rs", "SyntaxToken", None, "static_text"),
    ("tok_text_key", "cstree/src/syntax/token.rs", "SyntaxToken", None, "text_key"),
    ("nd_text_range", "cstree/src/syntax/node.rs", "SyntaxNode", None, "text_range"),
    ("it_new", "cstree/src/syntax/iter.rs", "Iter", None, "new"),
    ("it_next", "cstree/src/syntax/iter.rs", "Iter", "Iterator", "next"),
    ("ec_new", "cstree/src/syntax/iter.rs", "SyntaxElementChildren", None, "new"),
    ("ec_next", "cstree/src/syntax/iter.rs", "SyntaxElementChildren", "Iterator", "next"),
    ("nc_new", "cstree/src/syntax/iter.rs", "SyntaxNodeChildren", None, "new"),
    ("nv_first", "cstree/src/syntax/node.rs", "SyntaxNode", None, "first_child_or_token"),
    ("nv_last", "cstree/src/syntax/node.rs", "SyntaxNode", None, "last_child_or_token"),
    ("nv_next_after", "cstree/src/syntax/node.rs", "SyntaxNode", None, "next_child_or_token_after"),
    ("nv_prev_before", "cstree/src/syntax/node.rs", "SyntaxNode", None, "prev_child_or_token_before"),
    ("nv_next_sibling", "cstree/src/syntax/node.rs", "SyntaxNode", None, "next_sibling_or_token"),
    ("nv_prev_sibling", "cstree/src/syntax/node.rs", "SyntaxNode", None, "prev_sibling_or_token"),
    ("tk_next_sibling", "cstree/src/syntax/token.rs", "SyntaxToken", None, "next_sibling_or_token"),
    ("tk_prev_sibling", "cstree/src/syntax/token.rs", "SyntaxToken", None, "prev_sibling_or_token"),
    ("tk_green", "cstree/src/syntax/token.rs", "SyntaxToken", None, "green"),
    ("tk_kind", "cstree/src/syntax/token.rs", "SyntaxToken", None, "kind"),
    ("tk_syntax_kind", "cstree/src/syntax/token.rs", "SyntaxToken", None, "syntax_kind"),
    ("nd_kind", "cstree/src/syntax/node.rs", "SyntaxNode", None, "kind"),
    ("nd_syntax_kind", "cstree/src/syntax/node.rs", "SyntaxNode", None, "syntax_kind"),
    ("nd_parent", "cstree/src/syntax/node.rs", "SyntaxNode", None, "parent"),
    ("nd_green", "cstree/src/syntax/node.rs", "SyntaxNode", None, "green"),
    ("nd_arity_with_tokens", "cstree/src/syntax/node.rs", "SyntaxNode", None, "arity_with_tokens"),
    ("n_clone", "cstree/src/syntax/node.rs", "SyntaxNode", "Clone", "clone"),
    ("n_drop", "cstree/src/syntax/node.rs", "SyntaxNode", "Drop", "drop"),
    ("n_try_write", "cstree/src/syntax/node.rs", "SyntaxNode", None, "try_write"),
    ("n_read", "cstree/src/syntax/node.rs", "SyntaxNode", None, "read"),
    ("d_set_data", "cstree/src/syntax/node.rs", "SyntaxNode", None, "set_data"),
    ("d_try_set_data", "cstree/src/syntax/node.rs", "SyntaxNode", None, "try_set_data"),
    ("d_get_data", "cstree/src/syntax/node.rs", "SyntaxNode", None, "get_data"),
    ("d_clear_data", "cstree/src/syntax/node.rs", "SyntaxNode", None, "clear_data"),
    ("n_get_or_add_node", "cstree/src/syntax/node.rs", "SyntaxNode", None, "get_or_add_node"),
    ("n_get_or_add_element", "cstree/src/syntax/node.rs", "SyntaxNode", None, "get_or_add_element"),
    ("i_get_or_intern", "cstree/src/interning/traits.rs", "Interner", "trait", "get_or_intern"),
    ("i_resolve", "cstree/src/interning/traits.rs", "Resolver", "trait", "resolve"),
    ("i_fwd_get_or_intern", "cstree/src/interning/traits.rs", "I", "Interner", "get_or_intern"),
    ("i_fwd_try_get_or_intern", "cstree/src/interning/traits.rs", "I", "Interner", "try_get_or_intern"),
]


class Unsupported(Exception):
    pass


# ------------------------------------------------------------------------------------------------ tokenizer

PUNCT = ["..=", "...", "::", "->", "=>", "==", "!=", "<=", ">=", "&&", "||", "..", "+=", "-=", "*=", "/=", "|=", "&=", "^="]   # no `<<` / `>>`: they close generics far more often than they shift


def tokenize(src):
    toks, i, n = [], 0, len(src)
    while i < n:
        c = src[i]
        if c.isspace():
            i += 1
        elif src.startswith("//", i):
            j = src.find("\n", i)
            i = n if j < 0 else j
        elif src.startswith("/*", i):
            depth, i = 1, i + 2
            while i < n and depth:
                if src.startswith("/*", i):
                    depth += 1; i += 2
                elif src.startswith("*/", i):
                    depth -= 1; i += 2
                else:
                    i += 1
        elif c == '"' or (c == "b" and src.startswith('b"', i)):
            if c == "b":
                i += 1
            j, out = i + 1, []
            while j < n and src[j] != '"':
                if src[j] == "\\":
                    out.append(src[j:j + 2]); j += 2
                else:
                    out.append(src[j]); j += 1
            toks.append(("str", "".join(out))); i = j + 1
        elif c == "r" and re.match(r'r#*"', src[i:]):
            m = re.match(r'r(#*)"', src[i:])
            close = '"' + m.group(1)
            j = src.find(close, i + len(m.group(0)))
            toks.append(("str", src[i + len(m.group(0)):j])); i = j + len(close)
        elif c == "'":
            m = re.match(r"'(\\.[^']*|[^'\\])'", src[i:])
            if m:
                toks.append(("char", m.group(1))); i += len(m.group(0))
            else:
                m = re.match(r"'[A-Za-z_]\w*", src[i:])
                toks.append(("lifetime", m.group(0))); i += len(m.group(0))
        elif c.isdigit():
            m = re.match(r"0x[0-9a-fA-F_]+|0b[01_]+|0o[0-7_]+|[0-9][0-9_]*", src[i:])
            txt = m.group(0); i += len(txt)
            m2 = re.match(r"(u8|u16|u32|u64|u128|usize|i8|i16|i32|i64|i128|isize)", src[i:])
            if m2:
                i += len(m2.group(0))
            toks.append(("int", int(txt.replace("_", ""), 0)))
        elif c.isalpha() or c == "_":
            m = re.match(r"[A-Za-z_]\w*", src[i:])
            toks.append(("id", m.group(0))); i += len(m.group(0))
        else:
            for p in PUNCT:
                if src.startswith(p, i):
                    toks.append(("p", p)); i += len(p); break
            else:
                toks.append(("p", c)); i += 1
    toks.append(("eof", ""))
    return toks


# ------------------------------------------------------------------------------------------------ locating functions

def skip_balanced(toks, i, open_, close):
    """toks[i] is `open_`; returns index just after the matching close"""
    depth = 0
    while True:
        k, v = toks[i]
        if k == "eof":
            raise Unsupported("unbalanced")
        if k == "p" and v == open_:
            depth += 1
        elif k == "p" and v == close:
            depth -= 1
            if depth == 0:
                return i + 1
        i += 1


def find_functions(toks):
    """yields (impl_type, trait, fn_name, params_tokens, body_tokens) for every fn inside an impl block at top level"""
    out, i = [], 0
    while toks[i][0] != "eof":
        if toks[i] == ("id", "trait") and toks[i + 1][0] == "id" and (i == 0 or toks[i - 1] != ("p", "::")):
            # default methods of a trait: reported as (Name, "trait", fn)
            tname = toks[i + 1][1]
            j, depth = i + 2, 0
            while not (toks[j] == ("p", "{") and depth == 0):
                if toks[j] == ("p", "<"): depth += 1
                elif toks[j] == ("p", ">"): depth -= 1
                elif toks[j][0] == "eof": return out
                j += 1
            end = skip_balanced(toks, j, "{", "}")
            p = j + 1
            while p < end - 1:
                if toks[p] == ("p", "{"):
                    p = skip_balanced(toks, p, "{", "}"); continue
                if toks[p] == ("id", "fn") and toks[p + 1][0] == "id":
                    name = toks[p + 1][1]
                    q = p + 2
                    if toks[q] == ("p", "<"):
                        d = 0
                        while True:
                            if toks[q] == ("p", "<"): d += 1
                            elif toks[q] == ("p", ">"): d -= 1
                            q += 1
                            if d == 0: break
                    pe = skip_balanced(toks, q, "(", ")")
                    params = toks[q + 1:pe - 1]
                    b = pe
                    while toks[b] != ("p", "{") and toks[b] != ("p", ";"):
                        b += 1
                    if toks[b] == ("p", ";"):
                        p = b + 1; continue
                    be = skip_balanced(toks, b, "{", "}")
                    out.append((tname, "trait", name, params, toks[b:be]))
                    p = be; continue
                p += 1
            i = end; continue
        if toks[i] == ("id", "impl"):
            # header up to the `{`
            j, depth = i + 1, 0
            while not (toks[j] == ("p", "{") and depth == 0):
                if toks[j] == ("p", "<"):
                    depth += 1
                elif toks[j] == ("p", ">"):
                    depth -= 1
                elif toks[j][0] == "eof":
                    return out
                j += 1
            header = toks[i + 1:j]
            # drop the where clause and the generic parameter list directly after `impl`
            hd, depth, k = [], 0, 0
            if header and header[0] == ("p", "<"):
                d = 0
                while True:
                    if header[k] == ("p", "<"): d += 1
                    elif header[k] == ("p", ">"): d -= 1
                    k += 1
                    if d == 0: break
            names, depth = [], 0
            for t in header[k:]:
                if t == ("id", "where") and depth == 0:
                    break
                if t == ("p", "<"): depth += 1
                elif t == ("p", ">"): depth -= 1
                elif depth == 0:
                    names.append(t)
            # names: [path…] [for path…]
            ids = [v for (kk, v) in names if kk == "id"]
            if "for" in ids:
                f = ids.index("for")
                trait, ty = ids[f - 1], ids[-1]
            else:
                trait, ty = None, ids[-1] if ids else "?"
            end = skip_balanced(toks, j, "{", "}")
            # functions directly inside
            p, depth = j + 1, 0
            while p < end - 1:
                if toks[p] == ("p", "{"):
                    p = skip_balanced(toks, p, "{", "}"); continue
                if toks[p] == ("id", "fn") and toks[p + 1][0] == "id":
                    name = toks[p + 1][1]
                    q = p + 2
                    if toks[q] == ("p", "<"):
                        d = 0
                        while True:
                            if toks[q] == ("p", "<"): d += 1
                            elif toks[q] == ("p", ">"): d -= 1
                            elif toks[q] == ("p", "->"): pass
                            q += 1
                            if d == 0: break
                    pe = skip_balanced(toks, q, "(", ")")
                    params = toks[q + 1:pe - 1]
                    b = pe
                    while toks[b] != ("p", "{") and toks[b] != ("p", ";"):
                        b += 1
                    if toks[b] == ("p", ";"):
                        p = b + 1; continue
                    be = skip_balanced(toks, b, "{", "}")
                    out.append((ty, trait, name, params, toks[b:be]))
                    p = be; continue
                p += 1
            i = end; continue
        i += 1
    return out


def param_names(params):
    """names of the parameters (top-level commas); `self` in any form is reported as 'self'"""
    parts, cur, depth = [], [], 0
    for t in params:
        if t[0] == "p" and t[1] in "(<[{": depth += 1
        if t[0] == "p" and t[1] in ")>]}": depth -= 1
        if t == ("p", ",") and depth == 0:
            parts.append(cur); cur = []
        else:
            cur.append(t)
    if cur:
        parts.append(cur)
    names = []
    for part in parts:
        head = []
        for t in part:
            if t == ("p", ":"):
                break
            head.append(t)
        ids = [v for (k, v) in head if k == "id" and v not in ("mut", "ref")]
        if "self" in ids:
            names.append("self")
        elif len(ids) == 1:
            names.append(ids[0])
        else:
            names.append(None)
    return names


# ------------------------------------------------------------------------------------------------ parser

BINOPS = [  # precedence levels, low to high
    [("||", "or")], [("&&", "and")],
    [("==", "eq"), ("!=", "ne"), ("<", "lt"), ("<=", "le"), (">", "gt"), (">=", "ge")],
    [("+", "add"), ("-", "sub")], [("*", "mul")],
]


class Parser:
    def __init__(self, toks, N, self_ty, params):
        self.t, self.i, self.N, self.self_ty = toks, 0, N, self_ty
        self.scopes = [{}]
        self.next_id = 1
        self.unknown_names = []
        self.has_self = False
        self.no_struct = 0
        for p in params:
            if p == "self":
                self.scopes[0]["self"] = 0; self.has_self = True
            elif p is None:
                self.next_id += 1
            else:
                self.scopes[0][p] = self.next_id; self.next_id += 1
        self.nparams = self.next_id - 1

    # -- helpers
    def peek(self, k=0): return self.t[self.i + k]
    def at(self, v, k=0): return self.t[self.i + k] == ("p", v)
    def at_id(self, v, k=0): return self.t[self.i + k] == ("id", v)
    def eat(self, v):
        if not self.at(v): raise Unsupported(f"expected {v!r}, found {self.peek()}")
        self.i += 1
    def eat_id(self, v):
        if not self.at_id(v): raise Unsupported(f"expected {v!r}, found {self.peek()}")
        self.i += 1
    def name(self, key):
        if key in self.N: return self.N[key]
        self.unknown_names.append(key)
        return 9999
    def lookup(self, x):
        for sc in reversed(self.scopes):
            if x in sc: return sc[x]
        return None
    def bind(self, x):
        v = self.next_id; self.next_id += 1
        self.scopes[-1][x] = v
        return v

    def skip_type(self, stops):
        """skips a type up to one of the punctuation tokens in `stops` at depth 0"""
        depth = 0
        while True:
            k, v = self.peek()
            if k == "eof": raise Unsupported("type runs to eof")
            if k == "p" and depth == 0 and v in stops: return
            if k == "p" and v in "<([": depth += 1
            if k == "p" and v in ">)]": depth -= 1
            if k == "p" and v == ">>": depth -= 2
            self.i += 1

    def skip_turbofish(self):
        if self.at("::") and self.at("<", 1):
            self.i += 1
            depth = 0
            while True:
                if self.at("<"): depth += 1
                elif self.at(">"): depth -= 1
                elif self.at(">>"): depth -= 2
                self.i += 1
                if depth <= 0: break

    # -- paths
    def path(self):
        segs = []
        while True:
            k, v = self.peek()
            if k != "id": raise Unsupported(f"path segment {self.peek()}")
            segs.append(v); self.i += 1
            self.skip_turbofish()
            if self.at("::") and self.peek(1)[0] == "id":
                self.i += 1; continue
            if self.at("<") and False:
                pass
            return segs

    def path_key(self, segs):
        segs = [self.self_ty if s == "Self" else s for s in segs]
        if segs[-2:] == ["mem", "replace"]: return "mem_replace"
        if segs[-2:] == ["mem", "take"]: return "mem_take"
        if len(segs) >= 2: return segs[-2] + "." + segs[-1]
        return segs[-1]

    # -- patterns
    def pattern(self):
        """a pattern, possibly `p | q | …` (alternatives must not bind anything)"""
        before = self.next_id
        p = self.pattern1()
        if not self.at("|"):
            return p
        alts = [p]
        while self.at("|"):
            self.i += 1
            alts.append(self.pattern1())
        if self.next_id != before:
            raise Unsupported("or-pattern that binds")
        return f"(.alt [{', '.join(alts)}])"

    def pattern1(self):
        while self.at("&") or self.at_id("mut") or self.at_id("ref") or self.at("&&"):
            self.i += 1
        k, v = self.peek()
        if k == "id" and v == "_":
            self.i += 1; return ".wild"
        if k == "int":
            self.i += 1; return f"(.lit {v})"
        if k == "p" and v == "(":
            self.i += 1
            ps = []
            while not self.at(")"):
                ps.append(self.pattern())
                if self.at(","): self.i += 1
            self.eat(")")
            if len(ps) == 1: return ps[0]
            return f"(.ctor 0 [{', '.join(ps)}])"
        if k == "id":
            segs = self.path()
            is_ctor = len(segs) > 1 or segs[0][0].isupper()
            if self.at("("):
                self.i += 1
                ps = []
                while not self.at(")"):
                    ps.append(self.pattern())
                    if self.at(","): self.i += 1
                self.eat(")")
                return f"(.ctor {self.name(self.path_key(segs))} [{', '.join(ps)}])"
            if self.at("{"):
                self.i += 1
                fps = []
                while not self.at("}"):
                    if self.at(".."):
                        self.i += 1; continue
                    while self.at_id("ref") or self.at_id("mut"): self.i += 1
                    if self.peek()[0] != "id": raise Unsupported("struct pattern field")
                    f = self.peek()[1]; self.i += 1
                    if self.at(":"):
                        self.i += 1
                        fp = self.pattern()
                    else:
                        fp = f"(.bind {self.bind(f)})"
                    fps.append(f"({self.name('field.' + f)}, {fp})")
                    if self.at(","): self.i += 1
                self.eat("}")
                return f"(.strct [{', '.join(fps)}])"
            if self.at("@"): raise Unsupported("@ pattern")
            if is_ctor:
                return f"(.ctor {self.name(self.path_key(segs))} [])"
            return f"(.bind {self.bind(segs[0])})"
        raise Unsupported(f"pattern {self.peek()}")

    # -- expressions
    def expr(self):
        return self.range_expr()

    def range_expr(self):
        if self.at(".."):
            raise Unsupported("range expression outside an index")
        e = self.binary(0)
        if self.at("..") and not self.no_struct:
            self.i += 1
            hi = self.binary(0)
            return f"(.range {e} {hi})"
        return e

    def binary(self, level):
        if level == len(BINOPS): return self.cast()
        lhs = self.binary(level + 1)
        while True:
            k, v = self.peek()
            hit = None
            if k == "p":
                for sym, nm in BINOPS[level]:
                    if v == sym: hit = nm
            if hit is None: return lhs
            self.i += 1
            rhs = self.binary(level + 1)
            lhs = f"(.bin {self.N[hit]} {lhs} {rhs})"

    def cast(self):
        e = self.unary()
        while self.at_id("as"):
            self.i += 1
            self.skip_type({",", ";", ")", "}", "]", "{", "==", "!=", "<=", ">=", "&&", "||", "+", "-", "*", "=>", "?", "."})
        return e

    def unary(self):
        if self.at("&") or self.at("&&"):
            self.i += 1
            if self.at_id("mut"): self.i += 1
            return self.unary()
        if self.at("*"):
            self.i += 1; return self.unary()
        if self.at("!"):
            self.i += 1; return f"(.neg {self.unary()})"
        if self.at("-"): raise Unsupported("unary minus")
        return self.postfix(self.primary())

    def args(self):
        self.eat("(")
        out = []
        while not self.at(")"):
            out.append(self.nested(self.expr))
            if self.at(","): self.i += 1
        self.eat(")")
        return out

    def postfix(self, e):
        while True:
            if self.at("?"):
                self.i += 1; e = f"(.try_ {e})"
            elif self.at(".") and self.peek(1)[0] == "id":
                nm = self.peek(1)[1]; self.i += 2
                self.skip_turbofish()
                if self.at("("):
                    a = self.args()
                    key = "end_" if nm == "end" else nm
                    e = f"(.meth {e} {self.name(key)} [{', '.join(a)}])"
                else:
                    e = f"(.field {e} {self.name('field.' + nm)})"
            elif self.at(".") and self.peek(1)[0] == "int":
                e = f"(.field {e} {self.peek(1)[1]})"; self.i += 2
            elif self.at("("):
                a = self.args()
                e = f"(.app {e} [{', '.join(a)}])"
            elif self.at("["):
                self.i += 1
                lo = hi = None
                if not self.at(".."):
                    lo = self.binary(0)
                if self.at(".."):
                    self.i += 1
                    if not self.at("]"):
                        hi = self.binary(0)
                    self.eat("]")
                    o = lambda x: f"(.ctor {self.N['None']} [])" if x is None else f"(.ctor {self.N['Some']} [{x}])"
                    e = f"(.meth {e} {self.N['slice']} [{o(lo)}, {o(hi)}])"
                else:
                    self.eat("]")
                    e = f"(.meth {e} {self.N['index']} [{lo}])"
            else:
                return e

    def block(self):
        return self.nested(self.block_)

    def block_(self):
        """`{ stmts; expr? }` -> (.block [stmts] result)"""
        self.eat("{")
        self.scopes.append({})
        stmts, result = [], None
        while not self.at("}"):
            if self.at(";"):
                self.i += 1; continue
            if self.at("#") and self.at("[", 1):
                # an attribute on a statement; `#[cfg(cstree_verif)]` marks instrumentation: that statement is not part of the
                # function's meaning and is skipped; `#[cfg(not(cstree_verif))]` and other attributes are dropped, the statement stays
                a0 = self.i + 1
                a1 = skip_balanced(self.t, a0, "[", "]")
                attr = "".join(v if k != "str" else '"' + v + '"' for (k, v) in self.t[a0 + 1:a1 - 1])
                self.i = a1
                if attr == "cfg(cstree_verif)":
                    self.skip_statement()
                elif attr.startswith("cfg(") and attr != "cfg(not(cstree_verif))":
                    raise Unsupported("conditional compilation: " + attr)
                continue
            if self.at_id("let"):
                self.i += 1
                # the initialiser is evaluated before the pattern binds
                save = self.i
                # find `=` at depth 0 to parse the expression first (shadowing: `let text = f(text)`)
                depth, j = 0, self.i
                while True:
                    k, v = self.t[j]
                    if k == "eof": raise Unsupported("let without =")
                    if k == "p" and v in "(<[{": depth += 1
                    if k == "p" and v in ")>]}": depth -= 1
                    if k == "p" and v == "=" and depth == 0: break
                    if k == "p" and v == ";" and depth == 0: raise Unsupported("let without initialiser")
                    j += 1
                self.i = j + 1
                init = self.expr()
                if self.at_id("else"): raise Unsupported("let-else")
                end = self.i
                self.i = save
                pat = self.pattern()
                self.i = end
                self.eat(";")
                stmts.append(f"(.letS {pat} {init})")
                continue
            blocklike = self.at_id("if") or self.at_id("match") or self.at_id("for") or self.at_id("loop") or self.at_id("while") or self.at("{") or (self.at_id("unsafe") and self.at("{", 1))
            ptr_target = None
            if self.at("*") and self.peek(1)[0] == "id" and self.peek(1)[1] != "self" and self.at("=", 2) and self.lookup(self.peek(1)[1]) is not None:
                # `*p = e;` with `p` a local: a store through a pointer, not a change of the local
                ptr_target = self.lookup(self.peek(1)[1])
                self.i += 3
                rhs = self.expr()
                if not self.at("}"):
                    self.eat(";")
                stmts.append(f"(.exprS (.call {self.N['ptr_write']} [(.var {ptr_target}), {rhs}]))")
                continue
            e = self.expr()
            if self.at("=") or any(self.at(op) for op in ("+=", "-=", "*=")):
                op = self.peek()[1]; self.i += 1
                rhs = self.expr()
                if op != "=":
                    rhs = f"(.bin {self.N[{'+=': 'add', '-=': 'sub', '*=': 'mul'}[op]]} {e} {rhs})"
                self.eat(";")
                stmts.append(f"(.assign {e} {rhs})")
            elif self.at(";"):
                self.i += 1
                stmts.append(f"(.exprS {e})")
            elif self.at("}"):
                result = e
            elif blocklike:
                stmts.append(f"(.exprS {e})")
            else:
                raise Unsupported(f"statement end {self.peek()}")
        self.eat("}")
        self.scopes.pop()
        if result is None: result = ".unit"
        if not stmts: return result
        return f"(.block [{', '.join(stmts)}] {result})"

    def primary(self):
        k, v = self.peek()
        if k == "int":
            self.i += 1; return f"(.nat {v})"
        if k == "str":
            self.i += 1; return f"(.strlit {zlib.crc32(v.encode())})"
        if k == "char":
            self.i += 1
            if len(v) == 1: return f"(.nat {ord(v)})"
            raise Unsupported("escaped char literal")
        if k == "p" and v == "(":
            self.i += 1
            if self.at(")"):
                self.i += 1; return ".unit"
            es = [self.nested(self.expr)]
            tup = False
            while self.at(","):
                tup = True; self.i += 1
                if not self.at(")"): es.append(self.nested(self.expr))
            self.eat(")")
            if not tup: return es[0]
            return f"(.ctor 0 [{', '.join(es)}])"
        if k == "p" and v == "{":
            return self.block()
        if k == "p" and v in ("|", "||"):
            return self.closure()
        if k != "id": raise Unsupported(f"expression {self.peek()}")
        if v == "move" and (self.at("|", 1) or self.at("||", 1)):
            self.i += 1; return self.closure()
        if v in ("true", "false"):
            self.i += 1; return f"(.bool {v})"
        if v == "match":
            self.i += 1
            s = self.cond()
            self.eat("{")
            arms = []
            while not self.at("}"):
                self.scopes.append({})
                if self.at("|"): self.i += 1
                p = self.pattern()
                g = "none"
                if self.at_id("if"):
                    self.i += 1; g = f"(some {self.expr()})"
                self.eat("=>")
                body = self.expr()
                self.scopes.pop()
                if self.at(","): self.i += 1
                arms.append(f".mk {p} {g} {body}")
            self.eat("}")
            return f"(.mtch {s} [{', '.join(arms)}])"
        if v == "if":
            self.i += 1
            if self.at_id("let"):
                self.i += 1
                save = self.i
                depth, j = 0, self.i
                while not (self.t[j] == ("p", "=") and depth == 0):
                    kk, vv = self.t[j]
                    if kk == "eof": raise Unsupported("if let")
                    if kk == "p" and vv in "(<[": depth += 1
                    if kk == "p" and vv in ")>]": depth -= 1
                    j += 1
                self.i = j + 1
                s = self.cond()
                end = self.i
                self.scopes.append({})
                self.i = save
                p = self.pattern()
                self.i = end
                t = self.block()
                self.scopes.pop()
                e = self.else_part()
                return f"(.iflet {p} {s} {t} {e})"
            c = self.cond()
            t = self.block()
            e = self.else_part()
            return f"(.ite {c} {t} {e})"
        if v == "for":
            self.i += 1
            self.scopes.append({})
            if self.peek()[0] != "id": raise Unsupported("for pattern")
            x = self.peek()[1]; self.i += 1
            self.eat_id("in")
            self.no_struct += 1
            lo = self.binary(0)
            if not self.at(".."):
                self.no_struct -= 1
                raise Unsupported("for over a non-range")
            self.i += 1
            hi = self.binary(0)
            self.no_struct -= 1
            xid = self.bind(x)
            body = self.block()
            self.scopes.pop()
            return f"(.forRange {xid} {lo} {hi} {body})"
        if v == "loop":
            self.i += 1
            return f"(.loop {self.block()})"
        if v == "while":
            self.i += 1
            if self.at_id("let"): raise Unsupported("while let")
            c = self.cond()
            b = self.block()
            return f"(.loop (.ite {c} {b} .brk))"
        if v == "break":
            self.i += 1
            if not (self.at(";") or self.at("}") or self.at(",")): raise Unsupported("break with value")
            return ".brk"
        if v == "return":
            self.i += 1
            if self.at(";") or self.at("}") or self.at(","): return "(.ret .unit)"
            return f"(.ret {self.expr()})"
        if v == "unsafe" and self.at("{", 1):
            self.i += 1
            return self.block()
        if v in ("continue", "unsafe", "async", "await"): raise Unsupported(v)
        # macro
        if self.at("!", 1) and (self.at("(", 2) or self.at("[", 2)):
            self.i += 2
            close = ")" if self.at("(") else "]"
            self.i += 1
            a = []
            while not self.at(close):
                a.append(self.expr())
                if self.at(","): self.i += 1
            self.eat(close)
            return f"(.mac {self.name(v)} [{', '.join(a)}])"
        # path: variable, constructor, function
        segs = self.path()
        if self.at("{") and segs[-1][0].isupper() and not self.no_struct:
            self.i += 1
            fes = []
            while not self.at("}"):
                if self.at(".."): raise Unsupported("struct update syntax")
                if self.peek()[0] != "id": raise Unsupported("struct literal field")
                f = self.peek()[1]; self.i += 1
                if self.at(":"):
                    self.i += 1
                    fe = self.expr()
                else:
                    if self.lookup(f) is None: raise Unsupported("shorthand field of an unbound name")
                    fe = f"(.var {self.lookup(f)})"
                fes.append(f"({self.name('field.' + f)}, {fe})")
                if self.at(","): self.i += 1
            self.eat("}")
            return f"(.mkStrct [{', '.join(fes)}])"
        if len(segs) == 1 and self.lookup(segs[0]) is not None:
            return f"(.var {self.lookup(segs[0])})"
        key = self.path_key(segs)
        is_ctor = segs[-1][0].isupper()
        if self.at("("):
            a = self.args()
            if is_ctor:
                return f"(.ctor {self.name(key)} [{', '.join(a)}])"
            return f"(.call {self.name(key)} [{', '.join(a)}])"
        if is_ctor:
            return f"(.ctor {self.name(key)} [])"
        if len(segs) >= 2:
            # a function named as a value: `opt.map(Arc::clone)`
            return f"(.fnv {self.name(key)})"
        raise Unsupported(f"free name {'::'.join(segs)}")

    def skip_statement(self):
        """skips one statement: up to the `;` at depth 0, or a block-like statement"""
        depth = 0
        while True:
            k, v = self.peek()
            if k == "eof": raise Unsupported("statement runs to eof")
            if k == "p" and v in "([{": depth += 1
            if k == "p" and v in ")]}":
                if depth == 0: return          # end of the enclosing block: the skipped statement was its tail
                depth -= 1
                if depth == 0 and v == "}" and not self.at(";", 1) and not self.at(".", 1) and not self.at("?", 1):
                    self.i += 1; return
            if k == "p" and v == ";" and depth == 0:
                self.i += 1; return
            self.i += 1

    def cond(self):
        """an expression in a position where `Name {` does not start a struct literal"""
        self.no_struct += 1
        try:
            return self.expr()
        finally:
            self.no_struct -= 1

    def nested(self, f):
        """inside brackets the restriction is lifted"""
        save, self.no_struct = self.no_struct, 0
        try:
            return f()
        finally:
            self.no_struct = save

    def else_part(self):
        if not self.at_id("else"): return ".unit"
        self.i += 1
        if self.at_id("if"): return self.primary()
        return self.block()

    def closure(self):
        self.scopes.append({})
        ps = []
        if self.at("||"):
            self.i += 1
        else:
            self.eat("|")
            while not self.at("|"):
                ps.append(self.pattern1())
                if self.at(":"):
                    self.i += 1; self.skip_type({",", "|"})
                if self.at(","): self.i += 1
            self.eat("|")
        if self.at("->"): raise Unsupported("closure with return type")
        body = self.expr()
        self.scopes.pop()
        return f"(.closure [{', '.join(ps)}] {body})"


# ------------------------------------------------------------------------------------------------ main

def read_names():
    src = open(MODEL).read()
    a = src.index("namespace N")
    b = src.index("end N")
    return {m.group(1): int(m.group(2)) for m in re.finditer(r"^def ([\w\.]+) : Nat := (\d+)", src[a:b], re.M)}


def main():
    N = read_names()
    files, summary, defs = {}, {}, []
    for lean_name, path, ty, trait, fn in TARGETS:
        full = os.path.join(REPO, path)
        body, nparams, has_self, reason, unknown = ".unknown", 0, False, None, []
        try:
            if path not in files:
                files[path] = find_functions(tokenize(open(full).read()))
            cands = [f for f in files[path] if f[0] == ty and f[2] == fn and (trait is None and f[1] is None or trait is not None and f[1] == trait)]
            if len(cands) != 1:
                raise Unsupported(f"{len(cands)} candidates for {ty}::{fn}")
            _, _, _, params, btoks = cands[0]
            p = Parser(btoks + [("eof", "")], N, ty, param_names(params))
            body = p.block()
            nparams, has_self, unknown = p.nparams, p.has_self, sorted(set(p.unknown_names))
        except Unsupported as e:
            reason = str(e); body = ".unknown"
        except Exception as e:  # a translator bug must not take the run down
            reason = "translator: " + repr(e); body = ".unknown"
        summary[lean_name] = {"recognised": reason is None, "reason": reason, "unknown_names": unknown,
                              "source": f"{path} {ty}::{fn}" + (f" ({trait})" if trait else "")}
        defs.append(f"/-- `{path}`: `{ty}::{fn}`" + (f" (`impl {trait}`)" if trait else "") + (f" -- NOT RECOGNISED: {reason}" if reason else "")
                    + (f" -- names without an id: {', '.join(unknown)}" if unknown else "") + " -/\n"
                    + f"def {lean_name} : Fn := ⟨\"{ty}::{fn}\", {nparams}, {'true' if has_self else 'false'},\n  {body}⟩\n")
    text = ("/- GENERATED by tools/rs2lean.py from /repo on every run -- do not edit.  Function bodies transcribed into `Cst.Rs.Expr`. -/\n"
            "import CstModel.Model.Rs\nnamespace Cst\nnamespace Rs\nnamespace Gen\nset_option maxRecDepth 4000\n\n" + "\n".join(defs) + "\nend Gen\nend Rs\nend Cst\n")
    old = open(OUT).read() if os.path.exists(OUT) else None
    if old != text:
        open(OUT, "w").write(text)
    print(json.dumps(summary))


if __name__ == "__main__":
    main()
