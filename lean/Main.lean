import CstModel.Driver.BuilderArea
import CstModel.Driver.InternArea
import CstModel.Driver.GreenArea
import CstModel.Driver.RedArea
import CstModel.Driver.TextArea
import CstModel.Driver.SerdeArea
import CstModel.Driver.DeriveArea
import CstModel.Driver.MemArea
open Cst Cst.Drv

def sessionStep (s : DState) : List String → Option (DState × String)
  | ["syn", k, hex] =>
    match k.toNat?, decodeText hex with
    | some k, some t => some ({ s with statics := (k, t) :: s.statics }, "ok")
    | _, _ => some (s, "bad-op")
  | ["unsyn", k] =>
    match k.toNat? with
    | some k => some ({ s with statics := s.statics.filter (fun e => e.1 != k) }, "ok")
    | none => some (s, "bad-op")
  | ["cfg", "mask", m] =>
    match m.toNat? with
    | some m => some ({ s with mask := UInt32.ofNat m }, "ok")
    | none => some (s, "bad-op")
  | ["cfg", "debug", v] => some ({ s with debug := v == "1" }, "ok")
  | ["cfg", "cmp", v] => some ({ s with cmp := v == "1" }, "ok")
  | ["cfg", "threshold", n] =>
    match n.toNat? with
    | some n => some ({ s with threshold := n }, "ok")
    | none => some (s, "bad-op")
  | ["case", n] => some (s.resetCase, s!"case {n}")
  | ["note", _] => some (s, "ok")
  | ["deepfmt", _] => some (s, "ok")
  | ["chback", _, _, _] => some (s, "ok")   -- implementation-side only: front/back reads of one child iterator, should it offer them (C02)
  | ["kindstamp"] => some (s, "ok")         -- implementation-side only: does the tree keep values of the kind type? (C08)   -- implementation-side only: formatting a deep chain on a small stack (C19 totality)
  | ["reset"] => some ({ s.resetCase with statics := [], mask := 0xFFFFFFFF }, "ok")
  | _ => none

def stepLine (s : DState) (line : String) : DState × String :=
  let ws := line.trimAscii.toString.splitOn " "
  match sessionStep s ws with
  | some r => r
  | none =>
    match (match wbuildStep s ws with | some r => some r | none => builderStep s ws) with
    | some r => r
    | none =>
      match internStep s ws with
      | some r => r
      | none =>
        match greenStep s ws with
        | some r => r
        | none =>
          match redStep s ws with
          | some r => r
          | none =>
            match fmtStep s ws with
            | some r => r
            | none =>
              match textStep s ws with
              | some r => r
              | none =>
                match serdeStep s ws with
                | some r => r
                | none =>
                  match deriveStep s ws with
                  | some r => r
                  | none =>
                    match concStep s ws with
                    | some (s1, o1) =>
                      -- the happens-before model follows the same events
                      (match memStep s1 ws with
                       | some (s2, o2) => (s2, if o1 == "ok" then o2 else o1)
                       | none => (s1, o1))
                    | none =>
                      match dataStep s ws with
                      | some r => r
                      | none => (s, "bad-op")

partial def loop (h : IO.FS.Stream) (out : IO.FS.Stream) (s : DState) : IO Unit := do
  let line ← h.getLine
  if line.isEmpty then return ()
  let (s', o) := stepLine s line
  out.putStrLn o
  loop h out s'

def main : IO Unit := do
  let stdin ← IO.getStdin
  let stdout ← IO.getStdout
  loop stdin stdout { threshold := Cst.DriverFacts.childrenCacheThreshold,
                      cmp := Cst.DriverFacts.nodeCacheComparesChildren,
                      dbgWindow := (Cst.DriverFacts.debugAbbrevThreshold, Cst.DriverFacts.debugWindowLo, Cst.DriverFacts.debugWindowHi) }
