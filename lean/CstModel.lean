import CstModel.Model.Text
import CstModel.Model.Interner
import CstModel.Model.Fx
import CstModel.Model.Green
import CstModel.Model.Builder
import CstModel.Model.Tree
