/-
  Model/GreenOps — direct node construction (`GreenNode::new`), paths into green trees, and the
  child iterator `GreenNodeChildren` (`green/iter.rs`).

  `GreenNodeChildren` wraps `slice::Iter`, i.e. its state is the not-yet-consumed sub-slice of the
  children.  Everything is forwarded to the slice iterator (std, trusted) except `last`
  (`self.next_back()`), `fold` (a `for` loop over `self`) and `rfold` (a `while let next_back`
  loop); those three are modelled as coded.
-/
import CstModel.Model.Builder
namespace Cst

/-- `GreenNode::new(kind, children)`: length and hash are recomputed from the children -/
def Green.mkNew (H : HashFn) (id kind : Nat) (cs : List Green) : Green :=
  .node id kind (sumLen cs) (H cs) cs

/-- the element at a path of child indices -/
def Green.get : Green → List Nat → Option Green
  | g, [] => some g
  | g, i :: p =>
    match g.children[i]? with
    | some c => Green.get c p
    | none => none

/-- iterator state: the remaining children -/
abbrev ChildIter := List Green

namespace ChildIter

def next (it : ChildIter) : Option Green × ChildIter :=
  match it with
  | [] => (none, [])
  | g :: r => (some g, r)

def nextBack (it : ChildIter) : Option Green × ChildIter :=
  match it.getLast? with
  | none => (none, [])
  | some g => (some g, it.dropLast)

/-- `slice::Iter::nth(n)`: skips `n`, returns the next; exhausts the iterator when too short -/
def nth (it : ChildIter) (n : Nat) : Option Green × ChildIter :=
  if n < it.length then next (it.drop n) else (none, [])

/-- `slice::Iter::nth_back(n)` -/
def nthBack (it : ChildIter) (n : Nat) : Option Green × ChildIter :=
  if n < it.length then nextBack (it.take (it.length - n)) else (none, [])

def len (it : ChildIter) : Nat := it.length

/-- `last(mut self) = self.next_back()` -/
def last (it : ChildIter) : Option Green := (nextBack it).1

/-- `fold`: `for x in self { accum = f(accum, x) }`, with fuel = remaining length -/
def foldLoop {α : Type} (f : α → Green → α) : Nat → α → ChildIter → α
  | 0, acc, _ => acc
  | n + 1, acc, it =>
    match next it with
    | (some x, r) => foldLoop f n (f acc x) r
    | (none, _) => acc

def fold {α : Type} (f : α → Green → α) (init : α) (it : ChildIter) : α := foldLoop f it.length init it

/-- `rfold`: `while let Some(x) = self.next_back() { accum = f(accum, x) }` -/
def rfoldLoop {α : Type} (f : α → Green → α) : Nat → α → ChildIter → α
  | 0, acc, _ => acc
  | n + 1, acc, it =>
    match nextBack it with
    | (some x, r) => rfoldLoop f n (f acc x) r
    | (none, _) => acc

def rfold {α : Type} (f : α → Green → α) (init : α) (it : ChildIter) : α := rfoldLoop f it.length init it

end ChildIter
end Cst
