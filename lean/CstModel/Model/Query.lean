/-
  Model/Query — `token_at_offset`, `covering_element` (`syntax/node.rs`, `element.rs`),
  `replace_with` (`node.rs`, `token.rs`), display / debug (`node.rs`, `token.rs`).
-/
import CstModel.Model.Red
namespace Cst
namespace Red

inductive TAO where
  | none
  | single (t : Path)
  | between (l r : Path)
  | panic
  deriving Repr, DecidableEq

def nonEmptyContaining (r : Red) (off : Nat) (c : Path) : Bool :=
  match r.range c with
  | some (s, e) => s != e && s ≤ off && off ≤ e
  | none => false

/-- `SyntaxNode::token_at_offset` / `SyntaxElementRef::token_at_offset`; fuel = sub-tree size -/
def tokenAtOffsetGo : Nat → Red → Path → Nat → TAO × Red
  | 0, r, _, _ => (.panic, r)
  | n + 1, r, p, off =>
    match r.range p with
    | none => (.panic, r)
    | some (s, e) =>
      if !(s ≤ off && off ≤ e) then (.panic, r)          -- assert!(range.start() <= offset && ..)
      else if r.isToken p then (.single p, r)
      else if s == e then (.none, r)                      -- range.is_empty()
      else
        let (cs, r1) := r.childrenWithTokens p
        match cs.filter (nonEmptyContaining r1 off) with
        | [] => (.panic, r1)                              -- children.next().unwrap()
        | [l] => tokenAtOffsetGo n r1 l off
        | [l, rt] =>
          let (a, r2) := tokenAtOffsetGo n r1 l off
          let (b, r3) := tokenAtOffsetGo n r2 rt off
          (match a, b with
           | .single x, .single y => (.between x y, r3)
           | _, _ => (.panic, r3))                        -- unreachable!()
        | _ => (.panic, r1)                               -- assert!(children.next().is_none())

def tokenAtOffset (r : Red) (p : Path) (off : Nat) : TAO × Red :=
  tokenAtOffsetGo (walkFuel r p) r p off

/-- `TextRange::contains_range` -/
def containsRange (a : Nat × Nat) (b : Nat × Nat) : Bool := a.1 ≤ b.1 && b.2 ≤ a.2

/-- `children_with_tokens().find(|child| child.text_range().contains_range(range))` — lazy: only
    the children up to the one found are materialised -/
def findCovering (rg : Nat × Nat) (it : It) (r : Red) : Nat → Option Path × Red
  | 0 => (none, r)
  | k + 1 =>
    match it.nextElem r with
    | (some c, it', r') =>
      (match r'.range c with
       | some cr => if containsRange cr rg then (some c, r') else findCovering rg it' r' k
       | none => (none, r'))
    | (none, _, r') => (none, r')

/-- `covering_element`: `none` = the assertion failed (panic) -/
def coveringGo : Nat → Red → Path → (Nat × Nat) → Option Path × Red
  | 0, r, _, _ => (none, r)
  | n + 1, r, p, rg =>
    match r.range p with
    | none => (none, r)
    | some pr =>
      if !containsRange pr rg then (none, r)
      else if r.isToken p then (some p, r)
      else
        match iterNew r p with
        | none => (none, r)
        | some it =>
          match findCovering rg it r (it.rest.length + 1) with
          | (some c, r') => coveringGo n r' c rg
          | (none, r') => (some p, r')

def coveringElement (r : Red) (p : Path) (rg : Nat × Nat) : Option Path × Red :=
  coveringGo (walkFuel r p) r p rg

end Red

/-! ### replace_with -/

/-- rebuild the spine above `p` with `GreenNode::new` (length and hash recomputed); `none` when the
    path does not exist.  The code works bottom-up through parent links; top-down recursion over the
    path builds the same value.  Every rebuilt spine node is a fresh allocation (ghost ids
    `id + depth below`). -/
def replaceG (H : HashFn) (id : Nat) : Green → Path → Green → Option Green
  | _, [], new => some new
  | g, i :: p, new =>
    match g.children[i]? with
    | some c => (replaceG H id c p new).map (fun c' => Green.mkNew H (id + p.length) g.kind (g.children.set i c'))
    | none => none

/-- `SyntaxNode::replace_with` / `SyntaxToken::replace_with`: kind assertion first (`none` = panic) -/
def replaceWith (H : HashFn) (id : Nat) (root : Green) (p : Path) (new : Green) : Option Green :=
  match Green.get root p with
  | some old => if old.kind = new.kind && old.isNode = new.isNode then replaceG H id root p new else none
  | none => none

/-! ### display / debug -/

/-- the part of the text shown by `SyntaxToken::write_debug`: the whole text when shorter than
    `threshold`, else the prefix up to the first char boundary in `[lo, hi)` followed by `" ..."`;
    `none` = `unreachable!()` -/
def abbrevGo (t : Text) : Nat → Nat → Option Text
  | _, 0 => none
  | idx, k + 1 =>
    if isBoundary t idx then (takeBytes t idx).map (· ++ " ...".toList)
    else abbrevGo t (idx + 1) k

def tokenDebugText (threshold lo hi : Nat) (t : Text) : Option Text :=
  if blen t < threshold then some t else abbrevGo t lo (hi - lo)

end Cst
