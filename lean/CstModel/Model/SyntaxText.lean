/-
  Model/SyntaxText — the lazy text view of a node (`syntax/text.rs`): a node, an absolute byte
  range inside the node's range, and a resolver.  Every query runs over the *chunks*: the tokens
  of the sub-tree whose range intersects the view's range (touching ranges intersect in an empty
  range, as `TextRange::intersect` does), each cut to the intersection with `&text[range]` — which
  panics when an end is not on a character boundary (`none` below).
-/
import CstModel.Model.Fmt
namespace Cst
namespace Red

structure View where
  node : Path
  range : Nat × Nat
  deriving Repr

/-- `TextRange::intersect` -/
def intersect (a b : Nat × Nat) : Option (Nat × Nat) :=
  let s := max a.1 b.1
  let e := min a.2 b.2
  if e < s then none else some (s, e)

/-- `tokens_with_ranges`: `(token, range relative to the token)` for every token of the sub-tree
    whose range intersects the view -/
def cutOf (r : Red) (rg : Nat × Nat) (q : Path) : Option (Path × (Nat × Nat)) :=
  match r.range q with
  | some tr => (intersect rg tr).map (fun ir => (q, (ir.1 - tr.1, ir.2 - tr.1)))
  | none => none

def tokensWithRanges (r : Red) (v : View) : List (Path × (Nat × Nat)) × Red :=
  let (ps, r') := r.descendantsWithTokens v.node
  let toks := ps.filter r'.isToken
  (toks.filterMap (cutOf r' v.range), r')

/-- one chunk: `&token.resolve_text(resolver)[range]`; `none` = slice panic / unresolvable -/
def chunkOf (cfg : Cfg) (I : Interner) (r : Red) (x : Path × (Nat × Nat)) : Option Text :=
  match (r.green x.1).bind (tokenText cfg I) with
  | some t => sliceBytes t x.2.1 x.2.2
  | none => none

def chunks (cfg : Cfg) (I : Interner) (r : Red) (v : View) : List (Option Text) × Red :=
  let (ts, r') := tokensWithRanges r v
  (ts.map (chunkOf cfg I r'), r')

end Red

/-! ### queries over a chunk list; chunks are evaluated lazily, so a panicking chunk only matters
    when the query reaches it (`none` result = panic) -/

/-- `to_string` / `Display`: all chunks -/
def chunksConcat : List (Option Text) → Option Text
  | [] => some []
  | none :: _ => none
  | some c :: cs => (chunksConcat cs).map (c ++ ·)

/-- `contains_char`: stops at the first chunk that contains it -/
def chunksContain (c : Char) : List (Option Text) → Option Bool
  | [] => some false
  | none :: _ => none
  | some ch :: cs => if ch.contains c then some true else chunksContain c cs

/-- `find_char`: running accumulator of chunk lengths -/
def chunksFind (c : Char) : Nat → List (Option Text) → Option (Option Nat)
  | _, [] => some none
  | _, none :: _ => none
  | acc, some ch :: cs =>
    match findChar ch c with
    | some pos => some (some (acc + pos))
    | none => chunksFind c (acc + blen ch) cs

/-- `char_at`: the chunk with `start <= offset < end`, then `chunk[off..].chars().next().unwrap()` -/
def chunksCharAt (off : Nat) : Nat → List (Option Text) → Option (Option Char)
  | _, [] => some none
  | _, none :: _ => none
  | start, some ch :: cs =>
    let e := start + blen ch
    if start ≤ off ∧ off < e then
      match dropBytes ch (off - start) with
      | some rest => (match rest.head? with | some c => some (some c) | none => none)
      | none => none
    else chunksCharAt off e cs

/-- `PartialEq<str>`: strip each chunk off the front of `rhs`; at the end `rhs` must be empty -/
def chunksEqStr : List (Option Text) → Text → Option Bool
  | [], rhs => some rhs.isEmpty
  | none :: _, _ => none
  | some ch :: cs, rhs => if ch.isPrefixOf rhs then chunksEqStr cs (rhs.drop ch.length) else some false

/-- `SyntaxText::slice`: the three assertions; `none` = panic -/
def viewSlice (v : Red.View) (a b : Option Nat) : Option Red.View :=
  let len := v.range.2 - v.range.1
  let start := a.getD 0
  let end_ := b.getD len
  if !(start ≤ end_) then none
  else
    let l := end_ - start
    let s := v.range.1 + start
    let e := s + l
    -- `start <= end` holds by construction; `self.range.contains_range(range)`
    if v.range.1 ≤ s ∧ e ≤ v.range.2 then some { v with range := (s, e) } else none

/-! ### view == view: the two-pointer comparison `zip_texts` -/

/-- `zip_texts` on the texts of the remaining chunks; returns whether a mismatch was found, plus what
    is left of both iterators.  Fuel = total remaining length + number of chunks. -/
def zipTexts : Nat → Text → List Text → Text → List Text → Bool × List Text × List Text
  | 0, _, xs, _, ys => (false, xs, ys)
  | n + 1, x, xs, y, ys =>
    if x = [] then
      match xs with
      | [] => (false, [], ys)
      | c :: xs' => zipTexts n c xs' y ys
    else if y = [] then
      match ys with
      | [] => (false, xs, [])
      | d :: ys' => zipTexts n x xs d ys'
    else if y.isPrefixOf x then zipTexts n (x.drop y.length) xs [] ys
    else if x.isPrefixOf y then zipTexts n [] xs (y.drop x.length) ys
    else (true, xs, ys)

def zipFuel (xs ys : List Text) : Nat :=
  (xs.map (fun c => c.length + 1)).sum + (ys.map (fun c => c.length + 1)).sum + 2

/-- `PartialEq<SyntaxText> for SyntaxText` on the chunk texts of both sides (all chunks evaluated:
    `none` if any of them panics) -/
def viewsEq (lenA lenB : Nat) (xs ys : List Text) : Bool :=
  if lenA != lenB then false
  else
    match xs, ys with
    | [], _ => ys.all (·.isEmpty)      -- `xs.next()?` is None: zip_texts returns None; then both `all`s
    | x :: xs', [] => (x :: xs').tail.all (·.isEmpty)  -- x was consumed by `xs.next()?`, then `ys.next()?` fails
    | x :: xs', y :: ys' =>
      let (mis, rx, ry) := zipTexts (zipFuel (x :: xs') (y :: ys')) x xs' y ys'
      !mis && rx.all (·.isEmpty) && ry.all (·.isEmpty)

end Cst
