/-
  Model/Markers — which handle types may cross a thread boundary, as rustc decides it from the
  `unsafe impl Send/Sync for SyntaxNode<S, D>` (the only explicit impls in the syntax module: a
  `SyntaxNode` holds a `NonNull`, so nothing is derived automatically; tokens, elements and the
  resolved wrappers are structs/enums of nodes and inherit structurally) and from the bounds of the
  constructors that accept a resolver.  The decision depends on the data type `D` and the resolver
  type `R` only through four booleans.
-/
namespace Cst

structure MarkerFacts where
  /-- bounds on `D` required by `unsafe impl Send for SyntaxNode<S, D>` -/
  sendNeedsDSend : Bool
  sendNeedsDSync : Bool
  /-- bounds on `D` required by `unsafe impl Sync for SyntaxNode<S, D>` -/
  syncNeedsDSend : Bool
  syncNeedsDSync : Bool
  /-- bounds on the resolver required by both `new_root_with_resolver` constructors -/
  ctorNeedsRSend : Bool
  ctorNeedsRSync : Bool
  deriving DecidableEq, Repr

/-- is `Handle<D>: Send` (`sync = false`) / `Sync` (`sync = true`) accepted for a data type with
    the given capabilities (for a generic function: the bounds it declares on `D`) -/
def handleOk (F : MarkerFacts) (sync : Bool) (dSend dSync : Bool) : Bool :=
  if sync then (!F.syncNeedsDSend || dSend) && (!F.syncNeedsDSync || dSync)
  else (!F.sendNeedsDSend || dSend) && (!F.sendNeedsDSync || dSync)

/-- can a tree be constructed with a resolver of the given capabilities -/
def ctorOk (F : MarkerFacts) (rSend rSync : Bool) : Bool :=
  (!F.ctorNeedsRSend || rSend) && (!F.ctorNeedsRSync || rSync)

/-- a program that constructs a tree over data `D` with resolver `R` and then moves (or shares) a
    handle across threads is accepted -/
def accepted (F : MarkerFacts) (sync : Bool) (dSend dSync rSend rSync : Bool) : Bool :=
  ctorOk F rSend rSync && handleOk F sync dSend dSync

/-- a lazy text view `SyntaxText<'_, '_, I, S, D>` is a plain struct of a `&SyntaxNode<S, D>` and a `&I` (no explicit
    marker impl): it may be sent or shared exactly when the node handle and the resolver may be *shared* -/
def textOk (F : MarkerFacts) (dSend dSync rSync : Bool) : Bool :=
  handleOk F true dSend dSync && rSync

/-- the kind type `S` is never stored in a tree: a handle over a kind type without the auto traits (or over any
    `S: Syntax` in a generic function) is judged by `D` alone, unless the marker impls constrain `S` -/
def kindFreeOk (F : MarkerFacts) (constrainS : Bool) (sync : Bool) (dSend dSync : Bool) : Bool :=
  !constrainS && handleOk F sync dSend dSync

/-- the traversal iterators (`children()`, `descendants()`, `preorder()`, `ancestors()`, `siblings()` … of plain and resolved
    nodes) are `impl Iterator` values holding references to, and clones of, handles of the tree: for thread-safe data they
    cross a thread boundary like the handles do, for data that is neither `Send` nor `Sync` they do not (their auto traits
    leak through the opaque type, so whatever the implementation captures decides) -/
def iterOk (F : MarkerFacts) (dSend dSync : Bool) : Bool :=
  handleOk F true dSend dSync && handleOk F false dSend dSync

end Cst
