/-
  Model/Rs — a deep embedding of the fragment of Rust that `tools/rs2lean.py` transcribes function bodies of
  `/repo` into (`Generated/RsFns.lean`, rewritten on every run), and its evaluator.

  The translator does *syntax only*: it parses a function body and prints it as a value of `Expr`
  (names are numbers: the ids of `Rs.N` below for constructors, methods, macros and operators the
  evaluator or a theorem has to know, `self` = 0, parameters 1, 2, … in order, locals numbered in order
  of binding — so renaming a local changes nothing).  What the syntax *means* is the evaluator of this
  file, once, for all functions; the theorems of `Props/*` (`gen_*`) then say that evaluating the
  transcribed body on the encoding of any model value gives the encoding of what the hand-written model
  function computes.  A body the translator cannot parse becomes `Expr.unknown` (evaluates to `stuck`),
  a method it has no id for becomes id 9999 (no semantics): either way the theorem about that function no
  longer holds and the runner searches for a failing input.

  Ownership is erased (`&`, `&mut`, `*`, `ref`, `.clone()`, `.into()` are the identity), integers are
  `Nat` (subtraction below zero panics), evaluation takes fuel (`loop`/`for` need it; every theorem fixes
  a number).  Calls into code that is not transcribed are interpreted by a `Sem` the theorem supplies.
-/
import CstModel.Model.Text
namespace Cst
namespace Rs


-- names the evaluator or the theorems must recognise; `tools/rs2lean.py` reads this table from this file
namespace N
-- constructors
def tuple : Nat := 0
def Some : Nat := 1
def None : Nat := 2
def Ok : Nat := 3
def Err : Nat := 4
def NodeOrToken.Node : Nat := 10
def NodeOrToken.Token : Nat := 11
def WalkEvent.Enter : Nat := 12
def WalkEvent.Leave : Nat := 13
def TokenAtOffset.None : Nat := 14
def TokenAtOffset.Single : Nat := 15
def TokenAtOffset.Between : Nat := 16
def MaybeOwned.Owned : Nat := 17
def MaybeOwned.Borrowed : Nat := 18
def Direction.Next : Nat := 19
def Direction.Prev : Nat := 20
def Kind.Root : Nat := 23
def Kind.Child : Nat := 24
def ptr : Nat := 22                 -- a raw pointer the `Sem` handed out: `*p` and `*p = v` are the `Sem`'s
def Ordering.Relaxed : Nat := 30
def Ordering.Release : Nat := 31
def Ordering.Acquire : Nat := 32
def Ordering.AcqRel : Nat := 33
def Ordering.SeqCst : Nat := 34
def SyntaxElement.Node : Nat := 10
def SyntaxElement.Token : Nat := 11
-- built-in methods (interpreted by the evaluator)
def is_some : Nat := 100
def is_none : Nat := 101
def unwrap : Nat := 102
def expect : Nat := 103
def or_else : Nat := 104
def map : Nat := 105
def and_then : Nat := 106
def unwrap_or : Nat := 107
def clone : Nat := 108
def into : Nat := 109
def as_ref : Nat := 110
def as_mut : Nat := 111
def cloned : Nat := 112
def copied : Nat := 113
def unwrap_or_else : Nat := 114
def ok_or_else : Nat := 115
def filter : Nat := 116
def is_empty_opt : Nat := 117
-- methods interpreted by a theorem's `Sem`
def fmt : Nat := 200
def len : Nat := 201
def is_char_boundary : Nat := 202
def slice : Nat := 203          -- `&e[lo..hi]`, args = [Option lo, Option hi]
def index : Nat := 204          -- `e[i]`
def green : Nat := 205
def text_key : Nat := 206
def static_text : Nat := 207
def syntax_kind : Nat := 208
def kind : Nat := 209
def text : Nat := 210
def text_len : Nat := 211
def text_range : Nat := 212
def resolve_text : Nat := 213
def is_empty : Nat := 214
def push : Nat := 215
def pop : Nat := 216
def last : Nat := 217
def truncate : Nat := 218
def drain_from : Nat := 219
def from_raw : Nat := 220
def into_raw : Nat := 221
def contains_range : Nat := 222
def child_or_token_at_range : Nat := 223
def start : Nat := 224
def end_ : Nat := 225
def insert : Nat := 226
def raw : Nat := 227
def offset : Nat := 228
-- free functions / associated functions
def Iter.new : Nat := 314
def SyntaxNode.new_child : Nat := 312
def SyntaxElement.new : Nat := 313
def try_write : Nat := 252
def Arc.new : Nat := 310
def Arc.clone : Nat := 311
def drop : Nat := 307
def Box.from_raw : Nat := 308
def ptr_write : Nat := 309
def mem_replace : Nat := 300     -- `std::mem::replace(place, v)`: yields the old value, stores `v`
def mem_take : Nat := 301
def TextRange.at : Nat := 302
def TextRange.new : Nat := 303
def TextSize.from : Nat := 304
-- macros
def unreachable : Nat := 400
def panic : Nat := 401
def assert : Nat := 402
def debug_assert : Nat := 403
def assert_eq : Nat := 404
def debug_assert_eq : Nat := 405
def write : Nat := 406
def format : Nat := 407
def assert_ne : Nat := 408
-- operators
def eq : Nat := 500
def ne : Nat := 501
def lt : Nat := 502
def le : Nat := 503
def gt : Nat := 504
def ge : Nat := 505
def and : Nat := 506
def or : Nat := 507
def add : Nat := 508
def sub : Nat := 509
def mul : Nat := 510
-- more names
def S.static_text : Nat := 305
def S.from_raw : Nat := 315
def S.into_raw : Nat := 306
def range : Nat := 21
def find : Nat := 118
def try_get_or_intern : Nat := 235
def get_or_intern : Nat := 236
def try_resolve : Nat := 237
def resolve : Nat := 238
def deref : Nat := 119
def as_child : Nat := 253
def next : Nat := 254
def next_child_or_token_after : Nat := 260
def prev_child_or_token_before : Nat := 261
def nth : Nat := 262
def as_token : Nat := 263
def children_from : Nat := 258
def children_to : Nat := 259
def get_or_add_element : Nat := 256
def get_or_add_node : Nat := 257
def children : Nat := 255
def data : Nat := 239
def fetch_add : Nat := 241
def fetch_sub : Nat := 242
def get_unchecked : Nat := 243
def read : Nat := 244

def root : Nat := 246
def clone_uncounted : Nat := 247
def drop_recursive : Nat := 248
def as_ptr : Nat := 249
def parent : Nat := 250
def load : Nat := 251
def resolver : Nat := 240
def get : Nat := 229
def checked_sub : Nat := 230
def token : Nat := 231
def node : Nat := 232
def intern : Nat := 233
def into_owned : Nat := 234
-- fields
def field.text : Nat := 613
def field.kind : Nat := 614
def field.text_len : Nat := 615
def field.inner : Nat := 619
def field.ref_count : Nat := 616
def field.data : Nat := 617
def field.child_locks : Nat := 618
def field.parent_idx : Nat := 610
def field.child_idx : Nat := 611
def field.interner : Nat := 612
def field.offset : Nat := 600
def field.parent : Nat := 601
def field.index : Nat := 602
def field.children : Nat := 603
def field.parents : Nat := 604
def field.cache : Nat := 605
def field.green : Nat := 606
-- anything else
def unknownName : Nat := 9999
end N

/-! ### values -/

inductive Val where
  | unit
  | nat (n : Nat)
  | bool (b : Bool)
  | atom (n : Nat)                      -- an opaque value of a generic type
  | text (t : Text)
  | fn (k : Nat)                        -- a function value (a closure parameter such as `f` in `map`)
  | ctor (c : Nat) (args : List Val)    -- enum variant, `Some`/`None`, tuple (`c = 0`)
  | strct (fields : List (Nat × Val))   -- struct
  | sym (id : Nat) (v : Val)            -- a value known to the `Sem` under a name: operators on it are the `Sem`'s to answer
  deriving Inhabited

mutual
def Val.beq : Val → Val → Bool
  | .unit, .unit => true
  | .nat a, .nat b => a == b
  | .bool a, .bool b => a == b
  | .atom a, .atom b => a == b
  | .text a, .text b => a == b
  | .fn a, .fn b => a == b
  | .ctor c as, .ctor d bs => c == d && Val.beqL as bs
  | .strct fs, .strct gs => Val.beqF fs gs
  | .sym i a, .sym j b => i == j && Val.beq a b
  | _, _ => false
def Val.beqL : List Val → List Val → Bool
  | [], [] => true
  | a :: as, b :: bs => Val.beq a b && Val.beqL as bs
  | _, _ => false
def Val.beqF : List (Nat × Val) → List (Nat × Val) → Bool
  | [], [] => true
  | (f, a) :: as, (g, b) :: bs => f == g && Val.beq a b && Val.beqF as bs
  | _, _ => false
end

def vNone : Val := .ctor N.None []
def vSome (v : Val) : Val := .ctor N.Some [v]
def vOpt : Option Val → Val | none => vNone | some v => vSome v
def vTuple (vs : List Val) : Val := .ctor N.tuple vs

/-! ### syntax -/

inductive Pat where
  | wild
  | bind (x : Nat)
  | lit (n : Nat)
  | ctor (c : Nat) (args : List Pat)
  | strct (fields : List (Nat × Pat))                  -- `T { f: p, g, .. }`: the listed fields
  | alt (ps : List Pat)                                -- `p | q` (alternatives that bind nothing)
  deriving Inhabited

mutual
inductive Expr where
  | var (x : Nat)
  | nat (n : Nat)
  | bool (b : Bool)
  | strlit (k : Nat)                                   -- a string literal, by the CRC-32 of its contents
  | unit
  | ctor (c : Nat) (args : List Expr)
  | call (f : Nat) (args : List Expr)                  -- free / associated function by id
  | app (f : Expr) (args : List Expr)                  -- call of a function value: `f(it)`
  | meth (recv : Expr) (m : Nat) (args : List Expr)
  | field (e : Expr) (f : Nat)
  | mtch (s : Expr) (arms : List Arm)
  | ite (c t e : Expr)
  | iflet (p : Pat) (s t e : Expr)
  | bin (op : Nat) (a b : Expr)
  | neg (a : Expr)
  | block (ss : List Stmt) (result : Expr)
  | ret (e : Expr)
  | try_ (e : Expr)                                    -- `e?`
  | forRange (x : Nat) (lo hi body : Expr)
  | loop (body : Expr)
  | brk
  | mac (m : Nat) (args : List Expr)
  | closure (params : List Pat) (body : Expr)
  | mkStrct (fields : List (Nat × Expr))               -- struct literal `T { f: e, … }`
  | range (lo hi : Expr)                               -- `lo..hi` as a value (only `.find(|x| …)` is given a meaning)
  | fnv (k : Nat)                                      -- a function named as a value (`.map(Arc::clone)`)
  | unknown
inductive Stmt where
  | letS (p : Pat) (e : Expr)
  | assign (place e : Expr)
  | exprS (e : Expr)
inductive Arm where
  | mk (p : Pat) (guard : Option Expr) (body : Expr)
end
instance : Inhabited Expr := ⟨.unknown⟩

/-- one transcribed function -/
structure Fn where
  name : String
  nparams : Nat          -- parameters besides `self` (ids 1 … nparams)
  hasSelf : Bool
  body : Expr

/-! ### environments -/

abbrev Env := List (Nat × Val)

def Env.get (ρ : Env) (x : Nat) : Option Val :=
  match ρ with
  | [] => none
  | (y, v) :: ρ' => if x == y then some v else Env.get ρ' x

def Env.set (ρ : Env) (x : Nat) (v : Val) : Env :=
  match ρ with
  | [] => [(x, v)]
  | (y, w) :: ρ' => if x == y then (y, v) :: ρ' else (y, w) :: Env.set ρ' x v

/-- the effect log lives in the environment under this id -/
def logId : Nat := 99999
def Env.log (ρ : Env) (ev : Val) : Env :=
  match ρ.get logId with
  | some (.ctor 0 evs) => ρ.set logId (.ctor 0 (evs ++ [ev]))
  | _ => ρ.set logId (.ctor 0 [ev])

def recGet (fs : List (Nat × Val)) (f : Nat) : Option Val := Env.get fs f
def recSet (fs : List (Nat × Val)) (f : Nat) (v : Val) : List (Nat × Val) := Env.set fs f v

/-! ### semantics of what is not transcribed -/

/-- answer of something that is not transcribed: a value (for a method also the receiver afterwards), a panic,
    or "no meaning given" -/
inductive MRes where
  | ok (v : Val) (recv : Val)
  | okM (v : Val) (recv : Val) (args : List Val)       -- also the arguments afterwards (`&mut` parameters)
  | okE (v : Val) (recv : Val) (event : Val)           -- an effect outside the function's own places: appended to the log
  | panic
  | unknown

structure Sem where
  /-- method `m` on receiver with arguments -/
  meth : Nat → Val → List Val → MRes
  /-- free function (the receiver component of the answer is ignored) -/
  call : Nat → List Val → MRes
  /-- function value `k` applied -/
  app : Nat → List Val → Option Val
  /-- `debug_assert!` is compiled in -/
  debug : Bool

inductive Res where
  | ok (v : Val) (ρ : Env)
  | ret (v : Val) (ρ : Env)
  | brk (ρ : Env)
  | panic (ρ : Env)          -- the environment at the point of the panic: what a `catch_unwind` finds
  | stuck
  deriving Inhabited

inductive ResL where
  | ok (vs : List Val) (ρ : Env)
  | ret (v : Val) (ρ : Env)
  | brk (ρ : Env)
  | panic (ρ : Env)
  | stuck

/-! ### patterns -/

mutual
def matchPat : Pat → Val → Env → Option Env
  | .wild, _, ρ => some ρ
  | .bind x, v, ρ => some (ρ.set x v)
  | .lit n, .sym _ (.nat m), ρ => if n == m then some ρ else none
  | .lit n, .nat m, ρ => if n == m then some ρ else none
  | .lit _, _, _ => none
  | .ctor c ps, .ctor d vs, ρ => if c == d then matchPats ps vs ρ else none
  | .ctor _ _, _, _ => none
  | .strct fps, .strct fs, ρ => matchFields fps fs ρ
  | .strct _, _, _ => none
  | .alt ps, v, ρ => matchAlt ps v ρ
def matchAlt : List Pat → Val → Env → Option Env
  | [], _, _ => none
  | p :: ps, v, ρ => match matchPat p v ρ with
    | some ρ' => some ρ'
    | none => matchAlt ps v ρ
def matchFields : List (Nat × Pat) → List (Nat × Val) → Env → Option Env
  | [], _, ρ => some ρ
  | (f, p) :: fps, fs, ρ => match recGet fs f with
    | some v => (match matchPat p v ρ with
      | some ρ' => matchFields fps fs ρ'
      | none => none)
    | none => none
def matchPats : List Pat → List Val → Env → Option Env
  | [], [], ρ => some ρ
  | p :: ps, v :: vs, ρ => match matchPat p v ρ with
    | some ρ' => matchPats ps vs ρ'
    | none => none
  | _, _, _ => none
end

/-! ### places (what an assignment or a `&mut self` method writes back to) -/

def readPlace (ρ : Env) : Expr → Option Val
  | .var x => ρ.get x
  | .field e f => match readPlace ρ e with
    | some (.strct fs) => recGet fs f
    | _ => none
  | _ => none

def writePlace (ρ : Env) : Expr → Val → Option Env
  | .var x, v => some (ρ.set x v)
  | .field e f, v => match readPlace ρ e with
    | some (.strct fs) => writePlace ρ e (.strct (recSet fs f v))
    | _ => none
  | _, _ => none

def isPlace : Expr → Bool
  | .var _ => true
  | .field e _ => isPlace e
  | _ => false

/-- after a call that mutated `&mut` arguments: the arguments that are places take their new values -/
def writeBack (ρ : Env) : List Expr → List Val → Option Env
  | [], _ => some ρ
  | _ :: _, [] => some ρ
  | e :: es, v :: vs =>
    if isPlace e then (match writePlace ρ e v with
      | some ρ' => writeBack ρ' es vs
      | none => none)
    else writeBack ρ es vs

/-! ### operators -/

def binop (op : Nat) (a b : Val) : Option Val :=
  if op == N.eq then some (.bool (Val.beq a b))
  else if op == N.ne then some (.bool (!Val.beq a b))
  else match a, b with
    | .nat x, .nat y =>
      if op == N.lt then some (.bool (x < y))
      else if op == N.le then some (.bool (x ≤ y))
      else if op == N.gt then some (.bool (x > y))
      else if op == N.ge then some (.bool (x ≥ y))
      else if op == N.add then some (.nat (x + y))
      else if op == N.mul then some (.nat (x * y))
      else if op == N.sub then (if y ≤ x then some (.nat (x - y)) else none)
      else none
    | _, _ => none

def isOpt : Val → Bool
  | .ctor c _ => c == N.Some || c == N.None
  | _ => false

def isSym : Val → Bool
  | .sym _ _ => true
  | _ => false

/-- a value that is scrutinised: a pointer is loaded through (`Sem` method `deref`), anything else is itself -/
def loadThrough (S : Sem) (ρ : Env) (v : Val) : Option (Val × Env) :=
  match v with
  | .ctor c args =>
    if c == N.ptr then
      (match S.meth N.deref (.ctor c args) [] with
       | .ok r _ => some (r, ρ)
       | .okE r _ ev => some (r, ρ.log ev)
       | _ => none)
    else some (v, ρ)
  | _ => some (v, ρ)

/-! ### the evaluator -/

mutual
def eval (S : Sem) : Nat → Env → Expr → Res
  | 0, _, _ => .stuck
  | fuel + 1, ρ, e =>
    match e with
    | .var x => match ρ.get x with | some v => .ok v ρ | none => .stuck
    | .nat n => .ok (.nat n) ρ
    | .bool b => .ok (.bool b) ρ
    | .strlit k => .ok (.atom k) ρ
    | .unit => .ok .unit ρ
    | .unknown => .stuck
    | .brk => .brk ρ
    | .closure _ _ => .stuck
    | .fnv k => .ok (.fn k) ρ
    | .range lo hi => match eval S fuel ρ lo with
      | .ok (.nat l) ρ' => (match eval S fuel ρ' hi with
        | .ok (.nat h) ρ'' => .ok (.ctor N.range [.nat l, .nat h]) ρ''
        | .ok _ _ => .stuck
        | r => r)
      | .ok _ _ => .stuck
      | r => r
    | .mkStrct fes => match evalL S fuel ρ (fes.map (·.2)) with
      | .ok vs ρ' => .ok (.strct ((fes.map (·.1)).zip vs)) ρ'
      | .ret v ρ' => .ret v ρ' | .brk ρ' => .brk ρ' | .panic ρp => .panic ρp | .stuck => .stuck
    | .ctor c args => match evalL S fuel ρ args with
      | .ok vs ρ' => .ok (.ctor c vs) ρ'
      | .ret v ρ' => .ret v ρ' | .brk ρ' => .brk ρ' | .panic ρp => .panic ρp | .stuck => .stuck
    | .call f args =>
      -- `mem::replace(place, v)` / `mem::take(place)`
      if f == N.mem_replace then
        match args with
        | [pl, ve] => match readPlace ρ pl, eval S fuel ρ ve with
          | some old, .ok v ρ' => (match writePlace ρ' pl v with | some ρ'' => .ok old ρ'' | none => .stuck)
          | _, .panic ρp => .panic ρp
          | _, _ => .stuck
        | _ => .stuck
      else match evalL S fuel ρ args with
        | .ok vs ρ' => (match S.call f vs with | .ok v _ => .ok v ρ' | .okM v _ _ => .ok v ρ' | .okE v _ ev => .ok v (ρ'.log ev) | .panic => .panic ρ' | .unknown => .stuck)
        | .ret v ρ' => .ret v ρ' | .brk ρ' => .brk ρ' | .panic ρp => .panic ρp | .stuck => .stuck
    | .app f args => match eval S fuel ρ f with
      | .ok (.fn k) ρ' => (match evalL S fuel ρ' args with
        | .ok vs ρ'' => (match S.app k vs with | some v => .ok v ρ'' | none => .stuck)
        | .ret v ρ'' => .ret v ρ'' | .brk ρ'' => .brk ρ'' | .panic ρp => .panic ρp | .stuck => .stuck)
      | .ok _ _ => .stuck
      | r => r
    | .field e f => match eval S fuel ρ e with
      | .ok (.strct fs) ρ' => (match recGet fs f with | some v => .ok v ρ' | none => .stuck)
      | .ok (.ctor c vs) ρ' => if c == N.tuple then (match vs[f]? with | some v => .ok v ρ' | none => .stuck) else .stuck
      | .ok _ _ => .stuck
      | r => r
    | .meth recv m args => match eval S fuel ρ recv with
      | .ok rv ρ1 => evalMeth S fuel ρ1 recv rv m args
      | r => r
    | .mtch s arms => match eval S fuel ρ s with
      | .ok v ρ' =>
        -- `match *p { … }` with `p` a pointer the `Sem` handed out: the load is the `Sem`'s (and is logged)
        (match loadThrough S ρ' v with
         | some (v', ρ'') => evalArms S fuel ρ'' v' arms
         | none => .stuck)
      | r => r
    | .ite c t e => match eval S fuel ρ c with
      | .ok (.bool true) ρ' => eval S fuel ρ' t
      | .ok (.bool false) ρ' => eval S fuel ρ' e
      | .ok _ _ => .stuck
      | r => r
    | .iflet p s t e => match eval S fuel ρ s with
      | .ok v ρ' => (match matchPat p v ρ' with
        | some ρ'' => eval S fuel ρ'' t
        | none => eval S fuel ρ' e)
      | r => r
    | .bin op a b => match eval S fuel ρ a with
      | .ok va ρ' =>
        -- `&&` / `||`: evaluation is pure, so the right operand can be evaluated and its outcome discarded where Rust
        -- does not evaluate it; written so that a left operand that is an *opaque* Boolean is not scrutinised when the
        -- right operand evaluates to a Boolean (the theorems then need no case split on it)
        if op == N.and then (match va with
          | .bool x => (match eval S fuel ρ' b with
            | .ok (.bool y) ρ'' => .ok (.bool (x && y)) (if x then ρ'' else ρ')
            | .ok _ _ => if x then .stuck else .ok (.bool false) ρ'
            | r => if x then r else .ok (.bool false) ρ')
          | _ => .stuck)
        else if op == N.or then (match va with
          | .bool x => (match eval S fuel ρ' b with
            | .ok (.bool y) ρ'' => .ok (.bool (x || y)) (if x then ρ' else ρ'')
            | .ok _ _ => if x then .ok (.bool true) ρ' else .stuck
            | r => if x then .ok (.bool true) ρ' else r)
          | _ => .stuck)
        else (match eval S fuel ρ' b with
          | .ok vb ρ'' => (match (if isSym va || isSym vb then none else binop op va vb) with
            | some v => .ok v ρ''
            | none =>
              -- operands that are not literal numbers (opaque quantities): the `Sem` answers
              (match va, vb with
               | .nat _, .nat _ => if op == N.sub then .panic ρ'' else .stuck
               | _, _ => (match S.call op [va, vb] with
                 | .ok v _ => .ok v ρ'' | .okM v _ _ => .ok v ρ'' | .okE v _ ev => .ok v (ρ''.log ev) | .panic => .panic ρ'' | .unknown => .stuck)))
          | r => r)
      | r => r
    | .neg a => match eval S fuel ρ a with
      | .ok (.bool b) ρ' => .ok (.bool (!b)) ρ'
      | .ok _ _ => .stuck
      | r => r
    | .block ss result => evalStmts S fuel ρ ss result
    | .ret e => match eval S fuel ρ e with
      | .ok v ρ' => .ret v ρ'
      | r => r
    | .try_ e => match eval S fuel ρ e with
      | .ok (.ctor c vs) ρ' =>
        if c == N.Some || c == N.Ok then (match vs with | [v] => .ok v ρ' | _ => .stuck)
        else if c == N.None || c == N.Err then .ret (.ctor c vs) ρ'
        else .stuck
      | .ok _ _ => .stuck
      | r => r
    | .forRange x lo hi body => match eval S fuel ρ lo with
      | .ok (.nat l) ρ' => (match eval S fuel ρ' hi with
        | .ok (.nat h) ρ'' => evalFor S fuel ρ'' x l (h - l) body
        | .ok _ _ => .stuck
        | r => r)
      | .ok _ _ => .stuck
      | r => r
    | .loop body => match eval S fuel ρ body with
      | .ok _ ρ' => eval S fuel ρ' (.loop body)
      | .brk ρ' => .ok .unit ρ'
      | r => r
    | .mac m args =>
      if m == N.unreachable || m == N.panic then .panic ρ
      else if m == N.assert || (m == N.debug_assert && S.debug) then
        match args with
        | c :: _ => (match eval S fuel ρ c with
          | .ok (.bool true) ρ' => .ok .unit ρ'
          | .ok (.bool false) ρ' => .panic ρ'
          | .ok _ _ => .stuck
          | r => r)
        | [] => .stuck
      else if m == N.assert_eq || (m == N.debug_assert_eq && S.debug) then
        match args with
        | a :: b :: _ => (match eval S fuel ρ (.bin N.eq a b) with
          | .ok (.bool true) ρ' => .ok .unit ρ'
          | .ok (.bool false) ρ' => .panic ρ'
          | .ok _ _ => .stuck
          | r => r)
        | _ => .stuck
      else if m == N.assert_ne then
        match args with
        | a :: b :: _ => (match eval S fuel ρ (.bin N.ne a b) with
          | .ok (.bool true) ρ' => .ok .unit ρ'
          | .ok (.bool false) ρ' => .panic ρ'
          | .ok _ _ => .stuck
          | r => r)
        | _ => .stuck
      else if m == N.debug_assert || m == N.debug_assert_eq then .ok .unit ρ
      else if m == N.write then
        -- `write!(target, fmt, args…)`: appends `(fmt, args)` to the sink's log; yields `Ok(())`
        match args with
        | tgt :: rest => (match evalL S fuel ρ rest with
          | .ok vs ρ' => (match readPlace ρ' tgt with
            | some (.ctor c log) => (match writePlace ρ' tgt (.ctor c (log ++ [vTuple vs])) with
              | some ρ'' => .ok (.ctor N.Ok [.unit]) ρ''
              | none => .stuck)
            | _ => .stuck)
          | .ret v ρ' => .ret v ρ' | .brk ρ' => .brk ρ' | .panic ρp => .panic ρp | .stuck => .stuck)
        | [] => .stuck
      else if m == N.format then
        match evalL S fuel ρ args with
        | .ok vs ρ' => (match S.call N.format vs with | .ok v _ => .ok v ρ' | .okM v _ _ => .ok v ρ' | .okE v _ ev => .ok v (ρ'.log ev) | .panic => .panic ρ' | .unknown => .stuck)
        | .ret v ρ' => .ret v ρ' | .brk ρ' => .brk ρ' | .panic ρp => .panic ρp | .stuck => .stuck
      else .stuck

def evalL (S : Sem) : Nat → Env → List Expr → ResL
  | 0, _, _ => .stuck
  | _ + 1, ρ, [] => .ok [] ρ
  | fuel + 1, ρ, e :: es => match eval S fuel ρ e with
    | .ok v ρ' => (match evalL S fuel ρ' es with
      | .ok vs ρ'' => .ok (v :: vs) ρ''
      | r => r)
    | .ret v ρ' => .ret v ρ'
    | .brk ρ' => .brk ρ'
    | .panic ρp => .panic ρp
    | .stuck => .stuck

def evalArms (S : Sem) : Nat → Env → Val → List Arm → Res
  | 0, _, _, _ => .stuck
  | _ + 1, _, _, [] => .stuck       -- Rust matches are exhaustive: cannot happen on well-typed input
  | fuel + 1, ρ, v, .mk p g body :: arms => match matchPat p v ρ with
    | some ρ' => (match g with
      | none => eval S fuel ρ' body
      | some ge => (match eval S fuel ρ' ge with
        | .ok (.bool true) ρ'' => eval S fuel ρ'' body
        | .ok (.bool false) _ => evalArms S fuel ρ v arms
        | .ok _ _ => .stuck
        | r => r))
    | none => evalArms S fuel ρ v arms

def evalStmts (S : Sem) : Nat → Env → List Stmt → Expr → Res
  | 0, _, _, _ => .stuck
  | fuel + 1, ρ, [], result => eval S fuel ρ result
  | fuel + 1, ρ, s :: ss, result =>
    match s with
    | .letS p e => (match eval S fuel ρ e with
      | .ok v ρ' => (match matchPat p v ρ' with
        | some ρ'' => evalStmts S fuel ρ'' ss result
        | none => .stuck)
      | r => r)
    | .assign pl e => (match eval S fuel ρ e with
      | .ok v ρ' => (match writePlace ρ' pl v with
        | some ρ'' => evalStmts S fuel ρ'' ss result
        | none => .stuck)
      | r => r)
    | .exprS e => (match eval S fuel ρ e with
      | .ok _ ρ' => evalStmts S fuel ρ' ss result
      | r => r)

def evalFor (S : Sem) : Nat → Env → Nat → Nat → Nat → Expr → Res
  | 0, _, _, _, _, _ => .stuck
  | _ + 1, ρ, _, _, 0, _ => .ok .unit ρ
  | fuel + 1, ρ, x, i, k + 1, body => match eval S fuel (ρ.set x (.nat i)) body with
    | .ok _ ρ' => evalFor S fuel ρ' x (i + 1) k body
    | .brk ρ' => .ok .unit ρ'
    | r => r

/-- `(l .. l+k).find(|p| body)`: the first index for which the closure answers `true` -/
def evalFind (S : Sem) : Nat → Env → Pat → Expr → Nat → Nat → Res
  | 0, _, _, _, _, _ => .stuck
  | _ + 1, ρ, _, _, _, 0 => .ok vNone ρ
  | fuel + 1, ρ, p, body, i, k + 1 => match matchPat p (.nat i) ρ with
    | some ρ' => (match eval S fuel ρ' body with
      | .ok (.bool true) ρ'' => .ok (vSome (.nat i)) ρ''
      | .ok (.bool false) ρ'' => evalFind S fuel ρ'' p body (i + 1) k
      | .ok _ _ => .stuck
      | r => r)
    | none => .stuck

/-- a method call: the `Option` combinators with closure arguments and the ownership no-ops are built in,
    everything else is the `Sem`'s; a mutated receiver is written back when it is a place -/
def evalMeth (S : Sem) : Nat → Env → Expr → Val → Nat → List Expr → Res
  | 0, _, _, _, _, _ => .stuck
  | fuel + 1, ρ, recv, rv, m, args =>
    if m == N.clone || m == N.into || m == N.as_ref || m == N.as_mut || m == N.cloned || m == N.copied then
      (match args with | [] => .ok rv ρ | _ => .stuck)
    else if (m == N.is_some || m == N.is_none) && isOpt rv then (match rv with
      | .ctor c _ => .ok (.bool ((c == N.Some) == (m == N.is_some))) ρ
      | _ => .stuck)
    else if m == N.unwrap || m == N.expect then (match rv with
      | .ctor c vs => if c == N.Some || c == N.Ok then (match vs with | [v] => .ok v ρ | _ => .stuck)
                      else if c == N.None || c == N.Err then .panic ρ else .stuck
      | _ => .stuck)
    else if m == N.or_else then (match rv, args with
      | .ctor c vs, [.closure [] body] =>
        if c == N.Some then .ok (.ctor c vs) ρ else if c == N.None then eval S fuel ρ body else .stuck
      | _, _ => .stuck)
    else if m == N.unwrap_or_else then (match rv, args with
      | .ctor c vs, [.closure [] body] =>
        if c == N.Some then (match vs with | [v] => .ok v ρ | _ => .stuck) else if c == N.None then eval S fuel ρ body else .stuck
      | .ctor c vs, [.closure [p] body] =>
        -- on a `Result`: the closure receives the error
        if c == N.Ok then (match vs with | [v] => .ok v ρ | _ => .stuck)
        else if c == N.Err then (match vs with
          | [e] => (match matchPat p e ρ with | some ρ' => eval S fuel ρ' body | none => .stuck)
          | _ => .stuck)
        else .stuck
      | _, _ => .stuck)
    else if m == N.unwrap_or then (match rv, args with
      | .ctor c vs, [d] =>
        (match eval S fuel ρ d with
         | .ok dv ρ' => if c == N.Some then (match vs with | [v] => .ok v ρ' | _ => .stuck) else if c == N.None then .ok dv ρ' else .stuck
         | r => r)
      | _, _ => .stuck)
    else if m == N.find then (match rv, args with
      | .ctor c [.nat l, .nat h], [.closure [p] body] => if c == N.range then evalFind S fuel ρ p body l (h - l) else .stuck
      | _, _ => .stuck)
    else if m == N.map || m == N.and_then then (match rv, args with
      | .ctor c vs, [.closure [p] body] =>
        if c == N.None then .ok vNone ρ
        else if c == N.Some then (match vs with
          | [v] => (match matchPat p v ρ with
            | some ρ' => (match eval S fuel ρ' body with
              | .ok r ρ'' => if m == N.map then .ok (vSome r) ρ'' else .ok r ρ''
              | r => r)
            | none => .stuck)
          | _ => .stuck)
        else .stuck
      | .ctor c vs, [f] =>
        -- a function value as the argument: `opt.map(f)`
        (match eval S fuel ρ f with
         | .ok (.fn k) ρ' =>
           if c == N.None then .ok vNone ρ'
           else if c == N.Some then (match S.app k vs with
             | some r => if m == N.map then .ok (vSome r) ρ' else .ok r ρ'
             | none => .stuck)
           else .stuck
         | .ok _ _ => .stuck
         | r => r)
      | _, _ => .stuck)
    else match evalL S fuel ρ args with
      | .ok vs ρ' => (match S.meth m rv vs with
        | .ok r rv' =>
          if isPlace recv then (match writePlace ρ' recv rv' with | some ρ'' => .ok r ρ'' | none => .stuck)
          else .ok r ρ'
        | .okM r rv' avs =>
          (match writeBack ρ' args avs with
           | some ρ'' =>
             if isPlace recv then (match writePlace ρ'' recv rv' with | some ρ3 => .ok r ρ3 | none => .stuck)
             else .ok r ρ''
           | none => .stuck)
        | .okE r rv' ev =>
          if isPlace recv then (match writePlace ρ' recv rv' with | some ρ'' => .ok r (ρ''.log ev) | none => .stuck)
          else .ok r (ρ'.log ev)
        | .panic => .panic ρ'
        | .unknown => .stuck)
      | .ret v ρ' => .ret v ρ' | .brk ρ' => .brk ρ' | .panic ρp => .panic ρp | .stuck => .stuck
end

/-- outcome of a whole function: a `return` is a result -/
inductive Out where
  | val (v : Val) (ρ : Env)
  | panic (ρ : Env)
  | stuck

def run (S : Sem) (fuel : Nat) (f : Fn) (ρ : Env) : Out :=
  match eval S fuel ρ f.body with
  | .ok v ρ' => .val v ρ'
  | .ret v ρ' => .val v ρ'
  | .brk _ => .stuck
  | .panic ρ' => .panic ρ'
  | .stuck => .stuck

/-- what the caller can see of an outcome: the value and the listed places (`self`, `&mut` parameters)
    afterwards -- the callee's locals are gone -/
inductive Seen where
  | val (v : Val) (places : List (Option Val))
  | panic
  | stuck

def Out.seen (xs : List Nat) : Out → Seen
  | .val v ρ => .val v (xs.map ρ.get)
  | .panic _ => .panic
  | .stuck => .stuck

/-- the same, but a panic also shows the listed places as the unwinding leaves them (what `catch_unwind` finds) -/
inductive SeenP where
  | val (v : Val) (places : List (Option Val))
  | panic (places : List (Option Val))
  | stuck

def Out.seenP (xs : List Nat) : Out → SeenP
  | .val v ρ => .val v (xs.map ρ.get)
  | .panic ρ => .panic (xs.map ρ.get)
  | .stuck => .stuck

/-- run with `self` and the parameters bound in order (ids 0, 1, 2, … -- for a function without `self`
    the list starts with a dummy), observing the places `xs` -/
def call (S : Sem) (fuel : Nat) (f : Fn) (args : List Val) (xs : List Nat := [0]) : Seen :=
  (run S fuel f ((List.range args.length).zip args)).seen xs

def callP (S : Sem) (fuel : Nat) (f : Fn) (args : List Val) (xs : List Nat := [0]) : SeenP :=
  (run S fuel f ((List.range args.length).zip args)).seenP xs

/-- a `Sem` that knows nothing -/
def Sem.none : Sem := ⟨fun _ _ _ => .unknown, fun _ _ => .unknown, fun _ _ => Option.none, false⟩

end Rs
end Cst
