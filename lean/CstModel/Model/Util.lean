/-
  Model/Util — `cstree/src/utility_types.rs`: `NodeOrToken` and its accessors, `WalkEvent::map`,
  `TokenAtOffset<T>` as the two-slot iterator it is (`next` with the `mem::replace` dance, `size_hint`,
  `map`, `left_biased` / `right_biased`), and the adaptors `nth` / `last` / `count` the standard library
  derives from `next` (what a caller gets unless the crate overrides them).
-/
namespace Cst
namespace Util

inductive NodeOrToken (N T : Type) where
  | node (n : N)
  | token (t : T)
  deriving Repr, DecidableEq

namespace NodeOrToken
variable {N T : Type}
def intoNode : NodeOrToken N T → Option N | node n => some n | token _ => none
def intoToken : NodeOrToken N T → Option T | node _ => none | token t => some t
def asNode : NodeOrToken N T → Option N := intoNode
def asToken : NodeOrToken N T → Option T := intoToken
/-- `Display`: whichever side is present prints itself -/
def display (dn : N → String) (dt : T → String) : NodeOrToken N T → String | node n => dn n | token t => dt t
end NodeOrToken

inductive WalkEvent (α : Type) where
  | enter (a : α)
  | leave (a : α)
  deriving Repr, DecidableEq

def WalkEvent.map {α β : Type} (f : α → β) : WalkEvent α → WalkEvent β
  | .enter a => .enter (f a)
  | .leave a => .leave (f a)

/-- `TokenAtOffset<T>` -/
inductive TAO (α : Type) where
  | none
  | single (a : α)
  | between (l r : α)
  deriving Repr, DecidableEq

namespace TAO
variable {α β : Type}
def map (f : α → β) : TAO α → TAO β
  | none => none | single a => single (f a) | between l r => between (f l) (f r)
def rightBiased : TAO α → Option α | none => Option.none | single a => some a | between _ r => some r
def leftBiased : TAO α → Option α | none => Option.none | single a => some a | between l _ => some l
/-- `Iterator::next` (the `mem::replace` dance of the source, as a state transformer) -/
def next : TAO α → Option α × TAO α
  | none => (Option.none, none)
  | single a => (some a, none)
  | between l r => (some l, single r)
def sizeHint : TAO α → Nat × Option Nat
  | none => (0, some 0) | single _ => (1, some 1) | between _ _ => (2, some 2)
def toList : TAO α → List α | none => [] | single a => [a] | between l r => [l, r]
/-- the default adaptors of `Iterator`, as the standard library defines them on top of `next` -/
def nth : Nat → TAO α → Option α × TAO α
  | 0, t => t.next
  | k + 1, t => match t.next with
    | (Option.none, t') => (Option.none, t')
    | (some _, t') => nth k t'
def drain : Nat → TAO α → List α
  | 0, _ => []
  | k + 1, t => match t.next with
    | (Option.none, _) => []
    | (some a, t') => a :: drain k t'
/-- `Iterator::last` / `Iterator::count` as provided by the standard library: consume with `next` -/
def last (t : TAO α) : Option α := (t.drain 3).getLast?
def count (t : TAO α) : Nat := (t.drain 3).length
end TAO
end Util
end Cst
