/-
  Model/Forward — the wrapper layer of the red tree (`syntax/element.rs`, `syntax/resolved.rs`).

  The model has ONE function per operation (`Red.parent`, `Red.elemFirstToken`, …) that works on the path of a
  node or of a token alike, and it treats the resolved wrappers as the identity.  The code has six types in front
  of those operations: the element enums `SyntaxElement`, `SyntaxElementRef`, `ResolvedElement`,
  `ResolvedElementRef`, whose methods dispatch on node / token, and `ResolvedNode` / `ResolvedToken`, whose
  methods re-type the answer of the method of the same name of the handle they wrap.

  `tools/extract_forwarders.py` translates every `pub fn` of those types into a row of
  `Generated/Forwarders.lean`; this file says what the model assumes about them (`elemSpec`, `resolvedApi`), and
  `Props/C03` proves that the generated table meets it.
-/
import CstModel.Model.Red
namespace Cst
namespace Fwd

/-- one arm of a `match self { Node(it) => …, Token(it) => … }` -/
inductive Arm where
  /-- `it.m(params…)`: the node's / token's own method of that name -/
  | fwd (m : String)
  /-- `Some(it.m())`: the token's method is total where the node's is partial (`parent`) -/
  | someFwd (m : String)
  /-- `Some(it)`: a token is its own first and last token -/
  | someSelf
  /-- `it.parent().m()`: a token's chain of ancestors starts at its parent -/
  | viaParent (m : String)
  | other (src : String)
  deriving DecidableEq, Repr

structure ElemFwd where
  ty : String
  name : String
  node : Arm
  token : Arm
  deriving DecidableEq, Repr

inductive Res where
  /-- exactly one call `self.syntax.<own name>(<own parameters>)`, re-typed -/
  | same
  /-- `self` / `Some(self)` -/
  | selfId
  | other (src : String)
  deriving DecidableEq, Repr

structure ResFwd where
  ty : String
  name : String
  res : Res
  deriving DecidableEq, Repr

/-- what the model assumes of the element-level methods: the node arm is the node's method, the token arm is the
    token's method of the same name, except where a token has no such method and the enum supplies the obvious
    answer -/
def elemSpec : String → Option (Arm × Arm)
  | "text_range" => some (.fwd "text_range", .fwd "text_range")
  | "syntax_kind" => some (.fwd "syntax_kind", .fwd "syntax_kind")
  | "kind" => some (.fwd "kind", .fwd "kind")
  | "parent" => some (.fwd "parent", .someFwd "parent")
  | "ancestors" => some (.fwd "ancestors", .viaParent "ancestors")
  | "first_token" => some (.fwd "first_token", .someSelf)
  | "last_token" => some (.fwd "last_token", .someSelf)
  | "next_sibling_or_token" => some (.fwd "next_sibling_or_token", .fwd "next_sibling_or_token")
  | "prev_sibling_or_token" => some (.fwd "prev_sibling_or_token", .fwd "prev_sibling_or_token")
  | "display" => some (.fwd "display", .fwd "display")
  | "write_display" => some (.fwd "write_display", .fwd "write_display")
  | "debug" => some (.fwd "debug", .fwd "debug")
  | "write_debug" => some (.fwd "write_debug", .fwd "write_debug")
  | _ => none

/-- the element-level operations the model (and the protocol) speaks about, per enum type -/
def elemApi : List String :=
  ["text_range", "syntax_kind", "kind", "parent", "ancestors", "first_token", "last_token", "next_sibling_or_token",
   "prev_sibling_or_token"]

def elemTypes : List String := ["SyntaxElement", "SyntaxElementRef", "ResolvedElement", "ResolvedElementRef"]

/-- the navigation and query methods of the resolved node / token the model identifies with the plain ones -/
def resolvedNodeApi : List String :=
  ["root", "parent", "ancestors", "children", "children_with_tokens", "first_child", "first_child_or_token", "last_child",
   "last_child_or_token", "next_child_after", "next_child_or_token_after", "prev_child_before", "prev_child_or_token_before",
   "next_sibling", "next_sibling_or_token", "prev_sibling", "prev_sibling_or_token", "first_token", "last_token", "siblings",
   "siblings_with_tokens", "descendants", "descendants_with_tokens", "preorder", "preorder_with_tokens", "token_at_offset",
   "covering_element"]

def resolvedTokenApi : List String :=
  ["parent", "ancestors", "next_sibling_or_token", "prev_sibling_or_token", "siblings_with_tokens", "next_token", "prev_token"]

def lookupElem (tbl : List ElemFwd) (ty name : String) : Option (Arm × Arm) :=
  (tbl.find? (fun f => f.ty == ty && f.name == name)).map (fun f => (f.node, f.token))

def lookupRes (tbl : List ResFwd) (ty name : String) : Option Res :=
  (tbl.find? (fun f => f.ty == ty && f.name == name)).map (·.res)

/-- the generated table meets the model's assumptions -/
def ElemTableOk (tbl : List ElemFwd) : Prop :=
  (∀ ty ∈ elemTypes, ∀ m ∈ elemApi, lookupElem tbl ty m = elemSpec m) ∧
  -- and nothing else in the table deviates: every method the spec knows is forwarded as the spec says
  (∀ f ∈ tbl, ∀ s, elemSpec f.name = some s → (f.node, f.token) = s)

def ResTableOk (tbl : List ResFwd) : Prop :=
  (∀ m ∈ resolvedNodeApi, lookupRes tbl "ResolvedNode" m = some .same) ∧
  (∀ m ∈ resolvedTokenApi, lookupRes tbl "ResolvedToken" m = some .same) ∧
  (∀ f ∈ tbl, f.name = "resolved" ∨ f.name = "try_resolved" → f.res = .selfId)

instance (tbl : List ElemFwd) : Decidable (ElemTableOk tbl) := by unfold ElemTableOk; infer_instance
instance (tbl : List ResFwd) : Decidable (ResTableOk tbl) := by unfold ResTableOk; infer_instance

/-! ### what the arms mean in the model

The model's functions take the path of a node or of a token.  `Arm.sem` reads an arm as a function on paths, given
the node's and the token's own operation of each name; the lemmas in `Props/C03` show that for a token path the
model's single function is `Arm.sem` of the token arm of `elemSpec`. -/

/-- answers of the operations that return at most one element -/
abbrev Op1 := Red → Path → Option Path × Red

/-- meaning of an arm for the one-element operations, given the type's own operation `own` and its `parent` -/
def Arm.sem1 (own : Op1) : Arm → Op1
  | .fwd _ => own
  | .someFwd _ => own
  | .someSelf => fun r p => (some p, r)
  | .viaParent _ => fun r p => match Red.parent p with | some q => own r q | none => (none, r)
  | .other _ => fun r _ => (none, r)

end Fwd
end Cst
