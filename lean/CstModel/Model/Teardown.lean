/-
  Model/Teardown — the recursive teardown of a red tree (`SyntaxNode::drop` with `prev == 1`, then
  `drop_recursive`, `syntax/node.rs`) as a function from the tree of installed elements to the sequence of
  its effects on the heap and on the tree's counter.

  `drop_recursive(n)`: for every slot `i` of `n` in order: take the slot's write lock (a dereference of `n`'s
  block); if the slot holds a node `c`: `drop_recursive(c)`, then `*slot = None` drops the handle in the slot
  (one decrement), then `c`'s block is freed, which drops the parent handle stored in it (one decrement);
  if it holds a token: `*slot = None` drops the token and with it its parent handle (one decrement).
  The root: `drop_recursive(root)`, the uncounted copy is dropped (one decrement), the root's block and the
  counter cell are freed.
  Blocks are named by the slot they are installed in (one block per slot: C05).
-/
namespace Cst.Teardown

mutual
inductive IT where
  | tok : IT
  | node (slot : Nat) (kids : ITs) : IT
inductive ITs where
  | nil : ITs
  /-- an empty slot -/
  | skip (rest : ITs) : ITs
  | full (x : IT) (rest : ITs) : ITs
end

inductive Ev where
  /-- `fetch_sub(1)` on the tree's counter -/
  | dec
  /-- the block installed in `slot` is freed -/
  | free (slot : Nat)
  /-- the block of `owner` (`none`: the root) is dereferenced -/
  | touch (owner : Option Nat)
  | freeRoot
  | freeCount
  deriving DecidableEq, Repr

mutual
def tearSlot : IT → List Ev
  | .tok => [.dec]
  | .node s ks => tearL (some s) ks ++ [.dec, .free s, .dec]
def tearL (owner : Option Nat) : ITs → List Ev
  | .nil => []
  | .skip r => .touch owner :: tearL owner r
  | .full x r => .touch owner :: (tearSlot x ++ tearL owner r)
end

def tearRoot (ks : ITs) : List Ev := tearL none ks ++ [.dec, .freeRoot, .freeCount]

/-! what is installed -/
mutual
/-- the node blocks below an element, children before parents, left to right -/
def nodesOf : IT → List Nat
  | .tok => []
  | .node s ks => nodesOfL ks ++ [s]
def nodesOfL : ITs → List Nat
  | .nil => []
  | .skip r => nodesOfL r
  | .full x r => nodesOf x ++ nodesOfL r
end

mutual
def nToks : IT → Nat
  | .tok => 1
  | .node _ ks => nToksL ks
def nToksL : ITs → Nat
  | .nil => 0
  | .skip r => nToksL r
  | .full x r => nToks x + nToksL r
end

def Ev.freed : Ev → Option Nat
  | .free s => some s
  | _ => none

/-- the heap monitor: scanning the effects with the set of blocks freed so far, no block is freed twice and
    no freed block is dereferenced; the root block and the counter cell go last -/
def safe : List Nat → List Ev → Bool
  | _, [] => true
  | F, .dec :: r => safe F r
  | F, .free s :: r => !F.contains s && safe (s :: F) r
  | F, .touch (some s) :: r => !F.contains s && safe F r
  | F, .touch none :: r => safe F r
  | F, .freeRoot :: r => r == [.freeCount] && safe F r
  | _, .freeCount :: r => r == []

/-- the values `fetch_sub` returns (the counter before each decrement), starting from `rc` -/
def prevs : Int → List Ev → List Int
  | _, [] => []
  | rc, .dec :: r => rc :: prevs (rc - 1) r
  | rc, _ :: r => prevs rc r

end Cst.Teardown
