/-
  Model/Derive — the decision logic of `#[derive(Syntax)]` (`cstree-derive/src/{lib,parsing}.rs`,
  `parsing/attributes.rs`) and the code it generates, plus Rust's discriminant assignment rule and
  the validity condition of `transmute::<u32, E>`.  `syn` and rustc are not modelled.
-/
import CstModel.Model.Text
namespace Cst

/-- forms of a `static_text` attribute -/
inductive AttrForm where
  | lit (text : Text)        -- `#[static_text("...")]`
  | path                     -- `#[static_text]`
  | nameValue                -- `#[static_text = "..."]`
  | badArg                   -- `#[static_text(5)]`, `#[static_text("a", "b")]`
  deriving Repr, DecidableEq

structure VariantDef where
  /-- 0 = unit variant, 1 = named fields, 2 = tuple fields -/
  fields : Nat
  /-- explicit discriminant, if any -/
  discr : Option Nat
  attrs : List AttrForm
  deriving Repr

inductive ItemKind where
  | enum | struct | union
  deriving Repr, DecidableEq

/-- argument of a `repr` attribute: an identifier (`u32`, `C`, …) or something else (`align(4)`) -/
inductive ReprArg where
  | ident (name : String)
  | other
  deriving Repr, DecidableEq

structure EnumDef where
  kind : ItemKind
  reprs : List (List ReprArg)
  variants : List VariantDef
  deriving Repr

/-- `Attr::set` over a sequence of values: the first one wins, every further one is an error -/
def setAll {α : Type} : List α → Option α × Nat
  | [] => (none, 0)
  | a :: rest => (some a, rest.length)

def reprIdents (d : EnumDef) : List String :=
  d.reprs.flatten.filterMap (fun a => match a with | .ident n => some n | .other => none)

/-- errors a single `static_text` attribute draws (`badArg`: the derive's message and syn's) -/
def attrErr : AttrForm → Nat
  | .lit _ => 0
  | .path => 1
  | .nameValue => 1
  | .badArg => 2

def litOf : AttrForm → Option Text
  | .lit t => some t
  | _ => none

/-- errors recorded for one variant, and its static text -/
def variantCheck (v : VariantDef) : Nat × Option Text :=
  let eFields := if v.fields = 0 then 0 else 1
  let eDiscr := if v.discr.isSome then 1 else 0
  let lits := v.attrs.filterMap litOf
  let eForms := (v.attrs.map attrErr).sum
  (eFields + eDiscr + eForms + (setAll lits).2, (setAll lits).1)

/-- number of errors the derive reports (0 = accepted) -/
def deriveErrors (d : EnumDef) : Nat :=
  if d.kind ≠ .enum then 1
  else
    let eRepr := if (setAll (reprIdents d)).1 = some "u32" then 0 else 1
    (setAll (reprIdents d)).2 + eRepr + (d.variants.map (fun v => (variantCheck v).1)).sum

def accepts (d : EnumDef) : Bool := deriveErrors d = 0

/-- Rust's discriminant rule: explicit value, else previous + 1 (first: 0) -/
def discrs : List VariantDef → Nat → List Nat
  | [], _ => []
  | v :: vs, next =>
    let dv := v.discr.getD next
    dv :: discrs vs (dv + 1)

/-! ### the generated impl (`ltAssert`: the comparator of the range assertion, extracted) -/

/-- `from_raw`: `assert!(raw.0 < N)` then `transmute`; `none` = panic; the result is the raw value
    reinterpreted, which is a valid enum value only if it is some variant's discriminant -/
def fromRaw (ltAssert : Bool) (d : EnumDef) (raw : Nat) : Option Nat :=
  let n := d.variants.length
  if (if ltAssert then raw < n else raw ≤ n) then some raw else none

/-- `into_raw`: `self as u32` = the variant's discriminant -/
def intoRaw (d : EnumDef) (i : Nat) : Option Nat := (discrs d.variants 0)[i]?

def staticTextOf (d : EnumDef) (i : Nat) : Option Text :=
  match d.variants[i]? with
  | some v => (variantCheck v).2
  | none => none

end Cst
