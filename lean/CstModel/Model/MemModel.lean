/-
  Model/MemModel — happens-before for the tree's reference count, in the release/acquire fragment of
  the language memory model, for any number of threads and any interleaving.

  Every operation on the counter is a read-modify-write (extracted fact), so the modification order
  of the counter is the order of the steps and *every* earlier release operation heads a release
  sequence that the final decrement reads from.  Vector clocks make that explicit:

  * `C t`  : what thread `t` has synchronised with (its own component is its epoch, starting at 1);
  * `L`    : the clock carried by the counter — the join of the clocks of all releasing RMWs so far;
             an acquiring RMW joins `L` into the thread's clock;
  * `acc`  : the accesses to the tree's memory so far, stamped with the accessor's epoch.  Accesses by
             handle holders are reads, or lock-protected accesses that do not conflict with each other
             (slot and data locks — their discipline is checked separately); the teardown writes /
             frees everything.  A teardown access that is not ordered after an earlier access of another
             thread is a data race (`raced`).

  Handles move between threads only through synchronising channels of safe Rust (`send`: spawn, join,
  channels, mutexes …): the receiver's clock absorbs the sender's.
-/
namespace Cst.Mem

abbrev VC := Nat → Nat

def join (a b : VC) : VC := fun i => max (a i) (b i)
def tick (a : VC) (t : Nat) : VC := fun i => if i = t then a i + 1 else a i

/-- orderings of the counter's RMWs: does the increment / decrement release, acquire? -/
structure Ords where
  incRel : Bool
  incAcq : Bool
  decRel : Bool
  decAcq : Bool
  deriving Repr, DecidableEq

structure Acc where
  thr : Nat
  ep : Nat
  deriving Repr, DecidableEq

structure Sys where
  rc : Int
  owned : List Nat
  C : Nat → VC
  L : VC
  acc : List Acc
  torn : Bool
  raced : Bool

/-- `owned0`: the handles each thread starts with (usually one thread holding the root handle) -/
def Sys.init (owned0 : List Nat) : Sys :=
  { rc := owned0.sum, owned := owned0, C := fun t i => if i = t then 1 else 0, L := fun _ => 0, acc := [], torn := false, raced := false }

def updC (C : Nat → VC) (t : Nat) (c : VC) : Nat → VC := fun i => if i = t then c else C i

/-- an RMW on the counter by thread `t` with the given release / acquire strength -/
def rmw (s : Sys) (t : Nat) (rel acq : Bool) : Sys :=
  let c1 := if acq then join (s.C t) s.L else s.C t
  let l1 := if rel then join s.L c1 else s.L
  { s with C := updC s.C t (if rel then tick c1 t else c1), L := l1 }

/-- is the earlier access `a` ordered before what thread `t` does now? -/
def ordered (s : Sys) (t : Nat) (a : Acc) : Bool := a.thr == t || a.ep ≤ s.C t a.thr

inductive Act where
  | clone
  | drop
  | send (to : Nat)
  | access
  | spawn
  deriving Repr

def step (O : Ords) (s : Sys) (t : Nat) (a : Act) : Option Sys :=
  match s.owned[t]? with
  | none => none
  | some n =>
    match a with
    | .spawn => some { s with owned := s.owned ++ [0] }
    | .clone =>
      if n ≥ 1 then
        some (rmw { s with rc := s.rc + 1, owned := s.owned.set t (n + 1) } t O.incRel O.incAcq)
      else none
    | .send j =>
      if n ≥ 1 ∧ j ≠ t then
        match s.owned[j]? with
        | none => none
        | some m =>
          some { s with owned := (s.owned.set t (n - 1)).set j (m + 1),
                        C := updC (updC s.C j (join (s.C j) (s.C t))) t (tick (s.C t) t) }
      else none
    | .access =>
      if n ≥ 1 then some { s with acc := ⟨t, s.C t t⟩ :: s.acc } else none
    | .drop =>
      if n ≥ 1 then
        let s1 := rmw { s with rc := s.rc - 1, owned := s.owned.set t (n - 1) } t O.decRel O.decAcq
        if s.rc = 1 then
          -- the decrement that saw 1 tears the tree down: it touches everything
          some { s1 with torn := true, raced := s1.raced || s1.acc.any (fun a => !ordered s1 t a),
                         acc := ⟨t, s1.C t t⟩ :: s1.acc }
        else some s1
      else none

inductive Reachable (O : Ords) : Sys → Prop where
  | init (owned0 : List Nat) : Reachable O (Sys.init owned0)
  | step {s s' : Sys} (t : Nat) (a : Act) : Reachable O s → step O s t a = some s' → Reachable O s'

/-- ordering codes of the translator: Relaxed 0, Release 1, Acquire 2, AcqRel 3, SeqCst 4 -/
def isRel (code : Nat) : Bool := code == 1 || code == 3 || code == 4
def isAcq (code : Nat) : Bool := code == 2 || code == 3 || code == 4

end Cst.Mem
