/-
  Model/Tree — resolved reference trees (what the user *means*): kinds, nesting and token texts,
  their event streams, and the resolution of a green tree under an interner and a syntax.
-/
import CstModel.Model.Builder
namespace Cst

inductive Tree where
  | tok (kind : Nat) (text : Text)
  | node (kind : Nat) (children : List Tree)
  deriving Repr, Inhabited

namespace Tree

def isNode : Tree → Bool
  | tok .. => false
  | node .. => true

mutual
/-- the builder events that describe a tree -/
def events : Tree → List Ev
  | .tok k s => [.tok k s]
  | .node k cs => .start k :: (eventsL cs ++ [.finish])
def eventsL : List Tree → List Ev
  | [] => []
  | t :: ts => events t ++ eventsL ts
end

mutual
/-- the text of a tree: concatenation of its token texts in source order -/
def text : Tree → Text
  | .tok _ s => s
  | .node _ cs => textL cs
def textL : List Tree → Text
  | [] => []
  | t :: ts => text t ++ textL ts
end

mutual
def nTokens : Tree → Nat
  | .tok .. => 1
  | .node _ cs => nTokensL cs
def nTokensL : List Tree → Nat
  | [] => 0
  | t :: ts => nTokens t + nTokensL ts
end

mutual
def beq : Tree → Tree → Bool
  | .tok k1 s1, .tok k2 s2 => k1 == k2 && s1 == s2
  | .node k1 cs1, .node k2 cs2 => k1 == k2 && beqL cs1 cs2
  | _, _ => false
def beqL : List Tree → List Tree → Bool
  | [], [] => true
  | a :: as, b :: bs => beq a b && beqL as bs
  | _, _ => false
end

end Tree

/-- token texts fed in by an event stream, in order (static tokens contribute their static text) -/
def evTexts (cfg : Cfg) : List Ev → List Text
  | [] => []
  | .tok _ s :: es => s :: evTexts cfg es
  | .stok k :: es => (cfg.staticText k).getD [] :: evTexts cfg es
  | _ :: es => evTexts cfg es

mutual
/-- `⟦g⟧`: resolve a green element; `none` when a key does not resolve or a key-less token's kind
    has no static text (the `unwrap` in `resolve_text`) -/
def resolveG (cfg : Cfg) (I : Interner) : Green → Option Tree
  | .tok _ k none _ => (cfg.staticText k).map (Tree.tok k)
  | .tok _ k (some key) _ => (I.resolve key).map (Tree.tok k)
  | .node _ k _ _ cs => (resolveL cfg I cs).map (Tree.node k)
def resolveL (cfg : Cfg) (I : Interner) : List Green → Option (List Tree)
  | [] => some []
  | g :: gs =>
    match resolveG cfg I g, resolveL cfg I gs with
    | some t, some ts => some (t :: ts)
    | _, _ => none
end

end Cst
