/-
  Model/Owner — who owns the cache and the interner of a builder (`green/builder.rs`:
  `MaybeOwned`, `GreenNodeBuilder::{with_cache, from_cache, with_interner, from_interner, finish}`,
  `NodeCache::{with_interner, from_interner, into_interner}`).

  A builder either borrows a cache (`with_cache`), owns one it was given (`from_cache`), or owns a *fresh* one over an
  interner it borrows (`with_interner`) or owns (`from_interner`).  `finish` hands the cache back exactly when the builder
  owned it; a borrowed cache / interner is simply what the lender looks at afterwards.  `Outcome` records everything the
  caller can get hold of after `finish`.
-/
import CstModel.Model.Builder
namespace Cst

inductive Route where
  | withCache | fromCache | withInterner | fromInterner
  deriving DecidableEq, Repr

/-- fresh, empty maps over the same interner (`NodeCache::with_interner` / `from_interner`); the ghost allocation counter
    is global and keeps counting -/
def Cache.fresh (c : Cache) : Cache := { c with toks := [], nodes := [] }

/-- does the builder own the cache it works with / does that cache own its interner -/
def Route.ownsCache : Route → Bool
  | .withCache => false
  | _ => true

def Route.ownsInterner : Route → Bool
  | .withInterner => false
  | .withCache => false      -- the interner belongs to the lent cache
  | _ => true

/-- the cache the builder starts from -/
def Route.start (r : Route) (c : Cache) : Cache :=
  match r with
  | .withCache | .fromCache => c
  | .withInterner | .fromInterner => c.fresh

structure Outcome where
  tree : Green
  /-- second component of `finish()`: `MaybeOwned::into_owned` -/
  returned : Option Cache
  /-- the lender's view of a borrowed cache after the build -/
  lentCache : Option Cache
  /-- the lender's view of a borrowed interner after the build -/
  lentInterner : Option Interner
  /-- `returned.and_then(NodeCache::into_interner)` -/
  intoInterner : Option Interner
  deriving Repr

/-- build a whole tree through one of the four constructors and `finish` -/
def buildVia (cfg : Cfg) (r : Route) (c : Cache) (evs : List Ev) : Except Panic Outcome :=
  match build cfg (r.start c) evs with
  | .error p => .error p
  | .ok (g, c') =>
    .ok { tree := g,
          returned := if r.ownsCache then some c' else none,
          lentCache := if r.ownsCache then none else some c',
          lentInterner := if r == .withInterner then some c'.interner else none,
          intoInterner := if r.ownsCache && r.ownsInterner then some c'.interner else none }

/-- the cache a client that keeps "its" cache slot up to date holds afterwards: the returned or lent cache; after
    `with_interner` the build's cache is gone with the builder and only the interner remains -/
def Outcome.slotAfter (o : Outcome) (r : Route) (before : Cache) : Cache :=
  match r with
  | .withCache => o.lentCache.getD before
  | .fromCache | .fromInterner => o.returned.getD before
  | .withInterner => (o.returned.getD before).fresh

end Cst
