/-
  Model/Interner — the string interner as an append-only table (key = insertion index), the
  `TokenKey` ↔ raw `u32` conversion, and the key-space limit.

  Models: `interning/default_interner.rs` (IndexSet-backed `TokenInterner`), `interning.rs`
  (`TokenKey: InternKey`), and the conversion shims of `interning/lasso_compat/traits.rs`
  (foreign key capacity).  lasso itself / indexmap are parameters with the contract "insertion
  ordered set", not verified.
-/
import CstModel.Model.Text
namespace Cst

/-- index of the first occurrence (what `IndexSet::get_index_of` returns) -/
def findIdx (s : Text) : List Text → Option Nat
  | [] => none
  | x :: xs => if x = s then some 0 else (findIdx s xs).map (· + 1)

structure Interner where
  /-- interned strings in insertion order; raw key = index -/
  strs : List Text
  /-- number of representable keys (`N_INDICES` for the built-in interner; capacity of the foreign
      key type for lasso back ends) -/
  cap : Nat
  deriving Repr

def Interner.empty (cap : Nat) : Interner := ⟨[], cap⟩

/-- `try_get_or_intern`: `none` is `Err(_)` (key space exhausted); the table is unchanged then. -/
def Interner.intern (I : Interner) (s : Text) : Option (Nat × Interner) :=
  match findIdx s I.strs with
  | some i => some (i, I)
  | none =>
    if I.strs.length ≥ I.cap then none
    else some (I.strs.length, { I with strs := I.strs ++ [s] })

/-- `try_resolve` on a raw key -/
def Interner.resolve (I : Interner) (k : Nat) : Option Text := I.strs[k]?

/-! ### `TokenKey` raw conversion (`interning.rs`): the key stores `raw + 1` in a `NonZeroU32`.
    `guard` is the extracted upper bound of the `key < …` test, `shift` the extracted `+ 1`/`- 1`. -/

/-- `TokenKey::try_from_u32`, returning the stored (non-zero) inner value -/
def tryFromU32 (guard shift : UInt32) (raw : UInt32) : Option UInt32 :=
  if raw < guard then some (raw + shift) else none

/-- `TokenKey::into_u32` on the stored inner value -/
def intoU32 (shift : UInt32) (inner : UInt32) : UInt32 := inner - shift

/-- lasso shim `try_from_usize` for `TokenKey`: `u32::try_from(int).ok()?` then `try_from_u32` -/
def tryFromUsize (guard shift : UInt32) (n : Nat) : Option UInt32 :=
  if n < 2 ^ 32 then tryFromU32 guard shift (UInt32.ofNat n) else none

end Cst
