/-
  Model/RedConc — the red tree's offset cache under concurrent navigation: what `Model/Conc` abstracts to
  "a slot holds an element" is here the sequential `Model/Red` state itself.

  A thread performs a navigation in two phases (as `get_or_add_*` / `try_write` do): it *reads* the shared
  tree and computes the elements it wants to materialise (position and start offset: the entries the
  sequential operation would add), and later *writes* them one at a time, each only if the slot is still
  empty (`try_write`: a filled slot is left alone and the speculative element is thrown away).  Other
  threads' steps may come in between any two steps.
-/
import CstModel.Model.Red
namespace Cst.RedConc

/-- a cache entry: position and stored start offset -/
abbrev Entry := Path × Nat

/-- `try_write`: install only into an empty slot -/
def addIfAbsent (r : Red) (e : Entry) : Red :=
  match r.slots.lookup e.1 with
  | some _ => r
  | none => { r with slots := e :: r.slots }

/-- what a sequential operation `f` would add to the cache `r` -/
def newEntries (r r' : Red) : List Entry := r'.slots.filter (fun e => (r.slots.lookup e.1).isNone)

structure Sys where
  red : Red
  /-- per thread: the speculative elements it computed and has not written yet -/
  thr : List (List Entry)

def Sys.init (g : Green) (nthreads : Nat) : Sys := ⟨Red.new g, List.replicate nthreads []⟩

inductive Act where
  /-- read phase of the sequential operation `f` on the current shared state -/
  | read (f : Red → Red)
  /-- `try_write` of the next speculative element -/
  | write
  | spawn

def step (s : Sys) (t : Nat) : Act → Option Sys
  | .read f =>
    match s.thr[t]? with
    | some [] => some { s with thr := s.thr.set t (newEntries s.red (f s.red)) }
    | _ => none
  | .write =>
    match s.thr[t]? with
    | some (e :: es) => some { red := addIfAbsent s.red e, thr := s.thr.set t es }
    | _ => none
  | .spawn => some { s with thr := s.thr ++ [[]] }

/-- running a list of (thread, action) pairs -/
def run (s : Sys) : List (Nat × Act) → Option Sys
  | [] => some s
  | (t, a) :: rest => (step s t a).bind (fun s' => run s' rest)

end Cst.RedConc
