/-
  Model/DataSlot — the per-node data slot (`set_data` / `try_set_data` / `get_data` / `clear_data`,
  `syntax/node.rs`) as a transition system for any number of threads.

  The slot is a reader/writer-locked `Option<Arc<D>>`.  An operation is *not* atomic in the model:
  it takes the lock in the mode the source takes it (`Facts`, extracted), then runs its body in the
  steps the source runs it (`try_set_data` first looks at the slot, then writes), then releases.
  Other threads may run between any two of these steps — the theorems (Props/C18) show that the
  results are nevertheless those of the sequential optional slot `spec`, in the order in which the
  bodies complete, *because* of the lock modes.

  Ownership ledger: stored values are reference counted (`Arc`).  `owners v` is the strong count of
  value `v` (a value that has not been wrapped yet — the argument of a call, or the value a failed
  `try_set_data` gives back — counts as one owner), `out` the multiset of owners outside the slot
  (handles and raw values in the hands of callers), `drops v` the number of times `v`'s destructor
  ran.  Values are identified by the caller (`made` = identities used so far; a new value is fresh).
-/
namespace Cst.DataSlot

inductive Req where
  | set (v : Nat)
  | trySet (v : Nat)
  | get
  | clear
  deriving Repr, DecidableEq

inductive Res where
  /-- `set_data` / successful `try_set_data`: a handle to the stored value -/
  | arc (v : Nat)
  /-- failed `try_set_data`: the value comes back -/
  | back (v : Nat)
  | got (o : Option Nat)
  | unit
  deriving Repr, DecidableEq

/-- the sequential specification: an optional slot -/
def spec (c : Option Nat) : Req → Option Nat × Res
  | .set v => (some v, .arc v)
  | .trySet v => if c.isSome then (c, .back v) else (some v, .arc v)
  | .get => (c, .got c)
  | .clear => (none, .unit)

/-- the lock mode each operation takes (`true` = write); extracted from the source -/
structure Facts where
  setW : Bool
  trySetW : Bool
  getW : Bool
  clearW : Bool
  deriving Repr, DecidableEq

def Facts.mode (F : Facts) : Req → Bool
  | .set _ => F.setW
  | .trySet _ => F.trySetW
  | .get => F.getW
  | .clear => F.clearW

inductive PC where
  | idle
  /-- lock taken, body not started -/
  | locked (r : Req)
  /-- `try_set_data` after `ptr.is_some()` was evaluated -/
  | checked (v : Nat) (seen : Bool)
  /-- body finished, lock still held -/
  | done (r : Req) (res : Res)
  deriving Repr, DecidableEq

def PC.req : PC → Option Req
  | .idle => none
  | .locked r => some r
  | .checked v _ => some (.trySet v)
  | .done r _ => some r

def PC.writes (F : Facts) (p : PC) : Bool :=
  match p.req with
  | some r => F.mode r
  | none => false

def PC.busy (p : PC) : Bool := p.req.isSome

def newValue : Req → Option Nat
  | .set v => some v
  | .trySet v => some v
  | _ => none

/-- the value a call in flight has taken from its caller and not yet stored or given back -/
def PC.pending : PC → Option Nat
  | .locked r => newValue r
  | .checked v _ => some v
  | _ => none

abbrev Entry := Nat × Req × Res

structure Sys where
  cell : Option Nat
  pcs : List PC
  out : List Nat
  owners : Nat → Nat
  drops : Nat → Nat
  made : List Nat
  hist : List Entry

def Sys.init (nthreads : Nat) : Sys :=
  { cell := none, pcs := List.replicate nthreads .idle, out := [], owners := fun _ => 0, drops := fun _ => 0,
    made := [], hist := [] }

def upd (f : Nat → Nat) (k x : Nat) : Nat → Nat := fun i => if i = k then x else f i

/-- one owner of `v` goes away; the last one runs the destructor -/
def dec (s : Sys) (v : Nat) : Sys :=
  if s.owners v = 1 then { s with owners := upd s.owners v 0, drops := upd s.drops v (s.drops v + 1) }
  else { s with owners := upd s.owners v (s.owners v - 1) }

def decOpt (s : Sys) : Option Nat → Sys
  | none => s
  | some v => dec s v

def inc (s : Sys) (v : Nat) : Sys := { s with owners := upd s.owners v (s.owners v + 1) }

def setPc (s : Sys) (i : Nat) (p : PC) : Sys := { s with pcs := s.pcs.set i p }

def log (s : Sys) (i : Nat) (r : Req) (res : Res) : Sys := { s with hist := s.hist ++ [(i, r, res)] }

/-- storing `v`: wrap it (`Arc::new` + `Arc::clone`: one more owner, the slot), assign (the old content
    loses the slot as an owner) -/
def store (s : Sys) (v : Nat) : Sys :=
  let old := s.cell
  decOpt { (inc s v) with cell := some v } old

/-- the lock admits a writer when nobody is inside, a reader when no writer is inside -/
def lockFree (F : Facts) (s : Sys) (r : Req) : Bool :=
  if F.mode r then s.pcs.all (fun p => !p.busy) else s.pcs.all (fun p => !p.writes F)

/-- the caller's new value enters the ledger (one owner: the caller) -/
def takeIn (s : Sys) : Option Nat → Sys
  | none => s
  | some v => { s with made := v :: s.made, out := v :: s.out, owners := upd s.owners v 1 }

def freshOk (s : Sys) : Option Nat → Bool
  | none => true
  | some v => !s.made.contains v

/-- `get_data`: one more owner outside the slot (`Arc::clone`) -/
def share (s : Sys) : Option Nat → Sys
  | none => s
  | some w => { (inc s w) with out := w :: s.out }

inductive Act where
  | acquire (r : Req)
  | body
  | release
  /-- a caller lets go of a handle / raw value it owns -/
  | dropHandle (v : Nat)
  /-- the node's block is freed with the tree: the slot's content goes (recorded as a `clear`) -/
  | teardown
  deriving Repr


def step (F : Facts) (s : Sys) (i : Nat) (a : Act) : Option Sys :=
  match s.pcs[i]? with
  | none => none
  | some pc =>
    match a, pc with
    | .acquire r, .idle =>
      if lockFree F s r && freshOk s (newValue r) then some (takeIn (setPc s i (.locked r)) (newValue r)) else none
    | .body, .locked (.set v) => some (log (setPc (store s v) i (.done (.set v) (.arc v))) i (.set v) (.arc v))
    | .body, .locked (.trySet v) => some (setPc s i (.checked v s.cell.isSome))
    | .body, .checked v true => some (log (setPc s i (.done (.trySet v) (.back v))) i (.trySet v) (.back v))
    | .body, .checked v false => some (log (setPc (store s v) i (.done (.trySet v) (.arc v))) i (.trySet v) (.arc v))
    | .body, .locked .get => some (log (setPc (share s s.cell) i (.done .get (.got s.cell))) i .get (.got s.cell))
    | .body, .locked .clear =>
      some (log (setPc (decOpt { s with cell := none } s.cell) i (.done .clear .unit)) i .clear .unit)
    | .release, .done _ _ => some (setPc s i .idle)
    | .dropHandle v, _ =>
      -- a value that was moved into a call still in flight is not the caller's to drop
      if s.out.contains v && s.pcs.all (fun p => p.pending != some v) then some (dec { s with out := s.out.erase v } v) else none
    | .teardown, .idle =>
      if s.pcs.all (fun p => !p.busy) then some (log (decOpt { s with cell := none } s.cell) i .clear .unit) else none
    | _, _ => none

inductive Reachable (F : Facts) (n : Nat) : Sys → Prop where
  | init : Reachable F n (Sys.init n)
  | step {s s' : Sys} (i : Nat) (a : Act) : Reachable F n s → step F s i a = some s' → Reachable F n s'

/-- replay of a history against the sequential specification: `some c` = every recorded result is
    the specified one and the slot ends as `c` -/
def specRun : Option Nat → List Entry → Option (Option Nat)
  | c, [] => some c
  | c, (_, r, res) :: rest => if (spec c r).2 = res then specRun (spec c r).1 rest else none

/-- the slot content after a history, by the specification alone -/
def cellAfter (c : Option Nat) (h : List Entry) : Option Nat := h.foldl (fun c e => (spec c e.2.1).1) c

/-! ### composite operation used by the driver: acquire, run the body to completion, release -/

def runOp (F : Facts) (s : Sys) (i : Nat) (r : Req) : Option (Sys × Res) :=
  match step F s i (.acquire r) with
  | none => none
  | some s1 =>
    match step F s1 i .body with
    | none => none
    | some s2 =>
      let s3 := match s2.pcs[i]? with
        | some (.checked _ _) => step F s2 i .body
        | _ => some s2
      match s3 with
      | none => none
      | some s3 =>
        match s3.pcs[i]? with
        | some (.done _ res) =>
          match step F s3 i .release with
          | some s4 => some (s4, res)
          | none => none
        | _ => none

/-- every caller lets go of everything it holds -/
def dropAll (F : Facts) (s : Sys) : Nat → Sys
  | 0 => s
  | fuel + 1 =>
    match s.out with
    | [] => s
    | v :: _ =>
      match step F s 0 (.dropHandle v) with
      | some s' => dropAll F s' fuel
      | none => s

end Cst.DataSlot
