/-
  Model/Fx — `FxHasher` of rustc-hash 2.1 on a 64-bit target, as used for `child_hash`:
  `add_to_hash(w): h = (h + w) * K` (wrapping), `finish() = h.rotate_left(26)`, then `as u32`.
-/
namespace Cst

def fxK : UInt64 := 0xf1357aea2e62a9c5

def fxAdd (h w : UInt64) : UInt64 := (h + w) * fxK

def fxFinish32 (h : UInt64) : UInt32 := ((h <<< 26) ||| (h >>> 38)).toUInt32

/-- hash of a word sequence fed through `write_u32` / `write_isize` -/
def fxWords (ws : List UInt64) : UInt32 := fxFinish32 (ws.foldl fxAdd 0)

end Cst
