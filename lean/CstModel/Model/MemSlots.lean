/-
  Model/MemSlots — happens-before for the whole red-tree protocol: the reference count (as in
  `Model/MemModel`) *and* the lazily filled child slots with their reader/writer locks *and* the
  references into a slot that `read` hands out and that outlive the lock.

  Memory locations are the child slots (`loc = slot index`).  Accesses:
  * under the slot's lock: `read` (shared; `rdSlot`) and `try_write` (exclusive; installs into an empty
    slot, `wrSlot`, or finds it filled and only looks, `loseSlot`).  Taking a lock joins the lock's
    clock `K sl` into the thread's, releasing it joins the thread's clock into `K sl`;
  * outside any lock: `useElem` — a thread that has obtained a reference to the element of slot `sl`
    (it `knows` the slot: it read it filled, installed it, or received a handle from a thread that
    knew it) dereferences the slot's content;
  * the per-node data cells are further locations that are only touched under their own lock, read (`dataRd`) or
    written any number of times (`dataWr`);
  * the teardown writes every slot (and frees every block, data cells included).
  An access races with an earlier conflicting access of another thread that is not ordered before it.
-/
import CstModel.Model.MemModel
namespace Cst.MemS
open Cst.Mem

structure SAcc where
  loc : Nat
  thr : Nat
  ep : Nat
  wr : Bool
  deriving Repr, DecidableEq

structure Sys where
  rc : Int
  owned : List Nat
  C : Nat → VC
  L : VC
  K : Nat → VC
  slots : List Bool
  knows : Nat → List Nat
  acc : List SAcc
  torn : Bool
  raced : Bool

def Sys.init (owned0 : List Nat) (nslots : Nat) : Sys :=
  { rc := owned0.sum, owned := owned0, C := fun t i => if i = t then 1 else 0, L := fun _ => 0, K := fun _ _ => 0,
    slots := List.replicate nslots false, knows := fun _ => [], acc := [], torn := false, raced := false }

def updK (K : Nat → VC) (sl : Nat) (c : VC) : Nat → VC := fun i => if i = sl then c else K i
def updKnows (kn : Nat → List Nat) (t : Nat) (l : List Nat) : Nat → List Nat := fun i => if i = t then l else kn i

def rmw (s : Sys) (t : Nat) (rel acq : Bool) : Sys :=
  let c1 := if acq then join (s.C t) s.L else s.C t
  let l1 := if rel then join s.L c1 else s.L
  { s with C := updC s.C t (if rel then tick c1 t else c1), L := l1 }

/-- does an access by thread `t` (clock `c`) to `loc` conflict-and-race with the recorded access `a`? -/
def racesWith (c : VC) (t loc : Nat) (wr : Bool) (a : SAcc) : Bool :=
  a.loc == loc && (a.wr || wr) && a.thr != t && !decide (a.ep ≤ c a.thr)

/-- a critical section on slot `sl`: acquire (join `K sl`), one access, release (publish into `K sl`) -/
def locked (s : Sys) (t sl : Nat) (wr : Bool) (fill : Bool) (learn : Bool) : Sys :=
  let c1 := join (s.C t) (s.K sl)
  { s with C := updC s.C t (tick c1 t), K := updK s.K sl (join (s.K sl) c1),
           raced := s.raced || s.acc.any (racesWith c1 t sl wr),
           acc := ⟨sl, t, c1 t, wr⟩ :: s.acc,
           slots := if fill then s.slots.set sl true else s.slots,
           knows := if learn then updKnows s.knows t (sl :: s.knows t) else s.knows }

inductive Act where
  | clone
  | drop
  | send (to : Nat)
  | spawn
  /-- `read(index)` under the read lock -/
  | rdSlot (sl : Nat)
  /-- `try_write(index)`: the slot is empty, the candidate is installed -/
  | wrSlot (sl : Nat)
  /-- `try_write(index)`: the slot is already filled (the race was lost) -/
  | loseSlot (sl : Nat)
  /-- dereference of the element of a slot through a reference obtained earlier -/
  | useElem (sl : Nat)
  /-- the per-node data cell, a location that is only ever touched inside its lock (it lives *inside* its `RwLock`):
      `get_data` under the shared lock; locations of data cells are indices whose slot flag stays `false` -/
  | dataRd (loc : Nat)
  /-- `set_data` / `try_set_data` / `clear_data` under the exclusive lock: any number of writes -/
  | dataWr (loc : Nat)
  deriving Repr

def step (O : Ords) (s : Sys) (t : Nat) (a : Act) : Option Sys :=
  match s.owned[t]? with
  | none => none
  | some n =>
    match a with
    | .spawn => some { s with owned := s.owned ++ [0] }
    | .clone =>
      if n ≥ 1 then some (rmw { s with rc := s.rc + 1, owned := s.owned.set t (n + 1) } t O.incRel O.incAcq) else none
    | .send j =>
      if n ≥ 1 ∧ j ≠ t then
        match s.owned[j]? with
        | none => none
        | some m =>
          some { s with owned := (s.owned.set t (n - 1)).set j (m + 1),
                        C := updC (updC s.C j (join (s.C j) (s.C t))) t (tick (s.C t) t),
                        knows := updKnows s.knows j (s.knows t ++ s.knows j) }
      else none
    | .rdSlot sl =>
      match s.slots[sl]? with
      | some filled => if n ≥ 1 then some (locked s t sl false false filled) else none
      | none => none
    | .wrSlot sl =>
      match s.slots[sl]? with
      | some false => if n ≥ 1 then some (locked s t sl true true true) else none
      | _ => none
    | .loseSlot sl =>
      match s.slots[sl]? with
      | some true => if n ≥ 1 then some (locked s t sl false false true) else none
      | _ => none
    | .dataRd sl =>
      match s.slots[sl]? with
      | some false => if n ≥ 1 then some (locked s t sl false false false) else none
      | _ => none
    | .dataWr sl =>
      match s.slots[sl]? with
      | some false => if n ≥ 1 then some (locked s t sl true false false) else none
      | _ => none
    | .useElem sl =>
      if n ≥ 1 ∧ (s.knows t).contains sl then
        some { s with raced := s.raced || s.acc.any (racesWith (s.C t) t sl false),
                      acc := ⟨sl, t, s.C t t, false⟩ :: s.acc }
      else none
    | .drop =>
      if n ≥ 1 then
        let s1 := rmw { s with rc := s.rc - 1, owned := s.owned.set t (n - 1) } t O.decRel O.decAcq
        if s.rc = 1 then
          -- teardown: every slot is written (`*slot = None`), every block freed
          some { s1 with torn := true,
                         raced := s1.raced || s1.acc.any (fun a => a.thr != t && !decide (a.ep ≤ s1.C t a.thr)),
                         acc := (List.range s1.slots.length).map (fun sl => ⟨sl, t, s1.C t t, true⟩) ++ s1.acc }
        else some s1
      else none

inductive Reachable (O : Ords) : Sys → Prop where
  | init (owned0 : List Nat) (nslots : Nat) : Reachable O (Sys.init owned0 nslots)
  | step {s s' : Sys} (t : Nat) (a : Act) : Reachable O s → step O s t a = some s' → Reachable O s'

end Cst.MemS
