/-
  Model/Builder — `NodeCache` and `GreenNodeBuilder` (`green/builder.rs`).

  Every public operation is a total function returning `Except Panic _`; asserts appear in source
  order.  The state returned with a panic is irrelevant: a caller that catches the unwind keeps the
  *old* state except for what had already been mutated, which is made explicit where it matters
  (`tokenSteps`, C20).

  Parameters (`Cfg`): the static-text table of the `Syntax`, the child-hash function, the cache
  threshold (extracted from source), whether a node-cache hit compares children (extracted from
  source, validated by correspondence under forced collisions), and the build profile
  (`debug_assert`s).
-/
import CstModel.Model.Green
namespace Cst

inductive Panic where
  | staticMismatch      -- debug_assert_eq!(static_text, text)
  | internFailed        -- get_or_intern → "failed to intern"
  | missingStatic       -- static_token on a kind without static text
  | noParent            -- finish_node: parents.pop().unwrap()
  | sliceOob            -- &all_children[offset..] with offset > len
  | cpParentGone        -- assert!(parent_idx <= parents.len())
  | cpUnfinished        -- assert!(parent_idx >= parents.len())
  | cpChildGone         -- assert!(child_idx <= children.len())
  | cpBehindParent      -- assert!(child_idx >= first_child)
  | finishCount         -- assert_eq!(children.len(), 1)
  | finishToken         -- finish on a builder that only contains a token
  deriving Repr, DecidableEq, Inhabited

structure Cfg where
  statics : List (Nat × Text)
  H : HashFn
  threshold : Nat
  cmpChildren : Bool
  debug : Bool

def Cfg.staticText (cfg : Cfg) (k : Nat) : Option Text := cfg.statics.lookup k

/-- key of the token cache: `GreenTokenData { kind, text, text_len }` -/
abbrev TokData := Nat × Option Nat × Nat
/-- key of the node cache: `GreenNodeHead { kind, text_len, child_hash }` -/
abbrev Head := Nat × Nat × UInt32

structure Cache where
  toks : List (TokData × Green)
  nodes : List (Head × Green)
  interner : Interner
  nextId : Nat
  deriving Repr

def Cache.empty (I : Interner) : Cache := ⟨[], [], I, 0⟩

/-- `NodeCache::token`: `entry(data).or_insert_with_key(..).clone()` -/
def Cache.token (c : Cache) (d : TokData) : Green × Cache :=
  match c.toks.lookup d with
  | some g => (g, c)
  | none =>
    let g := Green.tok c.nextId d.1 d.2.1 d.2.2
    (g, { c with toks := (d, g) :: c.toks, nextId := c.nextId + 1 })

/-- a freshly allocated node that is not entered into the cache -/
def Cache.freshNode (c : Cache) (kind len : Nat) (h : UInt32) (cs : List Green) : Green × Cache :=
  (Green.node c.nextId kind len h cs, { c with nextId := c.nextId + 1 })

/-- `NodeCache::node` + `get_cached_node` on the drained children `cs`.  The node cache is a
    multi-map from heads to nodes: a hit needs an entry with this head *and* (when
    `cfg.cmpChildren`) structurally equal children; several entries may share one head. -/
def Cache.node (cfg : Cfg) (c : Cache) (kind : Nat) (cs : List Green) : Green × Cache :=
  let len := sumLen cs
  let h := cfg.H cs
  if cs.length ≤ cfg.threshold then
    match c.nodes.find? (fun e => e.1 == (kind, len, h) && (!cfg.cmpChildren || Green.beqL e.2.children cs)) with
    | some e => (e.2, c)
    | none =>
      let g := Green.node c.nextId kind len h cs
      (g, { c with nodes := ((kind, len, h), g) :: c.nodes, nextId := c.nextId + 1 })
  else c.freshNode kind len h cs

structure Builder where
  cache : Cache
  /-- open nodes, outermost first (`Vec` order): `(kind, first_child)` -/
  parents : List (Nat × Nat)
  children : List Green
  deriving Repr

def Builder.new (c : Cache) : Builder := ⟨c, [], []⟩

/-- `GreenNodeBuilder::token` -/
def Builder.token (cfg : Cfg) (b : Builder) (k : Nat) (text : Text) : Except Panic Builder :=
  match cfg.staticText k with
  | some st =>
    if cfg.debug && st != text then .error .staticMismatch
    else
      let (g, c) := b.cache.token (k, none, blen st)
      .ok { b with cache := c, children := b.children ++ [g] }
  | none =>
    match b.cache.interner.intern text with
    | none => .error .internFailed
    | some (key, I) =>
      let (g, c) := ({ b.cache with interner := I }).token (k, some key, blen text)
      .ok { b with cache := c, children := b.children ++ [g] }

/-- `token` against an interner that is told to fail its next call (`fail`): the interner is only
    consulted for kinds without static text, and it is consulted *before* anything is mutated
    (`let text = self.cache.intern(text)` precedes `cache.token` and `children.push`), so the
    panic leaves the builder and both caches as they were.  The result pairs the outcome with the
    fault switch as the call leaves it (consumed iff the interner was called). -/
def Builder.tokenF (cfg : Cfg) (b : Builder) (k : Nat) (text : Text) (fail : Bool) :
    Except Panic Builder × Bool :=
  match cfg.staticText k with
  | some _ => (b.token cfg k text, fail)
  | none => if fail then (.error .internFailed, false) else (b.token cfg k text, false)

/-- `GreenNodeBuilder::static_token` -/
def Builder.staticToken (cfg : Cfg) (b : Builder) (k : Nat) : Except Panic Builder :=
  match cfg.staticText k with
  | none => .error .missingStatic
  | some st =>
    let (g, c) := b.cache.token (k, none, blen st)
    .ok { b with cache := c, children := b.children ++ [g] }

/-- `GreenNodeBuilder::start_node` -/
def Builder.startNode (b : Builder) (k : Nat) : Builder :=
  { b with parents := b.parents ++ [(k, b.children.length)] }

/-- `GreenNodeBuilder::finish_node` -/
def Builder.finishNode (cfg : Cfg) (b : Builder) : Except Panic Builder :=
  match b.parents.getLast? with
  | none => .error .noParent
  | some (k, first) =>
    if first > b.children.length then .error .sliceOob
    else
      let (g, c) := b.cache.node cfg k (b.children.drop first)
      .ok { cache := c, parents := b.parents.dropLast, children := b.children.take first ++ [g] }

/-- `Checkpoint { parent_idx, child_idx }` -/
abbrev Checkpoint := Nat × Nat

def Builder.checkpoint (b : Builder) : Checkpoint := (b.parents.length, b.children.length)

/-- `GreenNodeBuilder::revert_to`.  The third assert looks at the innermost open node that
    *survives* the revert (`parents[parent_idx - 1]`). -/
def Builder.revertTo (b : Builder) (cp : Checkpoint) : Except Panic Builder :=
  if cp.1 > b.parents.length then .error .cpParentGone
  else if cp.2 > b.children.length then .error .cpChildGone
  else
    match (b.parents.take cp.1).getLast? with
    | some (_, first) =>
      if cp.2 < first then .error .cpBehindParent
      else .ok { b with parents := b.parents.take cp.1, children := b.children.take cp.2 }
    | none => .ok { b with parents := b.parents.take cp.1, children := b.children.take cp.2 }

/-- `GreenNodeBuilder::start_node_at` -/
def Builder.startNodeAt (b : Builder) (cp : Checkpoint) (k : Nat) : Except Panic Builder :=
  if cp.1 > b.parents.length then .error .cpParentGone
  else if cp.1 < b.parents.length then .error .cpUnfinished
  else if cp.2 > b.children.length then .error .cpChildGone
  else
    match b.parents.getLast? with
    | some (_, first) =>
      if cp.2 < first then .error .cpBehindParent
      else .ok { b with parents := b.parents ++ [(k, cp.2)] }
    | none => .ok { b with parents := b.parents ++ [(k, cp.2)] }

/-- `GreenNodeBuilder::finish` (note: `parents` is *not* inspected) -/
def Builder.finish (b : Builder) : Except Panic (Green × Cache) :=
  match b.children with
  | [g] => if g.isNode then .ok (g, b.cache) else .error .finishToken
  | _ => .error .finishCount

/-! ### event streams -/

inductive Ev where
  | start (k : Nat)
  | tok (k : Nat) (text : Text)
  | stok (k : Nat)
  | finish
  deriving Repr, DecidableEq

def Builder.step (cfg : Cfg) (b : Builder) : Ev → Except Panic Builder
  | .start k => .ok (b.startNode k)
  | .tok k t => b.token cfg k t
  | .stok k => b.staticToken cfg k
  | .finish => b.finishNode cfg

def Builder.run (cfg : Cfg) (b : Builder) : List Ev → Except Panic Builder
  | [] => .ok b
  | e :: es =>
    match b.step cfg e with
    | .ok b' => Builder.run cfg b' es
    | .error p => .error p

/-- a whole build through cache `c`: new builder, all events, `finish` -/
def build (cfg : Cfg) (c : Cache) (evs : List Ev) : Except Panic (Green × Cache) :=
  match (Builder.new c).run cfg evs with
  | .ok b => b.finish
  | .error p => .error p

end Cst
