/-
  Model/Red — the lazily materialised red layer (`syntax/node.rs`, `token.rs`, `element.rs`,
  `iter.rs`).

  A position is a path of child indices from the root.  The state of a red tree is the set of
  materialised positions together with the offset each one *stored when it was first created*
  (`Kind::Child { offset }` / `SyntaxToken { offset }`): `get_or_add_*` returns whatever is in the
  slot and only stores the offset its caller computed when the slot is empty — it trusts its caller.
  Offsets are computed along the routes exactly as coded: `children_from` (running offset,
  forwards), `children_to` (running offset, backwards, subtracting *before* yielding), the `Iter`
  of the child iterators, sibling hops (start from the element's own end/start), and the public
  indexed look-ups that take index and offset from the caller.
-/
import CstModel.Model.GreenOps
namespace Cst

abbrev Path := List Nat

structure Red where
  root : Green
  /-- materialised positions and their stored start offsets (the root stores none: offset 0) -/
  slots : List (Path × Nat)
  deriving Repr

namespace Red

def new (g : Green) : Red := ⟨g, []⟩

def green (r : Red) (p : Path) : Option Green := Green.get r.root p

/-- `text_range().start()` of a materialised element -/
def start (r : Red) (p : Path) : Option Nat :=
  if p = [] then some 0 else r.slots.lookup p

/-- `text_range()` -/
def range (r : Red) (p : Path) : Option (Nat × Nat) :=
  match r.start p, r.green p with
  | some o, some g => some (o, o + g.len)
  | _, _ => none

/-- `get_or_add_node` / `get_or_add_element` for child `i` of the node at `p` -/
def getOrAdd (r : Red) (p : Path) (i : Nat) (off : Nat) : Red :=
  match r.slots.lookup (p ++ [i]) with
  | some _ => r
  | none => { r with slots := (p ++ [i], off) :: r.slots }

end Red

/-! ### the green-level routes -/

/-- `GreenNode::children_from(start_index, offset)`: `(element, index, offset)` -/
def childrenFromGo : List Green → Nat → Nat → List (Green × Nat × Nat)
  | [], _, _ => []
  | c :: rest, i, o => (c, i, o) :: childrenFromGo rest (i + 1) (o + c.len)

def childrenFrom (cs : List Green) (startIdx off : Nat) : List (Green × Nat × Nat) :=
  childrenFromGo (cs.drop startIdx) startIdx off

/-- `GreenNode::children_to(end_index, offset)`: runs backwards, `offset -= len` before yielding -/
def childrenToGo : List Green → Nat → Nat → List (Green × Nat × Nat)
  | [], _, _ => []
  | c :: rest, i, o => (c, i - 1, o - c.len) :: childrenToGo rest (i - 1) (o - c.len)

def childrenTo (cs : List Green) (endIdx off : Nat) : List (Green × Nat × Nat) :=
  childrenToGo (cs.take endIdx).reverse (min endIdx cs.length) off

def firstNode : List (Green × Nat × Nat) → Option (Green × Nat × Nat)
  | [] => none
  | (g, i, o) :: rest => if g.isNode then some (g, i, o) else firstNode rest

namespace Red

/-- shared tail of every single-result navigation: materialise and return the position -/
def pick (r : Red) (p : Path) : Option (Green × Nat × Nat) → Option Path × Red
  | none => (none, r)
  | some (_, i, o) => (some (p ++ [i]), r.getOrAdd p i o)

def firstChild (r : Red) (p : Path) : Option Path × Red :=
  match r.green p, r.start p with
  | some g, some o => r.pick p (firstNode (childrenFrom g.children 0 o))
  | _, _ => (none, r)

def firstChildOrToken (r : Red) (p : Path) : Option Path × Red :=
  match r.green p, r.start p with
  | some g, some o => r.pick p (childrenFrom g.children 0 o).head?
  | _, _ => (none, r)

def lastChild (r : Red) (p : Path) : Option Path × Red :=
  match r.green p, r.start p with
  | some g, some o => r.pick p (firstNode (childrenTo g.children g.children.length (o + g.len)))
  | _, _ => (none, r)

def lastChildOrToken (r : Red) (p : Path) : Option Path × Red :=
  match r.green p, r.start p with
  | some g, some o => r.pick p (childrenTo g.children g.children.length (o + g.len)).head?
  | _, _ => (none, r)

/-- `next_child_after(n, offset)` — index and offset come from the caller -/
def nextChildAfter (r : Red) (p : Path) (n off : Nat) : Option Path × Red :=
  match r.green p with
  | some g => r.pick p (firstNode (childrenFrom g.children (n + 1) off))
  | none => (none, r)

def nextChildOrTokenAfter (r : Red) (p : Path) (n off : Nat) : Option Path × Red :=
  match r.green p with
  | some g => r.pick p (childrenFrom g.children (n + 1) off).head?
  | none => (none, r)

def prevChildBefore (r : Red) (p : Path) (n off : Nat) : Option Path × Red :=
  match r.green p with
  | some g => r.pick p (firstNode (childrenTo g.children n off))
  | none => (none, r)

def prevChildOrTokenBefore (r : Red) (p : Path) (n off : Nat) : Option Path × Red :=
  match r.green p with
  | some g => r.pick p (childrenTo g.children n off).head?
  | none => (none, r)

/-- parent path and own index; `none` for the root -/
def split (p : Path) : Option (Path × Nat) :=
  match p.getLast? with
  | none => none
  | some i => some (p.dropLast, i)

def parent (p : Path) : Option Path := (split p).map (·.1)

/-- `next_sibling` (nodes only): `parent.children_from(index + 1, self.end)` -/
def nextSibling (r : Red) (p : Path) : Option Path × Red :=
  match split p, r.range p with
  | some (q, i), some (_, e) => r.nextChildAfter q i e
  | _, _ => (none, r)

def nextSiblingOrToken (r : Red) (p : Path) : Option Path × Red :=
  match split p, r.range p with
  | some (q, i), some (_, e) => r.nextChildOrTokenAfter q i e
  | _, _ => (none, r)

def prevSibling (r : Red) (p : Path) : Option Path × Red :=
  match split p, r.range p with
  | some (q, i), some (s, _) => r.prevChildBefore q i s
  | _, _ => (none, r)

def prevSiblingOrToken (r : Red) (p : Path) : Option Path × Red :=
  match split p, r.range p with
  | some (q, i), some (s, _) => r.prevChildOrTokenBefore q i s
  | _, _ => (none, r)

/-- `ancestors()`: the node itself and the chain of parents (for a token: from its parent) -/
def ancestorsOf : Path → Nat → List Path
  | _, 0 => []
  | p, n + 1 => p :: (match parent p with | some q => ancestorsOf q n | none => [])

def ancestors (r : Red) (p : Path) : List Path :=
  match r.green p with
  | some g => if g.isNode then ancestorsOf p (p.length + 1) else
      (match parent p with | some q => ancestorsOf q (q.length + 1) | none => [])
  | none => []

/-! #### child iterators (`iter.rs`) -/

/-- state of `Iter`: remaining green children, next index, running offset -/
structure It where
  parent : Path
  rest : List Green
  index : Nat
  offset : Nat
  deriving Repr

def iterNew (r : Red) (p : Path) : Option It :=
  match r.green p, r.start p with
  | some g, some o => some ⟨p, g.children, 0, o⟩
  | _, _ => none

/-- `SyntaxElementChildren::next` -/
def It.nextElem (it : It) (r : Red) : Option Path × It × Red :=
  match it.rest with
  | [] => (none, it, r)
  | c :: rest =>
    (some (it.parent ++ [it.index]),
     { it with rest := rest, index := it.index + 1, offset := it.offset + c.len },
     r.getOrAdd it.parent it.index it.offset)

/-- `SyntaxNodeChildren::next`: skips tokens (advancing index and offset) -/
def It.nextNode (it : It) (r : Red) : Nat → Option Path × It × Red
  | 0 => (none, it, r)
  | fuel + 1 =>
    match it.rest with
    | [] => (none, it, r)
    | c :: rest =>
      let it' := { it with rest := rest, index := it.index + 1, offset := it.offset + c.len }
      if c.isNode then (some (it.parent ++ [it.index]), it', r.getOrAdd it.parent it.index it.offset)
      else It.nextNode it' r fuel

/-- `SyntaxElementChildren::{len, size_hint, count}`: the number of remaining children -/
def It.lenElems (it : It) : Nat := it.rest.length

/-- `SyntaxNodeChildren::{len, size_hint, count}`: the number of remaining *node* children -/
def It.lenNodes (it : It) : Nat := (it.rest.filter Green.isNode).length

def collectElems (it : It) (r : Red) : Nat → List Path × Red
  | 0 => ([], r)
  | fuel + 1 =>
    match it.nextElem r with
    | (some p, it', r') => let (ps, r'') := collectElems it' r' fuel; (p :: ps, r'')
    | (none, _, r') => ([], r')

def collectNodes (it : It) (r : Red) : Nat → List Path × Red
  | 0 => ([], r)
  | fuel + 1 =>
    match it.nextNode r (it.rest.length + 1) with
    | (some p, it', r') => let (ps, r'') := collectNodes it' r' fuel; (p :: ps, r'')
    | (none, _, r') => ([], r')

def childrenWithTokens (r : Red) (p : Path) : List Path × Red :=
  match iterNew r p with
  | some it => collectElems it r (it.rest.length + 1)
  | none => ([], r)

def children (r : Red) (p : Path) : List Path × Red :=
  match iterNew r p with
  | some it => collectNodes it r (it.rest.length + 1)
  | none => ([], r)

/-! #### `iter::successors` chains -/

def chain (step : Red → Path → Option Path × Red) : Nat → Red → Path → List Path × Red
  | 0, r, _ => ([], r)
  | n + 1, r, p =>
    match step r p with
    | (some q, r') => let (ps, r'') := chain step n r' q; (q :: ps, r'')
    | (none, r') => ([], r')

def nSiblings (r : Red) (p : Path) : Nat :=
  match parent p with
  | some q => (match r.green q with | some g => g.children.length + 1 | none => 1)
  | none => 1

/-- `siblings(direction)` — first item is the element itself -/
def siblings (r : Red) (p : Path) (next : Bool) : List Path × Red :=
  let (ps, r') := chain (if next then nextSibling else prevSibling) (nSiblings r p) r p
  (p :: ps, r')

def siblingsWithTokens (r : Red) (p : Path) (next : Bool) : List Path × Red :=
  let (ps, r') := chain (if next then nextSiblingOrToken else prevSiblingOrToken) (nSiblings r p) r p
  (p :: ps, r')

/-! #### preorder walks -/

inductive WE where
  | enter (p : Path)
  | leave (p : Path)
  deriving Repr, DecidableEq

/-- successor function of `preorder_with_tokens` started at `start` -/
def walkNextT (start : Path) (r : Red) : WE → Option WE × Red
  | .enter p =>
    match r.green p with
    | some g =>
      if g.isNode then
        match r.firstChildOrToken p with
        | (some c, r') => (some (.enter c), r')
        | (none, r') => (some (.leave p), r')
      else (some (.leave p), r)
    | none => (none, r)
  | .leave p =>
    if p = start then (none, r)
    else
      match r.nextSiblingOrToken p with
      | (some s, r') => (some (.enter s), r')
      | (none, r') =>
        match parent p with
        | some q => (some (.leave q), r')
        | none => (none, r')      -- `parent().unwrap()`; unreachable below `start`

/-- successor function of `preorder` (nodes only) -/
def walkNextN (start : Path) (r : Red) : WE → Option WE × Red
  | .enter p =>
    match r.firstChild p with
    | (some c, r') => (some (.enter c), r')
    | (none, r') => (some (.leave p), r')
  | .leave p =>
    if p = start then (none, r)
    else
      match r.nextSibling p with
      | (some s, r') => (some (.enter s), r')
      | (none, r') =>
        match parent p with
        | some q => (some (.leave q), r')
        | none => (none, r')

def walk (next : Red → WE → Option WE × Red) : Nat → Red → WE → List WE × Red
  | 0, r, _ => ([], r)
  | n + 1, r, e =>
    match next r e with
    | (some e', r') => let (es, r'') := walk next n r' e'; (e :: es, r'')
    | (none, r') => ([e], r')

mutual
def gsize : Green → Nat
  | .tok .. => 1
  | .node _ _ _ _ cs => 1 + gsizeL cs
def gsizeL : List Green → Nat
  | [] => 0
  | g :: gs => gsize g + gsizeL gs
end

def walkFuel (r : Red) (p : Path) : Nat :=
  match r.green p with
  | some g => 2 * gsize g + 1
  | none => 1

def preorderWithTokens (r : Red) (p : Path) : List WE × Red :=
  walk (walkNextT p) (walkFuel r p) r (.enter p)

def preorder (r : Red) (p : Path) : List WE × Red :=
  walk (walkNextN p) (walkFuel r p) r (.enter p)

def enters : List WE → List Path
  | [] => []
  | .enter p :: es => p :: enters es
  | .leave _ :: es => enters es

def descendantsWithTokens (r : Red) (p : Path) : List Path × Red :=
  let (es, r') := preorderWithTokens r p; (enters es, r')

def descendants (r : Red) (p : Path) : List Path × Red :=
  let (es, r') := preorder r p; (enters es, r')

/-! #### token navigation -/

def isToken (r : Red) (p : Path) : Bool :=
  match r.green p with
  | some g => !g.isNode
  | none => false

/-- `first_token` of an element: the element itself if it is a token, otherwise the first token in
    its sub-tree (searching on past token-less children).  Fuel = size of the sub-tree. -/
def firstTokenGo : Nat → Red → Path → Option Path × Red
  | 0, r, _ => (none, r)
  | n + 1, r, p =>
    if r.isToken p then (some p, r)
    else
      -- children_with_tokens().find_map(|el| el.first_token())
      match iterNew r p with
      | none => (none, r)
      | some it => scan n it r (it.rest.length + 1)
where
  scan (n : Nat) (it : It) (r : Red) : Nat → Option Path × Red
    | 0 => (none, r)
    | k + 1 =>
      match it.nextElem r with
      | (some c, it', r') =>
        (match firstTokenGo n r' c with
         | (some t, r'') => (some t, r'')
         | (none, r'') => scan n it' r'' k)
      | (none, _, r') => (none, r')

def elemFirstToken (r : Red) (p : Path) : Option Path × Red := firstTokenGo (walkFuel r p) r p

/-- `last_token`: right to left through `last_child_or_token` / `prev_sibling_or_token` -/
def lastTokenGo : Nat → Red → Path → Option Path × Red
  | 0, r, _ => (none, r)
  | n + 1, r, p =>
    if r.isToken p then (some p, r)
    else
      match r.lastChildOrToken p with
      | (none, r') => (none, r')
      | (some c, r') => scanBack n r' c (nSiblings r' c)
where
  scanBack (n : Nat) (r : Red) (c : Path) : Nat → Option Path × Red
    | 0 => (none, r)
    | k + 1 =>
      match lastTokenGo n r c with
      | (some t, r') => (some t, r')
      | (none, r') =>
        match r'.prevSiblingOrToken c with
        | (some c', r'') => scanBack n r'' c' k
        | (none, r'') => (none, r'')

def elemLastToken (r : Red) (p : Path) : Option Path × Red := lastTokenGo (walkFuel r p) r p

/-- `first_token()` / `last_token()` of a node -/
def firstToken (r : Red) (p : Path) : Option Path × Red := elemFirstToken r p
def lastToken (r : Red) (p : Path) : Option Path × Red := elemLastToken r p

/-- `next_token`: first token of the closest following sibling — of this token or of one of its
    ancestors — that contains a token -/
def nextTokenGo : Nat → Red → Path → Option Path × Red
  | 0, r, _ => (none, r)
  | n + 1, r, cur =>
    match r.nextSiblingOrToken cur with
    | (some s, r') =>
      (match sibScan r' s (nSiblings r' s) with
       | (some t, r'') => (some t, r'')
       | (none, r'') => up n r'' cur)
    | (none, r') => up n r' cur
where
  sibScan (r : Red) (s : Path) : Nat → Option Path × Red
    | 0 => (none, r)
    | k + 1 =>
      match elemFirstToken r s with
      | (some t, r') => (some t, r')
      | (none, r') =>
        match r'.nextSiblingOrToken s with
        | (some s', r'') => sibScan r'' s' k
        | (none, r'') => (none, r'')
  up (n : Nat) (r : Red) (cur : Path) : Option Path × Red :=
    match parent cur with
    | some q => nextTokenGo n r q
    | none => (none, r)

def nextToken (r : Red) (p : Path) : Option Path × Red := nextTokenGo (p.length + 1) r p

def prevTokenGo : Nat → Red → Path → Option Path × Red
  | 0, r, _ => (none, r)
  | n + 1, r, cur =>
    match r.prevSiblingOrToken cur with
    | (some s, r') =>
      (match sibScan r' s (nSiblings r' s) with
       | (some t, r'') => (some t, r'')
       | (none, r'') => up n r'' cur)
    | (none, r') => up n r' cur
where
  sibScan (r : Red) (s : Path) : Nat → Option Path × Red
    | 0 => (none, r)
    | k + 1 =>
      match elemLastToken r s with
      | (some t, r') => (some t, r')
      | (none, r') =>
        match r'.prevSiblingOrToken s with
        | (some s', r'') => sibScan r'' s' k
        | (none, r'') => (none, r'')
  up (n : Nat) (r : Red) (cur : Path) : Option Path × Red :=
    match parent cur with
    | some q => prevTokenGo n r q
    | none => (none, r)

def prevToken (r : Red) (p : Path) : Option Path × Red := prevTokenGo (p.length + 1) r p

end Red
end Cst
