/-
  Model/Green — green elements.  `id` is a ghost allocation number that models pointer identity
  (sharing through the node cache is not otherwise visible); everything else is what the Rust
  structs store: `GreenTokenData { kind, text: Option<TokenKey>, text_len }`,
  `GreenNodeHead { kind, text_len, child_hash }` + children.
-/
import CstModel.Model.Fx
import CstModel.Model.Interner
namespace Cst

inductive Green where
  | tok (id kind : Nat) (key : Option Nat) (len : Nat)
  | node (id kind len : Nat) (hash : UInt32) (children : List Green)
  deriving Repr, Inhabited

namespace Green

def id : Green → Nat
  | tok i .. => i
  | node i .. => i

def kind : Green → Nat
  | tok _ k .. => k
  | node _ k .. => k

/-- `text_len()` — the *stored* length -/
def len : Green → Nat
  | tok _ _ _ l => l
  | node _ _ l _ _ => l

def children : Green → List Green
  | tok .. => []
  | node _ _ _ _ cs => cs

def isNode : Green → Bool
  | tok .. => false
  | node .. => true

/-- the words the derived `Hash` impls feed to the hasher for one `GreenElement`
    (enum discriminant `Node = 0`, `Token = 1`; `Option` discriminant; the key hashes its
    non-zero inner value `raw + 1`) -/
def hashWords : Green → List UInt64
  | tok _ k none l => [1, UInt64.ofNat k, 0, UInt64.ofNat l]
  | tok _ k (some key) l => [1, UInt64.ofNat k, 1, UInt64.ofNat (key + 1), UInt64.ofNat l]
  | node _ k l h _ => [0, UInt64.ofNat k, UInt64.ofNat l, h.toUInt64]

end Green

/-- sum of the stored child lengths (`text_len += child.text_len()`) -/
def sumLen : List Green → Nat
  | [] => 0
  | g :: gs => g.len + sumLen gs

/-- a child-hash function; every builder theorem is stated for an arbitrary one -/
abbrev HashFn := List Green → UInt32

/-- the implementation's child hash: Fx over the children's words, and-ed with the
    `cstree_verif` hash mask (`0xFFFFFFFF` = no hook) -/
def fxChildHash (mask : UInt32) : HashFn := fun cs =>
  fxWords (cs.flatMap Green.hashWords) &&& mask

/-! ### structural equality (`==` on `GreenNode` / `GreenToken`; ids are not compared) -/

mutual
def Green.beq : Green → Green → Bool
  | .tok _ k1 key1 l1, .tok _ k2 key2 l2 => k1 == k2 && key1 == key2 && l1 == l2
  | .node _ k1 l1 h1 cs1, .node _ k2 l2 h2 cs2 => k1 == k2 && l1 == l2 && h1 == h2 && Green.beqL cs1 cs2
  | _, _ => false
def Green.beqL : List Green → List Green → Bool
  | [], [] => true
  | a :: as, b :: bs => Green.beq a b && Green.beqL as bs
  | _, _ => false
end

/-- `Hash for GreenNode` hashes the head only -/
def Green.headWords : Green → List UInt64
  | .node _ k l h _ => [UInt64.ofNat k, UInt64.ofNat l, h.toUInt64]
  | .tok _ k none l => [UInt64.ofNat k, 0, UInt64.ofNat l]
  | .tok _ k (some key) l => [UInt64.ofNat k, 1, UInt64.ofNat (key + 1), UInt64.ofNat l]

end Cst
