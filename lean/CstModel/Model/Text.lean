/-
  Model/Text — texts as `List Char`, byte lengths via UTF-8, character boundaries, byte slicing,
  and the hex codec used by the line protocol.  Import-free (core only) so the driver links.
-/
namespace Cst

/-- A text is a list of Unicode scalar values; the Rust side only ever holds valid UTF-8. -/
abbrev Text := List Char

/-- UTF-8 byte length (`str::len`). -/
def blen : Text → Nat
  | [] => 0
  | c :: cs => c.utf8Size + blen cs

@[simp] theorem blen_nil : blen [] = 0 := rfl
@[simp] theorem blen_cons (c : Char) (cs : Text) : blen (c :: cs) = c.utf8Size + blen cs := rfl

theorem blen_append (a b : Text) : blen (a ++ b) = blen a + blen b := by
  induction a with
  | nil => simp
  | cons c cs ih => simp [ih]; omega

/-- `str::is_char_boundary` for indices `≤ len` (Rust returns `false` beyond the end, so do we). -/
def isBoundary : Text → Nat → Bool
  | _, 0 => true
  | [], _ + 1 => false
  | c :: cs, n + 1 => if c.utf8Size ≤ n + 1 then isBoundary cs (n + 1 - c.utf8Size) else false

/-- Characters of the prefix that ends at byte `n`; `none` when `n` is not a boundary (slice panic). -/
def takeBytes : Text → Nat → Option Text
  | _, 0 => some []
  | [], _ + 1 => none
  | c :: cs, n + 1 =>
    if c.utf8Size ≤ n + 1 then (takeBytes cs (n + 1 - c.utf8Size)).map (c :: ·) else none

/-- Characters of the suffix that starts at byte `n`; `none` when `n` is not a boundary. -/
def dropBytes : Text → Nat → Option Text
  | cs, 0 => some cs
  | [], _ + 1 => none
  | c :: cs, n + 1 => if c.utf8Size ≤ n + 1 then dropBytes cs (n + 1 - c.utf8Size) else none

/-- `&s[a..b]`: `none` exactly where Rust panics (a > b, b > len, or a/b not on a boundary). -/
def sliceBytes (s : Text) (a b : Nat) : Option Text :=
  if a ≤ b then
    match dropBytes s a with
    | some r => takeBytes r (b - a)
    | none => none
  else none

/-- byte offset of the first occurrence of `c` (`str::find(char)`). -/
def findChar : Text → Char → Option Nat
  | [], _ => none
  | d :: ds, c => if d = c then some 0 else (findChar ds c).map (· + d.utf8Size)

/-! ### hex codec for the protocol (texts travel as lower-case hex of their UTF-8 bytes; `-` = empty) -/

def hexDigit (n : Nat) : Char :=
  if n < 10 then Char.ofNat (48 + n) else Char.ofNat (87 + n)

def hexVal (c : Char) : Option Nat :=
  if '0' ≤ c ∧ c ≤ '9' then some (c.toNat - 48)
  else if 'a' ≤ c ∧ c ≤ 'f' then some (c.toNat - 87)
  else none

def hexOfBytes (bs : List UInt8) : String :=
  String.ofList (bs.flatMap fun b => [hexDigit (b.toNat / 16), hexDigit (b.toNat % 16)])

def bytesOfHex : List Char → Option (List UInt8)
  | [] => some []
  | [_] => none
  | a :: b :: rest =>
    match hexVal a, hexVal b, bytesOfHex rest with
    | some x, some y, some r => some (UInt8.ofNat (x * 16 + y) :: r)
    | _, _, _ => none

def encodeText (t : Text) : String :=
  if t.isEmpty then "-" else hexOfBytes (String.ofList t).toUTF8.toList

def decodeText (s : String) : Option Text :=
  if s = "-" then some [] else
  match bytesOfHex s.toList with
  | none => none
  | some bs =>
    match String.fromUTF8? (ByteArray.mk bs.toArray) with
    | some str => some str.toList
    | none => none

end Cst
