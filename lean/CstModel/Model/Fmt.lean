/-
  Model/Fmt — `write_display`, `write_debug` (`syntax/node.rs`, `token.rs`), `text_eq` (`token.rs`).
-/
import CstModel.Model.Query
import CstModel.Model.Tree
namespace Cst

/-- `SyntaxToken::resolve_text`: `static_text().or_else(|| green.text(resolver)).unwrap()` -/
def tokenText (cfg : Cfg) (I : Interner) : Green → Option Text
  | .tok _ k key _ =>
    match cfg.staticText k with
    | some st => some st
    | none => match key with
      | some key => I.resolve key
      | none => none
  | .node .. => none

/-- `SyntaxToken::text_eq`; `none` = a `debug_assert!` fired (debug builds only) -/
def textEq (cfg : Cfg) (a b : Green) : Option Bool :=
  match a, b with
  | .tok _ ka keya _, .tok _ kb keyb _ =>
    match keya, keyb with
    | some k1, some k2 => some (k1 == k2)
    | some _, none => some false
    | none, some _ => some false
    | none, none =>
      if cfg.debug && ((cfg.staticText ka).isNone || (cfg.staticText kb).isNone) then none
      else some (ka == kb || cfg.staticText ka == cfg.staticText kb)
  | _, _ => none

/-- append two partial texts (`none` = a token failed to resolve, i.e. the `unwrap` panicked) -/
def appendOpt : Option Text → Option Text → Option Text
  | some a, some b => some (a ++ b)
  | _, _ => none

namespace Red

/-- `write_display` of a node: the texts of the tokens entered by `preorder_with_tokens` -/
def display (cfg : Cfg) (I : Interner) (r : Red) (p : Path) : Option Text × Red :=
  if r.isToken p then ((r.green p).bind (tokenText cfg I), r)
  else
    let (ps, r') := r.descendantsWithTokens p
    let toks := ps.filter r'.isToken
    (toks.foldl (fun acc q => appendOpt acc ((r'.green q).bind (tokenText cfg I))) (some []), r')

/-- one debug line: kind, range, and for tokens the shown (possibly abbreviated) text;
    `none` = panic -/
structure DbgLine where
  depth : Nat
  kind : Nat
  range : Nat × Nat
  text : Option Text
  deriving Repr

def debugLine (cfg : Cfg) (I : Interner) (win : Nat × Nat × Nat) (r : Red) (p : Path) (depth : Nat) : Option DbgLine :=
  match r.green p, r.range p with
  | some g, some rg =>
    if g.isNode then some ⟨depth, g.kind, rg, none⟩
    else
      match tokenText cfg I g with
      | some t =>
        match tokenDebugText win.1 win.2.1 win.2.2 t with
        | some shown => some ⟨depth, g.kind, rg, some shown⟩
        | none => none
      | none => none
  | _, _ => none

/-- recursive debug: one line per `Enter`, indented by the running level; `Leave` decrements it;
    `assert_eq!(level, 0)` at the end -/
def debugRecGo (cfg : Cfg) (I : Interner) (win : Nat × Nat × Nat) (r : Red) : List WE → Nat → Option (List DbgLine)
  | [], level => if level = 0 then some [] else none
  | .enter p :: es, level =>
    match debugLine cfg I win r p level, debugRecGo cfg I win r es (level + 1) with
    | some l, some ls => some (l :: ls)
    | _, _ => none
  | .leave _ :: es, level =>
    if level = 0 then none else debugRecGo cfg I win r es (level - 1)

def debugRec (cfg : Cfg) (I : Interner) (win : Nat × Nat × Nat) (r : Red) (p : Path) : Option (List DbgLine) × Red :=
  let (es, r') := r.preorderWithTokens p
  (debugRecGo cfg I win r' es 0, r')

end Red
end Cst
