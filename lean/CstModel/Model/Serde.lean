/-
  Model/Serde — the event-stream form of a tree (`serde_impls.rs`): serialisation walks
  `preorder_with_tokens`, deserialisation replays the events into a fresh `GreenNodeBuilder`
  while tracking the nesting, then attaches the data list to the nodes flagged as carrying data.
  JSON itself (serde_json) is not modelled.
-/
import CstModel.Model.Fmt
namespace Cst

inductive SEv where
  | enter (k : Nat) (hasData : Bool)
  | token (k : Nat) (text : Text)
  | leave
  deriving Repr, DecidableEq

/-- outcome of deserialisation -/
inductive DRes (α : Type) where
  | ok (a : α)
  | err          -- `Err(_)`
  | panic
  deriving Repr

namespace Red

/-- `gen_serialize!`: events of the walk; `flag p` says whether the node at `p` has data -/
def serEvent (cfg : Cfg) (I : Interner) (r : Red) (flag : Path → Bool) : WE → Option (Option SEv)
  | .enter p =>
    match r.green p with
    | some g =>
      if g.isNode then some (some (.enter g.kind (flag p)))
      else (tokenText cfg I g).map (fun t => some (.token g.kind t))
    | none => none
  | .leave p =>
    match r.green p with
    | some g => if g.isNode then some (some .leave) else some none
    | none => none

def collectEvents (cfg : Cfg) (I : Interner) (r : Red) (flag : Path → Bool) : List WE → Option (List SEv)
  | [] => some []
  | e :: es =>
    match serEvent cfg I r flag e, collectEvents cfg I r flag es with
    | some (some s), some ss => some (s :: ss)
    | some none, some ss => some ss
    | _, _ => none

/-- serialise the whole tree; `none` = panic (a token that does not resolve) -/
def serialize (cfg : Cfg) (I : Interner) (r : Red) (flag : Path → Bool) : Option (List SEv) × Red :=
  let (es, r') := r.preorderWithTokens []
  (collectEvents cfg I r' flag es, r')

end Red

/-- visitor state: the builder, the flags seen so far, open nodes, root nodes -/
structure DeSt where
  b : Builder
  flags : List Bool
  openN : Nat
  roots : Nat

def deserStep (cfg : Cfg) (s : DeSt) : SEv → DRes DeSt
  | .enter k f =>
    if s.openN = 0 ∧ s.roots > 0 then .err
    else .ok { s with b := s.b.startNode k, flags := s.flags ++ [f], openN := s.openN + 1,
                      roots := if s.openN = 0 then s.roots + 1 else s.roots }
  | .token k t =>
    if s.openN = 0 then .err
    else match s.b.token cfg k t with
      | .ok b' => .ok { s with b := b' }
      | .error _ => .panic
  | .leave =>
    if s.openN = 0 then .err
    else match s.b.finishNode cfg with
      | .ok b' => .ok { s with b := b', openN := s.openN - 1 }
      | .error _ => .panic

def deserRun (cfg : Cfg) (s : DeSt) : List SEv → DRes DeSt
  | [] => .ok s
  | e :: es =>
    match deserStep cfg s e with
    | .ok s' => deserRun cfg s' es
    | .err => .err
    | .panic => .panic

/-- zip the nodes (in preorder) with the flags, popping data for flagged nodes; `none` = error
    (underflow or left-over data) -/
def attachData : List Bool → List Nat → Nat → Option (List (Nat × Nat))
  | [], [], _ => some []
  | [], _ :: _, _ => none
  | false :: fs, ds, i => attachData fs ds (i + 1)
  | true :: fs, d :: ds, i => (attachData fs ds (i + 1)).map ((i, d) :: ·)
  | true :: _, [], _ => none

/-- `Deserialize for ResolvedNode`: events, then data.  Result: green root, its cache (whose
    interner becomes the tree's resolver), and the data attached by preorder node index. -/
def deserialize (cfg : Cfg) (cap : Nat) (evs : List SEv) (data : List Nat) : DRes (Green × Cache × List (Nat × Nat)) :=
  match deserRun cfg ⟨Builder.new (Cache.empty (Interner.empty cap)), [], 0, 0⟩ evs with
  | .err => .err
  | .panic => .panic
  | .ok s =>
    if s.openN ≠ 0 ∨ s.roots ≠ 1 then .err
    else match s.b.finish with
      | .error _ => .panic
      | .ok (g, c) =>
        match attachData s.flags data 0 with
        | some att => .ok (g, c, att)
        | none => .err

end Cst
