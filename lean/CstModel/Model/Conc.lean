/-
  Model/Conc — the slot / reference-count protocol of the red tree (`syntax/node.rs`) as a
  labelled transition system for an arbitrary number of threads and slots.

  Granularity: one transition per *scheduling point* of the hooks (a lock acquisition or a
  read-modify-write of the tree's counter) — what a thread does from one point to its next is
  atomic.  Read locks are taken and released within one such segment; the only lock held across
  points is the write lock of a slot held by the loser of a creation race while it repairs the
  counter (`try_write`, `else` branch).

  * `rc`     : the tree's reference count as an `Int` (the `AtomicU32` wraps below zero during
               teardown; the only test the code makes is `prev == 1`)
  * `slots`  : per child slot, the element installed in it (`true` = node with its block id)
  * `blocks` : allocated `NodeData` blocks (installed ones and candidates in flight)
  * `thr`    : per thread, the number of owned handles and where it is inside `get_or_add`
  `compNode` / `compTok` are the amounts the loser adds back (extracted from source).
-/
namespace Cst.Conc

inductive PC where
  | idle
  /-- saw the slot empty; holds a candidate (`cand = some id` for a node: a `NodeData` was allocated) -/
  | missed (slot : Nat) (isNode : Bool) (cand : Nat)
  /-- lost the race; holds the slot's write lock; next: `fetch_add(comp)` -/
  | holdW (slot : Nat) (isNode : Bool) (cand : Nat)
  /-- compensation added; next: drop of the candidate handle (`fetch_sub`) -/
  | added (slot : Nat) (isNode : Bool) (cand : Nat)
  /-- node loser: candidate handle dropped; next: free its `NodeData`, dropping the parent handle in it -/
  | dropped1 (slot : Nat) (cand : Nat)
  /-- write section left (lock released); next: re-read of the slot -/
  | reread (slot : Nat)
  deriving Repr, DecidableEq

structure Thr where
  owned : Nat
  pc : PC
  deriving Repr

structure Facts where
  compNode : Int
  compTok : Int
  deriving Repr

structure Sys where
  rc : Int
  torn : Nat
  slots : List (Option (Bool × Nat))
  blocks : List Nat
  freed : List Nat
  nextId : Nat
  thr : List Thr
  deriving Repr

def Sys.init (nslots nthreads : Nat) (owned : Nat) : Sys :=
  { rc := nthreads * owned, torn := 0, slots := List.replicate nslots none, blocks := [], freed := [],
    nextId := 0, thr := List.replicate nthreads ⟨owned, .idle⟩ }

/-- the slot whose write lock a thread in this state holds -/
def PC.holds : PC → Option Nat
  | .holdW s _ _ => some s
  | .added s _ _ => some s
  | .dropped1 s _ => some s
  | _ => none

def writeHeld (s : Sys) (slot : Nat) : Bool := s.thr.any (fun t => t.pc.holds == some slot)

def installedNodes (s : Sys) : List Nat :=
  s.slots.filterMap (fun x => match x with | some (true, id) => some id | _ => none)

def installedCount (s : Sys) : Int :=
  (s.slots.filter Option.isSome).length

/-- number of decrements teardown performs beyond the one that triggered it: two per installed
    node (the slot's handle, the parent handle in its `NodeData`), one per installed token (its
    parent handle), one for the uncounted root copy -/
def teardownDecs (s : Sys) : Int :=
  2 * ((installedNodes s).length : Int) + ((s.slots.filter (fun x => match x with | some (false, _) => true | _ => false)).length : Int) + 1

/-- the body of `SyntaxNode::drop`: decrement; the one that sees 1 tears the tree down -/
def dec (s : Sys) : Sys :=
  let prev := s.rc
  let s' := { s with rc := s.rc - 1 }
  if prev = 1 then
    { s' with torn := s'.torn + 1, rc := s'.rc - teardownDecs s,
              freed := s.freed ++ installedNodes s,
              blocks := s.blocks.filter (fun b => !(installedNodes s).contains b),
              slots := s.slots.map (fun _ => none) }
  else s'

inductive Act where
  | clone | dropH | send (to : Nat) | spawn
  | rdHit (slot : Nat) | rdMiss (slot : Nat) (isNode : Bool)
  | install | lose | fetchAdd | dropCand | freeCand | reread
  deriving Repr

def setThr (s : Sys) (i : Nat) (t : Thr) : Sys := { s with thr := s.thr.set i t }

def step (F : Facts) (s : Sys) (i : Nat) (a : Act) : Option Sys :=
  match s.thr[i]? with
  | none => none
  | some t =>
    match a, t.pc with
    | .spawn, _ => some { s with thr := s.thr ++ [⟨0, .idle⟩] }
    | .clone, .idle =>
      if t.owned ≥ 1 then some (setThr { s with rc := s.rc + 1 } i { t with owned := t.owned + 1 }) else none
    | .send j, .idle =>
      if t.owned ≥ 1 ∧ j ≠ i then
        match s.thr[j]? with
        | none => none
        | some u =>
          let s1 := setThr s i { t with owned := t.owned - 1 }
          some (setThr s1 j { u with owned := u.owned + 1 })
      else none
    | .dropH, .idle =>
      if t.owned ≥ 1 then some (dec (setThr s i { t with owned := t.owned - 1 })) else none
    | .rdHit sl, .idle =>
      if t.owned ≥ 1 ∧ !writeHeld s sl then
        match s.slots[sl]? with
        | some (some _) => some s
        | _ => none
      else none
    | .rdMiss sl n, .idle =>
      if t.owned ≥ 1 ∧ !writeHeld s sl then
        match s.slots[sl]? with
        | some none =>
          some (setThr { s with nextId := s.nextId + 1, blocks := if n then s.nextId :: s.blocks else s.blocks } i
            { t with pc := .missed sl n s.nextId })
        | _ => none
      else none
    | .install, .missed sl n c =>
      if writeHeld s sl then none else
      match s.slots[sl]? with
      | some none => some (setThr { s with slots := s.slots.set sl (some (n, c)) } i { t with pc := .reread sl })
      | _ => none
    | .lose, .missed sl n c =>
      if writeHeld s sl then none else
      match s.slots[sl]? with
      | some (some _) => some (setThr s i { t with pc := .holdW sl n c })
      | _ => none
    | .fetchAdd, .holdW sl n c =>
      some (setThr { s with rc := s.rc + (if n then F.compNode else F.compTok) } i { t with pc := .added sl n c })
    | .dropCand, .added sl true c => some (dec (setThr s i { t with pc := .dropped1 sl c }))
    | .dropCand, .added sl false _ => some (dec (setThr s i { t with pc := .reread sl }))
    | .freeCand, .dropped1 sl c =>
      some (dec (setThr { s with blocks := s.blocks.filter (· != c), freed := s.freed ++ [c] } i { t with pc := .reread sl }))
    | .reread, .reread sl =>
      if writeHeld s sl then none else
      match s.slots[sl]? with
      | some (some _) => some (setThr s i { t with pc := .idle })
      | _ => none
    | _, _ => none

/-- reachability from an initial state -/
inductive Reachable (F : Facts) (s0 : Sys) : Sys → Prop where
  | refl : Reachable F s0 s0
  | step (s s' : Sys) (i : Nat) (a : Act) : Reachable F s0 s → step F s i a = some s' → Reachable F s0 s'

end Cst.Conc
