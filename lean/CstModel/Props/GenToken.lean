/-
  Props/GenToken — more of the token layer as transcribed: `GreenToken::kind` / `text_len` / `text_key` read the stored
  fields, `GreenToken::text(resolver)` resolves the stored key (and only then asks the resolver), `SyntaxToken::static_text`
  asks the dialect about the token's own kind, `SyntaxToken::text_key` is the green token's, and `ResolvedToken::text`
  is the same expression as `SyntaxToken::resolve_text` with the attached resolver (C11, C15).
-/
import CstModel.Props.Gen
namespace Cst
namespace Gen
open Rs

/-- `GreenTokenData { kind, text, text_len }` behind `data()` -/
def encGT (k : Nat) (key : Option Nat) (l : Nat) : Val :=
  .ctor 901 [.strct [(N.field.kind, .nat k), (N.field.text, vOpt (key.map .nat)), (N.field.text_len, .nat l)]]

/-- `data()` opens the token; `resolver.resolve(key)` answers `R(key)` -/
def gtSem : Sem :=
  { Sem.none with meth := fun m recv args =>
      match recv, args with
      | .ctor 901 [d], [] => if m == N.data then .ok d recv else .unknown
      | .atom 77, [key] => if m == N.resolve then .ok (.ctor 902 [key]) recv else .unknown
      | _, _ => .unknown }

theorem gt_fields (k : Nat) (key : Option Nat) (l : Nat) :
    call gtSem 20 Rs.Gen.gt_kind [encGT k key l] (xs := []) = .val (.nat k) []
    ∧ call gtSem 20 Rs.Gen.gt_text_len [encGT k key l] (xs := []) = .val (.nat l) []
    ∧ call gtSem 20 Rs.Gen.gt_text_key [encGT k key l] (xs := []) = .val (vOpt (key.map .nat)) [] := by
  refine ⟨?_, ?_, ?_⟩ <;> kernel_rfl

/-- `GreenToken::text`: no key, no text (the resolver is not asked); a key is resolved by the resolver handed in -/
theorem gt_text (k : Nat) (key : Option Nat) (l : Nat) :
    call gtSem 20 Rs.Gen.gt_text [encGT k key l, .atom 77] (xs := []) =
      .val (vOpt (key.map fun key => .ctor 902 [.nat key])) [] := by
  cases key <;> kernel_rfl

/-- the token functions of `Props/Gen` with the attached resolver (`resolver()`) and the dialect's `static_text(kind)` -/
def tokSem' (dbg : Bool) (stOf : Val) : Sem :=
  { tokSem dbg with
    call := fun f args => if f == N.S.static_text then (match args with | [.nat _] => .ok stOf .unit | _ => .unknown) else (tokSem dbg).call f args
    meth := fun m recv args =>
      match recv, args with
      | .ctor 900 _, [] => if m == N.resolver then .ok (.atom 77) recv else (tokSem dbg).meth m recv args
      | _, _ => (tokSem dbg).meth m recv args }

/-- `ResolvedToken::text` computes what `SyntaxToken::resolve_text` computes (static text first, else the key's text, else the
    `unwrap` panics) -/
theorem rt_text (k : Nat) (key : Option Nat) (l o : Nat) (st rs : Option Text) :
    call (tokSem' false vNone) 20 Rs.Gen.rt_text [encTok k key l o st rs] (xs := []) =
      call (tokSem false) 20 Rs.Gen.tok_resolve_text [encTok k key l o st rs, .atom 77] (xs := []) := by
  cases st <;> cases key <;> cases rs <;> kernel_rfl

/-- `SyntaxToken::static_text` is the dialect's answer for the token's own kind; `text_key` is the stored key -/
theorem tok_static_text_key (k : Nat) (key : Option Nat) (l o : Nat) (st rs : Option Text) (ans : Val) :
    call (tokSem' false ans) 20 Rs.Gen.tok_static_text [encTok k key l o st rs] (xs := []) = .val ans []
    ∧ call (tokSem false) 20 Rs.Gen.tok_text_key [encTok k key l o st rs] (xs := []) = .val (vOpt (key.map .nat)) [] := by
  refine ⟨?_, ?_⟩ <;> kernel_rfl

/-- a red node as `text_range` sees it: `data().kind.as_child()` (the offset of a child, nothing for the root) and the stored
    length of its green node -/
def nodeSem (child : Option Nat) (len : Nat) : Sem :=
  { tokSem false with meth := fun m recv args =>
      match recv, args with
      | .atom 6, [] =>
        if m == N.data then .ok (.strct [(N.field.kind, .ctor 890 [])]) recv
        else if m == N.green then .ok (.ctor 891 []) recv
        else .unknown
      | .ctor 890 [], [] =>
        if m == N.as_child then .ok (vOpt (child.map fun off => vTuple [.atom 0, .atom 0, .nat off])) recv else .unknown
      | .ctor 891 [], [] => if m == N.text_len then .ok (.nat len) recv else .unknown
      | _, _ => .unknown }

/-- `SyntaxNode::text_range`: the root starts at 0, a child at the offset it was created with; the length is the green node's
    stored length (C02: the span an element reports is its offset plus the stored length — that the offset is the prefix sum is
    `history_canonical`) -/
theorem nd_text_range (child : Option Nat) (len : Nat) :
    call (nodeSem child len) 30 Rs.Gen.nd_text_range [.atom 6] (xs := []) =
      .val (vTuple [.nat (child.getD 0), .nat (child.getD 0 + len)]) [] := by
  cases child <;> kernel_rfl

end Gen
end Cst
