/-
  Props/GenNav — the six element-level hops of a red node (`first_child_or_token`, `last_child_or_token`,
  `next_child_or_token_after`, `prev_child_or_token_before`, `next_sibling_or_token`, `prev_sibling_or_token` in
  `syntax/node.rs`) as transcribed.  Each asks ONE green iterator of ONE node for its first item and passes that item's
  (element, index, offset) unchanged to `get_or_add_element` of that same node; which iterator, started where, is the
  statement: forwards from index 0 at the node's own start, backwards from the number of children at the node's own end,
  forwards from `n + 1` / backwards from `n` at the offset the caller gives, and for the sibling hops the *parent's* iterator
  from `index + 1` at this element's end / backwards from `index` at this element's start.  These are the offset routes of
  `Model/Red` (C02: whichever route creates an element gives it the prefix-sum offset; C03: the hops land on the neighbours).
  Calls answer with free terms; whether an iterator has a first item, and whether the element has a parent, are observations.
-/
import CstModel.Generated.RsFns
import CstModel.Proofs.KernelRfl
namespace Cst
namespace Gen
open Rs

def GREEN (n : Val) : Val := .ctor 920 [n]
def FROM (g a b : Val) : Val := .ctor 921 [g, a, b]
def TO (g a b : Val) : Val := .ctor 922 [g, a, b]
def NCHILDREN (g : Val) : Val := .ctor 924 [g]
def START (n : Val) : Val := .ctor 926 [n]
def END_ (n : Val) : Val := .ctor 927 [n]
def ELEM (it : Val) : Val := .ctor 930 [it]
def IDX (it : Val) : Val := .ctor 931 [it]
def OFF (it : Val) : Val := .ctor 932 [it]
def GOT (n e i o : Val) : Val := .ctor 900 [n, e, i, o]

/-- `has`: the iterator asked has a first item; `child`: this element's index in its parent (none = it is the root) -/
def navSem (has : Bool) (child : Option Nat) : Sem :=
  { Sem.none with meth := fun m recv args =>
      match recv, args with
      | .atom n, [] =>
        if m == N.green then .ok (GREEN (.atom n)) recv
        else if m == N.text_range then .ok (.ctor 925 [.atom n]) recv
        else if m == N.data then .ok (.strct [(N.field.kind, .ctor 890 [])]) recv
        else .unknown
      | .atom n, [e, i, o] => if m == N.get_or_add_element then .ok (GOT (.atom n) e i o) recv else .unknown
      | .ctor 890 [], [] =>
        if m == N.as_child then .ok (vOpt (child.map fun idx => vTuple [.atom 7, .nat idx, .atom 0])) recv else .unknown
      | .ctor 925 [n], [] =>
        if m == N.start then .ok (START n) recv else if m == N.end_ then .ok (END_ n) recv else .unknown
      | .ctor 920 [n], [a, b] =>
        if m == N.children_from then .ok (FROM (GREEN n) a b) recv
        else if m == N.children_to then .ok (TO (GREEN n) a b) recv
        else .unknown
      | .ctor 920 [n], [] => if m == N.children then .ok (.ctor 923 [n]) recv else .unknown
      | .ctor 923 [n], [] => if m == N.len then .ok (NCHILDREN (GREEN n)) recv else .unknown
      | .ctor 921 xs, [] =>
        if m == N.next then .ok (if has then vSome (vTuple [ELEM (.ctor 921 xs), vTuple [IDX (.ctor 921 xs), OFF (.ctor 921 xs)]]) else vNone) recv else .unknown
      | .ctor 922 xs, [] =>
        if m == N.next then .ok (if has then vSome (vTuple [ELEM (.ctor 922 xs), vTuple [IDX (.ctor 922 xs), OFF (.ctor 922 xs)]]) else vNone) recv else .unknown
      | _, _ => .unknown }

def hop (has : Bool) (node it : Val) : Seen :=
  if has then .val (vSome (GOT node (ELEM it) (IDX it) (OFF it))) [] else .val vNone []

def self_ : Val := .atom 6
def parent_ : Val := .atom 7

theorem nv_first (has : Bool) (c : Option Nat) :
    call (navSem has c) 30 Rs.Gen.nv_first [self_] (xs := []) = hop has self_ (FROM (GREEN self_) (.nat 0) (START self_)) := by
  cases has <;> kernel_rfl

theorem nv_last (has : Bool) (c : Option Nat) :
    call (navSem has c) 30 Rs.Gen.nv_last [self_] (xs := []) = hop has self_ (TO (GREEN self_) (NCHILDREN (GREEN self_)) (END_ self_)) := by
  cases has <;> kernel_rfl

theorem nv_next_after (has : Bool) (c : Option Nat) (n : Nat) (off : Val) :
    call (navSem has c) 30 Rs.Gen.nv_next_after [self_, .nat n, off] (xs := []) = hop has self_ (FROM (GREEN self_) (.nat (n + 1)) off) := by
  cases has <;> kernel_rfl

theorem nv_prev_before (has : Bool) (c : Option Nat) (n : Nat) (off : Val) :
    call (navSem has c) 30 Rs.Gen.nv_prev_before [self_, .nat n, off] (xs := []) = hop has self_ (TO (GREEN self_) (.nat n) off) := by
  cases has <;> kernel_rfl

/-- the root has no siblings; a child asks its PARENT's children from `index + 1`, starting at its own end -/
theorem nv_next_sibling (has : Bool) (idx : Nat) :
    call (navSem has none) 30 Rs.Gen.nv_next_sibling [self_] (xs := []) = .val vNone []
    ∧ call (navSem has (some idx)) 30 Rs.Gen.nv_next_sibling [self_] (xs := []) =
        hop has parent_ (FROM (GREEN parent_) (.nat (idx + 1)) (END_ self_)) := by
  cases has <;> exact ⟨by kernel_rfl, by kernel_rfl⟩

/-- … and backwards from its own index, ending at its own start -/
theorem nv_prev_sibling (has : Bool) (idx : Nat) :
    call (navSem has none) 30 Rs.Gen.nv_prev_sibling [self_] (xs := []) = .val vNone []
    ∧ call (navSem has (some idx)) 30 Rs.Gen.nv_prev_sibling [self_] (xs := []) =
        hop has parent_ (TO (GREEN parent_) (.nat idx) (START self_)) := by
  cases has <;> exact ⟨by kernel_rfl, by kernel_rfl⟩

end Gen
end Cst
