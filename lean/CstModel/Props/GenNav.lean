/-
  Props/GenNav — the six element-level hops of a red node (`first_child_or_token`, `last_child_or_token`,
  `next_child_or_token_after`, `prev_child_or_token_before`, `next_sibling_or_token`, `prev_sibling_or_token` in
  `syntax/node.rs`) as transcribed.  Each asks ONE green iterator of ONE node for its first item and passes that item's
  (element, index, offset) unchanged to `get_or_add_element` of that same node; which iterator, started where, is the
  statement: forwards from index 0 at the node's own start, backwards from the number of children at the node's own end,
  forwards from `n + 1` / backwards from `n` at the offset the caller gives, and for the sibling hops the *parent's* iterator
  from `index + 1` at this element's end / backwards from `index` at this element's start.  These are the offset routes of
  `Model/Red` (C02: whichever route creates an element gives it the prefix-sum offset; C03: the hops land on the neighbours).
  Calls answer with free terms; whether an iterator has a first item, and whether the element has a parent, are observations.
-/
import CstModel.Generated.RsFns
import CstModel.Proofs.KernelRfl
namespace Cst
namespace Gen
open Rs

def GREEN (n : Val) : Val := .ctor 920 [n]
def FROM (g a b : Val) : Val := .ctor 921 [g, a, b]
def TO (g a b : Val) : Val := .ctor 922 [g, a, b]
def NCHILDREN (g : Val) : Val := .ctor 924 [g]
def START (n : Val) : Val := .ctor 926 [n]
def END_ (n : Val) : Val := .ctor 927 [n]
def ELEM (it : Val) : Val := .ctor 930 [it]
def IDX (it : Val) : Val := .ctor 931 [it]
def OFF (it : Val) : Val := .ctor 932 [it]
def GOT (n e i o : Val) : Val := .ctor 900 [n, e, i, o]

/-- `has`: the iterator asked has a first item; `child`: this element's index in its parent (none = it is the root) -/
def navSem (has : Bool) (child : Option Nat) : Sem :=
  { Sem.none with meth := fun m recv args =>
      match recv, args with
      | .atom n, [] =>
        if m == N.green then .ok (GREEN (.atom n)) recv
        else if m == N.text_range then .ok (.ctor 925 [.atom n]) recv
        else if m == N.data then .ok (.strct [(N.field.kind, .ctor 890 [])]) recv
        else .unknown
      | .atom n, [e, i, o] => if m == N.get_or_add_element then .ok (GOT (.atom n) e i o) recv else .unknown
      | .ctor 890 [], [] =>
        if m == N.as_child then .ok (vOpt (child.map fun idx => vTuple [.atom 7, .nat idx, .atom 0])) recv else .unknown
      | .ctor 925 [n], [] =>
        if m == N.start then .ok (START n) recv else if m == N.end_ then .ok (END_ n) recv else .unknown
      | .ctor 920 [n], [a, b] =>
        if m == N.children_from then .ok (FROM (GREEN n) a b) recv
        else if m == N.children_to then .ok (TO (GREEN n) a b) recv
        else .unknown
      | .ctor 920 [n], [] => if m == N.children then .ok (.ctor 923 [n]) recv else .unknown
      | .ctor 923 [n], [] => if m == N.len then .ok (NCHILDREN (GREEN n)) recv else .unknown
      | .ctor 921 xs, [] =>
        if m == N.next then .ok (if has then vSome (vTuple [ELEM (.ctor 921 xs), vTuple [IDX (.ctor 921 xs), OFF (.ctor 921 xs)]]) else vNone) recv else .unknown
      | .ctor 922 xs, [] =>
        if m == N.next then .ok (if has then vSome (vTuple [ELEM (.ctor 922 xs), vTuple [IDX (.ctor 922 xs), OFF (.ctor 922 xs)]]) else vNone) recv else .unknown
      | _, _ => .unknown }

def hop (has : Bool) (node it : Val) : Seen :=
  if has then .val (vSome (GOT node (ELEM it) (IDX it) (OFF it))) [] else .val vNone []

def self_ : Val := .atom 6
def parent_ : Val := .atom 7

theorem nv_first (has : Bool) (c : Option Nat) :
    call (navSem has c) 30 Rs.Gen.nv_first [self_] (xs := []) = hop has self_ (FROM (GREEN self_) (.nat 0) (START self_)) := by
  cases has <;> kernel_rfl

theorem nv_last (has : Bool) (c : Option Nat) :
    call (navSem has c) 30 Rs.Gen.nv_last [self_] (xs := []) = hop has self_ (TO (GREEN self_) (NCHILDREN (GREEN self_)) (END_ self_)) := by
  cases has <;> kernel_rfl

theorem nv_next_after (has : Bool) (c : Option Nat) (n : Nat) (off : Val) :
    call (navSem has c) 30 Rs.Gen.nv_next_after [self_, .nat n, off] (xs := []) = hop has self_ (FROM (GREEN self_) (.nat (n + 1)) off) := by
  cases has <;> kernel_rfl

theorem nv_prev_before (has : Bool) (c : Option Nat) (n : Nat) (off : Val) :
    call (navSem has c) 30 Rs.Gen.nv_prev_before [self_, .nat n, off] (xs := []) = hop has self_ (TO (GREEN self_) (.nat n) off) := by
  cases has <;> kernel_rfl

/-- the root has no siblings; a child asks its PARENT's children from `index + 1`, starting at its own end -/
theorem nv_next_sibling (has : Bool) (idx : Nat) :
    call (navSem has none) 30 Rs.Gen.nv_next_sibling [self_] (xs := []) = .val vNone []
    ∧ call (navSem has (some idx)) 30 Rs.Gen.nv_next_sibling [self_] (xs := []) =
        hop has parent_ (FROM (GREEN parent_) (.nat (idx + 1)) (END_ self_)) := by
  cases has <;> exact ⟨by kernel_rfl, by kernel_rfl⟩

/-- … and backwards from its own index, ending at its own start -/
theorem nv_prev_sibling (has : Bool) (idx : Nat) :
    call (navSem has none) 30 Rs.Gen.nv_prev_sibling [self_] (xs := []) = .val vNone []
    ∧ call (navSem has (some idx)) 30 Rs.Gen.nv_prev_sibling [self_] (xs := []) =
        hop has parent_ (TO (GREEN parent_) (.nat idx) (START self_)) := by
  cases has <;> exact ⟨by kernel_rfl, by kernel_rfl⟩

/-! #### tokens: a token is a struct with its parent and its index; its hops are its parent's indexed hops -/

def tokV (idx : Nat) : Val := .strct [(N.field.parent, .atom 7), (N.field.index, .nat idx)]

/-- `parent()`, `text_range()` of the token; the parent's indexed hops and green children answer with free terms; `nth` on the
    parent's children finds `found`, which is a token iff `isTok` -/
def tkSem (found : Bool) (isTok : Bool) : Sem :=
  { Sem.none with
    call := fun f args => if f == N.S.from_raw then (match args with | [k] => .ok (.ctor 940 [k]) .unit | _ => .unknown) else .unknown
    meth := fun m recv args =>
      match recv, args with
      | .strct [(601, .atom 7), (602, .nat i)], [] =>
        if m == N.parent then .ok (.atom 7) recv
        else if m == N.text_range then .ok (.ctor 925 [tokV i]) recv
        else if m == N.green then .ok (.ctor 941 [.nat i]) recv
        else if m == N.syntax_kind then .ok (.ctor 942 [.nat i]) recv
        else .unknown
      | .ctor 925 [n], [] =>
        if m == N.start then .ok (START n) recv else if m == N.end_ then .ok (END_ n) recv else .unknown
      | .atom 7, [n, o] =>
        if m == N.next_child_or_token_after then .ok (.ctor 943 [n, o]) recv
        else if m == N.prev_child_or_token_before then .ok (.ctor 944 [n, o]) recv
        else .unknown
      | .atom 7, [] => if m == N.green then .ok (GREEN (.atom 7)) recv else .unknown
      | .ctor 920 [n], [] => if m == N.children then .ok (.ctor 923 [n]) recv else .unknown
      | .ctor 923 [n], [i] => if m == N.nth then .ok (if found then vSome (.ctor 945 [n, i]) else vNone) recv else .unknown
      | .ctor 945 [n, i], [] => if m == N.as_token then .ok (if isTok then vSome (.ctor 946 [n, i]) else vNone) recv else .unknown
      | .ctor 941 [i], [] => if m == N.kind then .ok (.ctor 947 [i]) recv else .unknown
      | _, _ => .unknown }

/-- a token's sibling hops are its parent's indexed hops, from the token's own index, at the token's own end / start -/
theorem tk_siblings (f t : Bool) (idx : Nat) :
    call (tkSem f t) 30 Rs.Gen.tk_next_sibling [tokV idx] (xs := []) = .val (.ctor 943 [.nat idx, END_ (tokV idx)]) []
    ∧ call (tkSem f t) 30 Rs.Gen.tk_prev_sibling [tokV idx] (xs := []) = .val (.ctor 944 [.nat idx, START (tokV idx)]) [] :=
  ⟨by kernel_rfl, by kernel_rfl⟩

/-- `green()`: the parent's green child at the token's index, which must exist and be a token (else the `unwrap`s panic) -/
theorem tk_green (idx : Nat) :
    call (tkSem true true) 30 Rs.Gen.tk_green [tokV idx] (xs := []) = .val (.ctor 946 [.atom 7, .nat idx]) []
    ∧ call (tkSem false true) 30 Rs.Gen.tk_green [tokV idx] (xs := []) = .panic
    ∧ call (tkSem true false) 30 Rs.Gen.tk_green [tokV idx] (xs := []) = .panic :=
  ⟨by kernel_rfl, by kernel_rfl, by kernel_rfl⟩

/-- `syntax_kind()` is the green token's kind; `kind()` is `S::from_raw` of it -/
theorem tk_kinds (f t : Bool) (idx : Nat) :
    call (tkSem f t) 30 Rs.Gen.tk_syntax_kind [tokV idx] (xs := []) = .val (.ctor 947 [.nat idx]) []
    ∧ call (tkSem f t) 30 Rs.Gen.tk_kind [tokV idx] (xs := []) = .val (.ctor 940 [.ctor 942 [.nat idx]]) [] :=
  ⟨by kernel_rfl, by kernel_rfl⟩

/-! #### small accessors of a red node -/

/-- `data()` opens the node: its kind (root, or child of `parent`), its green node, its child slots -/
def ndSem (isRoot : Bool) (nslots : Nat) : Sem :=
  { Sem.none with
    call := fun f args => if f == N.S.from_raw then (match args with | [k] => .ok (.ctor 940 [k]) .unit | _ => .unknown) else .unknown
    meth := fun m recv args =>
      match recv, args with
      | .atom 6, [] =>
        if m == N.data then
          .ok (.strct [(N.field.kind, if isRoot then .ctor N.Kind.Root [.atom 0, .atom 0] else .strct [(N.field.parent, .atom 7), (N.field.index, .atom 0), (N.field.offset, .atom 0)]),
                       (N.field.green, .ctor 950 []), (N.field.children, .ctor 951 [])]) recv
        else if m == N.green then .ok (.ctor 950 []) recv
        else if m == N.syntax_kind then .ok (.ctor 952 []) recv
        else .unknown
      | .ctor 950 [], [] => if m == N.kind then .ok (.ctor 953 []) recv else .unknown
      | .ctor 951 [], [] => if m == N.len then .ok (.nat nslots) recv else .unknown
      | _, _ => .unknown }

/-- `kind()` converts the raw kind afresh on every call (`S::from_raw(self.syntax_kind())`) — nothing of the kind type is kept in
    the tree (what `C08.kind_irrelevant` rests on); `syntax_kind()` is the green node's; `green()` is the stored green node;
    `parent()` is `None` exactly for the root; `arity_with_tokens()` is the number of child slots -/
theorem nd_accessors (r : Bool) (n : Nat) :
    call (ndSem r n) 30 Rs.Gen.nd_kind [.atom 6] (xs := []) = .val (.ctor 940 [.ctor 952 []]) []
    ∧ call (ndSem r n) 30 Rs.Gen.nd_syntax_kind [.atom 6] (xs := []) = .val (.ctor 953 []) []
    ∧ call (ndSem r n) 30 Rs.Gen.nd_green [.atom 6] (xs := []) = .val (.ctor 950 []) []
    ∧ call (ndSem r n) 30 Rs.Gen.nd_arity_with_tokens [.atom 6] (xs := []) = .val (.nat n) []
    ∧ call (ndSem true n) 30 Rs.Gen.nd_parent [.atom 6] (xs := []) = .val vNone []
    ∧ call (ndSem false n) 30 Rs.Gen.nd_parent [.atom 6] (xs := []) = .val (vSome (.atom 7)) [] := by
  cases r <;> exact ⟨by kernel_rfl, by kernel_rfl, by kernel_rfl, by kernel_rfl, by kernel_rfl, by kernel_rfl⟩

end Gen
end Cst
