/-
  C07 — Concurrent use through the safe API is free of data races.

  Model: `Model/MemModel` — release/acquire happens-before for the tree's reference count with vector
  clocks, any number of threads, every interleaving of clone / drop / send / access.  The orderings
  are the ones the source uses (extracted).  Invariant: `Proofs/MemModel`.
-/
import CstModel.Proofs.MemModel
import CstModel.Generated.SourceFacts
namespace Cst.C07
open Cst.Mem

/-- the orderings of the counter's RMWs, as extracted from `Clone` / `Drop` of `SyntaxNode` -/
def ords : Ords :=
  ⟨isRel SourceFacts.cloneOrdering, isAcq SourceFacts.cloneOrdering,
   isRel SourceFacts.dropOrdering, isAcq SourceFacts.dropOrdering⟩

/-- **instantiation**: the decrement releases and acquires; every access to the counter is a
    read-modify-write (so every release heads an unbroken release sequence); clone adds one, drop
    subtracts one and tears down exactly when it saw 1; the loser's compensations are RMWs too -/
theorem facts_ok :
    ords.decRel = true ∧ ords.decAcq = true ∧ SourceFacts.allRefCountOpsAreRmw = true ∧
    SourceFacts.cloneAmount = 1 ∧ SourceFacts.dropAmount = 1 ∧ SourceFacts.teardownWhenPrev = 1 ∧
    SourceFacts.loserNodeOrdering ≤ 4 ∧ SourceFacts.loserTokenOrdering ≤ 4 := by decide

/-- **the teardown races with nothing**: in every reachable state — any number of threads, any
    interleaving of cloning, dropping, handing handles to other threads and accessing the tree — every
    access any other thread ever made happens-before the teardown's accesses (writes, frees) -/
theorem teardown_race_free (s : Sys) (h : Reachable ords s) : s.raced = false :=
  (inv_reachable facts_ok.1 facts_ok.2.1 h).noRace

/-- the ordering of the *increment* is irrelevant (it may even be relaxed, as in `std::sync::Arc`) -/
theorem race_free_any_inc_ordering (O : Ords) (hr : O.decRel = true) (ha : O.decAcq = true) (s : Sys)
    (h : Reachable O s) : s.raced = false :=
  (inv_reachable hr ha h).noRace

/-- **spelt out**: when the tree is torn down, every recorded access of another thread is ordered before
    the tearing thread's clock — there is a happens-before edge (release sequence of the counter, or
    the hand-over of a handle) from each access to the teardown -/
theorem accesses_before_teardown (s s' : Sys) (h : Reachable ords s) (t : Nat)
    (hs : step ords s t .drop = some s') (ht : s'.torn = true) (hb : s.torn = false) :
    ∀ a ∈ s.acc, ordered s' t a = true := by
  have hinv := inv_reachable facts_ok.1 facts_ok.2.1 h
  have hinv' := inv_step facts_ok.1 facts_ok.2.1 hinv t .drop hs
  unfold step at hs
  cases hn : s.owned[t]? with
  | none => simp [hn] at hs
  | some n =>
    simp only [hn] at hs
    split at hs
    · split at hs
      · simp only [Option.some.injEq] at hs
        subst hs
        have hr := hinv'.noRace
        simp only [rmw_raced, rmw_acc, hinv.noRace, Bool.false_or] at hr
        rw [List.any_eq_false] at hr
        intro a ha
        have := hr a ha
        simp only [Bool.not_eq_true', Bool.not_eq_false'] at this
        cases ho : ordered (rmw { s with rc := s.rc - 1, owned := s.owned.set t (n - 1), raced := false } t ords.decRel ords.decAcq) t a with
        | true =>
          have hnr : s.raced = false := hinv.noRace
          simp only [hnr]
          simpa [ordered] using ho
        | false => exact absurd ho this
      · simp only [Option.some.injEq] at hs
        subst hs
        simp only [rmw_torn] at ht
        rw [hb] at ht
        cases ht
    · cases hs

/-- no handle, no access; after the teardown nobody has a handle -/
theorem no_access_after_teardown (s : Sys) (h : Reachable ords s) (ht : s.torn = true) (t : Nat) :
    step ords s t .access = none := by
  have hinv := inv_reachable facts_ok.1 facts_ok.2.1 h
  unfold step
  cases hn : s.owned[t]? with
  | none => rfl
  | some n =>
    have := torn_blocks hinv ht t n hn
    subst this
    simp

/-! ### why the orderings matter: weaker decrements race -/

/-- thread 0 clones and hands the copy to thread 1, which reads the tree and drops; thread 0 drops last -/
def scenario (O : Ords) : Option Sys := do
  let s ← step O (Sys.init [1]) 0 .spawn
  let s ← step O s 0 .clone
  let s ← step O s 0 (.send 1)
  let s ← step O s 1 .access
  let s ← step O s 1 .drop
  step O s 0 .drop

def racedIn (o : Option Sys) : Bool :=
  match o with
  | some s => s.torn && s.raced
  | none => false

/-- a relaxed decrement: the reader's access is unordered with the teardown -/
theorem relaxed_dec_races : racedIn (scenario ⟨true, true, false, false⟩) = true := by decide
/-- release without acquire on the final decrement is not enough -/
theorem release_only_dec_races : racedIn (scenario ⟨true, true, true, false⟩) = true := by decide
/-- acquire without release is not enough either -/
theorem acquire_only_dec_races : racedIn (scenario ⟨true, true, false, true⟩) = true := by decide

/-! ### non-vacuity: the same scenario with the extracted orderings tears down without a race -/
example : (match scenario ords with
    | some s => s.torn && !s.raced && s.acc.length == 2 && s.rc == 0
    | none => false) = true := by decide

end Cst.C07
