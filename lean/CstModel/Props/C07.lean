/-
  C07 — Concurrent use through the safe API is free of data races.

  Model: `Model/MemModel` — release/acquire happens-before for the tree's reference count with vector
  clocks, any number of threads, every interleaving of clone / drop / send / access.  The orderings
  are the ones the source uses (extracted).  Invariant: `Proofs/MemModel`.
-/
import CstModel.Proofs.MemModel
import CstModel.Proofs.MemSlots
import CstModel.Generated.SourceFacts
namespace Cst.C07
open Cst.Mem

/-- the orderings of the counter's RMWs, as extracted from `Clone` / `Drop` of `SyntaxNode` -/
def ords : Ords :=
  ⟨isRel SourceFacts.cloneOrdering, isAcq SourceFacts.cloneOrdering,
   isRel SourceFacts.dropOrdering, isAcq SourceFacts.dropOrdering⟩

/-- **instantiation**: the decrement releases and acquires; every access to the counter is a
    read-modify-write (so every release heads an unbroken release sequence); clone adds one, drop
    subtracts one and tears down exactly when it saw 1; the loser's compensations are RMWs too -/
theorem facts_ok :
    ords.decRel = true ∧ ords.decAcq = true ∧ SourceFacts.allRefCountOpsAreRmw = true ∧
    SourceFacts.cloneAmount = 1 ∧ SourceFacts.dropAmount = 1 ∧ SourceFacts.teardownWhenPrev = 1 ∧
    SourceFacts.loserNodeOrdering ≤ 4 ∧ SourceFacts.loserTokenOrdering ≤ 4 := by decide

/-- **the teardown races with nothing**: in every reachable state — any number of threads, any
    interleaving of cloning, dropping, handing handles to other threads and accessing the tree — every
    access any other thread ever made happens-before the teardown's accesses (writes, frees) -/
theorem teardown_race_free (s : Sys) (h : Reachable ords s) : s.raced = false :=
  (inv_reachable facts_ok.1 facts_ok.2.1 h).noRace

/-- the ordering of the *increment* is irrelevant (it may even be relaxed, as in `std::sync::Arc`) -/
theorem race_free_any_inc_ordering (O : Ords) (hr : O.decRel = true) (ha : O.decAcq = true) (s : Sys)
    (h : Reachable O s) : s.raced = false :=
  (inv_reachable hr ha h).noRace

/-- **spelt out**: when the tree is torn down, every recorded access of another thread is ordered before
    the tearing thread's clock — there is a happens-before edge (release sequence of the counter, or
    the hand-over of a handle) from each access to the teardown -/
theorem accesses_before_teardown (s s' : Sys) (h : Reachable ords s) (t : Nat)
    (hs : step ords s t .drop = some s') (ht : s'.torn = true) (hb : s.torn = false) :
    ∀ a ∈ s.acc, ordered s' t a = true := by
  have hinv := inv_reachable facts_ok.1 facts_ok.2.1 h
  have hinv' := inv_step facts_ok.1 facts_ok.2.1 hinv t .drop hs
  unfold step at hs
  cases hn : s.owned[t]? with
  | none => simp [hn] at hs
  | some n =>
    simp only [hn] at hs
    split at hs
    · split at hs
      · simp only [Option.some.injEq] at hs
        subst hs
        have hr := hinv'.noRace
        simp only [rmw_raced, rmw_acc, hinv.noRace, Bool.false_or] at hr
        rw [List.any_eq_false] at hr
        intro a ha
        have := hr a ha
        simp only [Bool.not_eq_true', Bool.not_eq_false'] at this
        cases ho : ordered (rmw { s with rc := s.rc - 1, owned := s.owned.set t (n - 1), raced := false } t ords.decRel ords.decAcq) t a with
        | true =>
          have hnr : s.raced = false := hinv.noRace
          simp only [hnr]
          simpa [ordered] using ho
        | false => exact absurd ho this
      · simp only [Option.some.injEq] at hs
        subst hs
        simp only [rmw_torn] at ht
        rw [hb] at ht
        cases ht
    · cases hs

/-- no handle, no access; after the teardown nobody has a handle -/
theorem no_access_after_teardown (s : Sys) (h : Reachable ords s) (ht : s.torn = true) (t : Nat) :
    step ords s t .access = none := by
  have hinv := inv_reachable facts_ok.1 facts_ok.2.1 h
  unfold step
  cases hn : s.owned[t]? with
  | none => rfl
  | some n =>
    have := torn_blocks hinv ht t n hn
    subst this
    simp

/-! ### the child slots: locks, and references that outlive the lock -/

/-- **instantiation**: `read` takes the slot's lock shared, `try_write` and the teardown take it
    exclusively, a candidate is installed only into an empty slot, and these three are the only places
    that touch a slot cell -/
theorem slot_facts :
    SourceFacts.slotReadUnderReadLock = true ∧ SourceFacts.slotWriteUnderWriteLock = true ∧
    SourceFacts.teardownUnderWriteLock = true ∧ SourceFacts.slotInstallOnlyIfEmpty = true ∧
    SourceFacts.slotCellAccessSites = 3 ∧ SourceFacts.slotAssignments = 2 := by decide

/-- **no access to a child slot races** — for every interleaving of any number of threads cloning,
    dropping and handing over handles, reading slots under the read lock, installing into empty slots
    or losing the race under the write lock, dereferencing elements through references obtained
    earlier (outside any lock), and the final teardown writing every slot: each access is ordered
    (lock clock, counter release sequence, hand-over) after every conflicting earlier access -/
theorem slot_accesses_race_free (s : MemS.Sys) (h : MemS.Reachable ords s) : s.raced = false :=
  (MemS.inv_reachable facts_ok.1 facts_ok.2.1 h).noRace

/-- a reference into a slot is only ever used by a thread that has synchronised with the write that
    filled the slot -/
theorem reference_sees_install (s : MemS.Sys) (h : MemS.Reachable ords s) (ht : s.torn = false) (t sl : Nat)
    (hk : sl ∈ s.knows t) :
    s.slots[sl]? = some true ∧ ∀ a ∈ s.acc, a.loc = sl → a.wr = true → a.thr = t ∨ a.ep ≤ s.C t a.thr :=
  (MemS.inv_reachable facts_ok.1 facts_ok.2.1 h).known ht t sl hk

/-- creation race on slot 0 between threads 0 and 1 (1 wins), thread 1 hands a handle to thread 2 which
    uses the element without ever taking the lock; everybody drops, thread 0 last -/
def slotScenario (O : Ords) : Option MemS.Sys := do
  let s ← MemS.step O (MemS.Sys.init [1, 0, 0] 1) 0 .clone
  let s ← MemS.step O s 0 (.send 1)
  let s ← MemS.step O s 0 (.rdSlot 0)          -- miss
  let s ← MemS.step O s 1 (.rdSlot 0)          -- miss
  let s ← MemS.step O s 1 (.wrSlot 0)          -- installs
  let s ← MemS.step O s 0 (.loseSlot 0)        -- loses
  let s ← MemS.step O s 1 .clone
  let s ← MemS.step O s 1 (.send 2)
  let s ← MemS.step O s 2 (.useElem 0)
  let s ← MemS.step O s 2 .drop
  let s ← MemS.step O s 1 (.useElem 0)
  let s ← MemS.step O s 1 .drop
  MemS.step O s 0 .drop

example : (match slotScenario ords with
    | some s => s.torn && !s.raced && s.acc.length == 7
    | none => false) = true := by decide
/-- with a relaxed decrement the same history races (the teardown's writes against the uses) -/
theorem slot_scenario_relaxed_races :
    (match slotScenario ⟨true, true, false, false⟩ with
     | some s => s.torn && s.raced
     | none => false) = true := by decide

/-! ### the per-node data cell

  `slot_accesses_race_free` quantifies over `MemS.Reachable`, whose actions include `dataRd` / `dataWr`: reads and any
  number of writes of a data cell, each inside the cell's own reader/writer lock, interleaved arbitrarily with everything
  else and followed by the teardown.  What makes the cell fit that model is extracted from the source. -/

/-- the value lives *inside* its lock (safe Rust cannot reach it otherwise), every operation is one critical section,
    writers take the exclusive lock and the reader the shared one -/
theorem data_lock_facts : SourceFacts.dataSlotInsideLock = true ∧ SourceFacts.dataOneSectionPerOp = true ∧
    SourceFacts.dataSetW = true ∧ SourceFacts.dataTrySetW = true ∧ SourceFacts.dataClearW = true ∧
    SourceFacts.dataGetW = false := by decide

/-- three threads share a node: set / get / try_set / clear in an interleaved order, then everybody drops; location 1 is
    the data cell (its slot flag stays `false`), slot 0 is an ordinary child slot -/
def dataScenario (O : Ords) : Option MemS.Sys := do
  let s ← MemS.step O (MemS.Sys.init [1, 0, 0] 2) 0 .clone
  let s ← MemS.step O s 0 (.send 1)
  let s ← MemS.step O s 0 .clone
  let s ← MemS.step O s 0 (.send 2)
  let s ← MemS.step O s 1 (.dataWr 1)          -- set_data
  let s ← MemS.step O s 2 (.dataRd 1)          -- get_data
  let s ← MemS.step O s 0 (.dataWr 1)          -- try_set_data
  let s ← MemS.step O s 2 (.rdSlot 0)
  let s ← MemS.step O s 2 (.wrSlot 0)
  let s ← MemS.step O s 2 (.dataWr 1)          -- clear_data
  let s ← MemS.step O s 1 (.dataRd 1)
  let s ← MemS.step O s 1 .drop
  let s ← MemS.step O s 2 .drop
  MemS.step O s 0 .drop

example : (match dataScenario ords with
    | some s => s.torn && !s.raced && s.acc.length == 9
    | none => false) = true := by decide

/-- with a relaxed decrement the teardown races with the data accesses of the other threads -/
theorem data_scenario_relaxed_races :
    (match dataScenario ⟨true, true, false, false⟩ with
     | some s => s.torn && s.raced
     | none => false) = true := by decide

/-- the handles may only be on several threads when the data and the resolver are thread safe
    (`C08.markers_sound`): the facts that theorem is instantiated with -/
theorem marker_facts :
    SourceFacts.nodeSendNeedsDSend = true ∧ SourceFacts.nodeSendNeedsDSync = true ∧
    SourceFacts.nodeSyncNeedsDSend = true ∧ SourceFacts.nodeSyncNeedsDSync = true ∧
    SourceFacts.ctorNeedsRSend = true ∧ SourceFacts.ctorNeedsRSync = true ∧
    SourceFacts.otherUnsafeMarkerImpls = 0 ∧ SourceFacts.greenTokenMarkersUnconditional = true := by decide

/-! ### why the orderings matter: weaker decrements race -/

/-- thread 0 clones and hands the copy to thread 1, which reads the tree and drops; thread 0 drops last -/
def scenario (O : Ords) : Option Sys := do
  let s ← step O (Sys.init [1]) 0 .spawn
  let s ← step O s 0 .clone
  let s ← step O s 0 (.send 1)
  let s ← step O s 1 .access
  let s ← step O s 1 .drop
  step O s 0 .drop

def racedIn (o : Option Sys) : Bool :=
  match o with
  | some s => s.torn && s.raced
  | none => false

/-- a relaxed decrement: the reader's access is unordered with the teardown -/
theorem relaxed_dec_races : racedIn (scenario ⟨true, true, false, false⟩) = true := by decide
/-- release without acquire on the final decrement is not enough -/
theorem release_only_dec_races : racedIn (scenario ⟨true, true, true, false⟩) = true := by decide
/-- acquire without release is not enough either -/
theorem acquire_only_dec_races : racedIn (scenario ⟨true, true, false, true⟩) = true := by decide

/-! ### non-vacuity: the same scenario with the extracted orderings tears down without a race -/
example : (match scenario ords with
    | some s => s.torn && !s.raced && s.acc.length == 2 && s.rc == 0
    | none => false) = true := by decide

end Cst.C07
