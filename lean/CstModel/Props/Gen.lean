/-
  Props/Gen — the transcribed function bodies of `Generated/RsFns.lean` (rewritten from /repo on every run by
  `tools/rs2lean.py`) evaluate, under the evaluator of `Model/Rs`, to what the hand-written model functions
  compute: for *every* argument.  These theorems are the static part of the tie between model and source for
  the functions listed in `tools/rs2lean.py` — a change to one of those bodies that changes its meaning (or
  leaves the transcribed fragment) breaks the theorem about it, whatever the generators happen to sample.

  They are obligations of the properties the functions serve: `utility_types.rs` (C03 / C13: element accessors,
  walk events, the `TokenAtOffset` answer type), `SyntaxToken::text_eq` / `resolve_text` (C11),
  `SyntaxToken::write_debug` (C19), `SyntaxToken::text_range` (C02).
-/
import CstModel.Generated.RsFns
import CstModel.Proofs.KernelRfl
import CstModel.Model.Util
import CstModel.Model.Fmt
namespace Cst
namespace Gen
open Rs Util

/-! ### `utility_types.rs` -/

def encNOT : NodeOrToken Val Val → Val
  | .node n => .ctor N.NodeOrToken.Node [n]
  | .token t => .ctor N.NodeOrToken.Token [t]

def encWalk : WalkEvent Val → Val
  | .enter a => .ctor N.WalkEvent.Enter [a]
  | .leave a => .ctor N.WalkEvent.Leave [a]

def encTAO : TAO Val → Val
  | .none => .ctor N.TokenAtOffset.None []
  | .single a => .ctor N.TokenAtOffset.Single [a]
  | .between l r => .ctor N.TokenAtOffset.Between [l, r]

theorem not_into_node (x : NodeOrToken Val Val) :
    call Sem.none 10 Rs.Gen.not_into_node [encNOT x] = .val (vOpt x.intoNode) [some (encNOT x)] := by
  cases x <;> kernel_rfl

theorem not_into_token (x : NodeOrToken Val Val) :
    call Sem.none 10 Rs.Gen.not_into_token [encNOT x] = .val (vOpt x.intoToken) [some (encNOT x)] := by
  cases x <;> kernel_rfl

theorem not_as_node (x : NodeOrToken Val Val) :
    call Sem.none 10 Rs.Gen.not_as_node [encNOT x] = .val (vOpt x.asNode) [some (encNOT x)] := by
  cases x <;> kernel_rfl

theorem not_as_token (x : NodeOrToken Val Val) :
    call Sem.none 10 Rs.Gen.not_as_token [encNOT x] = .val (vOpt x.asToken) [some (encNOT x)] := by
  cases x <;> kernel_rfl

/-- `as_ref` and `cloned` are re-typings: the same element comes back -/
theorem not_as_ref (x : NodeOrToken Val Val) :
    call Sem.none 10 Rs.Gen.not_as_ref [encNOT x] = .val (encNOT x) [some (encNOT x)] := by
  cases x <;> kernel_rfl

theorem not_cloned (x : NodeOrToken Val Val) :
    call Sem.none 10 Rs.Gen.not_cloned [encNOT x] = .val (encNOT x) [some (encNOT x)] := by
  cases x <;> kernel_rfl

/-- a `Sem` in which `fmt` of a payload `v` with formatter `f` answers `show v f` -/
def fmtSem (sh : Val → Val → Val) : Sem :=
  { Sem.none with meth := fun m recv args =>
      if m == N.fmt then (match args with | [f] => .ok (sh recv f) recv | _ => .unknown) else .unknown }

/-- `Display for NodeOrToken`: whichever side is present formats itself, with the caller's formatter -/
theorem not_display (sh : Val → Val → Val) (x : NodeOrToken Val Val) (f : Val) :
    call (fmtSem sh) 10 Rs.Gen.not_display [encNOT x, f] (xs := []) =
      .val (match x with | .node n => sh n f | .token t => sh t f) [] := by
  cases x <;> kernel_rfl

/-- a `Sem` in which function value `0` is `g` -/
def appSem (g : Val → Val) : Sem :=
  { Sem.none with app := fun k args => if k == 0 then (match args with | [v] => some (g v) | _ => none) else none }

theorem walk_map (g : Val → Val) (e : WalkEvent Val) :
    call (appSem g) 10 Rs.Gen.walk_map [encWalk e, .fn 0] (xs := []) = .val (encWalk (e.map g)) [] := by
  cases e <;> kernel_rfl

theorem tao_map (g : Val → Val) (t : TAO Val) :
    call (appSem g) 10 Rs.Gen.tao_map [encTAO t, .fn 0] (xs := []) = .val (encTAO (t.map g)) [] := by
  cases t <;> kernel_rfl

theorem tao_right_biased (t : TAO Val) :
    call Sem.none 10 Rs.Gen.tao_right_biased [encTAO t] (xs := []) = .val (vOpt t.rightBiased) [] := by
  cases t <;> kernel_rfl

theorem tao_left_biased (t : TAO Val) :
    call Sem.none 10 Rs.Gen.tao_left_biased [encTAO t] (xs := []) = .val (vOpt t.leftBiased) [] := by
  cases t <;> kernel_rfl

/-- `Iterator::next` with its `mem::replace` dance: the item and the iterator afterwards -/
theorem tao_next (t : TAO Val) :
    call Sem.none 10 Rs.Gen.tao_next [encTAO t] = .val (vOpt t.next.1) [some (encTAO t.next.2)] := by
  cases t <;> kernel_rfl

def encHint : Nat × Option Nat → Val
  | (lo, hi) => vTuple [.nat lo, vOpt (hi.map .nat)]

theorem tao_size_hint (t : TAO Val) :
    call Sem.none 10 Rs.Gen.tao_size_hint [encTAO t] = .val (encHint t.sizeHint) [some (encTAO t)] := by
  cases t <;> kernel_rfl

/-- `MaybeOwned` (how the builder holds its cache): only an owned value is given back -/
theorem mo_into_owned (v : Val) :
    call Sem.none 10 Rs.Gen.mo_into_owned [.ctor N.MaybeOwned.Owned [v]] (xs := []) = .val (vSome v) []
    ∧ call Sem.none 10 Rs.Gen.mo_into_owned [.ctor N.MaybeOwned.Borrowed [v]] (xs := []) = .val vNone [] :=
  ⟨by kernel_rfl, by kernel_rfl⟩

theorem mo_deref (v : Val) :
    call Sem.none 10 Rs.Gen.mo_deref [.ctor N.MaybeOwned.Owned [v]] (xs := []) = .val v []
    ∧ call Sem.none 10 Rs.Gen.mo_deref [.ctor N.MaybeOwned.Borrowed [v]] (xs := []) = .val v []
    ∧ call Sem.none 10 Rs.Gen.mo_deref_mut [.ctor N.MaybeOwned.Owned [v]] (xs := []) = .val v []
    ∧ call Sem.none 10 Rs.Gen.mo_deref_mut [.ctor N.MaybeOwned.Borrowed [v]] (xs := []) = .val v [] :=
  ⟨by kernel_rfl, by kernel_rfl, by kernel_rfl, by kernel_rfl⟩

/-! ### `SyntaxToken` (`syntax/token.rs`)

The token functions are evaluated in a `Sem` that answers what they ask of their surroundings from a table of
*observations* carried by the encoded token (kind, key, stored length, offset, the dialect's static text for the
kind, the interner's text for the key), so that every value the evaluator has to branch on becomes a
constructor after a finite case split and each case closes by `rfl`; a second, evaluator-free step instantiates
the observations with the model's functions. -/

def tokCtor : Nat := 900
/-- kind, key, stored length, offset, `S::static_text(kind)`, `resolver.resolve(key)` -/
def encTok (kind : Nat) (key : Option Nat) (len off : Nat) (st rs : Option Text) : Val :=
  .ctor 900 [.nat kind, vOpt (key.map .nat), .nat len, .nat off, vOpt (st.map .text), vOpt (rs.map .text)]

def optText (o : Option Text) : Val := vOpt (o.map .text)

def tokSem (dbg : Bool) : Sem where
  debug := dbg
  app := fun _ _ => none
  call := fun f args =>
    if f == N.TextRange.at then (match args with
      | [.nat o, .nat l] => .ok (vTuple [.nat o, .nat (o + l)]) .unit
      | _ => .unknown)
    else .unknown
  meth := fun m recv args =>
    match recv, args with
    | .ctor 900 [.nat k, key, .nat l, .nat _, st, _], [] =>
      if m == N.green then .ok recv recv
      else if m == N.text_key then .ok key recv
      else if m == N.syntax_kind || m == N.kind then .ok (.nat k) recv
      else if m == N.static_text then .ok st recv
      else if m == N.text_len then .ok (.nat l) recv
      else .unknown
    | .ctor 900 [.nat _, .ctor 1 [_], .nat _, .nat _, _, rs], [_resolver] =>
      if m == N.text then .ok rs recv else .unknown
    | .ctor 900 [.nat _, .ctor 2 [], .nat _, .nat _, _, _], [_resolver] =>
      if m == N.text then .ok vNone recv else .unknown
    | _, _ => .unknown

/-- what the transcribed `text_eq` computes, read off the evaluator (`none` = a `debug_assert!` fired) -/
def textEqRaw (dbg : Bool) (ka : Nat) (keya : Option Nat) (sa : Option Text) (kb : Nat) (keyb : Option Nat) (sb : Option Text) : Option Bool :=
  match keya, keyb with
  | some k1, some k2 => some (Val.beq (.nat k1) (.nat k2))
  | some _, none => some false
  | none, some _ => some false
  | none, none =>
    if dbg && (sa.isNone || sb.isNone) then none
    else some (Val.beq (.nat ka) (.nat kb) || Val.beq (optText sa) (optText sb))

theorem tok_text_eq_raw (dbg : Bool) (ka : Nat) (keya : Option Nat) (la oa : Nat) (sa ra : Option Text)
    (kb : Nat) (keyb : Option Nat) (lb ob : Nat) (sb rb : Option Text) :
    call (tokSem dbg) 40 Rs.Gen.tok_text_eq [encTok ka keya la oa sa ra, encTok kb keyb lb ob sb rb] (xs := []) =
      (match textEqRaw dbg ka keya sa kb keyb sb with
       | some r => .val (.bool r) []
       | none => .panic) := by
  cases keya <;> cases keyb <;> cases dbg <;> cases sa <;> cases sb <;> kernel_rfl

theorem beq_optText (a b : Option Text) : Val.beq (optText a) (optText b) = (a == b) := by
  cases a <;> cases b <;> simp [optText, vOpt, vNone, vSome, Val.beq, Val.beqL, N.Some, N.None]

/-- `SyntaxToken::text_eq`, as transcribed from the source, computes the model's `textEq` on every pair of tokens
    (a `debug_assert!` that fires is the model's `none`) -/
theorem tok_text_eq (cfg : Cfg) (ia ka : Nat) (keya : Option Nat) (la oa : Nat) (ra : Option Text)
    (ib kb : Nat) (keyb : Option Nat) (lb ob : Nat) (rb : Option Text) :
    call (tokSem cfg.debug) 40 Rs.Gen.tok_text_eq
        [encTok ka keya la oa (cfg.staticText ka) ra, encTok kb keyb lb ob (cfg.staticText kb) rb] (xs := []) =
      (match textEq cfg (.tok ia ka keya la) (.tok ib kb keyb lb) with
       | some r => .val (.bool r) []
       | none => .panic) := by
  rw [tok_text_eq_raw]
  cases keya <;> cases keyb <;> simp [textEqRaw, textEq, beq_optText, Val.beq]

/-- what `resolve_text` computes: static text first, else the interner's text for the key; `none` = the `unwrap` panics -/
theorem tok_resolve_text (k : Nat) (key : Option Nat) (l o : Nat) (st rs : Option Text) (resolver : Val) :
    call (tokSem false) 20 Rs.Gen.tok_resolve_text [encTok k key l o st rs, resolver] (xs := []) =
      (match (match st with | some t => some t | none => (match key with | some _ => rs | none => none)) with
       | some t => .val (.text t) []
       | none => .panic) := by
  cases st <;> cases key <;> cases rs <;> kernel_rfl

/-- `resolve_text` is the model's `tokenText` -/
theorem tok_resolve_text_model (cfg : Cfg) (I : Interner) (i k : Nat) (key : Option Nat) (l o : Nat) (resolver : Val) :
    call (tokSem false) 20 Rs.Gen.tok_resolve_text
        [encTok k key l o (cfg.staticText k) (key.bind I.resolve), resolver] (xs := []) =
      (match tokenText cfg I (.tok i k key l) with
       | some t => .val (.text t) []
       | none => .panic) := by
  rw [tok_resolve_text]
  cases h : cfg.staticText k <;> cases key <;> simp [tokenText, h]

/-- a red token: its offset and its green token -/
def encRedTok (o : Nat) (g : Val) : Val := .strct [(N.field.offset, .nat o), (N.field.green, g)]

def redSem : Sem :=
  { tokSem false with meth := fun m recv args =>
      match recv, args with
      | .strct [(600, .nat _), (606, g)], [] => if m == N.green then .ok g recv else .unknown
      | _, _ => (tokSem false).meth m recv args }

/-- `text_range` = `[offset, offset + stored length)` -/
theorem tok_text_range (k : Nat) (key : Option Nat) (l o o' : Nat) (st rs : Option Text) :
    call redSem 20 Rs.Gen.tok_text_range [encRedTok o (encTok k key l o' st rs)] (xs := []) =
      .val (vTuple [.nat o, .nat (o + l)]) [] := by
  kernel_rfl

/-! #### `write_debug`: the abbreviation window -/

/-- observations: the text `t`, its byte length as reported (`n`), whether bytes 21 … 24 are character boundaries,
    and the prefixes ending there (`none` = slicing there panics) -/
def dbgSem (t : Text) (n : Nat) (b21 b22 b23 b24 : Bool) (p21 p22 p23 p24 : Option Text) : Sem where
  debug := false
  app := fun _ _ => none
  call := fun f args =>
    if f == N.format then (match args with
      | [.atom 2488645864, .text p] => .ok (.text (p ++ " ...".toList)) .unit      -- "{} ..."
      | _ => .unknown)
    else .unknown
  meth := fun m recv args =>
    let sl (p : Option Text) : MRes := match p with | some p => .ok (.text p) recv | none => .panic
    match recv, args with
    | .atom 1, [] => if m == N.kind then .ok (.atom 2) recv else if m == N.text_range then .ok (.atom 3) recv else .unknown
    | .atom 1, [_resolver] => if m == N.resolve_text then .ok (.text t) recv else .unknown
    | .text _, [] => if m == N.len then .ok (.nat n) recv else .unknown
    | .text _, [.nat 21] => if m == N.is_char_boundary then .ok (.bool b21) recv else .unknown
    | .text _, [.nat 22] => if m == N.is_char_boundary then .ok (.bool b22) recv else .unknown
    | .text _, [.nat 23] => if m == N.is_char_boundary then .ok (.bool b23) recv else .unknown
    | .text _, [.nat 24] => if m == N.is_char_boundary then .ok (.bool b24) recv else .unknown
    | .text _, [.ctor 2 [], .ctor 1 [.nat 21]] => if m == N.slice then sl p21 else .unknown
    | .text _, [.ctor 2 [], .ctor 1 [.nat 22]] => if m == N.slice then sl p22 else .unknown
    | .text _, [.ctor 2 [], .ctor 1 [.nat 23]] => if m == N.slice then sl p23 else .unknown
    | .text _, [.ctor 2 [], .ctor 1 [.nat 24]] => if m == N.slice then sl p24 else .unknown
    | _, _ => .unknown

/-- the text `write_debug` shows, in terms of the observations (`none` = panic: `unreachable!()` or a slice off a boundary) -/
def shownRaw (t : Text) (n : Nat) (b21 b22 b23 b24 : Bool) (p21 p22 p23 p24 : Option Text) : Option Text :=
  if n < 25 then some t
  else if b21 then p21.map (· ++ " ...".toList)
  else if b22 then p22.map (· ++ " ...".toList)
  else if b23 then p23.map (· ++ " ...".toList)
  else if b24 then p24.map (· ++ " ...".toList)
  else none

/-- the sink after `write_debug`: `"{:?}@{:?}"` with kind and range, then `" {:?}"` with the shown text -/
def dbgLog (shown : Text) : Val :=
  .ctor 950 [vTuple [.atom 3527341464, .atom 2, .atom 3], vTuple [.atom 3830167679, .text shown]]

/-- the 25 short lengths (each closes by evaluation) -/
theorem tok_write_debug_short (t : Text) (b21 b22 b23 b24 : Bool) (p21 p22 p23 p24 : Option Text) : (k : Nat) → k < 25 →
    call (dbgSem t k b21 b22 b23 b24 p21 p22 p23 p24) 60 Rs.Gen.tok_write_debug [.atom 1, .atom 9, .ctor 950 []] (xs := [2]) =
      .val (.ctor N.Ok [.unit]) [some (dbgLog t)]
  | 0, _ => by kernel_rfl
  | 1, _ => by kernel_rfl
  | 2, _ => by kernel_rfl
  | 3, _ => by kernel_rfl
  | 4, _ => by kernel_rfl
  | 5, _ => by kernel_rfl
  | 6, _ => by kernel_rfl
  | 7, _ => by kernel_rfl
  | 8, _ => by kernel_rfl
  | 9, _ => by kernel_rfl
  | 10, _ => by kernel_rfl
  | 11, _ => by kernel_rfl
  | 12, _ => by kernel_rfl
  | 13, _ => by kernel_rfl
  | 14, _ => by kernel_rfl
  | 15, _ => by kernel_rfl
  | 16, _ => by kernel_rfl
  | 17, _ => by kernel_rfl
  | 18, _ => by kernel_rfl
  | 19, _ => by kernel_rfl
  | 20, _ => by kernel_rfl
  | 21, _ => by kernel_rfl
  | 22, _ => by kernel_rfl
  | 23, _ => by kernel_rfl
  | 24, _ => by kernel_rfl
  | k + 25, h => absurd h (by omega)

theorem tok_write_debug_raw (t : Text) (n : Nat) (b21 b22 b23 b24 : Bool) (p21 p22 p23 p24 : Option Text) :
    call (dbgSem t n b21 b22 b23 b24 p21 p22 p23 p24) 60 Rs.Gen.tok_write_debug [.atom 1, .atom 9, .ctor 950 []] (xs := [2]) =
      (match shownRaw t n b21 b22 b23 b24 p21 p22 p23 p24 with
       | some s => .val (.ctor N.Ok [.unit]) [some (dbgLog s)]
       | none => .panic) := by
  by_cases h : n < 25
  · simp only [shownRaw, h, if_true]
    exact tok_write_debug_short t b21 b22 b23 b24 p21 p22 p23 p24 n h
  · obtain ⟨m, rfl⟩ : ∃ m, n = m + 25 := ⟨n - 25, by omega⟩
    simp only [shownRaw, h, if_false]
    cases b21
    · cases b22
      · cases b23
        · cases b24
          · kernel_rfl
          · cases p24 <;> kernel_rfl
        · cases p23 <;> kernel_rfl
      · cases p22 <;> kernel_rfl
    · cases p21 <;> kernel_rfl

/-- `SyntaxToken::write_debug`, as transcribed from the source, shows exactly the model's `tokenDebugText 25 21 25`
    of the token's text (and panics exactly where that is `none`), for every text -/
theorem tok_write_debug (t : Text) :
    call (dbgSem t (blen t) (isBoundary t 21) (isBoundary t 22) (isBoundary t 23) (isBoundary t 24)
            (takeBytes t 21) (takeBytes t 22) (takeBytes t 23) (takeBytes t 24)) 60 Rs.Gen.tok_write_debug
        [.atom 1, .atom 9, .ctor 950 []] (xs := [2]) =
      (match tokenDebugText 25 21 25 t with
       | some s => .val (.ctor N.Ok [.unit]) [some (dbgLog s)]
       | none => .panic) := by
  rw [tok_write_debug_raw]
  have : shownRaw t (blen t) (isBoundary t 21) (isBoundary t 22) (isBoundary t 23) (isBoundary t 24)
      (takeBytes t 21) (takeBytes t 22) (takeBytes t 23) (takeBytes t 24) = tokenDebugText 25 21 25 t := by
    simp only [shownRaw, tokenDebugText, abbrevGo]
    repeat' split
    all_goals rfl
  rw [this]

end Gen
end Cst
