/-
  C15 — Green equality and hashing are structural and route-independent.

  Model: `Green.beq` (`==`: head + children, ids ignored), `Green.headWords` (`Hash`: the head
  only), the two constructors of a node (`Cache.node` of the builder, `Green.mkNew` =
  `GreenNode::new`), and the child iterator `ChildIter` (`green/iter.rs`).
-/
import CstModel.Proofs.Builder
import CstModel.Model.GreenOps
namespace Cst.C15

/-- a hash function that does not look at allocation identity -/
def HRespects (H : HashFn) : Prop := ∀ a b, Green.beqL a b = true → H a = H b

theorem hashWords_of_beq : (a b : Green) → Green.beq a b = true → a.hashWords = b.hashWords
  | .tok _ k1 key1 l1, .tok _ k2 key2 l2, h => by
    simp only [Green.beq, Bool.and_eq_true, beq_iff_eq] at h
    obtain ⟨⟨hk, hkey⟩, hl⟩ := h
    subst hk; subst hkey; subst hl; cases key1 <;> rfl
  | .node _ k1 l1 h1 _, .node _ k2 l2 h2 _, h => by
    simp only [Green.beq, Bool.and_eq_true, beq_iff_eq] at h
    obtain ⟨⟨⟨hk, hl⟩, hh⟩, _⟩ := h
    subst hk; subst hl; subst hh; rfl
  | .tok .., .node .., h => by simp [Green.beq] at h
  | .node .., .tok .., h => by simp [Green.beq] at h

/-- the implementation's child hash (Fx over the children's words, any mask) respects `==` -/
theorem fx_respects (mask : UInt32) : HRespects (fxChildHash mask) := by
  intro a b h
  have : a.flatMap Green.hashWords = b.flatMap Green.hashWords := by
    induction a generalizing b with
    | nil => cases b with
      | nil => rfl
      | cons _ _ => simp [Green.beqL] at h
    | cons x xs ih => cases b with
      | nil => simp [Green.beqL] at h
      | cons y ys =>
        simp only [Green.beqL, Bool.and_eq_true] at h
        simp [List.flatMap_cons, hashWords_of_beq x y h.1, ih ys h.2]
  simp [fxChildHash, this]

/-- **both routes store a head that is a function of the children**: `GreenNode::new` produces a
    well-formed node (length = sum of child lengths, hash = `H children`), exactly like the
    builder's `NodeCache::node` (`Cache.node_spec`) -/
theorem mkNew_wf (cfg : Cfg) (I : Interner) (id k : Nat) (cs : List Green) (h : GWfL cfg I cs) :
    GWf cfg I (Green.mkNew cfg.H id k cs) := by
  simp [Green.mkNew, GWf, h]

theorem mkNew_resolves (cfg : Cfg) (I : Interner) (id k : Nat) (cs : List Green) :
    resolveG cfg I (Green.mkNew cfg.H id k cs) = (resolveL cfg I cs).map (Tree.node k) := by
  simp [Green.mkNew, resolveG]

/-- **every green node's reported text length equals the byte length of its text** -/
theorem len_sum (cfg : Cfg) (I : Interner) (g : Green) (h : GWf cfg I g) :
    ∃ t, resolveG cfg I g = some t ∧ g.len = blen t.text := resolve_of_GWf g h

mutual
theorem beq_of_resolve {cfg : Cfg} {I : Interner} (hH : HRespects cfg.H) (hn : I.strs.Nodup) :
    (a b : Green) → GWf cfg I a → GWf cfg I b → resolveG cfg I a = resolveG cfg I b → Green.beq a b = true
  | .tok _ k1 none l1, .tok _ k2 none l2, ha, hb, h => by
    simp only [GWf] at ha hb
    obtain ⟨s1, e1, rfl⟩ := ha
    obtain ⟨s2, e2, rfl⟩ := hb
    simp only [resolveG, e1, e2, Option.map_some, Option.some.injEq, Tree.tok.injEq] at h
    obtain ⟨rfl, rfl⟩ := h
    simp [Green.beq]
  | .tok _ k1 (some a) l1, .tok _ k2 (some b) l2, ha, hb, h => by
    simp only [GWf] at ha hb
    obtain ⟨_, s1, e1, rfl⟩ := ha
    obtain ⟨_, s2, e2, rfl⟩ := hb
    simp only [resolveG, e1, e2, Option.map_some, Option.some.injEq, Tree.tok.injEq] at h
    obtain ⟨rfl, rfl⟩ := h
    have := resolve_inj hn e1 e2
    simp [Green.beq, this]
  | .tok _ k1 none l1, .tok _ k2 (some b) l2, ha, hb, h => by
    simp only [GWf] at ha hb
    obtain ⟨s1, e1, rfl⟩ := ha
    obtain ⟨hn2, s2, e2, rfl⟩ := hb
    simp only [resolveG, e1, e2, Option.map_some, Option.some.injEq, Tree.tok.injEq] at h
    obtain ⟨rfl, rfl⟩ := h
    rw [e1] at hn2; cases hn2
  | .tok _ k1 (some a) l1, .tok _ k2 none l2, ha, hb, h => by
    simp only [GWf] at ha hb
    obtain ⟨hn1, s1, e1, rfl⟩ := ha
    obtain ⟨s2, e2, rfl⟩ := hb
    simp only [resolveG, e1, e2, Option.map_some, Option.some.injEq, Tree.tok.injEq] at h
    obtain ⟨rfl, rfl⟩ := h
    rw [e2] at hn1; cases hn1
  | .node _ k1 l1 h1 cs1, .node _ k2 l2 h2 cs2, ha, hb, h => by
    obtain ⟨ta, ra, la⟩ := resolve_of_GWf _ ha
    obtain ⟨tb, rb, lb⟩ := resolve_of_GWf _ hb
    simp only [GWf] at ha hb
    have hab : ta = tb := by rw [ra, rb] at h; exact Option.some.inj h
    subst hab
    simp only [resolveG] at ra rb
    cases r1 : resolveL cfg I cs1 with
    | none => simp [r1] at ra
    | some ts1 =>
      cases r2 : resolveL cfg I cs2 with
      | none => simp [r2] at rb
      | some ts2 =>
        simp only [r1, Option.map_some, Option.some.injEq] at ra
        simp only [r2, Option.map_some, Option.some.injEq] at rb
        subst ra
        simp only [Tree.node.injEq] at rb
        obtain ⟨rfl, rfl⟩ := rb
        have hcs := beqL_of_resolveL hH hn cs1 cs2 ha.2.2 hb.2.2 (by rw [r1, r2])
        have hl : l1 = l2 := by simp only [Green.len] at la lb; rw [la, lb]
        have hh : h1 = h2 := by rw [ha.2.1, hb.2.1]; exact hH _ _ hcs
        simp [Green.beq, hl, hh, hcs]
  | .tok _ k1 key1 _, .node _ k2 _ _ cs2, ha, hb, h => by
    obtain ⟨ta, ra, _⟩ := resolve_of_GWf _ ha
    obtain ⟨tb, rb, _⟩ := resolve_of_GWf _ hb
    rw [ra, rb] at h
    cases key1 <;> simp only [resolveG, Option.map_eq_some_iff] at ra rb <;>
      obtain ⟨_, _, rfl⟩ := ra <;> obtain ⟨_, _, rfl⟩ := rb <;> cases h
  | .node _ k1 _ _ cs1, .tok _ k2 key2 _, ha, hb, h => by
    obtain ⟨ta, ra, _⟩ := resolve_of_GWf _ ha
    obtain ⟨tb, rb, _⟩ := resolve_of_GWf _ hb
    rw [ra, rb] at h
    cases key2 <;> simp only [resolveG, Option.map_eq_some_iff] at ra rb <;>
      obtain ⟨_, _, rfl⟩ := ra <;> obtain ⟨_, _, rfl⟩ := rb <;> cases h
theorem beqL_of_resolveL {cfg : Cfg} {I : Interner} (hH : HRespects cfg.H) (hn : I.strs.Nodup) :
    (as bs : List Green) → GWfL cfg I as → GWfL cfg I bs → resolveL cfg I as = resolveL cfg I bs →
    Green.beqL as bs = true
  | [], [], _, _, _ => rfl
  | a :: as, b :: bs, ha, hb, h => by
    obtain ⟨ta, ra, _⟩ := resolve_of_GWf a ha.1
    obtain ⟨tb, rb, _⟩ := resolve_of_GWf b hb.1
    obtain ⟨tas, ras, _⟩ := resolveL_of_GWfL as ha.2
    obtain ⟨tbs, rbs, _⟩ := resolveL_of_GWfL bs hb.2
    simp only [resolveL, ra, rb, ras, rbs, Option.some.injEq, List.cons.injEq] at h
    obtain ⟨rfl, rfl⟩ := h
    simp [Green.beqL, beq_of_resolve hH hn a b ha.1 hb.1 (by rw [ra, rb]),
      beqL_of_resolveL hH hn as bs ha.2 hb.2 (by rw [ras, rbs])]
  | [], b :: bs, _, hb, h => by
    obtain ⟨tb, rb, _⟩ := resolve_of_GWf b hb.1
    obtain ⟨tbs, rbs, _⟩ := resolveL_of_GWfL bs hb.2
    simp [resolveL, rb, rbs] at h
  | a :: as, [], ha, _, h => by
    obtain ⟨ta, ra, _⟩ := resolve_of_GWf a ha.1
    obtain ⟨tas, ras, _⟩ := resolveL_of_GWfL as ha.2
    simp [resolveL, ra, ras] at h
end

/-- **Equality is structural and route-independent.** Over one interner (keys are a bijection:
    `Nodup`, C10), two well-formed green elements — whichever way they were produced: builder with
    a fresh or a shared cache (`Cache.node_spec`), `GreenNode::new` (`mkNew_wf`), replacement — are
    `==` exactly when they resolve to the same tree (same kinds, shape and token texts). -/
theorem eq_iff_struct (cfg : Cfg) (I : Interner) (hH : HRespects cfg.H) (hn : I.strs.Nodup)
    (a b : Green) (ha : GWf cfg I a) (hb : GWf cfg I b) :
    Green.beq a b = true ↔ resolveG cfg I a = resolveG cfg I b :=
  ⟨resolve_of_beq a b, beq_of_resolve hH hn a b ha hb⟩

/-- **equal elements hash equally**: `Hash` feeds the head (kind, length, child hash) for nodes and
    (kind, key, length) for tokens, all of which `==` compares -/
theorem hash_congr : (a b : Green) → Green.beq a b = true → a.headWords = b.headWords
  | .tok _ k1 key1 l1, .tok _ k2 key2 l2, h => by
    simp only [Green.beq, Bool.and_eq_true, beq_iff_eq] at h
    obtain ⟨⟨hk, hkey⟩, hl⟩ := h
    subst hk; subst hkey; subst hl; cases key1 <;> rfl
  | .node _ k1 l1 h1 _, .node _ k2 l2 h2 _, h => by
    simp only [Green.beq, Bool.and_eq_true, beq_iff_eq] at h
    obtain ⟨⟨⟨hk, hl⟩, hh⟩, _⟩ := h
    subst hk; subst hl; subst hh; rfl
  | .tok .., .node .., h => by simp [Green.beq] at h
  | .node .., .tok .., h => by simp [Green.beq] at h

/-! ### the child iterator behaves like the plain sequence of the remaining children -/

open ChildIter

theorem next_spec (it : ChildIter) : next it = (it.head?, it.tail) := by
  cases it <;> rfl

theorem nextBack_spec (it : ChildIter) : nextBack it = (it.getLast?, it.dropLast) := by
  unfold nextBack
  cases h : it.getLast? with
  | none => have := List.getLast?_eq_none_iff.mp h; subst this; rfl
  | some g => rfl

theorem nth_spec (it : ChildIter) (n : Nat) : nth it n = (it[n]?, it.drop (n + 1)) := by
  unfold nth
  split
  · rename_i h
    rw [next_spec]
    simp [List.head?_drop, List.tail_drop]
  · rename_i h
    have : it.length ≤ n := by omega
    simp [List.getElem?_eq_none this, List.drop_eq_nil_of_le (by omega : it.length ≤ n + 1)]

theorem nthBack_spec (it : ChildIter) (n : Nat) :
    nthBack it n = (if n < it.length then it[it.length - 1 - n]? else none, it.take (it.length - 1 - n)) := by
  unfold nthBack
  split
  · rename_i h
    rw [nextBack_spec]
    have hlen : (it.take (it.length - n)).length = it.length - n := by simp
    have h1 : (List.take (it.length - n) it).getLast? = it[it.length - 1 - n]? := by
      rw [List.getLast?_eq_getElem?, hlen, List.getElem?_take]
      have : it.length - n - 1 < it.length - n := by omega
      simp [this]; congr 1; omega
    have h2 : (List.take (it.length - n) it).dropLast = it.take (it.length - 1 - n) := by
      rw [List.dropLast_eq_take, hlen, List.take_take]; congr 1; omega
    simp [h1, h2]
  · rename_i h
    have : it.length - 1 - n = 0 := by omega
    simp [this]

theorem len_spec (it : ChildIter) : len it = it.length := rfl

theorem last_spec (it : ChildIter) : last it = it.getLast? := by
  simp [last, nextBack_spec]

theorem foldLoop_spec {α : Type} (f : α → Green → α) (n : Nat) (acc : α) (it : ChildIter) (h : it.length ≤ n) :
    foldLoop f n acc it = it.foldl f acc := by
  induction n generalizing acc it with
  | zero => have : it = [] := List.eq_nil_of_length_eq_zero (by omega); subst this; rfl
  | succ n ih =>
    cases it with
    | nil => rfl
    | cons x xs => simp only [foldLoop, next, List.foldl_cons]; exact ih _ _ (by simpa using h)

/-- `fold` visits exactly the remaining children, front to back -/
theorem fold_spec {α : Type} (f : α → Green → α) (init : α) (it : ChildIter) : fold f init it = it.foldl f init :=
  foldLoop_spec f _ _ _ (Nat.le_refl _)

theorem rfoldLoop_spec {α : Type} (f : α → Green → α) (n : Nat) (acc : α) (it : ChildIter) (h : it.length ≤ n) :
    rfoldLoop f n acc it = it.reverse.foldl f acc := by
  induction n generalizing acc it with
  | zero => have : it = [] := List.eq_nil_of_length_eq_zero (by omega); subst this; rfl
  | succ n ih =>
    cases hl : it.getLast? with
    | none =>
      have := List.getLast?_eq_none_iff.mp hl; subst this; rfl
    | some x =>
      obtain ⟨ys, e⟩ := List.getLast?_eq_some_iff.mp hl
      subst e
      simp only [rfoldLoop, nextBack, hl, List.reverse_append, List.reverse_cons, List.reverse_nil, List.nil_append,
        List.singleton_append, List.foldl_cons]
      rw [List.dropLast_concat]
      exact ih _ _ (by simp at h; omega)

/-- `rfold` visits exactly the remaining children, back to front -/
theorem rfold_spec {α : Type} (f : α → Green → α) (init : α) (it : ChildIter) :
    rfold f init it = it.reverse.foldl f init :=
  rfoldLoop_spec f _ _ _ (Nat.le_refl _)

/-! ### non-vacuity -/
example : HRespects (fxChildHash 0xFFFFFFFF) := fx_respects _
example : (nthBack [Green.tok 0 1 none 1, Green.tok 1 2 none 1, Green.tok 2 3 none 1] 1).1.map Green.kind = some 2 := by
  decide

end Cst.C15
