/-
  C09 — Checkpoints wrap and roll back exactly as documented.

  Model: `Builder.checkpoint / startNodeAt / revertTo` of `Model/Builder` (asserts in source order).
  Validity of a checkpoint is expressed on the stacks themselves: the stacks at checkpoint time
  (`P`, `C`) are prefixes of the current ones.  This is implied by the ghost-identity definition
  used by the harness' reference (a prefix of stamped stacks is a prefix of the stacks), so the
  theorems below cover every valid use in that sense.  `keeps_*` show which operations preserve
  validity: everything except finishing a node that reaches below the checkpoint and reverting past it.
-/
import CstModel.Proofs.Builder
namespace Cst.C09

/-- well-formed stacks: first-child indices are non-decreasing from the outermost open node inwards
    and none exceeds the number of elements -/
def WFl (ps : List (Nat × Nat)) (n : Nat) : Prop :=
  (ps.map (·.2)).Pairwise (· ≤ ·) ∧ ∀ p ∈ ps, p.2 ≤ n

def WF (b : Builder) : Prop := WFl b.parents b.children.length

theorem WFl.mono {ps : List (Nat × Nat)} {n m : Nat} (h : WFl ps n) (hnm : n ≤ m) : WFl ps m :=
  ⟨h.1, fun p hp => Nat.le_trans (h.2 p hp) hnm⟩

theorem WFl.push {ps : List (Nat × Nat)} {n : Nat} (h : WFl ps n) (k f : Nat)
    (hle : ∀ p ∈ ps, p.2 ≤ f) (hf : f ≤ n) : WFl (ps ++ [(k, f)]) n := by
  refine ⟨?_, ?_⟩
  · rw [List.map_append, List.pairwise_append]
    refine ⟨h.1, by simp, ?_⟩
    intro a ha b hb
    simp at hb; subst hb
    obtain ⟨p, hp, rfl⟩ := List.mem_map.mp ha
    exact hle p hp
  · intro p hp
    rcases List.mem_append.mp hp with hp | hp
    · exact h.2 p hp
    · simp at hp; subst hp; exact hf

/-- in a sorted stack every entry is below the innermost one -/
theorem le_last {ps : List (Nat × Nat)} {x : Nat × Nat} (hs : (ps.map (·.2)).Pairwise (· ≤ ·))
    (hl : ps.getLast? = some x) : ∀ p ∈ ps, p.2 ≤ x.2 := by
  obtain ⟨ys, e⟩ := List.getLast?_eq_some_iff.mp hl
  intro p hp
  rw [e] at hp hs
  rw [List.map_append, List.pairwise_append] at hs
  rcases List.mem_append.mp hp with hp | hp
  · exact hs.2.2 _ (List.mem_map_of_mem hp) _ (by simp)
  · simp at hp; subst hp; exact Nat.le_refl _

theorem WFl.take {ps : List (Nat × Nat)} {n : Nat} (h : WFl ps n) (i : Nat) : WFl (ps.take i) n :=
  ⟨List.Pairwise.sublist ((List.take_sublist _ _).map _) h.1,
   fun p hp => h.2 p (List.mem_of_mem_take hp)⟩

theorem WFl.dropLast {ps : List (Nat × Nat)} {n : Nat} (h : WFl ps n) : WFl ps.dropLast n :=
  ⟨List.Pairwise.sublist ((List.dropLast_sublist _).map _) h.1,
   fun p hp => h.2 p (List.dropLast_subset _ hp)⟩

/-! ### the well-formedness invariant: initial state, and every operation that does not panic -/

theorem wf_new (c : Cache) : WF (Builder.new c) := by simp [WF, WFl, Builder.new]

theorem wf_start (b : Builder) (k : Nat) (h : WF b) : WF (b.startNode k) :=
  WFl.push h k _ (fun p hp => h.2 p hp) (Nat.le_refl _)

theorem token_shape {cfg : Cfg} {b b' : Builder} {k : Nat} {s : Text} (h : b.token cfg k s = .ok b') :
    b'.parents = b.parents ∧ ∃ g, b'.children = b.children ++ [g] := by
  unfold Builder.token at h
  split at h
  · split at h
    · cases h
    · cases h; exact ⟨rfl, _, rfl⟩
  · split at h
    · cases h
    · cases h; exact ⟨rfl, _, rfl⟩

theorem stok_shape {cfg : Cfg} {b b' : Builder} {k : Nat} (h : b.staticToken cfg k = .ok b') :
    b'.parents = b.parents ∧ ∃ g, b'.children = b.children ++ [g] := by
  unfold Builder.staticToken at h
  split at h
  · cases h
  · cases h; exact ⟨rfl, _, rfl⟩

theorem wf_token {cfg : Cfg} {b b' : Builder} {k : Nat} {s : Text} (h : b.token cfg k s = .ok b') (hw : WF b) : WF b' := by
  obtain ⟨hp, g, hc⟩ := token_shape h
  unfold WF; rw [hp, hc]; exact WFl.mono hw (by simp)

theorem wf_stok {cfg : Cfg} {b b' : Builder} {k : Nat} (h : b.staticToken cfg k = .ok b') (hw : WF b) : WF b' := by
  obtain ⟨hp, g, hc⟩ := stok_shape h
  unfold WF; rw [hp, hc]; exact WFl.mono hw (by simp)

theorem finish_shape {cfg : Cfg} {b b' : Builder} (h : b.finishNode cfg = .ok b') :
    ∃ k first g, b.parents.getLast? = some (k, first) ∧ first ≤ b.children.length ∧
      b'.parents = b.parents.dropLast ∧ b'.children = b.children.take first ++ [g] ∧
      g = (b.cache.node cfg k (b.children.drop first)).1 := by
  unfold Builder.finishNode at h
  split at h
  · cases h
  · rename_i k first hl
    split at h
    · cases h
    · cases h; exact ⟨k, first, _, hl, by omega, rfl, rfl, rfl⟩

theorem wf_finish {cfg : Cfg} {b b' : Builder} (h : b.finishNode cfg = .ok b') (hw : WF b) : WF b' := by
  obtain ⟨k, first, g, hl, hf, hp, hc, _⟩ := finish_shape h
  unfold WF; rw [hp, hc]
  refine ⟨(WFl.dropLast hw).1, ?_⟩
  intro p hm
  have := le_last hw.1 hl p (List.dropLast_subset _ hm)
  simp [List.length_take]; omega

theorem wf_startAt {b b' : Builder} {cp : Checkpoint} {k : Nat} (h : b.startNodeAt cp k = .ok b') (hw : WF b) : WF b' := by
  unfold Builder.startNodeAt at h
  split at h; · cases h
  split at h; · cases h
  split at h; · cases h
  rename_i h3
  split at h
  · rename_i kk first hl
    split at h
    · cases h
    · cases h
      exact WFl.push hw k _ (fun p hp => Nat.le_trans (le_last hw.1 hl p hp) (by omega)) (by omega)
  · rename_i hl
    cases h
    have : b.parents = [] := List.getLast?_eq_none_iff.mp hl
    exact WFl.push hw k _ (by simp [this]) (by omega)

theorem revert_shape {b b' : Builder} {cp : Checkpoint} (h : b.revertTo cp = .ok b') :
    cp.1 ≤ b.parents.length ∧ cp.2 ≤ b.children.length ∧
    b'.parents = b.parents.take cp.1 ∧ b'.children = b.children.take cp.2 ∧ b'.cache = b.cache ∧
    (∀ x, (b.parents.take cp.1).getLast? = some x → x.2 ≤ cp.2) := by
  unfold Builder.revertTo at h
  split at h; · cases h
  split at h; · cases h
  split at h
  · rename_i kk first hl
    split at h
    · cases h
    · cases h
      refine ⟨by omega, by omega, rfl, rfl, rfl, ?_⟩
      intro x hx; rw [hl] at hx; cases hx; simp; omega
  · rename_i hl
    cases h
    exact ⟨by omega, by omega, rfl, rfl, rfl, fun x hx => by rw [hl] at hx; cases hx⟩

theorem wf_revert {b b' : Builder} {cp : Checkpoint} (h : b.revertTo cp = .ok b') (hw : WF b) : WF b' := by
  obtain ⟨h1, h2, hp, hc, _, hlast⟩ := revert_shape h
  unfold WF; rw [hp, hc]
  refine ⟨(WFl.take hw cp.1).1, ?_⟩
  intro p hm
  cases hl : (b.parents.take cp.1).getLast? with
  | none =>
    have : b.parents.take cp.1 = [] := List.getLast?_eq_none_iff.mp hl
    rw [this] at hm; cases hm
  | some x =>
    have := le_last (WFl.take hw cp.1).1 hl p hm
    have := hlast x hl
    simp [List.length_take]; omega

/-- **misuse is safe**: whatever checkpoint is used in whatever (well-formed) state, the operation
    either panics or leaves a well-formed builder -/
theorem misuse_safe (b : Builder) (cp : Checkpoint) (k : Nat) (hw : WF b) :
    (∃ p, b.startNodeAt cp k = .error p) ∨ (∃ b', b.startNodeAt cp k = .ok b' ∧ WF b') := by
  cases h : b.startNodeAt cp k with
  | error p => exact Or.inl ⟨p, rfl⟩
  | ok b' => exact Or.inr ⟨b', rfl, wf_startAt h hw⟩

theorem misuse_safe_revert (b : Builder) (cp : Checkpoint) (hw : WF b) :
    (∃ p, b.revertTo cp = .error p) ∨ (∃ b', b.revertTo cp = .ok b' ∧ WF b') := by
  cases h : b.revertTo cp with
  | error p => exact Or.inl ⟨p, rfl⟩
  | ok b' => exact Or.inr ⟨b', rfl, wf_revert h hw⟩

/-- a well-formed builder never hits the slice panic in `finish_node`; it panics only when no node
    is open -/
theorem finish_total {cfg : Cfg} (b : Builder) (hw : WF b) (hopen : b.parents ≠ []) :
    ∃ b', b.finishNode cfg = .ok b' := by
  unfold Builder.finishNode
  cases hl : b.parents.getLast? with
  | none => exact absurd (List.getLast?_eq_none_iff.mp hl) hopen
  | some x =>
    obtain ⟨k, first⟩ := x
    have : first ≤ b.children.length := hw.2 (k, first) (List.mem_of_getLast? hl)
    simp only
    have : ¬ first > b.children.length := by omega
    simp [this]

/-! ### valid uses -/

/-- **Reverting restores exactly the state at the checkpoint.** If the stacks at checkpoint time
    (`P`, `C`, themselves well-formed) are prefixes of the current stacks, `revert_to` does not panic
    and leaves precisely `P` and `C`: all tokens and all nodes, finished or unfinished, added since
    are gone.  The cache is untouched. -/
theorem revert_ok (b : Builder) (P : List (Nat × Nat)) (C : List Green)
    (hP : P <+: b.parents) (hC : C <+: b.children) (hcp : WFl P C.length) :
    b.revertTo (P.length, C.length) = .ok { b with parents := P, children := C } := by
  obtain ⟨p2, hp2⟩ := hP
  obtain ⟨c2, hc2⟩ := hC
  have htp : b.parents.take P.length = P := by rw [← hp2]; simp
  have htc : b.children.take C.length = C := by rw [← hc2]; simp
  unfold Builder.revertTo
  have h1 : ¬ P.length > b.parents.length := by rw [← hp2]; simp
  have h2 : ¬ C.length > b.children.length := by rw [← hc2]; simp
  simp only [h1, h2, ↓reduceIte, htp, htc]
  cases hl : P.getLast? with
  | none => rfl
  | some x =>
    obtain ⟨k, first⟩ := x
    have : first ≤ C.length := hcp.2 (k, first) (List.mem_of_getLast? hl)
    have : ¬ C.length < first := by omega
    simp [this]

/-- **Wrapping.** If every node started since the checkpoint has been finished (the parent stack is
    the one at checkpoint time) and the elements at checkpoint time are still there,
    `start_node_at` does not panic and opens a node whose first child is the first element added
    since the checkpoint; nothing else changes. -/
theorem wrap_ok (b : Builder) (C : List Green) (k : Nat)
    (hC : C <+: b.children) (hcp : WFl b.parents C.length) :
    b.startNodeAt (b.parents.length, C.length) k = .ok { b with parents := b.parents ++ [(k, C.length)] } := by
  obtain ⟨c2, hc2⟩ := hC
  unfold Builder.startNodeAt
  have h2 : ¬ C.length > b.children.length := by rw [← hc2]; simp
  simp only [Nat.lt_irrefl, h2, ↓reduceIte]
  cases hl : b.parents.getLast? with
  | none => rfl
  | some x =>
    obtain ⟨kk, first⟩ := x
    have : first ≤ C.length := hcp.2 (kk, first) (List.mem_of_getLast? hl)
    have : ¬ C.length < first := by omega
    simp [this]

/-- … and the node finished next contains **precisely the elements added since the checkpoint**:
    the element stack becomes `C ++ [node]`, the node being built from `children.drop |C|`. -/
theorem wrap_contains (cfg : Cfg) (b : Builder) (C : List Green) (k : Nat) (hC : C <+: b.children) :
    ({ b with parents := b.parents ++ [(k, C.length)] } : Builder).finishNode cfg =
      .ok { cache := (b.cache.node cfg k (b.children.drop C.length)).2, parents := b.parents,
            children := C ++ [(b.cache.node cfg k (b.children.drop C.length)).1] } := by
  obtain ⟨c2, hc2⟩ := hC
  unfold Builder.finishNode
  have h2 : ¬ C.length > b.children.length := by rw [← hc2]; simp
  have htc : b.children.take C.length = C := by rw [← hc2]; simp
  simp [h2, htc]

/-- **Wrapping while a node started since the checkpoint is still open panics**, as documented. -/
theorem wrap_open_panics (b : Builder) (P : List (Nat × Nat)) (n k : Nat)
    (hP : P <+: b.parents) (hopen : P.length < b.parents.length) :
    b.startNodeAt (P.length, n) k = .error .cpUnfinished := by
  obtain ⟨p2, hp2⟩ := hP
  unfold Builder.startNodeAt
  have h1 : ¬ P.length > b.parents.length := by omega
  simp [h1, hopen]

/-! ### which operations keep a checkpoint valid -/

/-- validity of the checkpoint that recorded stacks `P`, `C` -/
def Valid (P : List (Nat × Nat)) (C : List Green) (b : Builder) : Prop := P <+: b.parents ∧ C <+: b.children

theorem keeps_start (P C) (b : Builder) (k : Nat) (h : Valid P C b) : Valid P C (b.startNode k) :=
  ⟨List.IsPrefix.trans h.1 (List.prefix_append _ _), h.2⟩

theorem keeps_token {cfg : Cfg} (P C) {b b' : Builder} {k : Nat} {s : Text} (hb : b.token cfg k s = .ok b')
    (h : Valid P C b) : Valid P C b' := by
  obtain ⟨hp, g, hc⟩ := token_shape hb
  exact ⟨hp ▸ h.1, hc ▸ List.IsPrefix.trans h.2 (List.prefix_append _ _)⟩

/-- finishing a node started since the checkpoint (one whose first child is not below the
    checkpoint) keeps it valid — finishing an older node is what invalidates it -/
theorem keeps_finish {cfg : Cfg} (P C) {b b' : Builder} (hb : b.finishNode cfg = .ok b') (h : Valid P C b)
    (hnew : P.length < b.parents.length)
    (hfirst : ∀ x, b.parents.getLast? = some x → C.length ≤ x.2) : Valid P C b' := by
  obtain ⟨k, first, g, hl, hf, hp, hc, _⟩ := finish_shape hb
  obtain ⟨p2, hp2⟩ := h.1
  obtain ⟨c2, hc2⟩ := h.2
  have hC := hfirst _ hl
  refine ⟨?_, ?_⟩
  · rw [hp, ← hp2]
    have : p2 ≠ [] := by intro e; subst e; simp at hp2; rw [hp2] at hnew; omega
    rw [List.dropLast_append_of_ne_nil this]
    exact List.prefix_append _ _
  · rw [hc]
    refine List.IsPrefix.trans ?_ (List.prefix_append _ _)
    rw [← hc2, List.take_append]
    simp only at hC
    have : C.length ≤ first := hC
    rw [List.take_of_length_le (by omega)]
    exact List.prefix_append _ _

/-- reverting to a checkpoint that is not older keeps an older checkpoint valid -/
theorem keeps_revert (P C) {b b' : Builder} {cp : Checkpoint} (hb : b.revertTo cp = .ok b') (h : Valid P C b)
    (h1 : P.length ≤ cp.1) (h2 : C.length ≤ cp.2) : Valid P C b' := by
  obtain ⟨_, _, hp, hc, _, _⟩ := revert_shape hb
  obtain ⟨p2, hp2⟩ := h.1
  obtain ⟨c2, hc2⟩ := h.2
  refine ⟨?_, ?_⟩
  · rw [hp, ← hp2, List.take_append]
    rw [List.take_of_length_le h1]; exact List.prefix_append _ _
  · rw [hc, ← hc2, List.take_append]
    rw [List.take_of_length_le h2]; exact List.prefix_append _ _

/-! ### non-vacuity: the documented wrap and revert patterns, evaluated on the model -/
example :
    let cfg : Cfg := { statics := [], H := fun _ => 0, threshold := 3, cmpChildren := true, debug := false }
    let b0 := (Builder.new (Cache.empty (Interner.empty 10))).startNode 0
    let cp := b0.checkpoint
    (match b0.token cfg 10 ['a'] with
     | .ok b1 => (match (b1.startNode 2).revertTo cp with | .ok b2 => some (b2.parents.length, b2.children.length) | .error _ => none)
     | .error _ => none) = some (1, 0) := by decide +kernel

end Cst.C09
