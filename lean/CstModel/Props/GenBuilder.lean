/-
  Props/GenBuilder — the transcribed bodies of `GreenNodeBuilder`'s stack operations (`green/builder.rs`) evaluate
  to the model's `Builder` operations, for every builder state and every checkpoint (obligations of C09).

  Numbers the functions compare are handed to the evaluator *tagged* (`Val.sym`): a comparison of tagged values is
  answered by the `Sem` from a table of observations (`Obs`); each theorem instantiates the table with the truth
  about the state at hand, splits on it, brings the model side into constructor form with it, and leaves the
  evaluation of the transcribed body to the kernel.
-/
import CstModel.Generated.RsFns
import CstModel.Proofs.KernelRfl
import CstModel.Model.Builder
namespace Cst
namespace Gen
open Rs

def encPar (p : Nat × Nat) : Val := vTuple [.nat p.1, .nat p.2]
/-- `parents: Vec<(S, usize)>` (ctor 911) and `children: Vec<GreenElement>` (ctor 910) -/
def encB (cache : Val) (ps : List (Nat × Nat)) (cs : List Val) : Val :=
  .strct [(N.field.cache, cache), (N.field.parents, .ctor 911 (ps.map encPar)), (N.field.children, .ctor 910 cs)]
/-- `Checkpoint { parent_idx, child_idx }`, the two indices tagged 1 and 2 -/
def encCp (cp : Nat × Nat) : Val :=
  .strct [(N.field.parent_idx, .sym 1 (.nat cp.1)), (N.field.child_idx, .sym 2 (.nat cp.2))]

/-- what the stack operations ask about the numbers they hold -/
structure Obs where
  pLePlen : Bool          -- parent_idx <= parents.len()
  pGePlen : Bool          -- parent_idx >= parents.len()
  cLeClen : Bool          -- child_idx <= children.len()
  pZero : Bool            -- parent_idx.checked_sub(1) is None
  surv : Option Nat       -- parents.get(parent_idx - 1): its first_child
  last : Option Nat       -- parents.last(): its first_child
  cGeFirst : Bool         -- child_idx >= first_child (of whichever parent was looked at)

def bSem (o : Obs) : Sem where
  debug := false
  app := fun _ _ => none
  call := fun f args =>
    match args with
    | [.sym 1 _, .sym 3 _] => if f == N.le then .ok (.bool o.pLePlen) .unit else if f == N.ge then .ok (.bool o.pGePlen) .unit else .unknown
    | [.sym 3 _, .sym 1 _] => if f == N.ge then .ok (.bool o.pLePlen) .unit else if f == N.le then .ok (.bool o.pGePlen) .unit else .unknown
    | [.sym 2 _, .sym 4 _] => if f == N.le then .ok (.bool o.cLeClen) .unit else .unknown
    | [.sym 4 _, .sym 2 _] => if f == N.ge then .ok (.bool o.cLeClen) .unit else .unknown
    | [.sym 2 _, .sym 5 _] => if f == N.ge then .ok (.bool o.cGeFirst) .unit else .unknown
    | [.sym 5 _, .sym 2 _] => if f == N.le then .ok (.bool o.cGeFirst) .unit else .unknown
    | [.sym 1 (.nat n), .nat 0] => if f == N.gt || f == N.ne then .ok (.bool (!o.pZero)) .unit else if f == N.eq then .ok (.bool o.pZero) .unit else .unknown
    | [.sym 1 (.nat n), .nat 1] =>
      if f == N.sub then (if o.pZero then .panic else .ok (.sym 8 (.nat (n - 1))) .unit)
      else if f == N.ge then .ok (.bool (!o.pZero)) .unit else .unknown
    | _ => .unknown
  meth := fun m recv args =>
    match recv, args with
    | .ctor 911 xs, [] =>
      if m == N.len then .ok (.sym 3 (.nat xs.length)) recv
      else if m == N.last then .ok (vOpt (o.last.map fun fc => vTuple [.atom 0, .sym 5 (.nat fc)])) recv
      else .unknown
    | .ctor 910 xs, [] => if m == N.len then .ok (.sym 4 (.nat xs.length)) recv else .unknown
    | .sym 1 (.nat n), [.nat 1] =>
      if m == N.checked_sub then .ok (if o.pZero then vNone else vSome (.sym 8 (.nat (n - 1)))) recv else .unknown
    | .ctor 911 _, [.sym 8 _] =>
      if m == N.get then .ok (vOpt (o.surv.map fun fc => vTuple [.atom 0, .sym 5 (.nat fc)])) recv else .unknown
    | .ctor 911 xs, [.sym 1 (.nat n)] => if m == N.truncate then .ok .unit (.ctor 911 (xs.take n)) else .unknown
    | .ctor 910 xs, [.sym 2 (.nat n)] => if m == N.truncate then .ok .unit (.ctor 910 (xs.take n)) else .unknown
    | .ctor 911 xs, [.ctor 0 [k, .sym _ (.nat c)]] => if m == N.push then .ok .unit (.ctor 911 (xs ++ [vTuple [k, .nat c]])) else .unknown
    | .ctor 910 xs, [x] => if m == N.push then .ok .unit (.ctor 910 (xs ++ [x])) else .unknown
    | _, _ => .unknown

/-- `checkpoint()`: the two stack heights -/
theorem b_checkpoint (o : Obs) (cache : Val) (ps : List (Nat × Nat)) (cs : List Val) :
    call (bSem o) 20 Rs.Gen.b_checkpoint [encB cache ps cs] =
      .val (.strct [(N.field.parent_idx, .sym 3 (.nat (ps.map encPar).length)), (N.field.child_idx, .sym 4 (.nat cs.length))])
        [some (encB cache ps cs)] := by
  kernel_rfl

/-- `start_node(kind)`: pushes `(kind, children.len())` -/
theorem b_start_node (o : Obs) (cache : Val) (ps : List (Nat × Nat)) (cs : List Val) (k : Nat) :
    call (bSem o) 20 Rs.Gen.b_start_node [encB cache ps cs, .nat k] =
      .val .unit [some (.strct [(N.field.cache, cache), (N.field.parents, .ctor 911 (ps.map encPar ++ [encPar (k, cs.length)])),
                               (N.field.children, .ctor 910 cs)])] := by
  kernel_rfl

/-- what the transcribed `revert_to` does, in terms of the observations -/
theorem b_revert_to_raw (o : Obs) (cache : Val) (ps : List (Nat × Nat)) (cs : List Val) (cp : Nat × Nat) :
    call (bSem o) 60 Rs.Gen.b_revert_to [encB cache ps cs, encCp cp] =
      (if !o.pLePlen then .panic
       else if !o.cLeClen then .panic
       else if !o.pZero && o.surv.isSome && !o.cGeFirst then .panic
       else .val .unit [some (.strct [(N.field.cache, cache), (N.field.parents, .ctor 911 ((ps.map encPar).take cp.1)),
                                      (N.field.children, .ctor 910 (cs.take cp.2))])]) := by
  obtain ⟨a, b, c, d, e, f, g⟩ := o
  cases a <;> cases c <;> cases d <;> cases e <;> cases g <;> kernel_rfl

/-- what the transcribed `start_node_at` does, in terms of the observations -/
theorem b_start_node_at_raw (o : Obs) (cache : Val) (ps : List (Nat × Nat)) (cs : List Val) (cp : Nat × Nat) (k : Nat) :
    call (bSem o) 60 Rs.Gen.b_start_node_at [encB cache ps cs, encCp cp, .nat k] =
      (if !o.pLePlen then .panic
       else if !o.pGePlen then .panic
       else if !o.cLeClen then .panic
       else if o.last.isSome && !o.cGeFirst then .panic
       else .val .unit [some (.strct [(N.field.cache, cache), (N.field.parents, .ctor 911 (ps.map encPar ++ [encPar (k, cp.2)])),
                                      (N.field.children, .ctor 910 cs)])]) := by
  obtain ⟨a, b, c, d, e, f, g⟩ := o
  cases a <;> cases b <;> cases c <;> cases f <;> cases g <;> kernel_rfl

end Gen
end Cst

namespace Cst
namespace Gen
open Rs

theorem take_getLast? {α : Type} (ps : List α) (n : Nat) (h : n ≤ ps.length) :
    (ps.take n).getLast? = if n = 0 then none else ps[n - 1]? := by
  rw [List.getLast?_eq_getElem?, List.length_take, Nat.min_eq_left h]
  by_cases hn : n = 0
  · simp [hn]
  · simp only [hn, if_false]
    rw [List.getElem?_take]
    simp; omega

def encBuilder (encG : Green → Val) (cacheV : Val) (b : Builder) : Val := encB cacheV b.parents (b.children.map encG)

/-- the truth about builder `b` and checkpoint `cp`, as `revert_to` asks for it -/
def obsRevert (b : Builder) (cp : Checkpoint) : Obs where
  pLePlen := decide (cp.1 ≤ b.parents.length)
  pGePlen := decide (cp.1 ≥ b.parents.length)
  cLeClen := decide (cp.2 ≤ b.children.length)
  pZero := decide (cp.1 = 0)
  surv := (b.parents[cp.1 - 1]?).map (·.2)
  last := b.parents.getLast?.map (·.2)
  cGeFirst := match b.parents[cp.1 - 1]? with | some p => decide (cp.2 ≥ p.2) | none => true

/-- `revert_to`, as transcribed from the source, is the model's `Builder.revertTo`: it panics on exactly the
    checkpoints the model rejects and otherwise truncates both stacks to the checkpoint -/
theorem b_revert_to (encG : Green → Val) (cacheV : Val) (b : Builder) (cp : Checkpoint) :
    call (bSem (obsRevert b cp)) 60 Rs.Gen.b_revert_to [encBuilder encG cacheV b, encCp cp] =
      (match b.revertTo cp with
       | .error _ => .panic
       | .ok b' => .val .unit [some (encBuilder encG cacheV b')]) := by
  rw [encBuilder, b_revert_to_raw]
  simp only [Builder.revertTo, obsRevert]
  by_cases h1 : cp.1 ≤ b.parents.length
  · by_cases h2 : cp.2 ≤ b.children.length
    · have hl := take_getLast? b.parents cp.1 h1
      by_cases h0 : cp.1 = 0
      · simp [h1, h2, h0, hl, Nat.not_lt.mpr, encBuilder, encB, List.map_take]
      · rw [hl]
        simp only [h0, if_false]
        generalize b.parents[cp.1 - 1]? = x
        cases x with
        | none => simp [h1, h2, h0, Nat.not_lt.mpr, encBuilder, encB, List.map_take]
        | some p =>
          by_cases h3 : cp.2 ≥ p.2
          · simp [h1, h2, h0, h3, Nat.not_lt.mpr, encBuilder, encB, List.map_take]
          · simp [h1, h2, h0, h3, Nat.not_lt.mpr, Nat.lt_of_not_ge]
    · simp [h1, h2, Nat.not_lt.mpr, Nat.lt_of_not_ge]
  · simp [h1, Nat.lt_of_not_ge]

/-- the truth about builder `b` and checkpoint `cp`, as `start_node_at` asks for it -/
def obsStartAt (b : Builder) (cp : Checkpoint) : Obs where
  pLePlen := decide (cp.1 ≤ b.parents.length)
  pGePlen := decide (cp.1 ≥ b.parents.length)
  cLeClen := decide (cp.2 ≤ b.children.length)
  pZero := decide (cp.1 = 0)
  surv := (b.parents[cp.1 - 1]?).map (·.2)
  last := b.parents.getLast?.map (·.2)
  cGeFirst := match b.parents.getLast? with | some p => decide (cp.2 ≥ p.2) | none => true

/-- `start_node_at`, as transcribed from the source, is the model's `Builder.startNodeAt` -/
theorem b_start_node_at (encG : Green → Val) (cacheV : Val) (b : Builder) (cp : Checkpoint) (k : Nat) :
    call (bSem (obsStartAt b cp)) 60 Rs.Gen.b_start_node_at [encBuilder encG cacheV b, encCp cp, .nat k] =
      (match b.startNodeAt cp k with
       | .error _ => .panic
       | .ok b' => .val .unit [some (encBuilder encG cacheV b')]) := by
  rw [encBuilder, b_start_node_at_raw]
  simp only [Builder.startNodeAt, obsStartAt]
  by_cases h1 : cp.1 ≤ b.parents.length
  · by_cases h1' : cp.1 ≥ b.parents.length
    · by_cases h2 : cp.2 ≤ b.children.length
      · have e1 : ¬ cp.1 > b.parents.length := by omega
        have e2 : ¬ cp.1 < b.parents.length := by omega
        have e3 : ¬ cp.2 > b.children.length := by omega
        simp only [e1, e2, e3, if_false, h1, h1', h2, decide_true, Bool.not_true, Bool.false_eq_true]
        rcases Option.eq_none_or_eq_some (b.parents.getLast?) with hx | ⟨p, hx⟩
        · simp [hx, encBuilder, encB, encPar]
        · by_cases h3 : cp.2 ≥ p.2
          · simp [h3, hx, Nat.not_lt.mpr, encBuilder, encB, encPar]
          · simp [h3, hx, Nat.lt_of_not_ge]
      · simp [h1, h1', h2, Nat.not_lt.mpr, Nat.lt_of_not_ge]
    · simp [h1, h1', Nat.not_lt.mpr, Nat.lt_of_not_ge]
  · simp [h1, Nat.lt_of_not_ge]

/-- `checkpoint()` is the model's `Builder.checkpoint` (the two heights), and leaves the builder alone -/
theorem b_checkpoint_model (o : Obs) (encG : Green → Val) (cacheV : Val) (b : Builder) :
    call (bSem o) 20 Rs.Gen.b_checkpoint [encBuilder encG cacheV b] =
      .val (.strct [(N.field.parent_idx, .sym 3 (.nat b.checkpoint.1)), (N.field.child_idx, .sym 4 (.nat b.checkpoint.2))])
        [some (encBuilder encG cacheV b)] := by
  rw [encBuilder, b_checkpoint]; simp [Builder.checkpoint]

/-- `start_node(kind)` is the model's `Builder.startNode` -/
theorem b_start_node_model (o : Obs) (encG : Green → Val) (cacheV : Val) (b : Builder) (k : Nat) :
    call (bSem o) 20 Rs.Gen.b_start_node [encBuilder encG cacheV b, .nat k] =
      .val .unit [some (encBuilder encG cacheV (b.startNode k))] := by
  rw [encBuilder, b_start_node]; simp [Builder.startNode, encBuilder, encB]

end Gen
end Cst
