/-
  C14 — Replacing an element substitutes exactly that element.

  Model: `replaceWith` / `replaceG` (`SyntaxNode::replace_with`, `SyntaxToken::replace_with`): kind
  assertion, then every ancestor is rebuilt through `GreenNode::new` (length and hash recomputed).
  Green values are immutable in the model; that the implementation leaves the original green tree
  and red trees built on it untouched is checked by the harness (re-dump after every replacement).
-/
import CstModel.Props.C15
import CstModel.Props.C04
import CstModel.Model.Query
namespace Cst.C14

/-- substitution in reference trees -/
def substT : Tree → Path → Tree → Option Tree
  | _, [], n => some n
  | .node k cs, i :: p, n =>
    match cs[i]? with
    | some c => (substT c p n).map (fun c' => .node k (cs.set i c'))
    | none => none
  | .tok .., _ :: _, _ => none

theorem resolveL_set {cfg : Cfg} {I : Interner} (cs : List Green) (ts : List Tree) (i : Nat) (c' : Green) (t' : Tree)
    (hr : resolveL cfg I cs = some ts) (hc : resolveG cfg I c' = some t') :
    resolveL cfg I (cs.set i c') = some (ts.set i t') := by
  induction cs generalizing ts i with
  | nil => simp [resolveL] at hr; subst hr; simp [resolveL]
  | cons x xs ih =>
    unfold resolveL at hr
    cases hx : resolveG cfg I x with
    | none => simp [hx] at hr
    | some tx =>
      cases hxs : resolveL cfg I xs with
      | none => simp [hx, hxs] at hr
      | some txs =>
        simp only [hx, hxs, Option.some.injEq] at hr
        subst hr
        cases i with
        | zero => simp [resolveL, hc, hxs]
        | succ n => simp [resolveL, hx, ih txs n hxs]

theorem resolveL_getElem {cfg : Cfg} {I : Interner} (cs : List Green) (ts : List Tree) (i : Nat) (c : Green)
    (hr : resolveL cfg I cs = some ts) (hc : cs[i]? = some c) : ∃ t, resolveG cfg I c = some t ∧ ts[i]? = some t := by
  induction cs generalizing ts i with
  | nil => simp at hc
  | cons x xs ih =>
    unfold resolveL at hr
    cases hx : resolveG cfg I x with
    | none => simp [hx] at hr
    | some tx =>
      cases hxs : resolveL cfg I xs with
      | none => simp [hx, hxs] at hr
      | some txs =>
        simp only [hx, hxs, Option.some.injEq] at hr
        subst hr
        cases i with
        | zero => simp at hc; subst hc; exact ⟨tx, hx, by simp⟩
        | succ n => simp at hc; obtain ⟨t, h1, h2⟩ := ih txs n hxs hc; exact ⟨t, h1, by simpa using h2⟩

theorem GWfL_set {cfg : Cfg} {I : Interner} {cs : List Green} (h : GWfL cfg I cs) (i : Nat) {c' : Green}
    (hc : GWf cfg I c') : GWfL cfg I (cs.set i c') := by
  rw [GWfL_iff] at h ⊢
  intro g hg
  rcases List.mem_or_eq_of_mem_set hg with hg | hg
  · exact h g hg
  · exact hg ▸ hc

/-- **the result contains the replacement at the chosen position and is the original everywhere
    else**, it is well-formed (all lengths and hashes on the rebuilt spine are the recomputed ones),
    and it resolves to the substituted tree -/
theorem replace_spec (cfg : Cfg) (I : Interner) (id : Nat) :
    (p : Path) → (g : Green) → (new : Green) → GWf cfg I g → GWf cfg I new → (g' : Green) →
    replaceG cfg.H id g p new = some g' →
    GWf cfg I g' ∧ ∃ tg tn t', resolveG cfg I g = some tg ∧ resolveG cfg I new = some tn ∧
      substT tg p tn = some t' ∧ resolveG cfg I g' = some t'
  | [], g, new, hg, hn, g', h => by
    simp only [replaceG, Option.some.injEq] at h; subst h
    obtain ⟨tg, rg, _⟩ := resolve_of_GWf g hg
    obtain ⟨tn, rn, _⟩ := resolve_of_GWf new hn
    exact ⟨hn, tg, tn, tn, rg, rn, rfl, rn⟩
  | i :: p, g, new, hg, hn, g', h => by
    simp only [replaceG] at h
    cases hc : g.children[i]? with
    | none => simp [hc] at h
    | some c =>
      simp only [hc, Option.map_eq_some_iff] at h
      obtain ⟨c', hrec, rfl⟩ := h
      cases g with
      | tok _ _ _ _ => simp [Green.children] at hc
      | node gid k l hh cs =>
        simp only [Green.children, Green.kind] at hc ⊢
        simp only [GWf] at hg
        have hwc : GWf cfg I c := (GWfL_iff.mp hg.2.2) c (List.mem_of_getElem? hc)
        obtain ⟨hwc', tc, tn, tc', r1, r2, r3, r4⟩ := replace_spec cfg I id p c new hwc hn c' hrec
        obtain ⟨ts, hts, _⟩ := resolveL_of_GWfL cs hg.2.2
        obtain ⟨tc0, h5, h6⟩ := resolveL_getElem cs ts i c hts hc
        rw [r1] at h5; cases h5
        refine ⟨C15.mkNew_wf cfg I _ k _ (GWfL_set hg.2.2 i hwc'), .node k ts, tn, .node k (ts.set i tc'), by simp [resolveG, hts], r2, ?_, ?_⟩
        · simp [substT, h6, r3]
        · simp [Green.mkNew, resolveG, resolveL_set cs ts i c' tc' hts r4]

/-- everything off the spine is the same green value (shared, not copied) -/
theorem replace_shares (H : HashFn) (id : Nat) (g : Green) (i : Nat) (p : Path) (new g' : Green)
    (h : replaceG H id g (i :: p) new = some g') :
    ∃ c', g'.children = g.children.set i c' ∧ g'.kind = g.kind := by
  simp only [replaceG] at h
  cases hc : g.children[i]? with
  | none => simp [hc] at h
  | some c =>
    simp only [hc, Option.map_eq_some_iff] at h
    obtain ⟨c', _, rfl⟩ := h
    exact ⟨c', rfl, rfl⟩

/-- a replacement of another kind is rejected (the assertion at the top of `replace_with`) -/
theorem replace_kind_mismatch (H : HashFn) (id : Nat) (root : Green) (p : Path) (old new : Green)
    (ho : Green.get root p = some old) (hk : old.kind ≠ new.kind) : replaceWith H id root p new = none := by
  simp [replaceWith, ho, hk]

theorem sumLen_of_beqL : (as bs : List Green) → Green.beqL as bs = true → sumLen as = sumLen bs
  | [], [], _ => rfl
  | a :: as, b :: bs, h => by
    simp only [Green.beqL, Bool.and_eq_true] at h
    have : a.len = b.len := by
      cases a <;> cases b <;> simp [Green.beq] at h <;> simp [Green.len, h]
    simp [sumLen, this, sumLen_of_beqL as bs h.2]
  | [], _ :: _, h => by simp [Green.beqL] at h
  | _ :: _, [], h => by simp [Green.beqL] at h

theorem beqL_set (cs : List Green) (i : Nat) (c c' : Green) (hc : cs[i]? = some c) (hb : Green.beq c' c = true) :
    Green.beqL (cs.set i c') cs = true := by
  induction cs generalizing i with
  | nil => simp at hc
  | cons x xs ih =>
    cases i with
    | zero => simp at hc; subst hc; simp [Green.beqL, hb, C04.beqL_refl]
    | succ n => simp at hc; simp [Green.beqL, C04.beq_refl, ih n hc]

/-- stored length and hash of every node are the computed ones -/
def LenHashOk (H : HashFn) : Green → Prop
  | .tok .. => True
  | .node _ _ l h cs => l = sumLen cs ∧ h = H cs ∧ ∀ c ∈ cs, LenHashOk H c

/-- **replacing an element by an equal one yields a tree equal to the original** (`==`), for any
    hash function that does not look at allocation identity — in particular the implementation's -/
theorem replace_id (H : HashFn) (hH : C15.HRespects H) (id : Nat) :
    (p : Path) → (g : Green) → LenHashOk H g → (old new : Green) → Green.get g p = some old →
    Green.beq new old = true → ∃ g', replaceG H id g p new = some g' ∧ Green.beq g' g = true
  | [], g, _, old, new, ho, hb => by
    simp only [Green.get, Option.some.injEq] at ho; subst ho
    exact ⟨new, rfl, hb⟩
  | i :: p, g, hw, old, new, ho, hb => by
    simp only [Green.get] at ho
    cases hc : g.children[i]? with
    | none => simp [hc] at ho
    | some c =>
      simp only [hc] at ho
      cases g with
      | tok _ _ _ _ => simp [Green.children] at hc
      | node gid k l hh cs =>
        simp only [Green.children] at hc
        have hw' : l = sumLen cs ∧ hh = H cs ∧ ∀ c ∈ cs, LenHashOk H c := by simpa [LenHashOk] using hw
        obtain ⟨c', h1, h2⟩ := replace_id H hH id p c (hw'.2.2 c (List.mem_of_getElem? hc)) old new ho hb
        refine ⟨Green.mkNew H (id + p.length) k (cs.set i c'), by simp [replaceG, Green.children, hc, h1, Green.kind], ?_⟩
        have hs := beqL_set cs i c c' hc h2
        simp [Green.mkNew, Green.beq, hs, hw'.1, hw'.2.1, sumLen_of_beqL _ _ hs, hH _ _ hs]
/-! ### non-vacuity -/
example :
    let H : HashFn := fun _ => 0
    let g : Green := .node 0 0 2 0 [.tok 1 10 (some 0) 1, .node 2 1 1 0 [.tok 3 10 (some 1) 1]]
    (replaceWith H 9 g [1, 0] (.tok 4 10 (some 0) 3)).map (fun g' => (g'.len, g'.children.map Green.len)) = some (4, [1, 3]) := by
  decide +kernel

end Cst.C14
