import CstModel.Proofs.Red
import CstModel.Model.Fmt
namespace Cst.C14
theorem placeholder : True := trivial
end Cst.C14
