/-
  C05 — One red element per tree position under any thread interleaving.

  Model: `Model/Conc`.  A slot is written once; every `get_or_add` on a slot — by any thread, by any
  route, in any reachable execution — completes by reading the element stored in the slot (a hit,
  or the re-read after an install / a lost race), so all handles for one position denote the same
  element; handles have identity semantics (nodes compare by `NodeData` pointer, tokens by parent
  pointer, index and offset — C02 makes the offset canonical).
-/
import CstModel.Proofs.Conc
import CstModel.Proofs.RedConc
import CstModel.Generated.SourceFacts
namespace Cst.C05

open Conc

theorem dec_slots (s : Sys) : (dec s).torn = s.torn → (dec s).slots = s.slots := by
  simp only [dec]
  by_cases h : s.rc = 1
  · simp [h]
  · simp [h]

theorem dec_torn_ge (s : Sys) : s.torn ≤ (dec s).torn := by
  simp only [dec]
  by_cases h : s.rc = 1 <;> simp [h]

/-- what one step does to the slots and to `torn`: nothing, or it installs into an empty slot, or
    it is a decrement (which clears the slots only when it tears down) -/
theorem step_effect (F : Facts) (s s' : Sys) (i : Nat) (a : Act) (hs : step F s i a = some s') :
    (s'.slots = s.slots ∧ s'.torn = s.torn) ∨
    (∃ sl e, s.slots[sl]? = some none ∧ s'.slots = s.slots.set sl (some e) ∧ s'.torn = s.torn) ∨
    (∃ s1, s' = dec s1 ∧ s1.slots = s.slots ∧ s1.torn = s.torn) := by
  unfold step at hs
  cases hti : s.thr[i]? with
  | none => simp [hti] at hs
  | some t =>
    obtain ⟨tow, tpc⟩ := t
    simp only [hti] at hs
    cases a with
    | spawn => simp only [Option.some.injEq] at hs; subst hs; exact Or.inl ⟨rfl, rfl⟩
    | clone =>
      cases tpc <;> (try simp only at hs) <;> try (simp at hs; done)
      split at hs
      · simp only [Option.some.injEq] at hs; subst hs; exact Or.inl ⟨rfl, rfl⟩
      · simp at hs
    | dropH =>
      cases tpc <;> (try simp only at hs) <;> try (simp at hs; done)
      split at hs
      · simp only [Option.some.injEq] at hs; subst hs; exact Or.inr (Or.inr ⟨_, rfl, rfl, rfl⟩)
      · simp at hs
    | send j =>
      cases tpc <;> (try simp only at hs) <;> try (simp at hs; done)
      split at hs
      · cases huj : s.thr[j]? with
        | none => simp [huj] at hs
        | some u => simp only [huj, Option.some.injEq] at hs; subst hs; exact Or.inl ⟨rfl, rfl⟩
      · simp at hs
    | rdHit sl =>
      cases tpc <;> (try simp only at hs) <;> try (simp at hs; done)
      split at hs
      · split at hs
        · simp only [Option.some.injEq] at hs; subst hs; exact Or.inl ⟨rfl, rfl⟩
        · simp at hs
      · simp at hs
    | rdMiss sl n =>
      cases tpc <;> (try simp only at hs) <;> try (simp at hs; done)
      split at hs
      · split at hs
        · simp only [Option.some.injEq] at hs; subst hs; exact Or.inl ⟨rfl, rfl⟩
        · simp at hs
      · simp at hs
    | install =>
      cases tpc <;> (try simp only at hs) <;> try (simp at hs; done)
      rename_i sl n c
      split at hs
      · simp at hs
      · split at hs
        · rename_i hempty
          simp only [Option.some.injEq] at hs; subst hs
          exact Or.inr (Or.inl ⟨sl, (n, c), hempty, rfl, rfl⟩)
        · simp at hs
    | lose =>
      cases tpc <;> (try simp only at hs) <;> try (simp at hs; done)
      split at hs
      · simp at hs
      · split at hs
        · simp only [Option.some.injEq] at hs; subst hs; exact Or.inl ⟨rfl, rfl⟩
        · simp at hs
    | fetchAdd =>
      cases tpc <;> (try simp only at hs) <;> try (simp at hs; done)
      simp only [Option.some.injEq] at hs; subst hs; exact Or.inl ⟨rfl, rfl⟩
    | dropCand =>
      cases tpc <;> (try simp only at hs) <;> try (simp at hs; done)
      rename_i sl n c
      cases n <;> (simp only [Option.some.injEq] at hs; subst hs; exact Or.inr (Or.inr ⟨_, rfl, rfl, rfl⟩))
    | freeCand =>
      cases tpc <;> (try simp only at hs) <;> try (simp at hs; done)
      simp only [Option.some.injEq] at hs; subst hs; exact Or.inr (Or.inr ⟨_, rfl, rfl, rfl⟩)
    | reread =>
      cases tpc <;> (try simp only at hs) <;> try (simp at hs; done)
      split at hs
      · simp at hs
      · split at hs
        · simp only [Option.some.injEq] at hs; subst hs; exact Or.inl ⟨rfl, rfl⟩
        · simp at hs

/-- `torn` never decreases -/
theorem torn_mono (F : Facts) (a b : Sys) (i : Nat) (act : Act) (hs : step F a i act = some b) : a.torn ≤ b.torn := by
  rcases step_effect F a b i act hs with ⟨_, h⟩ | ⟨_, _, _, _, h⟩ | ⟨s1, rfl, _, h1⟩
  · omega
  · omega
  · have := dec_torn_ge s1; omega

/-- **a slot is written once**: in one step, an installed element stays as it is unless the step
    tears the whole tree down -/
theorem slot_write_once (F : Facts) (s s' : Sys) (i : Nat) (a : Act) (hs : step F s i a = some s')
    (sl : Nat) (e : Bool × Nat) (he : s.slots[sl]? = some (some e)) (ht : s'.torn = s.torn) :
    s'.slots[sl]? = some (some e) := by
  rcases step_effect F s s' i a hs with ⟨h, _⟩ | ⟨sl', e', hempty, h, _⟩ | ⟨s1, rfl, h1, h2⟩
  · rw [h]; exact he
  · rw [h, List.getElem?_set]
    by_cases hsl : sl' = sl
    · subst hsl; rw [he] at hempty; simp at hempty
    · simp [hsl, he]
  · rw [dec_slots s1 (by omega), h1]; exact he

/-- **one element per slot, for every execution**: once an element is installed in a slot, every
    later state of any execution — any number of threads, any interleaving — that has not torn the
    tree down still holds exactly that element there.  Hence every completed `get_or_add` on that
    slot (they all end in `rdHit` or `reread`, which read the slot) returns it. -/
theorem one_element_per_slot (F : Facts) (s s' : Sys) (hr' : Reachable F s s')
    (sl : Nat) (e : Bool × Nat) (he : s.slots[sl]? = some (some e)) (ht : s'.torn = s.torn) :
    s'.slots[sl]? = some (some e) := by
  induction hr' with
  | refl => exact he
  | step m m' i a hrm hs ih =>
    have h1 : s.torn ≤ m.torn := by
      clear ih hs ht
      induction hrm with
      | refl => exact Nat.le_refl _
      | step x y j b _ hxy ihx => exact Nat.le_trans ihx (torn_mono F x y j b hxy)
    have h2 := torn_mono F m m' i a hs
    exact slot_write_once F m m' i a hs sl e (ih (by omega)) (by omega)

/-- completing a `get_or_add` (hit or re-read) requires the slot to be filled; what it reads is the
    slot's element -/
theorem completion_reads_slot (F : Facts) (s s' : Sys) (i : Nat) (sl : Nat)
    (hs : step F s i (.rdHit sl) = some s' ∨ (step F s i .reread = some s' ∧ ∃ t, s.thr[i]? = some t ∧ t.pc = .reread sl)) :
    ∃ e, s.slots[sl]? = some (some e) := by
  rcases hs with hs | ⟨hs, t, hti, hp⟩
  · unfold step at hs
    cases hti : s.thr[i]? with
    | none => simp [hti] at hs
    | some t =>
      obtain ⟨tow, tpc⟩ := t
      simp only [hti] at hs
      cases tpc <;> (try simp only at hs) <;> try (simp at hs; done)
      split at hs
      · split at hs
        · rename_i v h; exact ⟨v, h⟩
        · simp at hs
      · simp at hs
  · unfold step at hs
    obtain ⟨tow, tpc⟩ := t
    simp only at hp; subst hp
    simp only [hti] at hs
    split at hs
    · simp at hs
    · split at hs
      · rename_i v h; exact ⟨v, h⟩
      · simp at hs

/-- **losing a creation race has no observable effect** (on the counter): the loser's path adds
    the compensation in advance and then performs exactly that many decrements, each of which sees a
    counter of at least 2 (`C06.loser_never_tears_down`), so it can neither tear the tree down nor
    leave the counter changed.  Net effect of the amounts extracted from the source: -/
theorem loser_net_zero : (SourceFacts.loserNodeComp : Int) - 1 - 1 = 0 ∧ (SourceFacts.loserTokenComp : Int) - 1 = 0 := by
  decide

/-- **instantiation**: the source installs a candidate only into an empty slot (`if slot.is_none()
    { *slot = Some(elem); } else { … }`), and the only other assignment to a slot is the teardown's
    `*slot = None` — the model's `install` (enabled on an empty slot only) is the code's -/
theorem slot_protocol_facts : SourceFacts.slotInstallOnlyIfEmpty = true ∧ SourceFacts.slotAssignments = 2 := by decide

/-! ### non-vacuity: two threads race for slot 0; thread 1 loses; both end with the same element -/
def exF : Facts := ⟨2, 1⟩
def exRun : Option Sys := do
  let s1 ← step exF (Sys.init 1 2 1) 0 (.rdMiss 0 true)
  let s2 ← step exF s1 1 (.rdMiss 0 true)
  let s3 ← step exF s2 0 .install
  let s4 ← step exF s3 1 .lose
  let s5 ← step exF s4 1 .fetchAdd
  let s6 ← step exF s5 1 .dropCand
  let s7 ← step exF s6 1 .freeCand
  let s8 ← step exF s7 1 .reread
  step exF s8 0 .reread
example : (match exRun with
    | some s => s.rc == 2 && s.slots == [some (true, 0)] && s.blocks == [0] && s.freed == [1] && s.torn == 0
    | none => false) = true := by decide

/-! ### refinement to the sequential red tree (`Model/RedConc`): what a filled slot holds -/

/-- **any interleaving keeps the shared tree canonical**: from a fresh tree, whatever sequence of read phases (of
    operations that keep the sequential tree canonical — every navigation request does: `Proofs/Red`, `Proofs/TokenNav`)
    and `try_write`s the threads perform, in whatever order, every filled slot holds the canonical offset of its
    position, i.e. exactly what the sequential tree holds there by any route (`agrees_with_sequential`) -/
theorem slots_canonical_any_interleaving (g : Green) (hg : LenOk g) (n : Nat) (acts : List (Nat × RedConc.Act)) (s : RedConc.Sys)
    (hk : ∀ t f, (t, RedConc.Act.read f) ∈ acts → RedConc.KeepsR f) (hrun : RedConc.run (RedConc.Sys.init g n) acts = some s) :
    RedConc.Inv s ∧ s.red.root = g :=
  RedConc.inv_run acts (RedConc.Sys.init g n) s (RedConc.inv_init g hg n) hk hrun

/-- **the concurrent tree agrees with every sequential one**: a position materialised both in a concurrently used
    tree and in any sequentially navigated tree over the same green tree has the same offset (hence range; kind and
    parent are functions of the position) -/
theorem concurrent_agrees_with_sequential (s : RedConc.Sys) (hI : RedConc.Inv s) (r : Red) (hr : RInv r) (hroot : r.root = s.red.root)
    (q : Path) (o o' : Nat) (h1 : s.red.start q = some o) (h2 : r.start q = some o') : o = o' :=
  RedConc.agrees_with_sequential s hI r hr hroot q o o' h1 h2

/-- **losing a creation race has no observable effect**, and a filled slot is never overwritten -/
theorem race_loser_unobservable (s : RedConc.Sys) (hI : RedConc.Inv s) (es : List RedConc.Entry) (hes : es ∈ s.thr) (e : RedConc.Entry) (he : e ∈ es)
    (o : Nat) (hfilled : s.red.slots.lookup e.1 = some o) :
    o = e.2 ∧ ∀ t a (s' : RedConc.Sys), RedConc.step s t a = some s' → s'.red.slots.lookup e.1 = some o :=
  ⟨RedConc.loser_finds_its_own s hI es hes e he o hfilled, fun t a s' hs => RedConc.written_once s s' t a hs e.1 o hfilled⟩

/-- non-vacuity and the tie to the sequential operation: an uninterrupted read + write is `get_or_add` itself; the
    read phases of the model are the sequential navigation requests -/
theorem atomic_is_get_or_add (s : RedConc.Sys) (t : Nat) (p : Path) (i o : Nat) (ht : s.thr[t]? = some [])
    (hempty : s.red.slots.lookup (p ++ [i]) = none) :
    ∃ s1 s2, RedConc.step s t (.read (fun r => r.getOrAdd p i o)) = some s1 ∧ RedConc.step s1 t .write = some s2 ∧
      s2.red = s.red.getOrAdd p i o ∧ s2.thr = s.thr :=
  RedConc.atomic_is_sequential s t p i o ht hempty

example (p : Path) : RedConc.KeepsR (fun r => (r.firstChildOrToken p).2) ∧ RedConc.KeepsR (fun r => (r.lastChild p).2) ∧
    RedConc.KeepsR (fun r => (r.nextSibling p).2) ∧ RedConc.KeepsR (fun r => (r.preorderWithTokens p).2) :=
  ⟨RedConc.keepsR_of_keeps (firstChildOrToken_keeps p), RedConc.keepsR_of_keeps (lastChild_keeps p), RedConc.keepsR_of_keeps (nextSibling_keeps p),
   RedConc.keepsR_of_keeps (preorderWithTokens_keeps p)⟩

end Cst.C05
