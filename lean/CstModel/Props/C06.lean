/-
  C06 — A tree is reclaimed exactly once, when its last handle goes away.

  Model: `Model/Conc` — any number of threads cloning, sending, dropping handles and racing to
  materialise children; teardown is the transition taken by the decrement that sees 1.
  Invariant and its inductiveness: `Proofs/Conc` (`inv_step` needs the extracted compensation
  amounts `compNode = 2`, `compTok = 1`).
  Heap effects proper (that `Box::from_raw` frees, that nothing else points into a freed block) are
  tied by the allocation hooks and by Miri, not by the model.
-/
import CstModel.Proofs.Conc
import CstModel.Proofs.Teardown
import CstModel.Generated.SourceFacts
namespace Cst.C06

open Conc

/-- the compensation amounts of the current source -/
def facts : Facts := ⟨SourceFacts.loserNodeComp, SourceFacts.loserTokenComp⟩

theorem facts_ok : facts.compNode = 2 ∧ facts.compTok = 1 := by decide

/-- the rest of the protocol as the model assumes it: handles are counted one by one, and the drop
    that sees the value 1 tears the tree down -/
theorem protocol_facts : SourceFacts.cloneAmount = 1 ∧ SourceFacts.dropAmount = 1 ∧ SourceFacts.teardownWhenPrev = 1 := by
  decide

/-- "stays valid as long as any handle exists" is meant in the language's memory model: the teardown must
    be ordered after every other thread's uses, which needs the decrement to release and to acquire
    (`C07.teardown_race_free` is the theorem; here only the fact it rests on) -/
theorem ordering_facts :
    (SourceFacts.dropOrdering == 3 || SourceFacts.dropOrdering == 4) = true ∧ SourceFacts.allRefCountOpsAreRmw = true := by
  decide

/-- every reachable state of the implementation's protocol satisfies the invariant -/
theorem inv_always (nslots nthreads owned : Nat) (hpos : 1 ≤ nthreads * owned) (s : Sys)
    (hr : Reachable facts (Sys.init nslots nthreads owned) s) : Inv s :=
  inv_reachable facts facts_ok.1 facts_ok.2 _ s (inv_init nslots nthreads owned hpos) hr

/-- **never earlier**: as long as any thread owns a handle (to any node or token — each counts one),
    the tree has not been torn down -/
theorem no_premature_teardown (s : Sys) (hI : Inv s) (i : Nat) (t : Thr) (ht : s.thr[i]? = some t)
    (hown : 1 ≤ t.owned) : s.torn = 0 := by
  have h1 := hI.tornLe
  by_cases h : s.torn = 0
  · exact h
  · have h2 : s.torn = 1 := by omega
    have := (torn_all_idle s hI h2 i t ht).1
    omega

/-- **never twice**: teardown happens at most once -/
theorem teardown_at_most_once (s : Sys) (hI : Inv s) : s.torn ≤ 1 := hI.tornLe

/-- **never leaked**: once every handle has been dropped and nobody is in the middle of an
    operation, the tree has been torn down — the counter reaches zero only in the step that tears
    down, so "all dropped but still alive" is unreachable -/
theorem all_dropped_torn (s : Sys) (hI : Inv s) (hall : sumOwned s.thr = 0) (hidle : sumOwed s.thr = 0) : s.torn = 1 := by
  have h1 := hI.tornLe
  by_cases h : s.torn = 0
  · have := hI.rcEq h
    have := hI.rcPos h
    omega
  · omega

/-- after teardown nothing is left: no thread owns a handle or is inside an operation, and only
    `spawn` is enabled — nothing touches the tree any more -/
theorem after_teardown_quiet (s : Sys) (hI : Inv s) (ht : s.torn = 1) (i : Nat) (t : Thr) (h : s.thr[i]? = some t) :
    t.owned = 0 ∧ t.pc = .idle := torn_all_idle s hI ht i t h

/-- **the loser of a creation race never tears the tree down**: both decrements on its path see a
    counter of at least 2 -/
theorem loser_never_tears_down (s : Sys) (hI : Inv s) (h0 : s.torn = 0) (i : Nat) (t : Thr) (ht : s.thr[i]? = some t)
    (hp : (∃ sl n c, t.pc = .added sl n c) ∨ (∃ sl c, t.pc = .dropped1 sl c)) : 2 ≤ s.rc := by
  have h1 := hI.rcEq h0
  have h2 := owned_le_sum s.thr i t ht
  have h3 := owed_le_sum s.thr i t ht
  have hb : t.owned ≥ 1 := hI.busyOwns t (List.mem_of_getElem? ht) (by rcases hp with ⟨_, _, _, e⟩ | ⟨_, _, e⟩ <;> simp [e])
  have hw : 1 ≤ owed t.pc := by
    rcases hp with ⟨sl, n, c, e⟩ | ⟨sl, c, e⟩
    · rw [e]; cases n <;> simp [owed]
    · rw [e]; simp [owed]
  omega

/-- the amounts are **necessary**: with a compensation of 1 for a lost node the second decrement of
    the loser path can see 1 while the loser still owns its handle — a premature teardown -/
theorem comp_one_is_unsound :
    let F : Facts := ⟨1, 1⟩
    let s0 : Sys := { rc := 1, torn := 0, slots := [some (true, 0)], blocks := [0, 1], freed := [], nextId := 2,
                      thr := [⟨1, .holdW 0 true 1⟩] }
    (match step F s0 0 .fetchAdd with
     | some s1 => (match step F s1 0 .dropCand with
        | some s2 => (match step F s2 0 .freeCand with
          | some s3 => some (s3.torn, (s3.thr.map (·.owned)))
          | none => none)
        | none => none)
     | none => none) = some (1, [1]) := by decide

/-! ### the recursive teardown (`Model/Teardown`): what the one atomic `dec` step of `Model/Conc` stands for -/

open Teardown in
/-- **every installed block is released exactly once, children before parents**: the frees of a teardown are the
    node blocks of the tree of installed elements in post-order; with one block per slot (C05) each occurs once -/
theorem teardown_frees_each_once (ks : ITs) (hn : (nodesOfL ks).Nodup) :
    (tearRoot ks).filterMap Ev.freed = nodesOfL ks ∧
    ∀ s, ((tearRoot ks).filterMap Ev.freed).count s = if s ∈ nodesOfL ks then 1 else 0 :=
  ⟨tearRoot_frees ks, tearRoot_frees_count ks hn⟩

open Teardown in
/-- **nothing is freed twice or dereferenced after it was freed** inside the teardown, the root block and the count
    cell are released last, and nothing follows -/
theorem teardown_safe (ks : ITs) (hn : (nodesOfL ks).Nodup) : safe [] (tearRoot ks) = true := tearRoot_safe ks hn

open Teardown in
/-- **the counter during the teardown**: its decrements are the `teardownDecs` of `Model/Conc` (two per installed
    node, one per installed token, one for the root copy), and none of them sees 1 again: no second teardown -/
theorem teardown_counter (ks : ITs) :
    (tearRoot ks).count .dec = 2 * (nodesOfL ks).length + nToksL ks + 1 ∧ ∀ p, p ∈ prevs 0 (tearRoot ks) → p ≠ 1 :=
  ⟨tearRoot_decs ks, fun p h => no_second_teardown ks p h⟩

/-- the shape the model of the teardown was read off from is the shape of the source: all slots in order, under the
    slot's write lock, the child's sub-tree first, then the slot is cleared, then the child's block is released; the root
    block and the count cell after everything else -/
theorem teardown_shape_facts : SourceFacts.teardownLoopsAllSlots = true ∧ SourceFacts.teardownChildrenFirst = true ∧
    SourceFacts.teardownRootLast = true ∧ SourceFacts.teardownUnderWriteLock = true := by decide

open Teardown in
/-- non-vacuity: a tree with a nested node, an empty slot and tokens -/
example : let ks := ITs.full (.node 0 (.full .tok (.skip (.full (.node 1 .nil) .nil)))) (.full .tok .nil)
    (nodesOfL ks).Nodup ∧ (tearRoot ks).filterMap Ev.freed = [1, 0] ∧ (tearRoot ks).count .dec = 7 := by decide

end Cst.C06
