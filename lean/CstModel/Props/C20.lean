/-
  C20 — A failed interning leaves the builder intact.

  Model: `Builder.tokenF` (token against an interner with a fault switch).  A panic is modelled as
  an `error` outcome with the state *as the unwinding leaves it*; the caller that catches the
  unwind continues with that state.  `runF` is such a caller: it feeds events, each with a flag
  saying whether the interner has been told to fail, and carries on after every panic.
  What is proved is state equality of the model (stacks, both caches, interner, ghost ids); heap
  effects (leaks, double frees) are outside the model and are tied by the harness' allocation
  oracle and Miri only (see DESIGN §6 C20).
-/
import CstModel.Proofs.Builder
namespace Cst.C20

/-- a caller that catches every panic of `token` and carries on; other events as usual.
    Returns `none` if some *non-injected* panic happens. -/
def runF (cfg : Cfg) (b : Builder) : List (Ev × Bool) → Option Builder
  | [] => some b
  | (.tok k t, fail) :: es =>
    match b.tokenF cfg k t fail with
    | (.ok b', _) => runF cfg b' es
    | (.error .internFailed, _) => if fail then runF cfg b es else none
    | (.error _, _) => none
  | (e, _) :: es =>
    match b.step cfg e with
    | .ok b' => runF cfg b' es
    | .error _ => none

/-- **the failure changes nothing**: if the interner fails while a token is being added, the
    outcome is a panic and the builder, its caches and its interner are exactly as before (the model
    returns no new state on that path; `tokenF` is the code's order of effects) -/
theorem fail_no_change (cfg : Cfg) (b : Builder) (k : Nat) (t : Text) (h : cfg.staticText k = none) :
    b.tokenF cfg k t true = (.error .internFailed, false) := by
  simp [Builder.tokenF, h]

/-- a token of a kind with static text never consults the interner, so it cannot fail this way and
    the fault stays armed for the next real interning -/
theorem static_never_interns (cfg : Cfg) (b : Builder) (k : Nat) (t st : Text) (fail : Bool)
    (h : cfg.staticText k = some st) : b.tokenF cfg k t fail = (b.token cfg k t, fail) := by
  simp [Builder.tokenF, h]

/-- without a fault `tokenF` is `token` -/
theorem no_fault (cfg : Cfg) (b : Builder) (k : Nat) (t : Text) :
    (b.tokenF cfg k t false).1 = b.token cfg k t := by
  unfold Builder.tokenF; split <;> simp

/-- the events that remain when the failed tokens are taken out -/
def surviving (cfg : Cfg) : List (Ev × Bool) → List Ev
  | [] => []
  | (.tok k t, fail) :: es =>
    if fail && (cfg.staticText k).isNone then surviving cfg es else .tok k t :: surviving cfg es
  | (e, _) :: es => e :: surviving cfg es

/-- **resuming is equivalent to never having offered the failed tokens**: for every event sequence
    and every set of fault positions (single, repeated, consecutive), catching each panic and
    carrying on ends in exactly the state reached by the remaining events alone — same stacks,
    same caches, same interner, same allocation ids — hence the same finished tree. -/
theorem resume_equiv (cfg : Cfg) (b : Builder) (es : List (Ev × Bool)) (b' : Builder)
    (h : runF cfg b es = some b') : b.run cfg (surviving cfg es) = .ok b' := by
  induction es generalizing b with
  | nil => simp [runF] at h; subst h; simp [surviving, Builder.run]
  | cons x xs ih =>
    obtain ⟨e, fail⟩ := x
    cases e with
    | tok k t =>
      simp only [runF] at h
      cases hst : cfg.staticText k with
      | some st =>
        simp only [Builder.tokenF, hst] at h
        simp only [surviving, hst, Option.isNone_some, Bool.and_false, Bool.false_eq_true, ↓reduceIte]
        cases ht : b.token cfg k t with
        | ok b1 =>
          simp only [ht] at h
          simp [Builder.run, Builder.step, ht, ih b1 h]
        | error p =>
          simp only [ht] at h
          -- a static-kind token does not call the interner, so `internFailed` is impossible
          exfalso
          unfold Builder.token at ht
          simp only [hst] at ht
          split at ht
          · cases ht
            cases fail <;> simp at h
          · cases ht
      | none =>
        cases fail with
        | true =>
          simp only [Builder.tokenF, hst, ↓reduceIte] at h
          simp only [surviving, hst, Option.isNone_none, Bool.and_self, ↓reduceIte]
          exact ih b h
        | false =>
          simp only [Builder.tokenF, hst, Bool.false_eq_true, ↓reduceIte] at h
          simp only [surviving, Bool.false_and, Bool.false_eq_true, ↓reduceIte]
          cases ht : b.token cfg k t with
          | ok b1 =>
            simp only [ht] at h
            simp [Builder.run, Builder.step, ht, ih b1 h]
          | error p =>
            simp only [ht] at h
            cases p <;> simp at h
    | start k =>
      simp only [runF, Builder.step] at h
      simp [surviving, Builder.run, Builder.step, ih _ h]
    | stok k =>
      simp only [runF, Builder.step] at h
      cases hs : b.staticToken cfg k with
      | ok b1 => simp only [hs] at h; simp [surviving, Builder.run, Builder.step, hs, ih b1 h]
      | error p => simp [hs] at h
    | finish =>
      simp only [runF, Builder.step] at h
      cases hs : b.finishNode cfg with
      | ok b1 => simp only [hs] at h; simp [surviving, Builder.run, Builder.step, hs, ih b1 h]
      | error p => simp [hs] at h

/-- consequently the tree eventually finished equals the one built from the remaining events -/
theorem finished_tree_equiv (cfg : Cfg) (c : Cache) (es : List (Ev × Bool)) (b' : Builder)
    (h : runF cfg (Builder.new c) es = some b') :
    build cfg c (surviving cfg es) = b'.finish := by
  simp [build, resume_equiv cfg _ es b' h]

/-! ### non-vacuity: a fault before the second token, caught, and the build resumed -/
example :
    let cfg : Cfg := { statics := [], H := fun _ => 0, threshold := 3, cmpChildren := true, debug := false }
    let es : List (Ev × Bool) := [(.start 0, false), (.tok 10 ['a'], false), (.tok 10 ['b'], true), (.tok 10 ['c'], false), (.finish, false)]
    ((runF cfg (Builder.new (Cache.empty (Interner.empty 10))) es).map (fun b => b.children.length),
      surviving cfg es) = (some 1, [.start 0, .tok 10 ['a'], .tok 10 ['c'], .finish]) := by
  decide +kernel

end Cst.C20
