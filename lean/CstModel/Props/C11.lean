/-
  C11 — Token text, static text and text equality agree.

  Model: `tokenText` (`SyntaxToken::resolve_text` / `ResolvedToken::text`), `textEq`
  (`SyntaxToken::text_eq` with its two `debug_assert!`s under `cfg.debug`), `Builder.token` /
  `Builder.staticToken`.  Tokens are the well-formed ones (`GWf`): exactly what builders produce
  (`Proofs/Builder`: every element on the builder's stack and in the caches is `GWf`), which
  includes the key discipline "no key ⇔ the kind has static text".
-/
import CstModel.Props.C01
import CstModel.Model.Fmt
namespace Cst.C11

/-- **resolving a token yields the text it was built from**: `resolve_text` agrees with the
    resolution of the green token, which C01 shows to be the text fed to the builder -/
theorem tokenText_eq_resolve (cfg : Cfg) (I : Interner) (id k : Nat) (key : Option Nat) (l : Nat)
    (h : GWf cfg I (.tok id k key l)) :
    tokenText cfg I (.tok id k key l) = (resolveG cfg I (.tok id k key l)).map Tree.text := by
  cases key with
  | none =>
    simp only [GWf] at h
    obtain ⟨st, hs, _⟩ := h
    simp [tokenText, resolveG, hs, Tree.text]
  | some key =>
    simp only [GWf] at h
    obtain ⟨hn, s, hs, _⟩ := h
    simp [tokenText, resolveG, hn, hs, Tree.text]

/-- a token built by `token(kind, text)` resolves to `text` (static kinds: to the static text, which
    the caller must have passed) -/
theorem resolve_built (cfg : Cfg) (b : Builder) (hb : BInv cfg b) (k : Nat) (s : Text) (hs : StaticOkTok cfg k s)
    (hcap : b.cache.interner.strs.length + 1 ≤ b.cache.interner.cap) :
    ∃ b' g, b.token cfg k s = .ok b' ∧ b'.children = b.children ++ [g] ∧
      tokenText cfg b'.cache.interner g = some s := by
  obtain ⟨b', hb', hp⟩ := token_pushed hb k s hs hcap
  obtain ⟨gs, hk, hr⟩ := hp.kids
  cases gs with
  | nil => simp [resolveL] at hr
  | cons g gs' =>
    have hw : GWf cfg b'.cache.interner g := by
      have := hp.inv.kids; rw [hk, GWfL_append] at this; exact this.2.1
    have hg : resolveG cfg b'.cache.interner g = some (.tok k s) := by
      unfold resolveL at hr
      cases h1 : resolveG cfg b'.cache.interner g with
      | none => simp [h1] at hr
      | some t =>
        cases h2 : resolveL cfg b'.cache.interner gs' with
        | none => simp [h1, h2] at hr
        | some ts => simp [h1, h2] at hr; rw [hr.1]
    have hnil : gs' = [] := by
      unfold resolveL at hr
      cases h1 : resolveG cfg b'.cache.interner g with
      | none => simp [h1] at hr
      | some t =>
        cases gs' with
        | nil => rfl
        | cons x xs =>
          unfold resolveL at hr
          cases h2 : resolveG cfg b'.cache.interner x <;> cases h3 : resolveL cfg b'.cache.interner xs <;> simp [h1, h2, h3] at hr
    subst hnil
    refine ⟨b', g, hb', hk, ?_⟩
    cases g with
    | node _ _ _ _ _ => simp [resolveG] at hg
    | tok id k' key l =>
      rw [tokenText_eq_resolve cfg _ id k' key l hw, hg]; rfl

/-- **static text does not consult the interner**: the text of a token whose kind has static text is
    the same under every interner -/
theorem static_no_interner (cfg : Cfg) (I I' : Interner) (id k : Nat) (key : Option Nat) (l : Nat) (st : Text)
    (h : cfg.staticText k = some st) :
    tokenText cfg I (.tok id k key l) = some st ∧ tokenText cfg I' (.tok id k key l) = some st := by
  simp [tokenText, h]

/-- adding such a token by kind alone or together with its text gives the same builder state -/
theorem static_two_ways (cfg : Cfg) (b : Builder) (k : Nat) (st : Text) (h : cfg.staticText k = some st) :
    b.token cfg k st = b.staticToken cfg k := C01.static_two_ways cfg b k st h

/-- **`text_eq` never panics** on tokens of built trees — in release *and* in debug builds -/
theorem textEq_total (cfg : Cfg) (I : Interner) (a b : Green) (ha : GWf cfg I a) (hb : GWf cfg I b)
    (hta : a.isNode = false) (htb : b.isNode = false) : ∃ v, textEq cfg a b = some v := by
  cases a with
  | node _ _ _ _ _ => simp [Green.isNode] at hta
  | tok ia ka keya la =>
    cases b with
    | node _ _ _ _ _ => simp [Green.isNode] at htb
    | tok ib kb keyb lb =>
      cases keya <;> cases keyb <;> simp only [textEq] <;> try exact ⟨_, rfl⟩
      simp only [GWf] at ha hb
      obtain ⟨sa, ea, _⟩ := ha
      obtain ⟨sb, eb, _⟩ := hb
      simp [ea, eb]

/-- **`text_eq` is symmetric** -/
theorem textEq_symm (cfg : Cfg) (a b : Green) : textEq cfg a b = textEq cfg b a := by
  cases a with
  | node _ _ _ _ _ => cases b <;> simp [textEq]
  | tok ia ka keya la =>
    cases b with
    | node _ _ _ _ _ => simp [textEq]
    | tok ib kb keyb lb =>
      cases keya <;> cases keyb <;> simp only [textEq]
      · simp only [Bool.or_comm ((cfg.staticText ka).isNone), Bool.beq_comm (a := ka), Bool.beq_comm (a := cfg.staticText ka)]
      · simp [Bool.beq_comm]

/-- **`text_eq` returns true only if the resolved texts are equal** -/
theorem textEq_sound (cfg : Cfg) (I : Interner) (a b : Green) (ha : GWf cfg I a) (hb : GWf cfg I b)
    (h : textEq cfg a b = some true) : tokenText cfg I a = tokenText cfg I b := by
  cases a with
  | node _ _ _ _ _ => cases b <;> simp [textEq] at h
  | tok ia ka keya la =>
    cases b with
    | node _ _ _ _ _ => simp [textEq] at h
    | tok ib kb keyb lb =>
      cases keya with
      | none =>
        cases keyb with
        | some _ => simp [textEq] at h
        | none =>
          simp only [GWf] at ha hb
          obtain ⟨sa, ea, _⟩ := ha
          obtain ⟨sb, eb, _⟩ := hb
          simp only [textEq, ea, eb, Option.isNone_some, Bool.or_self, Bool.and_false, Bool.false_eq_true, ↓reduceIte,
            Option.some.injEq, Bool.or_eq_true, beq_iff_eq] at h
          rcases h with h | h
          · subst h; rw [ea] at eb; cases eb; simp [tokenText, ea]
          · simp [tokenText, ea, eb]; exact h
      | some k1 =>
        cases keyb with
        | none => simp [textEq] at h
        | some k2 =>
          simp only [textEq, Option.some.injEq, beq_iff_eq] at h
          subst h
          simp only [GWf] at ha hb
          simp [tokenText, ha.1, hb.1]

/-- **… and always returns true for equal texts when both kinds have static text or both have
    none** (over one interner, whose keys are a bijection: C10) -/
theorem textEq_complete_same_class (cfg : Cfg) (I : Interner) (hn : I.strs.Nodup) (a b : Green)
    (ha : GWf cfg I a) (hb : GWf cfg I b) (hta : a.isNode = false) (htb : b.isNode = false)
    (hclass : (cfg.staticText a.kind).isSome = (cfg.staticText b.kind).isSome)
    (ht : tokenText cfg I a = tokenText cfg I b) : textEq cfg a b = some true := by
  cases a with
  | node _ _ _ _ _ => simp [Green.isNode] at hta
  | tok ia ka keya la =>
    cases b with
    | node _ _ _ _ _ => simp [Green.isNode] at htb
    | tok ib kb keyb lb =>
      simp only [Green.kind] at hclass
      cases keya with
      | none =>
        simp only [GWf] at ha
        obtain ⟨sa, ea, _⟩ := ha
        cases keyb with
        | some k2 =>
          simp only [GWf] at hb
          rw [ea, hb.1] at hclass; simp at hclass
        | none =>
          simp only [GWf] at hb
          obtain ⟨sb, eb, _⟩ := hb
          simp only [tokenText, ea, eb, Option.some.injEq] at ht
          subst ht
          simp [textEq, ea, eb]
      | some k1 =>
        simp only [GWf] at ha
        obtain ⟨na, sa, ra, _⟩ := ha
        cases keyb with
        | none =>
          simp only [GWf] at hb
          obtain ⟨sb, eb, _⟩ := hb
          rw [na, eb] at hclass; simp at hclass
        | some k2 =>
          simp only [GWf] at hb
          obtain ⟨nb, sb, rb, _⟩ := hb
          simp only [tokenText, na, nb, ra, rb, Option.some.injEq] at ht
          subst ht
          have := resolve_inj hn ra rb
          simp [textEq, this]

/-! ### non-vacuity: mixed classes, an interned token whose text equals a static text, debug build -/
example :
    let cfg : Cfg := { statics := [(12, ['+']), (17, ['+'])], H := fun _ => 0, threshold := 3, cmpChildren := true, debug := true }
    (textEq cfg (.tok 0 12 none 1) (.tok 1 10 (some 0) 1), textEq cfg (.tok 1 10 (some 0) 1) (.tok 0 12 none 1),
     textEq cfg (.tok 0 12 none 1) (.tok 2 17 none 1)) = (some false, some false, some true) := by decide

end Cst.C11
