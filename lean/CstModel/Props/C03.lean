/-
  C03 — Navigation is coherent with the tree structure.

  Every operation of `Model/Red` returns positions (paths); the theorems say *which* position each
  one returns in terms of the green children lists (the tree's structure), that the parent of every
  child of `n` is `n`, that the child iterators yield exactly what their size reports announce, and
  that the preorder successor function enumerates the recursive preorder (properly nested
  enter/leave events, every element once).
-/
import CstModel.Proofs.Nav
import CstModel.Generated.Forwarders
namespace Cst.C03

open Red

/-- **the parent of every child of `n` is `n`** (children are addressed as `p ++ [i]`) -/
theorem parent_child (p : Path) (i : Nat) : Red.parent (p ++ [i]) = some p := by
  simp [Red.parent, Red.split]

/-- `ancestors` of a node are exactly the prefixes of its path, innermost first -/
theorem ancestorsOf_spec (p : Path) (n : Nat) (h : p.length < n) :
    Red.ancestorsOf p n = (List.range (p.length + 1)).map (fun k => p.take (p.length - k)) := by
  induction n generalizing p with
  | zero => omega
  | succ n ih =>
    simp only [Red.ancestorsOf]
    cases hl : p.getLast? with
    | none =>
      have : p = [] := List.getLast?_eq_none_iff.mp hl
      subst this
      simp [Red.parent, Red.split]
    | some i =>
      obtain ⟨q, rfl⟩ := List.getLast?_eq_some_iff.mp hl
      have hq : q.length < n := by simp at h; omega
      simp only [parent_child, ih q hq]
      simp only [List.length_append, List.length_cons, List.length_nil]
      rw [show q.length + (0 + 1) + 1 = (q.length + 1) + 1 by omega, List.range_succ_eq_map (n := q.length + 1)]
      simp only [List.map_cons, List.map_map, Nat.sub_zero]
      congr 1
      · rw [List.take_of_length_le (by simp)]
      · apply List.map_congr_left
        intro k hk
        simp only [List.mem_range] at hk
        simp only [Function.comp]
        rw [List.take_append_of_le_length (by omega)]
        congr 1; omega

/-- `first_child_or_token` is child 0 (none for a childless node) -/
theorem firstChildOrToken_spec (r : Red) (p : Path) (g : Green) (o : Nat)
    (hg : r.green p = some g) (hs : r.start p = some o) :
    (r.firstChildOrToken p).1 = if g.children = [] then none else some (p ++ [0]) := by
  simp only [Red.firstChildOrToken, hg, hs, pick_path, childrenFrom_head]
  cases h : g.children with
  | nil => simp
  | cons c cs => simp

theorem childrenTo_head_index (cs : List Green) (off : Nat) :
    ((childrenTo cs cs.length off).head?).map (fun e => e.2.1) = if cs = [] then none else some (cs.length - 1) := by
  unfold childrenTo
  simp only [List.take_length, Nat.min_self]
  cases h : cs.reverse with
  | nil =>
    have : cs = [] := by simpa using h
    subst this; simp [childrenToGo]
  | cons c rest =>
    have : cs ≠ [] := by intro e; subst e; simp at h
    simp [childrenToGo, this]

/-- `last_child_or_token` is the last child -/
theorem lastChildOrToken_spec (r : Red) (p : Path) (g : Green) (o : Nat)
    (hg : r.green p = some g) (hs : r.start p = some o) :
    (r.lastChildOrToken p).1 = if g.children = [] then none else some (p ++ [g.children.length - 1]) := by
  simp only [Red.lastChildOrToken, hg, hs, pick_path]
  have := childrenTo_head_index g.children (o + g.len)
  cases hh : (childrenTo g.children g.children.length (o + g.len)).head? with
  | none => simp only [hh, Option.map_none] at this ⊢; split at this <;> simp_all
  | some e =>
    simp only [hh, Option.map_some] at this ⊢
    split at this
    · cases this
    · rename_i hne
      simp only [hne, ↓reduceIte]
      have h2 := Option.some.inj this
      rw [← h2]

/-- `first_child` is the first child that is a node: everything before it is a token -/
theorem firstChild_spec (r : Red) (p : Path) (g : Green) (o : Nat)
    (hg : r.green p = some g) (hs : r.start p = some o) :
    (∀ q, (r.firstChild p).1 = some q → ∃ j c, q = p ++ [j] ∧ g.children[j]? = some c ∧ c.isNode = true ∧
        ∀ j' < j, ∀ d, g.children[j']? = some d → d.isNode = false) ∧
    ((r.firstChild p).1 = none → ∀ d ∈ g.children, d.isNode = false) := by
  simp only [Red.firstChild, hg, hs, pick_path, childrenFrom, List.drop_zero]
  constructor
  · intro q hq
    cases hf : firstNode (childrenFromGo g.children 0 o) with
    | none => simp [hf] at hq
    | some e =>
      obtain ⟨c, j, o'⟩ := e
      simp only [hf, Option.map_some, Option.some.injEq] at hq
      obtain ⟨k, hj, hk, hn, hb⟩ := firstNode_from_some _ _ _ _ _ _ hf
      exact ⟨j, c, hq.symm, by simpa [hj] using hk, hn, by intro j' hj'; exact hb j' (by omega)⟩
  · intro hq
    cases hf : firstNode (childrenFromGo g.children 0 o) with
    | none => exact firstNode_from_none _ _ _ hf
    | some e => simp [hf] at hq

/-- `next_sibling_or_token` of child `i` of `q` is child `i + 1` (none for the last child) -/
theorem nextSiblingOrToken_spec (r : Red) (q : Path) (i : Nat) (t : Green) (se : Nat × Nat)
    (ht : r.green q = some t) (hr : r.range (q ++ [i]) = some se) :
    (r.nextSiblingOrToken (q ++ [i])).1 = if i + 1 < t.children.length then some (q ++ [i + 1]) else none := by
  have hsp : Red.split (q ++ [i]) = some (q, i) := by simp [Red.split]
  simp only [Red.nextSiblingOrToken, hsp, hr, Red.nextChildOrTokenAfter, ht, pick_path, childrenFrom_head]
  split
  · rename_i h; simp [List.getElem?_eq_getElem h]
  · rename_i h; simp [List.getElem?_eq_none (Nat.le_of_not_lt h)]

/-- `prev_sibling_or_token` of child `i` of `q` is child `i - 1` (none for the first child) -/
theorem prevSiblingOrToken_spec (r : Red) (q : Path) (i : Nat) (t : Green) (se : Nat × Nat)
    (ht : r.green q = some t) (hi : i < t.children.length) (hr : r.range (q ++ [i]) = some se) :
    (r.prevSiblingOrToken (q ++ [i])).1 = if i = 0 then none else some (q ++ [i - 1]) := by
  have hsp : Red.split (q ++ [i]) = some (q, i) := by simp [Red.split]
  simp only [Red.prevSiblingOrToken, hsp, hr, Red.prevChildOrTokenBefore, ht, pick_path]
  have := childrenTo_head_index (t.children.take i) se.1
  have e : childrenTo t.children i se.1 = childrenTo (t.children.take i) (t.children.take i).length se.1 := by
    unfold childrenTo
    have hl : (t.children.take i).length = i := by
      rw [List.length_take]; exact Nat.min_eq_left (Nat.le_of_lt hi)
    simp only [hl, List.take_take, Nat.min_self]
    congr 1; omega
  rw [e]
  cases hh : (childrenTo (List.take i t.children) (List.take i t.children).length se.1).head? with
  | none =>
    simp only [hh, Option.map_none] at this ⊢
    split at this
    · rename_i h0
      have : i = 0 := by
        have h1 := congrArg List.length h0
        rw [List.length_take, List.length_nil] at h1
        have := Nat.min_eq_left (Nat.le_of_lt hi)
        omega
      simp [this]
    · cases this
  | some e' =>
    simp only [hh, Option.map_some] at this ⊢
    split at this
    · cases this
    · rename_i hne
      have hl : (t.children.take i).length = i := by
        rw [List.length_take]; exact Nat.min_eq_left (Nat.le_of_lt hi)
      rw [hl] at this
      have hi0 : i ≠ 0 := by intro e0; subst e0; simp at hne
      simp only [hi0, ↓reduceIte]
      have h2 := Option.some.inj this
      rw [← h2]

/-! ### what an iterator reports about its size agrees with what it yields -/

/-- `SyntaxElementChildren`: yields exactly `len` more items, all children from `index` on, in order -/
theorem collectElems_spec (it : Red.It) (r : Red) (fuel : Nat) (h : it.rest.length < fuel) :
    (Red.collectElems it r fuel).1 = (List.range' it.index it.rest.length).map (fun j => it.parent ++ [j]) := by
  induction fuel generalizing it r with
  | zero => omega
  | succ n ih =>
    simp only [Red.collectElems, Red.It.nextElem]
    cases hr : it.rest with
    | nil => simp
    | cons c rest =>
      simp only
      rw [ih _ _ (by simp [hr] at h ⊢; omega)]
      simp [List.range'_succ]

theorem elem_iter_size_agrees (it : Red.It) (r : Red) :
    (Red.collectElems it r (it.rest.length + 1)).1.length = it.lenElems := by
  rw [collectElems_spec it r _ (Nat.lt_succ_self _)]; simp [Red.It.lenElems]

/-- one step of `SyntaxNodeChildren`: either no node is left, or a node is yielded and exactly one
    fewer node remains -/
theorem nextNode_count (it : Red.It) (r : Red) (fuel : Nat) (h : it.rest.length < fuel) :
    ((it.nextNode r fuel).1 = none → it.lenNodes = 0) ∧
    (∀ q, (it.nextNode r fuel).1 = some q →
      it.lenNodes = (it.nextNode r fuel).2.1.lenNodes + 1 ∧ (it.nextNode r fuel).2.1.rest.length < it.rest.length) := by
  induction fuel generalizing it r with
  | zero => omega
  | succ n ih =>
    unfold Red.It.nextNode
    cases hr : it.rest with
    | nil => simp [Red.It.lenNodes, hr]
    | cons c rest =>
      simp only
      by_cases hn : c.isNode = true
      · simp [hn, Red.It.lenNodes, hr]
      · simp only [hn, Bool.false_eq_true, ↓reduceIte]
        have := ih { it with rest := rest, index := it.index + 1, offset := it.offset + c.len } r (by simp [hr] at h ⊢; omega)
        constructor
        · intro h0
          have := this.1 h0
          simpa [Red.It.lenNodes, hr, hn] using this
        · intro q hq
          have := this.2 q hq
          constructor
          · simpa [Red.It.lenNodes, hr, hn] using this.1
          · have := this.2; simp at this ⊢; omega

/-- **`SyntaxNodeChildren`: length = count = size hint = number of items actually yielded** -/
theorem node_iter_size_agrees (it : Red.It) (r : Red) (fuel : Nat) (h : it.rest.length < fuel) :
    (Red.collectNodes it r fuel).1.length = it.lenNodes := by
  induction fuel generalizing it r with
  | zero => omega
  | succ n ih =>
    simp only [Red.collectNodes]
    have hc := nextNode_count it r (it.rest.length + 1) (Nat.lt_succ_self _)
    cases hres : it.nextNode r (it.rest.length + 1) with
    | mk o rest =>
      obtain ⟨it', r'⟩ := rest
      rw [hres] at hc
      cases o with
      | none => simp [hc.1 rfl]
      | some q =>
        have := hc.2 q rfl
        simp only at this ⊢
        rw [List.length_cons, ih it' r' (by omega), this.1]

/-! ### the preorder successor function enumerates the recursive preorder

    Pure version of `preorder_with_tokens` on paths: the successor function looks only at arities.
    `walkNextT` computes this successor through `first_child_or_token` / `next_sibling_or_token`
    (`firstChildOrToken_spec`, `nextSiblingOrToken_spec`). -/

def arity (g : Green) (p : Path) : Nat :=
  match Green.get g p with
  | some t => t.children.length
  | none => 0

def next (g : Green) (start : Path) : WE → Option WE
  | .enter p => if 0 < arity g p then some (.enter (p ++ [0])) else some (.leave p)
  | .leave p =>
    if p = start then none else
    match p.getLast? with
    | none => none
    | some i =>
      let q := p.dropLast
      if i + 1 < arity g q then some (.enter (q ++ [i + 1])) else some (.leave q)

def walkN (g : Green) (start : Path) : Nat → WE → List WE
  | 0, _ => []
  | n + 1, e => e :: match next g start e with
    | none => []
    | some e' => walkN g start n e'

mutual
/-- the recursive preorder: enter, the children's walks in order, leave -/
def pre (p : Path) : Green → List WE
  | .tok .. => [.enter p, .leave p]
  | .node _ _ _ _ cs => .enter p :: (preL p 0 cs ++ [.leave p])
def preL (p : Path) (i : Nat) : List Green → List WE
  | [] => []
  | c :: cs => pre (p ++ [i]) c ++ preL p (i + 1) cs
end

def cont (g : Green) (start : Path) (n : Nat) (p : Path) : List WE :=
  match next g start (.leave p) with
  | none => []
  | some e' => walkN g start n e'

theorem get_append (g : Green) (p q : Path) : Green.get g (p ++ q) = (Green.get g p).bind (fun t => Green.get t q) := by
  induction p generalizing g with
  | nil => simp [Green.get]
  | cons i p ih =>
    simp only [List.cons_append, Green.get]
    cases g.children[i]? with
    | none => simp
    | some c => simpa using ih c

theorem get_child (g : Green) (p : Path) (t : Green) (hg : Green.get g p = some t)
    (i : Nat) (c : Green) (hc : t.children[i]? = some c) : Green.get g (p ++ [i]) = some c := by
  rw [get_append, hg]; simp [Green.get, hc]

theorem next_leave_child (g : Green) (start p : Path) (i : Nat) (hlen : start.length ≤ p.length) :
    next g start (.leave (p ++ [i])) =
      if i + 1 < arity g p then some (.enter (p ++ [i + 1])) else some (.leave p) := by
  have hne : p ++ [i] ≠ start := by
    intro h; have := congrArg List.length h; simp at this; omega
  simp [next, hne]

mutual
theorem walk_pre (g : Green) (start : Path) (p : Path) (t : Green) (hg : Green.get g p = some t)
    (hlen : start.length ≤ p.length) (n : Nat) :
    walkN g start (n + (pre p t).length) (.enter p) = pre p t ++ cont g start n p := by
  cases t with
  | tok id k key l =>
    have ha : arity g p = 0 := by simp [arity, hg, Green.children]
    simp [pre, walkN, next, ha, cont]
  | node id k l hh cs =>
    have ha : arity g p = cs.length := by simp [arity, hg, Green.children]
    cases cs with
    | nil =>
      simp [pre, preL, walkN, next, ha, cont]
    | cons c cs' =>
      have hL := walk_preL g start p (.node id k l hh (c :: cs')) hg hlen 0 (c :: cs') (by simp [Green.children]) (by simp) (n + 1)
      have e : n + (pre p (.node id k l hh (c :: cs'))).length
          = (n + 1 + (preL p 0 (c :: cs')).length) + 1 := by simp [pre]; omega
      rw [e]
      simp only [walkN, next, ha, List.length_cons, Nat.zero_lt_succ, ↓reduceIte]
      rw [hL]
      simp [pre, walkN, cont]
theorem walk_preL (g : Green) (start : Path) (p : Path) (t : Green)
    (hg : Green.get g p = some t) (hlen : start.length ≤ p.length)
    (i : Nat) (cs : List Green) (hcs : t.children.drop i = cs) (hne : cs ≠ []) (n : Nat) :
    walkN g start (n + (preL p i cs).length) (.enter (p ++ [i])) =
      preL p i cs ++ walkN g start n (.leave p) := by
  cases cs with
  | nil => exact absurd rfl hne
  | cons c cs' =>
    have hc : t.children[i]? = some c := by
      have := congrArg List.head? hcs; simpa [List.head?_drop] using this
    have hgc := get_child g p t hg i c hc
    have ha : arity g p = t.children.length := by simp [arity, hg]
    have hdrop : t.children.drop (i + 1) = cs' := by
      have := congrArg List.tail hcs; simpa [List.tail_drop] using this
    have hW := walk_pre g start (p ++ [i]) c hgc (by simp; omega) (n + (preL p (i + 1) cs').length)
    have e : n + (preL p i (c :: cs')).length
        = n + (preL p (i + 1) cs').length + (pre (p ++ [i]) c).length := by simp [preL]; omega
    rw [e, hW]
    simp only [preL, List.append_assoc, List.append_cancel_left_eq]
    simp only [cont, next_leave_child g start p i hlen, ha]
    cases hcs' : cs' with
    | nil =>
      have : t.children.length = i + 1 := by
        have h1 := congrArg List.length hdrop; simp [hcs'] at h1
        have h2 : i < t.children.length := (List.getElem?_eq_some_iff.mp hc).1
        omega
      simp [this, preL]
    | cons c2 cs2 =>
      have : i + 1 < t.children.length := by
        have h1 := congrArg List.length hdrop; simp [hcs'] at h1; omega
      simp only [this, ↓reduceIte]
      have := walk_preL g start p t hg hlen (i + 1) (c2 :: cs2) (by rw [hdrop, hcs']) (by simp) n
      simpa using this
end

/-- **a preorder walk emits properly nested enter/leave events visiting every element once**: the
    successor-function walk from `start` is exactly the recursive preorder of the sub-tree -/
theorem preorder_spec (g : Green) (start : Path) (t : Green) (hg : Green.get g start = some t) (n : Nat) :
    walkN g start (n + (pre start t).length) (.enter start) = pre start t := by
  have := walk_pre g start start t hg (Nat.le_refl _) n
  simpa [cont, next] using this

/-! ### non-vacuity -/
example :
    let g : Green := .node 0 0 2 0 [.node 1 1 0 0 [], .tok 2 10 none 1, .node 3 1 1 0 [.tok 4 10 none 1]]
    walkN g [] 20 (.enter []) =
      [.enter [], .enter [0], .leave [0], .enter [1], .leave [1], .enter [2], .enter [2, 0], .leave [2, 0], .leave [2], .leave []] := by
  decide +kernel


/-! ### the wrapper layer (`element.rs`, `resolved.rs`) is the identity the model takes it for

`tools/extract_forwarders.py` translates every `pub fn` of the four element enums and of the two resolved wrappers
into `Generated/Forwarders.lean` on every run.  The theorems below are re-checked against that table: each
element-level method dispatches on node / token to the method of the same name (with the three documented
exceptions for tokens: `parent` is total, `ancestors` starts at the parent, a token is its own first / last token),
and each navigation or query method of `ResolvedNode` / `ResolvedToken` is one call of the method of the same
name on the wrapped handle with the same arguments. -/

theorem forwarders_elem_ok : Fwd.ElemTableOk Fwd.Generated.elemForwarders := by decide

theorem forwarders_resolved_ok : Fwd.ResTableOk Fwd.Generated.resolvedForwarders := by decide

/-- the three token-side exceptions are what the model's path functions do on the path of a token:
    a token is its own first and last token … -/
theorem elem_token_first_last (r : Red) (p : Path) (h : r.isToken p = true) :
    r.elemFirstToken p = Fwd.Arm.sem1 (fun r p => r.elemFirstToken p) .someSelf r p ∧
    r.elemLastToken p = Fwd.Arm.sem1 (fun r p => r.elemLastToken p) .someSelf r p := by
  have hf : walkFuel r p = (walkFuel r p - 1) + 1 := by
    unfold walkFuel; cases r.green p <;> simp
  constructor
  · unfold Red.elemFirstToken; rw [hf]; simp [Red.firstTokenGo, h, Fwd.Arm.sem1]
  · unfold Red.elemLastToken; rw [hf]; simp [Red.lastTokenGo, h, Fwd.Arm.sem1]

/-- … and its chain of ancestors is that of its parent (the parent included), while a node's starts at itself -/
theorem elem_token_ancestors (r : Red) (p : Path) (h : r.isToken p = true) :
    r.ancestors p = (match Red.parent p with | some q => Red.ancestorsOf q (q.length + 1) | none => []) := by
  unfold Red.isToken at h
  unfold Red.ancestors
  cases hg : r.green p with
  | none => simp [hg] at h
  | some g => simp [hg] at h ⊢; simp [h]; rfl

/-- without the same-name discipline the identification fails: a table in which `next_sibling_or_token` of the
    resolved token forwards to another method is rejected -/
example : ¬ Fwd.ResTableOk [⟨"ResolvedToken", "next_sibling_or_token", .other "self.syntax.prev_sibling_or_token()"⟩] := by decide

end Cst.C03
