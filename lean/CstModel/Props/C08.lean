/-
  C08 — Thread-safety markers are sound.

  Model: `Model/Markers` — the `Send`/`Sync` decision for the handle types as a function of the
  bounds extracted from the `unsafe impl`s and from the constructors that take a resolver, and of
  four booleans about the instantiation.  What must hold semantically: node data is handed out as
  `Arc<D>` to every thread that can reach the tree and is dropped by whichever thread drops the last
  handle ⇒ `D: Send + Sync`; likewise the attached resolver ⇒ `R: Send + Sync`.
-/
import CstModel.Model.Markers
import CstModel.Generated.SourceFacts
namespace Cst.C08

/-- the facts extracted from the current source -/
def facts : MarkerFacts :=
  ⟨SourceFacts.nodeSendNeedsDSend, SourceFacts.nodeSendNeedsDSync, SourceFacts.nodeSyncNeedsDSend,
   SourceFacts.nodeSyncNeedsDSync, SourceFacts.ctorNeedsRSend, SourceFacts.ctorNeedsRSync⟩

/-- **soundness, for every instantiation**: whenever a program that builds a tree over data `D` with
    resolver `R` and moves or shares a handle is accepted, `D` and `R` are thread-safe.  Generic in
    the bounds: it holds for any marker impls that require `D: Send + Sync` and constructors that
    require `R: Send + Sync`. -/
theorem markers_sound (F : MarkerFacts) (hF : F = ⟨true, true, true, true, true, true⟩)
    (sync dSend dSync rSend rSync : Bool) (h : accepted F sync dSend dSync rSend rSync = true) :
    dSend = true ∧ dSync = true ∧ rSend = true ∧ rSync = true := by
  subst hF
  cases sync <;> cases dSend <;> cases dSync <;> cases rSend <;> cases rSync <;> simp [accepted, ctorOk, handleOk] at h ⊢

/-- **completeness**: the documented use (thread-safe data and resolver) is accepted -/
theorem markers_complete (F : MarkerFacts) (sync : Bool) : accepted F sync true true true true = true := by
  cases sync <;> simp [accepted, ctorOk, handleOk]

/-- a generic function may assert the marker exactly when it constrains `D` to `Send + Sync` -/
theorem generic_iff (F : MarkerFacts) (hF : F = ⟨true, true, true, true, true, true⟩) (sync bSend bSync : Bool) :
    handleOk F sync bSend bSync = true ↔ (bSend = true ∧ bSync = true) := by
  subst hF
  cases sync <;> cases bSend <;> cases bSync <;> simp [handleOk]

/-- **instantiation**: the bounds extracted from `syntax/node.rs` and `syntax/resolved.rs` are the
    sound ones, no other unsafe marker impl exists in the syntax module, and the green token's
    markers are the unconditional ones -/
theorem facts_sound : facts = ⟨true, true, true, true, true, true⟩ ∧ SourceFacts.otherUnsafeMarkerImpls = 0 ∧
    SourceFacts.greenTokenMarkersUnconditional = true := by decide

/-- soundness of the current source -/
theorem markers_sound_impl (sync dSend dSync rSend rSync : Bool)
    (h : accepted facts sync dSend dSync rSend rSync = true) :
    dSend = true ∧ dSync = true ∧ rSend = true ∧ rSync = true :=
  markers_sound facts facts_sound.1 sync dSend dSync rSend rSync h

/-- **text views**: a lazy text over data `D` and a caller-supplied resolver `I` crosses a thread boundary only if
    `D` is thread-safe and `I` may be shared -/
theorem text_sound (F : MarkerFacts) (hF : F = ⟨true, true, true, true, true, true⟩) (dSend dSync rSync : Bool) :
    textOk F dSend dSync rSync = true ↔ (dSend = true ∧ dSync = true ∧ rSync = true) := by
  subst hF
  cases dSend <;> cases dSync <;> cases rSync <;> simp [textOk, handleOk]

/-- **the kind type does not matter**: the marker impls of the current source say nothing about `S`, so the decision for
    any kind type is the one made from `D` -/
theorem kind_irrelevant (sync dSend dSync : Bool) :
    kindFreeOk facts SourceFacts.nodeMarkersConstrainS sync dSend dSync = handleOk facts sync dSend dSync := by
  have : SourceFacts.nodeMarkersConstrainS = false := by decide
  simp [kindFreeOk, this]

/-- **traversals**: an iterator over a tree may be handed to another thread exactly when the tree's data is thread-safe --
    the documented use is accepted, data that is neither sendable nor shareable is rejected -/
theorem iter_sound (F : MarkerFacts) (hF : F = ⟨true, true, true, true, true, true⟩) (dSend dSync : Bool) :
    iterOk F dSend dSync = true ↔ (dSend = true ∧ dSync = true) := by
  subst hF
  cases dSend <;> cases dSync <;> simp [iterOk, handleOk]

/-- without the bounds the decision is unsound: a tree over non-thread-safe data is accepted -/
theorem unbounded_is_unsound : accepted ⟨false, false, false, false, false, false⟩ false false false false false = true := by
  decide

end Cst.C08
