/-
  C17 — Derived syntax kinds convert safely and invertibly.

  Model: `Model/Derive` — the derive's acceptance decision (error count), the generated
  `from_raw` / `into_raw` / `static_text`, Rust's discriminant rule.
-/
import CstModel.Model.Derive
import CstModel.Generated.SourceFacts
namespace Cst.C17

theorem sum_eq_zero {l : List Nat} (h : l.sum = 0) : ∀ x ∈ l, x = 0 := by
  induction l with
  | nil => simp
  | cons a as ih =>
    simp only [List.sum_cons] at h
    intro x hx
    simp only [List.mem_cons] at hx
    rcases hx with rfl | hx
    · omega
    · exact ih (by omega) x hx

theorem sum_zero_of_all_zero {l : List Nat} (h : ∀ x ∈ l, x = 0) : l.sum = 0 := by
  induction l with
  | nil => rfl
  | cons a as ih =>
    simp only [List.sum_cons]
    have := h a (by simp)
    have := ih (fun x hx => h x (by simp [hx]))
    omega

/-- what acceptance means, spelt out -/
theorem accepts_iff (d : EnumDef) :
    accepts d = true ↔
      d.kind = .enum ∧ reprIdents d = ["u32"] ∧
      ∀ v ∈ d.variants, v.fields = 0 ∧ v.discr = none ∧
        (∀ a ∈ v.attrs, ∃ t, a = .lit t) ∧ (v.attrs.filterMap litOf).length ≤ 1 := by
  unfold accepts deriveErrors
  constructor
  · intro h
    by_cases hk : d.kind = .enum
    · simp only [hk, ne_eq, not_true_eq_false, ↓reduceIte, decide_eq_true_eq] at h
      have hrepr : reprIdents d = ["u32"] := by
        cases hr : reprIdents d with
        | nil => simp [hr, setAll] at h
        | cons a rest =>
          simp only [hr, setAll] at h
          have hlen : rest.length = 0 := by omega
          have : rest = [] := List.eq_nil_of_length_eq_zero hlen
          subst this
          by_cases ha : a = "u32"
          · rw [ha]
          · simp [ha] at h
      refine ⟨hk, hrepr, ?_⟩
      intro v hv
      have hsum : (d.variants.map (fun v => (variantCheck v).1)).sum = 0 := by omega
      have hv0 := sum_eq_zero hsum _ (List.mem_map_of_mem hv)
      simp only [variantCheck] at hv0
      have h1 : (if v.fields = 0 then 0 else 1) = 0 := by omega
      have h2 : (if v.discr.isSome = true then 1 else 0) = 0 := by omega
      have h3 : (v.attrs.map attrErr).sum = 0 := by omega
      have h4 : (setAll (v.attrs.filterMap litOf)).2 = 0 := by omega
      refine ⟨by split at h1 <;> simp_all, by cases hd : v.discr <;> simp_all, ?_, ?_⟩
      · intro a ha
        have := sum_eq_zero h3 _ (List.mem_map_of_mem ha)
        cases a with
        | lit t => exact ⟨t, rfl⟩
        | path => simp [attrErr] at this
        | nameValue => simp [attrErr] at this
        | badArg => simp [attrErr] at this
      · cases hl : v.attrs.filterMap litOf with
        | nil => simp
        | cons x xs => simp only [hl, setAll] at h4; simp only [List.length_cons]; omega
    · simp [hk] at h
  · intro ⟨hk, hrepr, hv⟩
    simp only [hk, ne_eq, not_true_eq_false, ↓reduceIte, hrepr, setAll, List.length_nil, decide_eq_true_eq]
    have : (d.variants.map (fun v => (variantCheck v).1)).sum = 0 := by
      apply sum_zero_of_all_zero
      intro x hx
      obtain ⟨v, hvm, rfl⟩ := List.mem_map.mp hx
      obtain ⟨h1, h2, h3, h4⟩ := hv v hvm
      simp only [variantCheck, h1, ↓reduceIte, h2, Option.isSome_none, Bool.false_eq_true]
      have e1 : (v.attrs.map attrErr).sum = 0 := by
        apply sum_zero_of_all_zero
        intro y hy
        obtain ⟨a, ha, rfl⟩ := List.mem_map.mp hy
        obtain ⟨t, rfl⟩ := h3 a ha
        rfl
      have e2 : (setAll (v.attrs.filterMap litOf)).2 = 0 := by
        cases hl : v.attrs.filterMap litOf with
        | nil => rfl
        | cons x xs => simp only [hl, List.length_cons] at h4; simp only [setAll]; omega
      omega
    simp [this]

theorem discrs_plain (vs : List VariantDef) (k : Nat) (h : ∀ v ∈ vs, v.discr = none) :
    discrs vs k = List.range' k vs.length := by
  induction vs generalizing k with
  | nil => rfl
  | cons v vs ih =>
    have hv : v.discr = none := h v (by simp)
    simp only [discrs, hv, Option.getD_none, List.length_cons, List.range'_succ]
    rw [ih (k + 1) (fun w hw => h w (by simp [hw]))]

/-- **the conversion laws of every accepted definition** (`lt`: the generated assertion compares
    with `<` against the variant count): the raw values are exactly `0..n` in declaration order,
    `from_raw ∘ into_raw` is the identity, a raw value outside that range panics, the `transmute` is
    only reached on a valid discriminant, and the static text of each variant is the annotated one -/
theorem accepted_laws (d : EnumDef) (h : accepts d = true) :
    let n := d.variants.length
    discrs d.variants 0 = List.range n ∧
    (∀ i, i < n → intoRaw d i = some i ∧ fromRaw true d i = some i) ∧
    (∀ raw, n ≤ raw → fromRaw true d raw = none) ∧
    (∀ raw r, fromRaw true d raw = some r → r ∈ discrs d.variants 0) ∧
    (∀ i v, d.variants[i]? = some v →
      staticTextOf d i = (v.attrs.filterMap litOf).head?) := by
  intro n
  obtain ⟨_, _, hv⟩ := (accepts_iff d).mp h
  have hd : discrs d.variants 0 = List.range n := by
    rw [discrs_plain d.variants 0 (fun v hvm => (hv v hvm).2.1), List.range_eq_range']
  refine ⟨hd, ?_, ?_, ?_, ?_⟩
  · intro i hi
    have hi' : i < d.variants.length := hi
    refine ⟨by simp [intoRaw, hd, List.getElem?_range hi], by simp [fromRaw, hi']⟩
  · intro raw hr
    have : ¬ raw < d.variants.length := by omega
    simp [fromRaw, this]
  · intro raw r hfr
    simp only [fromRaw, ↓reduceIte] at hfr
    split at hfr
    · rename_i hlt; cases hfr; rw [hd]; exact List.mem_range.mpr hlt
    · cases hfr
  · intro i v hiv
    simp only [staticTextOf, hiv, variantCheck]
    cases v.attrs.filterMap litOf <;> rfl

/-- **instantiation**: the generated assertion of the current derive is the strict one against the
    variant count -/
theorem assert_fact : SourceFacts.deriveAssertLt = true ∧ SourceFacts.deriveCountIsVariantCount = true := by decide

/-- an off-by-one assertion (`<=`) would let `transmute` produce an invalid enum value -/
theorem le_assert_unsound (d : EnumDef) (h : accepts d = true) :
    ∃ r, fromRaw false d d.variants.length = some r ∧ r ∉ discrs d.variants 0 := by
  obtain ⟨hd, _⟩ := accepted_laws d h
  refine ⟨d.variants.length, by simp [fromRaw], ?_⟩
  rw [hd]; simp

/-- **ill-formed definitions are rejected**: non-enums, enums without exactly the `u32`
    representation, variants with fields or explicit discriminants, malformed or duplicate
    `static_text` annotations -/
theorem ill_formed_rejected (d : EnumDef) :
    (d.kind ≠ .enum → accepts d = false) ∧
    (reprIdents d ≠ ["u32"] → accepts d = false) ∧
    (∀ v ∈ d.variants, v.fields ≠ 0 → accepts d = false) ∧
    (∀ v ∈ d.variants, v.discr ≠ none → accepts d = false) ∧
    (∀ v ∈ d.variants, ∀ a ∈ v.attrs, (∀ t, a ≠ .lit t) → accepts d = false) ∧
    (∀ v ∈ d.variants, 2 ≤ (v.attrs.filterMap litOf).length → accepts d = false) := by
  have key := accepts_iff d
  refine ⟨?_, ?_, ?_, ?_, ?_, ?_⟩
  · intro h; cases ha : accepts d with
    | false => rfl
    | true => exact absurd (key.mp ha).1 h
  · intro h; cases ha : accepts d with
    | false => rfl
    | true => exact absurd (key.mp ha).2.1 h
  · intro v hv h; cases ha : accepts d with
    | false => rfl
    | true => exact absurd ((key.mp ha).2.2 v hv).1 h
  · intro v hv h; cases ha : accepts d with
    | false => rfl
    | true => exact absurd ((key.mp ha).2.2 v hv).2.1 h
  · intro v hv a hav h; cases ha : accepts d with
    | false => rfl
    | true =>
      obtain ⟨t, ht⟩ := ((key.mp ha).2.2 v hv).2.2.1 a hav
      exact absurd ht (h t)
  · intro v hv h; cases ha : accepts d with
    | false => rfl
    | true => have := ((key.mp ha).2.2 v hv).2.2.2; omega

/-! ### non-vacuity -/
example : accepts ⟨.enum, [[.ident "u32"]], [⟨0, none, [.lit ['+']]⟩, ⟨0, none, []⟩]⟩ = true := by decide
example : accepts ⟨.enum, [[.ident "C", .ident "u32"]], [⟨0, none, []⟩]⟩ = false ∧
          accepts ⟨.enum, [[.ident "u32"]], [⟨0, some 5, []⟩]⟩ = false ∧
          accepts ⟨.enum, [[.ident "u32"]], [⟨0, none, [.path]⟩]⟩ = false := by decide

end Cst.C17
