/-
  C10 — Interning is a stable bijection between strings and keys.

  Model: `Model/Interner` (append-only table; key = insertion index; key-space capacity) and the
  `TokenKey` raw conversion instantiated with the constants extracted from `interning.rs`.
  Property theorems only; helper lemmas are in `Proofs/Interner`.
-/
import CstModel.Proofs.Interner
import CstModel.Generated.SourceFacts
namespace Cst.C10

/-- a history: strings offered one after the other; each answer is `some key` or `none` (error) -/
def run (I : Interner) : List Text → Interner × List (Option Nat)
  | [] => (I, [])
  | s :: ss =>
    match I.intern s with
    | some (k, I') => let r := run I' ss; (r.1, some k :: r.2)
    | none => let r := run I ss; (r.1, none :: r.2)

theorem run_length (I : Interner) (ss : List Text) : (run I ss).2.length = ss.length := by
  induction ss generalizing I with
  | nil => rfl
  | cons s ss ih =>
    unfold run
    split <;> simp [ih]

/-- invariants of every reachable table: no duplicates, size within capacity, and the table only
    grows by appending (so keys are stable) -/
theorem run_inv (I : Interner) (ss : List Text) (hn : I.strs.Nodup) (hc : I.strs.length ≤ I.cap) :
    (run I ss).1.strs.Nodup ∧ (run I ss).1.strs.length ≤ (run I ss).1.cap ∧ I.strs <+: (run I ss).1.strs := by
  induction ss generalizing I with
  | nil => exact ⟨hn, hc, List.prefix_refl _⟩
  | cons s ss ih =>
    unfold run
    split
    · rename_i k I' h
      have hp := intern_prefix h
      have := ih I' (intern_nodup hn h) (intern_lt_cap hc h).2
      exact ⟨this.1, this.2.1, List.IsPrefix.trans hp.1 this.2.2⟩
    · exact ih I hn hc

/-- **resolve ∘ intern = id, for ever**: every key issued anywhere in a history resolves, in the
    final table (hence in every later one), to the string it was issued for. -/
theorem issued_resolves (I : Interner) (ss : List Text) (hn : I.strs.Nodup) (hc : I.strs.length ≤ I.cap)
    (i : Nat) (k : Nat) (s : Text) (hk : (run I ss).2[i]? = some (some k)) (hs : ss[i]? = some s) :
    (run I ss).1.resolve k = some s := by
  induction ss generalizing I i with
  | nil => simp at hs
  | cons x xs ih =>
    unfold run at hk ⊢
    split at hk <;> rename_i hint
    · rename_i k' I'
      have hn' := intern_nodup hn hint
      have hc' := (intern_lt_cap hc hint).2
      cases i with
      | zero =>
        simp at hk hs; subst hk; subst hs
        exact resolve_mono (run_inv I' xs hn' hc').2.2 (intern_resolve hint)
      | succ j =>
        simp at hk hs
        exact ih I' hn' hc' j hk hs
    · cases i with
      | zero => simp at hk
      | succ j => simp at hk hs; exact ih I hn hc j hk hs

/-- **same key ⇔ same string** for any two answers of one history -/
theorem key_eq_iff (I : Interner) (ss : List Text) (hn : I.strs.Nodup) (hc : I.strs.length ≤ I.cap)
    (i j k1 k2 : Nat) (s1 s2 : Text)
    (h1 : (run I ss).2[i]? = some (some k1)) (h2 : (run I ss).2[j]? = some (some k2))
    (e1 : ss[i]? = some s1) (e2 : ss[j]? = some s2) : k1 = k2 ↔ s1 = s2 := by
  have r1 := issued_resolves I ss hn hc i k1 s1 h1 e1
  have r2 := issued_resolves I ss hn hc j k2 s2 h2 e2
  constructor
  · intro e; subst e; rw [r1] at r2; exact Option.some.inj r2
  · intro e; subst e; exact resolve_inj (run_inv I ss hn hc).1 r1 r2

/-- **stability**: whatever is interned later, a key keeps resolving to its string -/
theorem stable (I : Interner) (ss : List Text) (hn : I.strs.Nodup) (hc : I.strs.length ≤ I.cap)
    (k : Nat) (s : Text) (h : I.resolve k = some s) : (run I ss).1.resolve k = some s :=
  resolve_mono (run_inv I ss hn hc).2.2 h

/-- an error (`Err(KeySpaceExhausted)`) happens only for a *new* string on a full table, and leaves
    the table unchanged -/
theorem error_iff (I : Interner) (s : Text) :
    I.intern s = none ↔ (s ∉ I.strs ∧ I.strs.length ≥ I.cap) := by
  unfold Interner.intern
  constructor
  · intro h
    split at h
    · cases h
    · rename_i hf; split at h
      · exact ⟨findIdx_none hf, by assumption⟩
      · cases h
  · intro ⟨hm, hl⟩
    cases hf : findIdx s I.strs with
    | some i =>
      have := findIdx_some hf
      exact absurd (List.mem_of_getElem? this) hm
    | none => simp [hl]

/-- the empty interner satisfies the invariants, so the theorems above apply to every history of
    any interner created by `new_interner()` -/
theorem empty_inv (cap : Nat) : (Interner.empty cap).strs.Nodup ∧ (Interner.empty cap).strs.length ≤ (Interner.empty cap).cap := by
  simp [Interner.empty]

/-! ### concurrent interning: any interleaving of atomic intern steps is one sequential history -/

/-- `m` is an interleaving of the per-thread sequences `ts` -/
inductive Interleaving : List (List Text) → List Text → Prop where
  | done (ts : List (List Text)) (h : ∀ t ∈ ts, t = []) : Interleaving ts []
  | step (ts : List (List Text)) (i : Nat) (s : Text) (rest : List Text) (m : List Text)
      (hi : ts[i]? = some (s :: rest)) (hm : Interleaving (ts.set i rest) m) : Interleaving ts (s :: m)

/-- with a linearisable interner, for any number of threads and any interleaving, every key issued
    to any thread resolves to its string at the end and two issued keys are equal iff their strings
    are (the per-thread view is a sub-history of the merged one) -/
theorem concurrent (ts : List (List Text)) (m : List Text) (_ : Interleaving ts m) (cap : Nat)
    (i j k1 k2 : Nat) (s1 s2 : Text)
    (h1 : (run (Interner.empty cap) m).2[i]? = some (some k1)) (h2 : (run (Interner.empty cap) m).2[j]? = some (some k2))
    (e1 : m[i]? = some s1) (e2 : m[j]? = some s2) :
    (k1 = k2 ↔ s1 = s2) ∧ (run (Interner.empty cap) m).1.resolve k1 = some s1 :=
  ⟨key_eq_iff _ m (empty_inv cap).1 (empty_inv cap).2 i j k1 k2 s1 s2 h1 h2 e1 e2,
   issued_resolves _ m (empty_inv cap).1 (empty_inv cap).2 i k1 s1 h1 e1⟩

/-! ### raw key conversion, instantiated with the extracted constants (all 2^32 values, by proof) -/

def guard : UInt32 := UInt32.ofNat SourceFacts.keyGuard
def up : UInt32 := UInt32.ofNat SourceFacts.keyShiftUp
def down : UInt32 := UInt32.ofNat SourceFacts.keyShiftDown

/-- every raw value below `u32::MAX` converts to a *non-zero* stored value (soundness of the
    `NonZeroU32::new_unchecked`) and back to itself -/
theorem raw_roundtrip (r : UInt32) (h : r < 0xFFFFFFFF) :
    ∃ inner, tryFromU32 guard up r = some inner ∧ inner ≠ 0 ∧ intoU32 down inner = r := by
  have hg : guard = 0xFFFFFFFF := by decide
  have hu : up = 1 := by decide
  have hd : down = 1 := by decide
  refine ⟨r + 1, ?_, ?_, ?_⟩
  · simp [tryFromU32, hg, hu, h]
  · intro e
    have : r = 0xFFFFFFFF := by
      have h2 : r = -1 := by have := congrArg (· - 1) e; simpa using this
      exact h2.trans (by decide)
    rw [this] at h; exact absurd h (by decide)
  · simp [intoU32, hd]

/-- the one invalid raw value is rejected -/
theorem raw_reject : tryFromU32 guard up 0xFFFFFFFF = none := by decide

/-- every key (non-zero stored value) converts to a raw value and back to itself -/
theorem key_roundtrip (inner : UInt32) (h : inner ≠ 0) :
    tryFromU32 guard up (intoU32 down inner) = some inner := by
  have hg : guard = 0xFFFFFFFF := by decide
  have hu : up = 1 := by decide
  have hd : down = 1 := by decide
  have hlt : inner - 1 < 0xFFFFFFFF := by
    rw [UInt32.lt_iff_toNat_lt]
    have h0 : inner.toNat ≠ 0 := fun e => h (UInt32.toNat_inj.mp (by simpa using e))
    have : (inner - 1).toNat = inner.toNat - 1 := by
      rw [UInt32.toNat_sub_of_le]
      · rfl
      · rw [UInt32.le_iff_toNat_le]; show 1 ≤ inner.toNat; omega
    rw [this]
    have := inner.toNat_lt
    show inner.toNat - 1 < 4294967295
    omega
  simp [tryFromU32, intoU32, hg, hu, hd, hlt]

/-- the built-in interner never issues an index the conversion would reject: the capacity extracted
    from `default_interner.rs` is within the key space extracted from `interning.rs` -/
theorem builtin_capacity_fits : SourceFacts.nIndices ≤ SourceFacts.keyGuard := by decide

/-- lasso shim: a `usize` converts iff it is a valid raw `u32` -/
theorem usize_reject (n : Nat) (h : n ≥ 2 ^ 32 - 1) : tryFromUsize guard up n = none := by
  unfold tryFromUsize
  split
  · rename_i hlt
    have : n = 2 ^ 32 - 1 := by omega
    subst this; decide
  · rfl

/-! ### non-vacuity -/
example : (run (Interner.empty 2) [['a'], [], ['a'], ['b']]).2 = [some 0, some 1, some 0, none] := by decide
example : ∃ r : UInt32, r < 0xFFFFFFFF := ⟨5, by decide⟩

end Cst.C10
