/-
  C12 — The text view of a node behaves like the string it denotes.

  Model: `Model/SyntaxText`.  Every query of the view is a function of its *chunk list*; the
  theorems show that each query returns what the corresponding string operation returns on the
  concatenation of the chunks — however the text is split into chunks (tokens): length-independent
  folds, character search, position of a character, character at a boundary offset, equality
  against strings and — the non-routine one — the two-pointer comparison of two differently
  chunked views.
-/
import CstModel.Model.SyntaxText
namespace Cst.C12

theorem blen_eq_zero {t : Text} (h : blen t = 0) : t = [] := by
  cases t with
  | nil => rfl
  | cons c cs => have := Char.utf8Size_pos c; simp at h; omega

/-- `to_string` / `Display` / chunk folds: the chunks concatenate -/
theorem concat_spec (ts : List Text) : chunksConcat (ts.map some) = some ts.flatten := by
  induction ts with
  | nil => rfl
  | cons t ts ih => simp [chunksConcat, ih]

theorem contains_append (a b : Text) (c : Char) : (a ++ b).contains c = (a.contains c || b.contains c) := by
  induction a with
  | nil => simp
  | cons d ds ih => simp only [List.cons_append, List.contains_cons, ih, Bool.or_assoc]

/-- **character search** -/
theorem contains_spec (c : Char) (ts : List Text) : chunksContain c (ts.map some) = some (ts.flatten.contains c) := by
  induction ts with
  | nil => simp [chunksContain]
  | cons t ts ih =>
    simp only [List.map_cons, chunksContain, List.flatten_cons, contains_append]
    cases h : t.contains c with
    | true => simp
    | false => simp [ih]

theorem findChar_append (a b : Text) (c : Char) :
    findChar (a ++ b) c = (match findChar a c with | some p => some p | none => (findChar b c).map (· + blen a)) := by
  induction a with
  | nil => simp [findChar]
  | cons d ds ih =>
    simp only [List.cons_append, findChar]
    by_cases h : d = c
    · simp [h]
    · simp only [h, ↓reduceIte, ih]
      cases findChar ds c with
      | some p => simp
      | none =>
        simp only [Option.map_none, Option.map_map]
        cases findChar b c with
        | none => rfl
        | some q => simp; omega

/-- **position of a character**: the running accumulator gives the byte offset of the first
    occurrence in the concatenation -/
theorem find_spec (c : Char) (acc : Nat) (ts : List Text) :
    chunksFind c acc (ts.map some) = some ((findChar ts.flatten c).map (acc + ·)) := by
  induction ts generalizing acc with
  | nil => simp [chunksFind, findChar]
  | cons t ts ih =>
    simp only [List.map_cons, chunksFind, List.flatten_cons, findChar_append]
    cases findChar t c with
    | some p => simp
    | none =>
      simp only [ih]
      cases findChar ts.flatten c with
      | none => rfl
      | some q => simp; omega

/-- **equality against a string** -/
theorem eqStr_spec (ts : List Text) (rhs : Text) : chunksEqStr (ts.map some) rhs = some (decide (ts.flatten = rhs)) := by
  induction ts generalizing rhs with
  | nil => cases rhs <;> simp [chunksEqStr]
  | cons t ts ih =>
    simp only [List.map_cons, chunksEqStr, List.flatten_cons]
    by_cases hp : t.isPrefixOf rhs = true
    · simp only [hp, ↓reduceIte, ih]
      obtain ⟨rest, rfl⟩ := List.isPrefixOf_iff_prefix.mp hp
      simp
    · simp only [hp, Bool.false_eq_true, ↓reduceIte, Option.some.injEq]
      have : ¬ t ++ ts.flatten = rhs := by
        intro e; apply hp; rw [← e]; exact List.isPrefixOf_iff_prefix.mpr (List.prefix_append _ _)
      simp [this]

/-- the character at a byte offset of a text (`s[off..].chars().next()`): `none` beyond the end
    or off a boundary -/
def charAtB (s : Text) (off : Nat) : Option Char := (dropBytes s off).bind List.head?

theorem dropBytes_lt_append (a b : Text) (off : Nat) (h : off < blen a) :
    dropBytes (a ++ b) off = (dropBytes a off).map (· ++ b) := by
  induction a generalizing off with
  | nil => simp at h
  | cons c cs ih =>
    cases off with
    | zero => simp [dropBytes]
    | succ n =>
      simp only [List.cons_append, dropBytes]
      by_cases hle : c.utf8Size ≤ n + 1
      · simp only [hle, ↓reduceIte]
        by_cases hlt : n + 1 - c.utf8Size < blen cs
        · exact ih _ hlt
        · -- off = size of the first character … exactly at the end of `c :: cs` is excluded by `h`
          simp only [blen_cons] at h; omega
      · simp [hle]

theorem dropBytes_ge_append (a b : Text) (off : Nat) (h : blen a ≤ off) :
    dropBytes (a ++ b) off = dropBytes b (off - blen a) := by
  induction a generalizing off with
  | nil => simp
  | cons c cs ih =>
    have hp := Char.utf8Size_pos c
    simp only [blen_cons] at h
    obtain ⟨n, rfl⟩ : ∃ n, off = n + 1 := ⟨off - 1, by omega⟩
    simp only [List.cons_append, dropBytes]
    have : c.utf8Size ≤ n + 1 := by omega
    simp only [this, ↓reduceIte, blen_cons]
    rw [ih _ (by omega)]
    congr 1; omega

/-- **character at an offset**: walking the chunks with a running start finds the character the
    concatenation has at that byte offset (`none` at or beyond the end) -/
theorem charAt_spec (off start : Nat) (ts : List Text) (h : start ≤ off) :
    chunksCharAt off start (ts.map some) =
      (if off - start < blen ts.flatten then
         (match charAtB ts.flatten (off - start) with | some c => some (some c) | none => none)
       else some none) := by
  induction ts generalizing start with
  | nil => simp [chunksCharAt]
  | cons t ts ih =>
    simp only [List.map_cons, chunksCharAt, List.flatten_cons, blen_append]
    by_cases hin : off < start + blen t
    · have h1 : start ≤ off ∧ off < start + blen t := ⟨h, hin⟩
      have h2 : off - start < blen t + blen ts.flatten := by omega
      simp only [h1, and_self, ↓reduceIte, h2, charAtB]
      rw [dropBytes_lt_append t ts.flatten (off - start) (by omega)]
      cases hd : dropBytes t (off - start) with
      | none => simp
      | some rest =>
        simp only [Option.map_some, Option.bind_some]
        cases rest with
        | nil => 
          -- dropping fewer bytes than the text has leaves something
          exfalso
          have := dropBytes_blen t (off - start) [] hd
          simp at this; omega
        | cons c cs => simp
    · have h1 : ¬ (start ≤ off ∧ off < start + blen t) := by omega
      simp only [h1, ↓reduceIte]
      rw [ih (start + blen t) (by omega)]
      have e : off - (start + blen t) = off - start - blen t := by omega
      by_cases hlt : off - start < blen t + blen ts.flatten
      · have : off - (start + blen t) < blen ts.flatten := by omega
        simp only [this, ↓reduceIte, hlt, charAtB]
        rw [dropBytes_ge_append t ts.flatten (off - start) (by omega), e]
      · have : ¬ off - (start + blen t) < blen ts.flatten := by omega
        simp [this, hlt]
where
  dropBytes_blen (t : Text) (n : Nat) (rest : Text) (h : dropBytes t n = some rest) : blen t = n + blen rest := by
    induction t generalizing n with
    | nil =>
      cases n with
      | zero => simp [dropBytes] at h; subst h; rfl
      | succ m => simp [dropBytes] at h
    | cons c cs ih =>
      cases n with
      | zero => simp [dropBytes] at h; subst h; simp
      | succ m =>
        simp only [dropBytes] at h
        by_cases hle : c.utf8Size ≤ m + 1
        · simp only [hle, ↓reduceIte] at h
          have := ih _ h
          simp only [blen_cons]; omega
        · simp [hle] at h

/-! ### slicing -/

/-- **slicing**: a sub-range inside the view gives the view of exactly that sub-range; anything
    else panics -/
theorem slice_spec (v : Red.View) (a b : Nat) (hv : v.range.1 ≤ v.range.2) :
    viewSlice v (some a) (some b) =
      if a ≤ b ∧ b ≤ v.range.2 - v.range.1 then some { v with range := (v.range.1 + a, v.range.1 + b) } else none := by
  obtain ⟨node, ⟨s, e⟩⟩ := v
  simp only at hv
  simp only [viewSlice, Option.getD_some]
  by_cases hab : a ≤ b
  · simp only [hab, decide_true, Bool.not_true, Bool.false_eq_true, ↓reduceIte, true_and]
    by_cases hb : b ≤ e - s
    · have h1 : s ≤ s + a ∧ s + a + (b - a) ≤ e := by omega
      have h2 : s + a + (b - a) = s + b := by omega
      have h3 : s + b ≤ e := by omega
      simp [h1, hb, h2, h3]
    · have h1 : ¬ (s ≤ s + a ∧ s + a + (b - a) ≤ e) := by omega
      simp [hb]; omega
  · simp [hab]

/-! ### view against view: the two-pointer loop -/

def tot (xs : List Text) : Nat := (xs.map (fun c => c.length + 1)).sum

@[simp] theorem tot_cons (c : Text) (xs : List Text) : tot (c :: xs) = c.length + 1 + tot xs := by simp [tot]
@[simp] theorem tot_nil : tot [] = 0 := rfl

theorem isPrefixOf_split {x y : Text} (h : y.isPrefixOf x = true) : x = y ++ x.drop y.length := by
  obtain ⟨t, rfl⟩ := List.isPrefixOf_iff_prefix.mp h
  simp

/-- specification of `zip_texts`: a reported mismatch means the texts differ; no mismatch together
    with equal byte lengths (the pre-test of `==`) means the texts are equal *and* nothing
    non-empty is left in either iterator (which is what makes the early exit sound) -/
theorem zip_spec (n : Nat) (x : Text) (xs : List Text) (y : Text) (ys : List Text)
    (hfuel : x.length + y.length + tot xs + tot ys < n) :
    ((zipTexts n x xs y ys).1 = true → x ++ xs.flatten ≠ y ++ ys.flatten) ∧
    ((zipTexts n x xs y ys).1 = false → blen (x ++ xs.flatten) = blen (y ++ ys.flatten) →
        x ++ xs.flatten = y ++ ys.flatten ∧ (zipTexts n x xs y ys).2.1.flatten = [] ∧ (zipTexts n x xs y ys).2.2.flatten = []) := by
  induction n generalizing x xs y ys with
  | zero => omega
  | succ n ih =>
    unfold zipTexts
    by_cases hx : x = []
    · subst hx
      simp only [↓reduceIte]
      cases xs with
      | nil =>
        refine ⟨by simp, ?_⟩
        intro _ h
        have h1 : y ++ ys.flatten = [] := blen_eq_zero (by simpa using h.symm)
        have h2 := List.append_eq_nil_iff.mp h1
        simp [h2.1, h2.2]
      | cons c xs' =>
        have := ih c xs' y ys (by simp at hfuel ⊢; omega)
        simpa using this
    · simp only [hx, ↓reduceIte]
      by_cases hy : y = []
      · subst hy
        simp only [↓reduceIte]
        cases ys with
        | nil =>
          refine ⟨by simp, ?_⟩
          intro _ h
          have h1 : x ++ xs.flatten = [] := blen_eq_zero (by simpa using h)
          exact absurd (List.append_eq_nil_iff.mp h1).1 hx
        | cons d ys' =>
          have := ih x xs d ys' (by simp at hfuel ⊢; omega)
          simpa using this
      · simp only [hy, ↓reduceIte]
        have hxl : 0 < x.length := List.length_pos_iff.mpr hx
        have hyl : 0 < y.length := List.length_pos_iff.mpr hy
        by_cases hp : y.isPrefixOf x = true
        · simp only [hp, ↓reduceIte]
          have e := isPrefixOf_split hp
          have := ih (x.drop y.length) xs [] ys (by simp at hfuel ⊢; omega)
          constructor
          · intro hm heq
            apply this.1 hm
            rw [e] at heq
            simpa [List.append_assoc] using heq
          · intro hm hlen
            have hlen' : blen (x.drop y.length ++ xs.flatten) = blen ([] ++ ys.flatten) := by
              rw [e] at hlen; simp only [blen_append, List.nil_append] at hlen ⊢; omega
            obtain ⟨h1, h2, h3⟩ := this.2 hm hlen'
            refine ⟨?_, h2, h3⟩
            rw [e]; simp [List.append_assoc] at h1 ⊢; exact h1
        · simp only [hp, Bool.false_eq_true, ↓reduceIte]
          by_cases hq : x.isPrefixOf y = true
          · simp only [hq, ↓reduceIte]
            have e := isPrefixOf_split hq
            have := ih [] xs (y.drop x.length) ys (by simp at hfuel ⊢; omega)
            constructor
            · intro hm heq
              apply this.1 hm
              rw [e] at heq
              simpa [List.append_assoc] using heq
            · intro hm hlen
              have hlen' : blen ([] ++ xs.flatten) = blen (y.drop x.length ++ ys.flatten) := by
                rw [e] at hlen; simp only [blen_append, List.nil_append] at hlen ⊢; omega
              obtain ⟨h1, h2, h3⟩ := this.2 hm hlen'
              refine ⟨?_, h2, h3⟩
              rw [e]; simp [List.append_assoc] at h1 ⊢; exact h1
          · simp only [hq, Bool.false_eq_true, ↓reduceIte]
            refine ⟨?_, by simp⟩
            intro _ heq
            rcases List.prefix_or_prefix_of_prefix (List.prefix_append x xs.flatten)
                (heq ▸ List.prefix_append y ys.flatten) with h | h
            · exact hq (List.isPrefixOf_iff_prefix.mpr h)
            · exact hp (List.isPrefixOf_iff_prefix.mpr h)

theorem all_empty_iff (xs : List Text) : xs.all (·.isEmpty) = true ↔ xs.flatten = [] := by
  induction xs with
  | nil => simp
  | cons x xs ih => simp [List.all_cons, ih, List.isEmpty_iff]

/-- **equality of two views**: whatever the two chunkings are, `==` holds exactly when the two
    concatenated texts are equal (given that the length pre-test compares their byte lengths) -/
theorem viewsEq_spec (xs ys : List Text) :
    viewsEq (blen xs.flatten) (blen ys.flatten) xs ys = decide (xs.flatten = ys.flatten) := by
  unfold viewsEq
  by_cases hl : blen xs.flatten = blen ys.flatten
  · simp only [hl, bne_self_eq_false, Bool.false_eq_true, ↓reduceIte]
    cases xs with
    | nil =>
      have : ys.flatten = [] := blen_eq_zero (by simpa using hl.symm)
      simp [(all_empty_iff ys).mpr this, this]
    | cons x xs' =>
      cases ys with
      | nil =>
        have h0 : (x :: xs').flatten = [] := blen_eq_zero (by simpa using hl)
        have h0' : x ++ xs'.flatten = [] := h0
        have : xs'.flatten = [] := (List.append_eq_nil_iff.mp h0').2
        simp only [List.tail_cons, (all_empty_iff xs').mpr this, h0, List.flatten_nil, decide_true]
      | cons y ys' =>
        simp only
        have hs := zip_spec (zipFuel (x :: xs') (y :: ys')) x xs' y ys' (by simp [zipFuel, tot]; omega)
        cases hz : zipTexts (zipFuel (x :: xs') (y :: ys')) x xs' y ys' with
        | mk mis rest =>
          obtain ⟨rx, ry⟩ := rest
          rw [hz] at hs
          simp only at hs ⊢
          cases mis with
          | true =>
            have := hs.1 rfl
            simp only [List.flatten_cons]
            simp [this]
          | false =>
            obtain ⟨h1, h2, h3⟩ := hs.2 rfl (by simpa using hl)
            simp only [List.flatten_cons, h1, decide_true]
            simp [(all_empty_iff rx).mpr h2, (all_empty_iff ry).mpr h3]
  · have hne : ¬ xs.flatten = ys.flatten := fun e => hl (by rw [e])
    simp [hl, hne]

/-! ### non-vacuity: the same text split differently, an empty chunk in the middle, multi-byte -/
example : viewsEq 4 4 [['a'], [], ['é', 'b']] [['a', 'é'], ['b']] = true ∧
          viewsEq 4 4 [['a'], ['é', 'b']] [['a', 'é'], ['c']] = false := by decide
example : chunksCharAt 1 0 [some ['a'], some [], some ['é', 'b']] = some (some 'é') ∧
          chunksFind 'b' 0 [some ['a'], some ['é', 'b']] = some (some 3) := by decide

end Cst.C12
