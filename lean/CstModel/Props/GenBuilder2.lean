/-
  Props/GenBuilder2 — the transcribed bodies of `GreenNodeBuilder::token`, `static_token`, `finish_node` and `finish`
  (`green/builder.rs`), evaluated against a *free* semantics of the node cache: a call into the cache answers with an
  uninterpreted term over its arguments (`KEY(cache, text)`, `TOKEN(cache, kind, key, len)`, `NODE(cache, kind, children,
  first)` and the cache afterwards), the vectors are real lists, and what the functions branch on comes from a table of
  observations.  The theorems pin each body to its call structure — which is, line by line, the structure of the model's
  `Builder.token` / `staticToken` / `finishNode` / `finish` — and state what a panic leaves behind: an interner failure
  (and a static-text mismatch in a debug build) unwinds with the builder exactly as it was (C20), `finish` panics unless
  exactly one element is left and it is a node (C01).
-/
import CstModel.Props.GenBuilder
namespace Cst
namespace Gen
open Rs

structure TObs where
  st : Option Text        -- `S::static_text(kind)`
  same : Bool             -- `static_text == text` (asked in debug builds only)
  internOk : Bool         -- the interner accepts the text
  lastPar : Option Val    -- `parents.pop()`
  one : Bool              -- `children.len() == 1`
  lastChild : Option Val  -- `children.pop()`

def KEY (cache text : Val) : Val := .ctor 961 [cache, text]
def CACHE_I (cache text : Val) : Val := .ctor 962 [cache, text]
def TOKEN (cache kind key len : Val) : Val := .ctor 963 [cache, kind, key, len]
def CACHE_T (cache kind key len : Val) : Val := .ctor 964 [cache, kind, key, len]
def NODE (cache kind children first : Val) : Val := .ctor 965 [cache, kind, children, first]
def CACHE_N (cache kind children first : Val) : Val := .ctor 966 [cache, kind, children, first]
/-- the element stack after `NodeCache::node` drained the children from `first` on -/
def DRAINED (children first : Val) : Val := .ctor 967 [children, first]
def OWNED (cache : Val) : Val := .ctor 968 [cache]
/-- a push onto a stack that is not a literal list -/
def PUSHED (stack x : Val) : Val := .ctor 969 [stack, x]

def btSem (dbg : Bool) (o : TObs) : Sem where
  debug := dbg
  app := fun _ _ => none
  call := fun f args =>
    match args with
    | [.nat _] => if f == N.S.static_text then .ok (vOpt (o.st.map fun t => .sym 20 (.text t))) .unit else .unknown
    | [.sym 20 _, .sym 21 _] => if f == N.eq then .ok (.bool o.same) .unit else .unknown
    | [.sym 4 _, .nat 1] => if f == N.eq then .ok (.bool o.one) .unit else .unknown
    | _ => .unknown
  meth := fun m recv args =>
    match recv, args with
    | .sym _ (.text t), [] => if m == N.len then .ok (.nat (blen t)) recv else .unknown
    | .ctor 911 xs, [] => if m == N.pop then .ok (vOpt o.lastPar) (.ctor 911 xs.dropLast) else .unknown
    | .ctor 910 xs, [] =>
      if m == N.len then .ok (.sym 4 (.nat xs.length)) recv
      else if m == N.pop then .ok (vOpt o.lastChild) (.ctor 910 xs.dropLast)
      else .unknown
    | .ctor 910 xs, [x] => if m == N.push then .ok .unit (.ctor 910 (xs ++ [x])) else .unknown
    | .ctor 967 d, [x] => if m == N.push then .ok .unit (PUSHED (.ctor 967 d) x) else .unknown
    | cache, [text] =>
      if m == N.intern then (if o.internOk then .ok (KEY cache text) (CACHE_I cache text) else .panic) else .unknown
    | cache, [kind, key, len] =>
      if m == N.token then .ok (TOKEN cache kind key len) (CACHE_T cache kind key len)
      else if m == N.node then .okM (NODE cache kind key len) (CACHE_N cache kind key len) [kind, DRAINED key len, len]
      else .unknown
    | cache, [] => if m == N.into_owned then .ok (OWNED cache) cache else .unknown
    | _, _ => .unknown

def encB' (cache : Val) (ps cs : List Val) : Val :=
  .strct [(N.field.cache, cache), (N.field.parents, .ctor 911 ps), (N.field.children, .ctor 910 cs)]

/-- `token(kind, text)`: a static-text kind never reaches the interner (and, in a debug build, a foreign text panics before
    anything is touched); otherwise the text is interned *first* — a failure there unwinds with the builder as it was —
    and only then the token is requested from the cache (with the byte length of the text) and pushed -/
theorem b_token_raw (dbg : Bool) (o : TObs) (c : Nat) (ps cs : List Val) (k : Nat) (t : Text) :
    callP (btSem dbg o) 60 Rs.Gen.b_token [encB' (.atom c) ps cs, .nat k, .sym 21 (.text t)] =
      (match o.st with
       | some s =>
         if dbg && !o.same then .panic [some (encB' (.atom c) ps cs)]
         else .val .unit [some (encB' (CACHE_T (.atom c) (.nat k) vNone (.nat (blen s))) ps
                                  (cs ++ [TOKEN (.atom c) (.nat k) vNone (.nat (blen s))]))]
       | none =>
         if !o.internOk then .panic [some (encB' (.atom c) ps cs)]
         else
           let text := Val.sym 21 (.text t)
           let c1 := CACHE_I (.atom c) text
           .val .unit [some (encB' (CACHE_T c1 (.nat k) (vSome (KEY (.atom c) text)) (.nat (blen t))) ps
                              (cs ++ [TOKEN c1 (.nat k) (vSome (KEY (.atom c) text)) (.nat (blen t))]))]) := by
  obtain ⟨st, same, iok, lp, one, lc⟩ := o
  cases st <;> cases dbg <;> cases same <;> cases iok <;> kernel_rfl

/-- `static_token(kind)`: panics (builder untouched) for a kind without static text, else requests the token with the
    static text's byte length and no key, and pushes it; the interner is not involved -/
theorem b_static_token_raw (dbg : Bool) (o : TObs) (c : Nat) (ps cs : List Val) (k : Nat) :
    callP (btSem dbg o) 60 Rs.Gen.b_static_token [encB' (.atom c) ps cs, .nat k] =
      (match o.st with
       | none => .panic [some (encB' (.atom c) ps cs)]
       | some s => .val .unit [some (encB' (CACHE_T (.atom c) (.nat k) vNone (.nat (blen s))) ps
                                       (cs ++ [TOKEN (.atom c) (.nat k) vNone (.nat (blen s))]))]) := by
  obtain ⟨st, same, iok, lp, one, lc⟩ := o
  cases st <;> kernel_rfl

/-- `finish_node()`: pops the innermost open node `(kind, first_child)` — panics when there is none —, hands the whole
    element stack and `first_child` to the node cache (which drains the children from there on), and pushes the node it
    answers onto what is left -/
theorem b_finish_node_raw (dbg : Bool) (o : TObs) (c : Nat) (ps cs : List Val)
    (hl : o.lastPar = none ∨ ∃ kind first, o.lastPar = some (vTuple [kind, first])) :
    callP (btSem dbg o) 60 Rs.Gen.b_finish_node [encB' (.atom c) ps cs] =
      (match o.lastPar with
       | some (.ctor 0 [kind, first]) =>
         .val .unit [some (.strct [(N.field.cache, CACHE_N (.atom c) kind (.ctor 910 cs) first), (N.field.parents, .ctor 911 ps.dropLast),
                                  (N.field.children, PUSHED (DRAINED (.ctor 910 cs) first) (NODE (.atom c) kind (.ctor 910 cs) first))])]
       | _ => .panic [some (encB' (.atom c) ps.dropLast cs)]) := by
  obtain ⟨st, same, iok, lp, one, lc⟩ := o
  rcases hl with h | ⟨kind, first, h⟩
  · simp only at h; subst h; kernel_rfl
  · simp only at h; subst h; kernel_rfl

/-- `finish()`: panics unless exactly one element is left; gives the cache back through `into_owned`; the element must be
    a node -/
theorem b_finish_raw (dbg : Bool) (o : TObs) (c : Nat) (ps cs : List Val) (n : Val) :
    (o.one = false → callP (btSem dbg o) 60 Rs.Gen.b_finish [encB' (.atom c) ps cs] = .panic [some (encB' (.atom c) ps cs)])
    ∧ (o.one = true → o.lastChild = some (.ctor N.NodeOrToken.Node [n]) →
        callP (btSem dbg o) 60 Rs.Gen.b_finish [encB' (.atom c) ps cs] =
          .val (vTuple [n, OWNED (.atom c)]) [some (encB' (.atom c) ps cs.dropLast)])
    ∧ (o.one = true → o.lastChild = some (.ctor N.NodeOrToken.Token [n]) →
        callP (btSem dbg o) 60 Rs.Gen.b_finish [encB' (.atom c) ps cs] = .panic [some (encB' (.atom c) ps cs.dropLast)]) := by
  obtain ⟨st, same, iok, lp, one, lc⟩ := o
  refine ⟨?_, ?_, ?_⟩
  · intro h; simp only at h; subst h; kernel_rfl
  · intro h h2; simp only at h h2; subst h; subst h2; kernel_rfl
  · intro h h2; simp only at h h2; subst h; subst h2; kernel_rfl

end Gen
end Cst
