/-
  Props/GenBuilder3 — the free terms of `GenBuilder2` denote what the model computes: with the observations set to the
  truth about builder `b`, the transcribed `token` / `static_token` panic exactly where `Builder.token` / `staticToken`
  return an error (leaving the builder as it was), and otherwise the cache term they leave denotes the model's new cache
  and the element they push denotes the model's new token.
-/
import CstModel.Props.GenBuilder2
namespace Cst
namespace Gen
open Rs

/-- the cache a term stands for, relative to the cache `c0` the builder started with: `c0` itself, or `c0` after interning `t` -/
def denI (c0 : Cache) : Val → Option Cache
  | .atom _ => some c0
  | .ctor 962 [.atom _, .sym 21 (.text t)] => (c0.interner.intern t).map fun r => { c0 with interner := r.2 }
  | _ => none

/-- the key argument: none, or the key interning `t` gave -/
def denKey (c0 : Cache) : Val → Option (Option Nat)
  | .ctor 2 [] => some none
  | .ctor 1 [.ctor 961 [.atom _, .sym 21 (.text t)]] => (c0.interner.intern t).map fun r => some r.1
  | _ => none

/-- `TOKEN(cache, kind, key, len)` / `CACHE_T(…)`: the model's `Cache.token` on what the arguments stand for -/
def denTokenCall (c0 : Cache) : List Val → Option (Green × Cache)
  | [cv, .nat k, keyv, .nat len] =>
    match denI c0 cv, denKey c0 keyv with
    | some c, some key => some (c.token (k, key, len))
    | _, _ => none
  | _ => none

def denTok (c0 : Cache) : Val → Option Green
  | .ctor 963 args => (denTokenCall c0 args).map (·.1)
  | _ => none

def denCache (c0 : Cache) : Val → Option Cache
  | .ctor 964 args => (denTokenCall c0 args).map (·.2)
  | v => denI c0 v

/-- the truth about builder `b`, kind `k` and text `t`, as `token` / `static_token` ask for it -/
def tobs (cfg : Cfg) (b : Builder) (k : Nat) (t : Text) : TObs where
  st := cfg.staticText k
  same := match cfg.staticText k with | some s => s == t | none => false
  internOk := (b.cache.interner.intern t).isSome
  lastPar := none
  one := false
  lastChild := none

/-- `token(kind, text)` as transcribed from the source against the model's `Builder.token`: an error of the model is a panic
    that leaves the builder untouched; otherwise exactly one element is pushed, it denotes the token the model pushes, and
    the cache left behind denotes the model's cache -/
theorem b_token_model (cfg : Cfg) (b : Builder) (k : Nat) (t : Text) (c : Nat) (ps cs : List Val) :
    (∀ e, b.token cfg k t = .error e →
      callP (btSem cfg.debug (tobs cfg b k t)) 60 Rs.Gen.b_token [encB' (.atom c) ps cs, .nat k, .sym 21 (.text t)]
        = .panic [some (encB' (.atom c) ps cs)])
    ∧ (∀ b', b.token cfg k t = .ok b' →
      ∃ cv tv g,
        callP (btSem cfg.debug (tobs cfg b k t)) 60 Rs.Gen.b_token [encB' (.atom c) ps cs, .nat k, .sym 21 (.text t)]
          = .val .unit [some (encB' cv ps (cs ++ [tv]))]
        ∧ denCache b.cache cv = some b'.cache ∧ denTok b.cache tv = some g
        ∧ b'.children = b.children ++ [g] ∧ b'.parents = b.parents) := by
  rw [b_token_raw]
  rcases Option.eq_none_or_eq_some (cfg.staticText k) with hs | ⟨s, hs⟩
  · -- no static text: the interner decides
    rcases Option.eq_none_or_eq_some (b.cache.interner.intern t) with hi | ⟨⟨key, I⟩, hi⟩
    · constructor
      · intro e _; simp [tobs, hs, hi]
      · intro b' h; simp [Builder.token, hs, hi] at h
    · constructor
      · intro e h; simp [Builder.token, hs, hi] at h
      · intro b' h
        simp only [Builder.token, hs, hi] at h
        injection h with h; subst h
        refine ⟨CACHE_T (CACHE_I (.atom c) (.sym 21 (.text t))) (.nat k) (vSome (KEY (.atom c) (.sym 21 (.text t)))) (.nat (blen t)),
          TOKEN (CACHE_I (.atom c) (.sym 21 (.text t))) (.nat k) (vSome (KEY (.atom c) (.sym 21 (.text t)))) (.nat (blen t)),
          (({ b.cache with interner := I } : Cache).token (k, some key, blen t)).1, ?_, ?_, ?_, rfl, rfl⟩
        · simp [tobs, hs, hi]
        · simp [denCache, CACHE_T, CACHE_I, KEY, denTokenCall, denI, denKey, vSome, N.Some, hi]
        · simp [denTok, TOKEN, CACHE_I, KEY, denTokenCall, denI, denKey, vSome, N.Some, hi]
  · -- a static-text kind: never reaches the interner
    by_cases hd : (cfg.debug && s != t) = true
    · have hd' : (cfg.debug && !(s == t)) = true := by simpa [bne] using hd
      constructor
      · intro e _; simp [tobs, hs, hd']
      · intro b' h; simp [Builder.token, hs, hd] at h
    · have hd' : ¬ (cfg.debug && !(s == t)) = true := by simpa [bne] using hd
      constructor
      · intro e h; simp [Builder.token, hs, hd] at h
      · intro b' h
        simp only [Builder.token, hs, hd, if_false, Bool.false_eq_true] at h
        injection h with h; subst h
        refine ⟨CACHE_T (.atom c) (.nat k) vNone (.nat (blen s)), TOKEN (.atom c) (.nat k) vNone (.nat (blen s)),
          (b.cache.token (k, none, blen s)).1, ?_, ?_, ?_, rfl, rfl⟩
        · simp [tobs, hs, hd']
        · simp [denCache, CACHE_T, denTokenCall, denI, denKey, vNone, N.None]
        · simp [denTok, TOKEN, denTokenCall, denI, denKey, vNone, N.None]

/-- `static_token(kind)` against `Builder.staticToken` -/
theorem b_static_token_model (cfg : Cfg) (b : Builder) (k : Nat) (c : Nat) (ps cs : List Val) :
    (∀ e, b.staticToken cfg k = .error e →
      callP (btSem cfg.debug (tobs cfg b k [])) 60 Rs.Gen.b_static_token [encB' (.atom c) ps cs, .nat k]
        = .panic [some (encB' (.atom c) ps cs)])
    ∧ (∀ b', b.staticToken cfg k = .ok b' →
      ∃ cv tv g,
        callP (btSem cfg.debug (tobs cfg b k [])) 60 Rs.Gen.b_static_token [encB' (.atom c) ps cs, .nat k]
          = .val .unit [some (encB' cv ps (cs ++ [tv]))]
        ∧ denCache b.cache cv = some b'.cache ∧ denTok b.cache tv = some g
        ∧ b'.children = b.children ++ [g] ∧ b'.parents = b.parents) := by
  rw [b_static_token_raw]
  rcases Option.eq_none_or_eq_some (cfg.staticText k) with hs | ⟨s, hs⟩
  · constructor
    · intro e _; simp [tobs, hs]
    · intro b' h; simp [Builder.staticToken, hs] at h
  · constructor
    · intro e h; simp [Builder.staticToken, hs] at h
    · intro b' h
      simp only [Builder.staticToken, hs] at h
      injection h with h; subst h
      refine ⟨CACHE_T (.atom c) (.nat k) vNone (.nat (blen s)), TOKEN (.atom c) (.nat k) vNone (.nat (blen s)),
          (b.cache.token (k, none, blen s)).1, ?_, ?_, ?_, rfl, rfl⟩
      · simp [tobs, hs]
      · simp [denCache, CACHE_T, denTokenCall, denI, denKey, vNone, N.None]
      · simp [denTok, TOKEN, denTokenCall, denI, denKey, vNone, N.None]

end Gen
end Cst
