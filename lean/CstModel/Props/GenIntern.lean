/-
  Props/GenIntern — the provided methods of the `Interner` / `Resolver` traits and the `&mut I` forwarding impl
  (`interning/traits.rs`), as transcribed: `get_or_intern` asks `try_get_or_intern` exactly once with the text it was
  given, hands out the key on `Ok` and panics on `Err` (no retry, no fallback key); `resolve` panics exactly when
  `try_resolve` finds nothing; the forwarding impl calls the method of the same name once (C20: "a failed interning
  surfaces as a panic"; C10: keys are what the back end said).
  The interner is a call counter: `.ctor 990 [.nat n]` has been asked `n` times.
-/
import CstModel.Generated.RsFns
import CstModel.Proofs.KernelRfl
namespace Cst
namespace Gen
open Rs

/-- an interner that has been asked `n` times; `ans` is what the next `try_get_or_intern` / `try_resolve` answers -/
def iSem (ans : Val) : Sem :=
  { Sem.none with meth := fun m recv args =>
      match recv, args with
      | .ctor 990 [.nat n], [x] =>
        if m == N.try_get_or_intern || m == N.try_resolve then .ok (.ctor 991 [ans, x]) (.ctor 990 [.nat (n + 1)])
        else if m == N.get_or_intern then .ok (.ctor 992 [x]) (.ctor 990 [.nat (n + 1)])
        else .unknown
      | _, _ => .unknown }

/-- as above, but the answer is a `Result` / `Option` the provided method inspects -/
def iSemR (ans : Val) : Sem :=
  { Sem.none with meth := fun m recv args =>
      match recv, args with
      | .ctor 990 [.nat n], [_] =>
        if m == N.try_get_or_intern || m == N.try_resolve then .ok ans (.ctor 990 [.nat (n + 1)]) else .unknown
      | _, _ => .unknown }

/-- `Interner::get_or_intern` (provided method): one call of `try_get_or_intern`; `Ok(key)` → `key`; `Err(_)` → panic -/
theorem i_get_or_intern (n : Nat) (text key err : Val) :
    callP (iSemR (.ctor N.Ok [key])) 20 Rs.Gen.i_get_or_intern [.ctor 990 [.nat n], text] = .val key [some (.ctor 990 [.nat (n + 1)])]
    ∧ callP (iSemR (.ctor N.Err [err])) 20 Rs.Gen.i_get_or_intern [.ctor 990 [.nat n], text] = .panic [some (.ctor 990 [.nat (n + 1)])] :=
  ⟨by kernel_rfl, by kernel_rfl⟩

/-- … and the text it asks about is the text it was given -/
theorem i_get_or_intern_arg (n : Nat) (text : Val) :
    callP (iSem (.atom 0)) 20 Rs.Gen.i_fwd_try_get_or_intern [.ctor 990 [.nat n], text] =
      .val (.ctor 991 [.atom 0, text]) [some (.ctor 990 [.nat (n + 1)])] := by
  kernel_rfl

/-- `Resolver::resolve` (provided method): one call of `try_resolve`; `Some(s)` → `s`; `None` → panic -/
theorem i_resolve (n : Nat) (key s : Val) :
    callP (iSemR (vSome s)) 20 Rs.Gen.i_resolve [.ctor 990 [.nat n], key] = .val s [some (.ctor 990 [.nat (n + 1)])]
    ∧ callP (iSemR vNone) 20 Rs.Gen.i_resolve [.ctor 990 [.nat n], key] = .panic [some (.ctor 990 [.nat (n + 1)])] :=
  ⟨by kernel_rfl, by kernel_rfl⟩

/-- `impl Interner for &mut I`: each method is one call of the method of the same name on the interner behind the
    reference, with the same text, and its answer is handed on unchanged -/
theorem i_fwd (n : Nat) (text : Val) :
    callP (iSem (.atom 0)) 20 Rs.Gen.i_fwd_get_or_intern [.ctor 990 [.nat n], text] =
      .val (.ctor 992 [text]) [some (.ctor 990 [.nat (n + 1)])]
    ∧ callP (iSem (.atom 0)) 20 Rs.Gen.i_fwd_try_get_or_intern [.ctor 990 [.nat n], text] =
      .val (.ctor 991 [.atom 0, text]) [some (.ctor 990 [.nat (n + 1)])] :=
  ⟨by kernel_rfl, by kernel_rfl⟩

end Gen
end Cst
