/-
  C19 — Display and debug output are total and faithful.

  Model: `Model/Fmt` (`Red.display`, `Red.debugLine`, `Red.debugRec`), `tokenDebugText` / `abbrevGo`
  (`SyntaxToken::write_debug`), with the abbreviation threshold and probe window extracted from the
  source.  Uses the simulation of the preorder iterator (`Proofs/Walk`).
-/
import CstModel.Proofs.Walk
import CstModel.Model.Fmt
import CstModel.Generated.SourceFacts
namespace Cst.C19

open Red C03

/-! ### the abbreviation never hits `unreachable!()` and never slices inside a character -/

/-- among any four consecutive byte positions inside a text there is a character boundary -/
theorem boundary_window (cs : Text) (n : Nat) (h : n + 3 ≤ blen cs) :
    ∃ i, n ≤ i ∧ i ≤ n + 3 ∧ isBoundary cs i = true := by
  induction cs generalizing n with
  | nil => simp at h
  | cons c cs ih =>
    have hp := Char.utf8Size_pos c
    have h4 := Char.utf8Size_le_four c
    by_cases hn : n = 0
    · subst hn; exact ⟨0, by omega, by omega, by simp [isBoundary]⟩
    · by_cases hle : c.utf8Size ≤ n
      · -- the window lies beyond the first character
        simp only [blen_cons] at h
        obtain ⟨i, h1, h2, h3⟩ := ih (n - c.utf8Size) (by omega)
        refine ⟨i + c.utf8Size, by omega, by omega, ?_⟩
        obtain ⟨m, hm⟩ : ∃ m, i + c.utf8Size = m + 1 := ⟨i + c.utf8Size - 1, by omega⟩
        rw [hm]
        simp only [isBoundary]
        have : c.utf8Size ≤ m + 1 := by omega
        simp only [this, ↓reduceIte]
        have : m + 1 - c.utf8Size = i := by omega
        rw [this]; exact h3
      · -- the first character ends inside the window: its end is a boundary
        refine ⟨c.utf8Size, by omega, by omega, ?_⟩
        obtain ⟨m, hm⟩ : ∃ m, c.utf8Size = m + 1 := ⟨c.utf8Size - 1, by omega⟩
        rw [hm]
        simp only [isBoundary]
        simp [← hm, isBoundary]

theorem takeBytes_of_boundary (cs : Text) (i : Nat) (h : isBoundary cs i = true) (hi : i ≤ blen cs) :
    ∃ pre, takeBytes cs i = some pre ∧ pre <+: cs ∧ blen pre = i := by
  induction cs generalizing i with
  | nil =>
    cases i with
    | zero => exact ⟨[], rfl, List.prefix_refl _, rfl⟩
    | succ n => simp at hi
  | cons c cs ih =>
    cases i with
    | zero => exact ⟨[], by simp [takeBytes], List.nil_prefix, rfl⟩
    | succ n =>
      simp only [isBoundary] at h
      by_cases hle : c.utf8Size ≤ n + 1
      · simp only [hle, ↓reduceIte] at h
        simp only [blen_cons] at hi
        obtain ⟨pre, h1, h2, h3⟩ := ih (n + 1 - c.utf8Size) h (by omega)
        refine ⟨c :: pre, by simp [takeBytes, hle, h1], ?_, by simp [h3]; omega⟩
        obtain ⟨t, ht⟩ := h2
        exact ⟨t, by simp [← ht]⟩
      · simp [hle] at h

/-- the probe loop finds a boundary whenever one exists in its window, and what it returns is a
    prefix of the text (cut at that boundary) followed by `" ..."` -/
theorem abbrevGo_total (t : Text) (lo k : Nat) (hk : lo + k ≤ blen t + 1)
    (hex : ∃ i, lo ≤ i ∧ i < lo + k ∧ isBoundary t i = true) :
    ∃ pre, abbrevGo t lo k = some (pre ++ " ...".toList) ∧ pre <+: t ∧ lo ≤ blen pre ∧ blen pre < lo + k := by
  induction k generalizing lo with
  | zero => obtain ⟨i, h1, h2, _⟩ := hex; omega
  | succ k ih =>
    simp only [abbrevGo]
    by_cases hb : isBoundary t lo = true
    · simp only [hb, ↓reduceIte]
      obtain ⟨pre, h1, h2, h3⟩ := takeBytes_of_boundary t lo hb (by omega)
      exact ⟨pre, by simp [h1], h2, by omega, by omega⟩
    · simp only [hb, Bool.false_eq_true, ↓reduceIte]
      obtain ⟨i, h1, h2, h3⟩ := hex
      have hne : i ≠ lo := by intro e; subst e; exact hb h3
      obtain ⟨pre, p1, p2, p3, p4⟩ := ih (lo + 1) (by omega) ⟨i, by omega, by omega, h3⟩
      exact ⟨pre, p1, p2, by omega, by omega⟩

/-- **token debug output is total**: with a threshold `T ≥ 4` and the window `[T − 4, T)`, the
    abbreviation of any text never reaches `unreachable!()` and never cuts inside a character; short
    texts are shown in full, long ones as a prefix of 21–24 bytes followed by `" ..."` -/
theorem token_debug_total (T : Nat) (hT : 4 ≤ T) (t : Text) :
    (blen t < T → tokenDebugText T (T - 4) T t = some t) ∧
    (T ≤ blen t → ∃ pre, tokenDebugText T (T - 4) T t = some (pre ++ " ...".toList) ∧ pre <+: t ∧
        T - 4 ≤ blen pre ∧ blen pre < T) := by
  constructor
  · intro h; simp [tokenDebugText, h]
  · intro h
    have hnot : ¬ blen t < T := by omega
    simp only [tokenDebugText, hnot, ↓reduceIte]
    obtain ⟨i, h1, h2, h3⟩ := boundary_window t (T - 4) (by omega)
    have hk : T - (T - 4) = 4 := by omega
    rw [hk]
    obtain ⟨pre, p1, p2, p3, p4⟩ := abbrevGo_total t (T - 4) 4 (by omega) ⟨i, h1, by omega, h3⟩
    exact ⟨pre, p1, p2, p3, by omega⟩

/-- **instantiation** with the threshold and window extracted from `SyntaxToken::write_debug` -/
theorem token_debug_total_impl (t : Text) :
    ∃ shown, tokenDebugText SourceFacts.debugAbbrevThreshold SourceFacts.debugWindowLo SourceFacts.debugWindowHi t = some shown := by
  have e1 : SourceFacts.debugWindowLo = SourceFacts.debugAbbrevThreshold - 4 := by decide
  have e2 : SourceFacts.debugWindowHi = SourceFacts.debugAbbrevThreshold := by decide
  have e3 : 4 ≤ SourceFacts.debugAbbrevThreshold := by decide
  rw [e1, e2]
  have := token_debug_total SourceFacts.debugAbbrevThreshold e3 t
  by_cases h : blen t < SourceFacts.debugAbbrevThreshold
  · exact ⟨t, this.1 h⟩
  · obtain ⟨pre, hp, _⟩ := this.2 (by omega)
    exact ⟨_, hp⟩

/-! ### display = text; recursive debug = one line per element, in source order, indented by depth -/

mutual
/-- the token leaves of a sub-tree with their positions, in source order -/
def leaves (p : Path) : Green → List (Path × Green)
  | .tok i k key l => [(p, .tok i k key l)]
  | .node _ _ _ _ cs => leavesL p 0 cs
def leavesL (p : Path) (i : Nat) : List Green → List (Path × Green)
  | [] => []
  | c :: cs => leaves (p ++ [i]) c ++ leavesL p (i + 1) cs
end

mutual
/-- all elements of a sub-tree with their positions and depths, in preorder -/
def elems (p : Path) (d : Nat) : Green → List (Path × Nat × Green)
  | .tok i k key l => [(p, d, .tok i k key l)]
  | .node i k l h cs => (p, d, .node i k l h cs) :: elemsL p 0 (d + 1) cs
def elemsL (p : Path) (i : Nat) (d : Nat) : List Green → List (Path × Nat × Green)
  | [] => []
  | c :: cs => elems (p ++ [i]) d c ++ elemsL p (i + 1) d cs
end

theorem enters_append (a b : List WE) : enters (a ++ b) = enters a ++ enters b := by
  induction a with
  | nil => rfl
  | cons e es ih => cases e <;> simp [enters, ih]

mutual
/-- the `Enter` events of the recursive preorder are exactly the elements of the sub-tree -/
theorem enters_pre (p : Path) (d : Nat) : (t : Green) → enters (pre p t) = (elems p d t).map (·.1)
  | .tok .. => by simp [pre, enters, elems]
  | .node _ _ _ _ cs => by
    simp only [pre, enters, elems, List.map_cons]
    rw [enters_append, enters_preL p 0 (d + 1) cs]
    simp [enters]
theorem enters_preL (p : Path) (i d : Nat) : (cs : List Green) → enters (preL p i cs) = (elemsL p i d cs).map (·.1)
  | [] => rfl
  | c :: cs => by
    simp only [preL, elemsL, List.map_append]
    rw [enters_append, enters_pre (p ++ [i]) d c, enters_preL p (i + 1) d cs]
end

mutual
/-- every listed element is the green element at its position -/
theorem elems_get (g : Green) (p : Path) (d : Nat) : (t : Green) → Green.get g p = some t →
    ∀ x ∈ elems p d t, Green.get g x.1 = some x.2.2
  | .tok i k key l, hg, x, hx => by simp [elems] at hx; subst hx; exact hg
  | .node i k l h cs, hg, x, hx => by
    simp only [elems, List.mem_cons] at hx
    rcases hx with rfl | hx
    · exact hg
    · exact elemsL_get g p 0 (d + 1) (.node i k l h cs) hg cs (by simp [Green.children]) x hx
theorem elemsL_get (g : Green) (p : Path) (i d : Nat) (t : Green) (hg : Green.get g p = some t) :
    (cs : List Green) → t.children.drop i = cs → ∀ x ∈ elemsL p i d cs, Green.get g x.1 = some x.2.2
  | [], _, x, hx => by simp [elemsL] at hx
  | c :: cs, hcs, x, hx => by
    have hc : t.children[i]? = some c := by
      have := congrArg List.head? hcs; simpa [List.head?_drop] using this
    have hdrop : t.children.drop (i + 1) = cs := by
      have := congrArg List.tail hcs; simpa [List.tail_drop] using this
    simp only [elemsL, List.mem_append] at hx
    rcases hx with hx | hx
    · exact elems_get g (p ++ [i]) d c (get_child g p t hg i c hc) x hx
    · exact elemsL_get g p (i + 1) d t hg cs hdrop x hx
end

/-- **the recursive debug form lists every element of the sub-tree once, in source order** (the
    positions entered are exactly `elems`), through the modelled iterator -/
theorem debug_rec_positions (r : Red) (hcl : Closed r) (p : Path) (t : Green) (hm : Mat r p) (ht : r.green p = some t) :
    enters (r.preorderWithTokens p).1 = (elems p 0 t).map (·.1) := by
  rw [(preorderWithTokens_spec r hcl p t hm ht).1, enters_pre p 0 t]

/-- `debugRecGo` abstracted over the line printer -/
def levelGo {α : Type} (f : Path → Nat → Option α) : List WE → Nat → Option (List α)
  | [], level => if level = 0 then some [] else none
  | .enter p :: es, level =>
    match f p level, levelGo f es (level + 1) with
    | some l, some ls => some (l :: ls)
    | _, _ => none
  | .leave _ :: es, level => if level = 0 then none else levelGo f es (level - 1)

def collect {α : Type} (f : Path → Nat → Option α) : List (Path × Nat × Green) → Option (List α)
  | [] => some []
  | (p, d, _) :: xs =>
    match f p d, collect f xs with
    | some l, some ls => some (l :: ls)
    | _, _ => none

theorem collect_append {α : Type} (f : Path → Nat → Option α) (a b : List (Path × Nat × Green)) :
    collect f (a ++ b) = (match collect f a, collect f b with | some x, some y => some (x ++ y) | _, _ => none) := by
  induction a with
  | nil => simp [collect]; cases collect f b <;> simp
  | cons x xs ih =>
    obtain ⟨p, d, g⟩ := x
    simp only [List.cons_append, collect, ih]
    cases f p d <;> cases collect f xs <;> cases collect f b <;> simp

theorem debugRecGo_eq (cfg : Cfg) (I : Interner) (win : Nat × Nat × Nat) (r : Red) (es : List WE) (level : Nat) :
    debugRecGo cfg I win r es level = levelGo (fun p d => debugLine cfg I win r p d) es level := by
  induction es generalizing level with
  | nil => rfl
  | cons e es ih =>
    cases e with
    | enter p =>
      simp only [debugRecGo, levelGo, ih]
      cases debugLine cfg I win r p level <;> cases levelGo (fun p d => debugLine cfg I win r p d) es (level + 1) <;> rfl
    | leave p => simp only [debugRecGo, levelGo, ih]

mutual
/-- the level counter of `write_debug`: over the preorder of a sub-tree entered at level `L`, each
    element is printed at `L + its depth in the sub-tree`, and the level is back at `L` afterwards -/
theorem levels_pre (f : Path → Nat → Option α) (p : Path) (L : Nat) : (t : Green) → (rest : List WE) →
    levelGo f (pre p t ++ rest) L =
      (match collect f (elems p L t), levelGo f rest L with
       | some a, some b => some (a ++ b)
       | _, _ => none)
  | .tok i k key l, rest => by
    simp only [pre, elems, List.cons_append, List.nil_append, levelGo, collect]
    cases f p L <;> simp
    cases levelGo f rest L <;> simp
  | .node i k l h cs, rest => by
    simp only [pre, elems, List.cons_append, levelGo, collect, List.append_assoc]
    rw [levels_preL f p 0 (L + 1) cs]
    simp only [List.cons_append, List.nil_append, levelGo, Nat.add_one_ne_zero, ↓reduceIte, Nat.add_sub_cancel]
    cases f p L <;> cases collect f (elemsL p 0 (L + 1) cs) <;> cases levelGo f rest L <;> simp
theorem levels_preL (f : Path → Nat → Option α) (p : Path) (i L : Nat) : (cs : List Green) → (rest : List WE) →
    levelGo f (preL p i cs ++ rest) L =
      (match collect f (elemsL p i L cs), levelGo f rest L with
       | some a, some b => some (a ++ b)
       | _, _ => none)
  | [], rest => by simp [preL, elemsL, collect]; cases levelGo f rest L <;> simp
  | c :: cs, rest => by
    simp only [preL, elemsL, List.append_assoc]
    rw [levels_pre f (p ++ [i]) L c, levels_preL f p (i + 1) L cs, collect_append]
    cases collect f (elems (p ++ [i]) L c) <;> cases collect f (elemsL p (i + 1) L cs) <;> cases levelGo f rest L <;> simp
end
/-- **recursive debug**: one line per element of the sub-tree, in source order, each at the depth
    of its element (2 spaces per level in the output), and the final `assert_eq!(level, 0)` holds:
    the only way for the recursive form to panic is a panic of a single line (none can: C02 ranges
    exist for materialised elements, `token_debug_total`). -/
theorem debug_lines (cfg : Cfg) (I : Interner) (win : Nat × Nat × Nat) (r : Red) (hcl : Closed r) (p : Path) (t : Green)
    (hm : Mat r p) (ht : r.green p = some t) :
    (Red.debugRec cfg I win r p).1 =
      collect (fun q d => debugLine cfg I win (r.preorderWithTokens p).2 q d) (elems p 0 t) := by
  simp only [Red.debugRec]
  rw [debugRecGo_eq, (preorderWithTokens_spec r hcl p t hm ht).1]
  have := levels_pre (fun q d => debugLine cfg I win (r.preorderWithTokens p).2 q d) p 0 t []
  simp only [List.append_nil] at this
  rw [this]
  simp only [levelGo, ↓reduceIte]
  cases collect (fun q d => debugLine cfg I win (r.preorderWithTokens p).2 q d) (elems p 0 t) <;> simp

/-! ### display = text -/

/-- concatenated texts of a list of token leaves (`none` if some token does not resolve) -/
def leafTexts (cfg : Cfg) (I : Interner) : List (Path × Green) → Option Text
  | [] => some []
  | (_, g) :: xs => appendOpt (tokenText cfg I g) (leafTexts cfg I xs)

theorem leafTexts_append (cfg : Cfg) (I : Interner) (a b : List (Path × Green)) :
    leafTexts cfg I (a ++ b) = appendOpt (leafTexts cfg I a) (leafTexts cfg I b) := by
  induction a with
  | nil => simp [leafTexts]; cases leafTexts cfg I b <;> simp [appendOpt]
  | cons x xs ih =>
    obtain ⟨p, g⟩ := x
    simp only [List.cons_append, leafTexts, ih]
    cases tokenText cfg I g <;> cases leafTexts cfg I xs <;> cases leafTexts cfg I b <;> simp [appendOpt]

mutual
/-- the leaves' texts concatenate to the text of the (well-formed) sub-tree -/
theorem leafTexts_leaves (cfg : Cfg) (I : Interner) (p : Path) : (t : Green) → GWf cfg I t →
    leafTexts cfg I (leaves p t) = (resolveG cfg I t).map Tree.text
  | .tok i k key l, hw => by
    simp only [leaves, leafTexts]
    cases key with
    | none =>
      simp only [GWf] at hw
      obtain ⟨st, hs, _⟩ := hw
      simp [tokenText, resolveG, hs, Tree.text, appendOpt]
    | some key =>
      simp only [GWf] at hw
      obtain ⟨hn, s, hs, _⟩ := hw
      simp [tokenText, resolveG, hn, hs, Tree.text, appendOpt]
  | .node i k l h cs, hw => by
    simp only [GWf] at hw
    simp only [leaves, resolveG, Option.map_map]
    rw [leafTexts_leavesL cfg I p 0 cs hw.2.2]
    cases resolveL cfg I cs <;> simp [Tree.text]
theorem leafTexts_leavesL (cfg : Cfg) (I : Interner) (p : Path) (i : Nat) : (cs : List Green) → GWfL cfg I cs →
    leafTexts cfg I (leavesL p i cs) = (resolveL cfg I cs).map Tree.textL
  | [], _ => by simp [leavesL, leafTexts, resolveL, Tree.textL]
  | c :: cs, hw => by
    simp only [leavesL, leafTexts_append, leafTexts_leaves cfg I (p ++ [i]) c hw.1, leafTexts_leavesL cfg I p (i + 1) cs hw.2, resolveL]
    cases resolveG cfg I c <;> cases resolveL cfg I cs <;> simp [Tree.textL, appendOpt]
end

mutual
/-- filtering the elements of a sub-tree for tokens gives its leaves -/
theorem elems_tokens (p : Path) (d : Nat) : (t : Green) →
    ((elems p d t).filter (fun x => !x.2.2.isNode)).map (fun x => (x.1, x.2.2)) = leaves p t
  | .tok .. => by simp [elems, leaves, Green.isNode]
  | .node _ _ _ _ cs => by
    simp only [elems, leaves, List.filter_cons, Green.isNode, Bool.not_true, Bool.false_eq_true, ↓reduceIte]
    exact elemsL_tokens p 0 (d + 1) cs
theorem elemsL_tokens (p : Path) (i d : Nat) : (cs : List Green) →
    ((elemsL p i d cs).filter (fun x => !x.2.2.isNode)).map (fun x => (x.1, x.2.2)) = leavesL p i cs
  | [] => rfl
  | c :: cs => by
    simp only [elemsL, leavesL, List.filter_append, List.map_append, elems_tokens (p ++ [i]) d c, elemsL_tokens p (i + 1) d cs]
end

/-- **displaying a node produces exactly its text** (and displaying a token its text): the texts of
    the tokens entered by the preorder iterator, concatenated, are the text of the sub-tree -/
theorem display_text (cfg : Cfg) (I : Interner) (r : Red) (hcl : Closed r) (p : Path) (t : Green)
    (hm : Mat r p) (ht : r.green p = some t) (hw : GWf cfg I t) :
    (Red.display cfg I r p).1 = (resolveG cfg I t).map Tree.text := by
  have hleaf := leafTexts_leaves cfg I p t hw
  simp only [Red.display]
  by_cases htok : r.isToken p = true
  · simp only [htok, ↓reduceIte, ht, Option.bind_some]
    cases t with
    | node _ _ _ _ _ => simp [Red.isToken, ht, Green.isNode] at htok
    | tok i k key l =>
      simp only [leaves, leafTexts] at hleaf
      cases htt : tokenText cfg I (.tok i k key l) with
      | none => simp [htt, appendOpt] at hleaf ⊢; exact hleaf
      | some a => simp [htt, appendOpt] at hleaf ⊢; exact hleaf
  · simp only [htok, Bool.false_eq_true, ↓reduceIte, Red.descendantsWithTokens]
    have hspec := preorderWithTokens_spec r hcl p t hm ht
    rw [hspec.1, enters_pre p 0 t]
    -- every listed position resolves to its listed green element in the new state
    have hget : ∀ x ∈ elems p 0 t, (r.preorderWithTokens p).2.green x.1 = some x.2.2 := by
      intro x hx
      unfold Red.green; rw [hspec.2.1]
      exact elems_get r.root p 0 t ht x hx
    rw [← hleaf, ← elems_tokens p 0 t]
    generalize (r.preorderWithTokens p).2 = r' at hget
    generalize elems p 0 t = xs at hget
    -- fold = leafTexts, for any accumulator
    suffices ∀ (acc : Text),
        List.foldl (fun acc q => appendOpt acc ((r'.green q).bind (tokenText cfg I))) (some acc)
          ((xs.map (·.1)).filter r'.isToken) =
        (leafTexts cfg I ((xs.filter (fun x => !x.2.2.isNode)).map (fun x => (x.1, x.2.2)))).map (acc ++ ·) by
      have := this []
      simpa using this
    induction xs with
    | nil => intro acc; simp [leafTexts]
    | cons x xs ih =>
      intro acc
      have hx := hget x (by simp)
      have ih' := ih (fun y hy => hget y (by simp [hy]))
      simp only [List.map_cons, List.filter_cons, Red.isToken, hx]
      cases hn : x.2.2.isNode with
      | true => simpa [hn] using ih' acc
      | false =>
        simp only [Bool.not_false, ↓reduceIte, List.foldl_cons, hx, Option.bind_some, List.map_cons, leafTexts]
        cases htx : tokenText cfg I x.2.2 with
        | none =>
          have e : appendOpt (some acc) (none : Option Text) = none := rfl
          have : ∀ l : List Path, List.foldl (fun acc q => appendOpt acc ((r'.green q).bind (tokenText cfg I))) none l = none := by
            intro l; induction l with
            | nil => rfl
            | cons y ys ihh => simpa [appendOpt] using ihh
          rw [e, this]
          simp [appendOpt]
        | some tx =>
          have e : appendOpt (some acc) (some tx) = some (acc ++ tx) := rfl
          rw [e, ih' (acc ++ tx)]
          cases leafTexts cfg I ((xs.filter (fun x => !x.2.2.isNode)).map (fun x => (x.1, x.2.2))) <;> simp [appendOpt]

/-! ### non-vacuity: a 4-byte character straddling the whole probe window start -/
example : tokenDebugText 25 21 25 ("aaaaaaaaaaaaaaaaaaaa😀😀".toList) = some ("aaaaaaaaaaaaaaaaaaaa😀 ...".toList) := by
  decide +kernel

end Cst.C19
