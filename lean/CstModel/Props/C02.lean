/-
  C02 — Every red element reports its exact source span.

  Model: `Model/Red` — positions are paths, the red tree's state is the set of materialised
  positions with the offset each *stored at creation*; `get_or_add` trusts its caller; offsets are
  computed along the routes as coded (`children_from`, `children_to`, `Iter`, sibling hops, indexed
  look-ups).  `canon` is the specification: root 0, child `i` at parent offset + Σ lengths before it.
  Helper lemmas (one per route and per operation): `Proofs/Red`.
-/
import CstModel.Proofs.TokenNav
namespace Cst.C02

/-- navigation requests; each is addressed to a position (only requests on materialised positions
    have an effect, exactly like the API, where a request needs a handle) -/
inductive NavOp where
  | firstChild (p : Path) | firstChildOrToken (p : Path) | lastChild (p : Path) | lastChildOrToken (p : Path)
  | nextSibling (p : Path) | nextSiblingOrToken (p : Path) | prevSibling (p : Path) | prevSiblingOrToken (p : Path)
  | children (p : Path) | childrenWithTokens (p : Path)
  | siblings (p : Path) (next : Bool) | siblingsWithTokens (p : Path) (next : Bool)
  | preorder (p : Path) | preorderWithTokens (p : Path) | descendants (p : Path) | descendantsWithTokens (p : Path)
  | firstToken (p : Path) | lastToken (p : Path) | nextToken (p : Path) | prevToken (p : Path)
  | tokenAtOffset (p : Path) (off : Nat) | coveringElement (p : Path) (rg : Nat × Nat)

def NavOp.run : NavOp → Red → Red
  | .firstChild p, r => (r.firstChild p).2
  | .firstChildOrToken p, r => (r.firstChildOrToken p).2
  | .lastChild p, r => (r.lastChild p).2
  | .lastChildOrToken p, r => (r.lastChildOrToken p).2
  | .nextSibling p, r => (r.nextSibling p).2
  | .nextSiblingOrToken p, r => (r.nextSiblingOrToken p).2
  | .prevSibling p, r => (r.prevSibling p).2
  | .prevSiblingOrToken p, r => (r.prevSiblingOrToken p).2
  | .children p, r => (r.children p).2
  | .childrenWithTokens p, r => (r.childrenWithTokens p).2
  | .siblings p n, r => (r.siblings p n).2
  | .siblingsWithTokens p n, r => (r.siblingsWithTokens p n).2
  | .preorder p, r => (r.preorder p).2
  | .preorderWithTokens p, r => (r.preorderWithTokens p).2
  | .descendants p, r => (r.descendants p).2
  | .descendantsWithTokens p, r => (r.descendantsWithTokens p).2
  | .firstToken p, r => (r.firstToken p).2
  | .lastToken p, r => (r.lastToken p).2
  | .nextToken p, r => (r.nextToken p).2
  | .prevToken p, r => (r.prevToken p).2
  | .tokenAtOffset p off, r => (r.tokenAtOffset p off).2
  | .coveringElement p rg, r => (r.coveringElement p rg).2

theorem NavOp.run_keeps (op : NavOp) (r : Red) (h : RInv r) : RInv (op.run r) ∧ (op.run r).root = r.root := by
  cases op with
  | firstChild p => exact firstChild_keeps p r h
  | firstChildOrToken p => exact firstChildOrToken_keeps p r h
  | lastChild p => exact lastChild_keeps p r h
  | lastChildOrToken p => exact lastChildOrToken_keeps p r h
  | nextSibling p => exact nextSibling_keeps p r h
  | nextSiblingOrToken p => exact nextSiblingOrToken_keeps p r h
  | prevSibling p => exact prevSibling_keeps p r h
  | prevSiblingOrToken p => exact prevSiblingOrToken_keeps p r h
  | children p => exact children_keeps p r h
  | childrenWithTokens p => exact childrenWithTokens_keeps p r h
  | siblings p n => exact siblings_keeps p n r h
  | siblingsWithTokens p n => exact siblingsWithTokens_keeps p n r h
  | preorder p => exact preorder_keeps p r h
  | preorderWithTokens p => exact preorderWithTokens_keeps p r h
  | descendants p => exact descendants_keeps p r h
  | descendantsWithTokens p => exact descendantsWithTokens_keeps p r h
  | firstToken p => exact firstToken_keeps p r h
  | lastToken p => exact lastToken_keeps p r h
  | nextToken p => exact nextToken_keeps p r h
  | prevToken p => exact prevToken_keeps p r h
  | tokenAtOffset p off => exact tokenAtOffset_keeps p off r h
  | coveringElement p rg => exact coveringElement_keeps p rg r h

/-- **the offset cache is canonical after every history**: whatever sequence of navigation
    requests is made on a fresh red tree — forwards, backwards, by sibling hops, through iterators
    or walks, in any order — every stored offset is the canonical one -/
theorem history_canonical (g : Green) (hg : LenOk g) (ops : List NavOp) :
    RInv (ops.foldl (fun r op => op.run r) (Red.new g)) ∧
      (ops.foldl (fun r op => op.run r) (Red.new g)).root = g := by
  suffices ∀ r, RInv r → RInv (ops.foldl (fun r op => op.run r) r) ∧ (ops.foldl (fun r op => op.run r) r).root = r.root by
    exact this (Red.new g) (RInv.new g hg)
  induction ops with
  | nil => intro r h; exact ⟨h, rfl⟩
  | cons op ops ih =>
    intro r h
    have h1 := op.run_keeps r h
    have h2 := ih (op.run r) h1.1
    exact ⟨h2.1, h2.2.trans h1.2⟩

/-- **every observed range is the exact span**: in any state reached that way, the range an
    element reports starts at its canonical offset and is as long as its green element — the same
    value whichever route or order of traversal first reached the element -/
theorem observed_range (r : Red) (h : RInv r) (p : Path) (s e : Nat) (hr : r.range p = some (s, e)) :
    canon r.root p = some s ∧ ∃ t, Green.get r.root p = some t ∧ e = s + t.len := by
  unfold Red.range at hr
  cases hs : r.start p with
  | none => simp [hs] at hr
  | some o =>
    cases hg : r.green p with
    | none => simp [hs, hg] at hr
    | some t =>
      simp only [hs, hg, Option.some.injEq, Prod.mk.injEq] at hr
      obtain ⟨rfl, rfl⟩ := hr
      exact ⟨h.canon.start hs, t, hg, rfl⟩

/-- the indexed look-ups with the documented argument keep the cache canonical as well -/
theorem indexed_lookups_canonical (r : Red) (h : RInv r) (p : Path) (n off : Nat)
    (hb : ∃ o, canon r.root p = some o) :
    (DocArg r p (n + 1) off → RInv (r.nextChildAfter p n off).2 ∧ RInv (r.nextChildOrTokenAfter p n off).2) ∧
    (DocArg r p n off → (∀ g, r.green p = some g → n ≤ g.children.length) →
      RInv (r.prevChildBefore p n off).2 ∧ RInv (r.prevChildOrTokenBefore p n off).2) :=
  ⟨fun hd => ⟨(nextChildAfter_keeps h p n off hd hb).1, (nextChildOrTokenAfter_keeps h p n off hd hb).1⟩,
   fun hd hn => ⟨(prevChildBefore_keeps h p n off hd hb hn).1, (prevChildOrTokenBefore_keeps h p n off hd hb hn).1⟩⟩

/-- `children_to` never underflows on its way back: every offset it yields is the canonical one,
    which is a sum of lengths (no subtraction below zero happens on the canonical argument) -/
theorem childrenTo_canonical (cs : List Green) (base endIdx : Nat) (hle : endIdx ≤ cs.length) :
    ∀ e ∈ childrenTo cs endIdx (base + offsetIn cs endIdx), cs[e.2.1]? = some e.1 ∧ e.2.2 = base + offsetIn cs e.2.1 :=
  childrenTo_ok cs base endIdx _ hle rfl

/-! ### tiling -/

/-- **the children of a node tile its range in order without gap or overlap** -/
theorem tiling (g : Green) (hg : LenOk g) (p : Path) (t : Green) (o : Nat)
    (ht : Green.get g p = some t) (hn : t.isNode = true) (ho : canon g p = some o) :
    (∀ c, t.children[0]? = some c → canon g (p ++ [0]) = some o) ∧
    (∀ i c d, t.children[i]? = some c → t.children[i + 1]? = some d →
      ∃ s, canon g (p ++ [i]) = some s ∧ canon g (p ++ [i + 1]) = some (s + c.len)) ∧
    (∀ i c, t.children[i]? = some c → i + 1 = t.children.length →
      ∃ s, canon g (p ++ [i]) = some s ∧ s + c.len = o + t.len) := by
  refine ⟨?_, ?_, ?_⟩
  · intro c hc
    rw [canon_append_single g p 0 t c o ht hc ho, offsetIn_zero]; rfl
  · intro i c d hc hd
    refine ⟨o + offsetIn t.children i, canon_append_single g p i t c o ht hc ho, ?_⟩
    rw [canon_append_single g p (i + 1) t d o ht hd ho, offsetIn_succ _ _ _ hc]
    congr 1; omega
  · intro i c hc hlast
    refine ⟨o + offsetIn t.children i, canon_append_single g p i t c o ht hc ho, ?_⟩
    have h1 := offsetIn_succ _ _ _ hc
    have h2 : offsetIn t.children (i + 1) = sumLen t.children := offsetIn_length _ _ (by omega)
    have h3 := LenOk_len (LenOk_get hg ht) hn
    omega

/-! ### the text of an element is the slice of the whole text at its range -/

theorem dropBytes_append (a b : Text) : dropBytes (a ++ b) (blen a) = some b := by
  induction a with
  | nil => cases b <;> simp [dropBytes]
  | cons c a ih =>
    have hp := Char.utf8Size_pos c
    simp only [List.cons_append, blen_cons]
    obtain ⟨n, hn⟩ : ∃ n, c.utf8Size + blen a = n + 1 := ⟨c.utf8Size + blen a - 1, by omega⟩
    rw [hn]
    simp only [dropBytes]
    have : c.utf8Size ≤ n + 1 := by omega
    simp only [this, ↓reduceIte]
    have : n + 1 - c.utf8Size = blen a := by omega
    rw [this]; exact ih

theorem takeBytes_append (a b : Text) : takeBytes (a ++ b) (blen a) = some a := by
  induction a with
  | nil => cases b <;> simp [takeBytes]
  | cons c a ih =>
    have hp := Char.utf8Size_pos c
    simp only [List.cons_append, blen_cons]
    obtain ⟨n, hn⟩ : ∃ n, c.utf8Size + blen a = n + 1 := ⟨c.utf8Size + blen a - 1, by omega⟩
    rw [hn]
    simp only [takeBytes]
    have : c.utf8Size ≤ n + 1 := by omega
    simp only [this, ↓reduceIte]
    have : n + 1 - c.utf8Size = blen a := by omega
    rw [this, ih]; rfl

theorem slice_middle (pre mid post : Text) :
    sliceBytes (pre ++ mid ++ post) (blen pre) (blen pre + blen mid) = some mid := by
  unfold sliceBytes
  simp only [Nat.le_add_right, ↓reduceIte, List.append_assoc, dropBytes_append]
  simp [takeBytes_append]

theorem textL_append (a b : List Tree) : Tree.textL (a ++ b) = Tree.textL a ++ Tree.textL b := by
  induction a with
  | nil => simp [Tree.textL]
  | cons x xs ih => simp [Tree.textL, ih]

/-- resolving a list of children splits at any index -/
theorem resolveL_split {cfg : Cfg} {I : Interner} (cs : List Green) (ts : List Tree) (i : Nat) (c : Green)
    (hr : resolveL cfg I cs = some ts) (hc : cs[i]? = some c) :
    ∃ pre t post, ts = pre ++ t :: post ∧ resolveL cfg I (cs.take i) = some pre ∧ resolveG cfg I c = some t := by
  induction cs generalizing ts i with
  | nil => simp at hc
  | cons x xs ih =>
    unfold resolveL at hr
    cases hx : resolveG cfg I x with
    | none => simp [hx] at hr
    | some tx =>
      cases hxs : resolveL cfg I xs with
      | none => simp [hx, hxs] at hr
      | some txs =>
        simp only [hx, hxs, Option.some.injEq] at hr
        subst hr
        cases i with
        | zero =>
          simp at hc; subst hc
          exact ⟨[], tx, txs, rfl, by simp [resolveL], hx⟩
        | succ n =>
          simp at hc
          obtain ⟨pre, t, post, h1, h2, h3⟩ := ih txs n hxs hc
          exact ⟨tx :: pre, t, post, by simp [h1], by simp [resolveL, hx, h2], h3⟩

theorem GWfL_take {cfg : Cfg} {I : Interner} {cs : List Green} (h : GWfL cfg I cs) (i : Nat) : GWfL cfg I (cs.take i) := by
  rw [GWfL_iff] at h ⊢
  exact fun g hg => h g (List.mem_of_mem_take hg)

/-- **resolving the text of any element yields exactly the slice of the whole text at its range**:
    the whole text is `pre ++ text(element) ++ post` with `|pre|` = the element's canonical offset -/
theorem text_decomposition {cfg : Cfg} {I : Interner} :
    (p : Path) → (g : Green) → GWf cfg I g → (t : Green) → Green.get g p = some t → (o : Nat) → canon g p = some o →
    ∃ tg tt pre post, resolveG cfg I g = some tg ∧ resolveG cfg I t = some tt ∧
      tg.text = pre ++ tt.text ++ post ∧ blen pre = o
  | [], g, hg, t, ht, o, ho => by
    simp only [Green.get, Option.some.injEq] at ht; subst ht
    simp only [canon, Option.some.injEq] at ho; subst ho
    obtain ⟨tg, hr, _⟩ := resolve_of_GWf g hg
    exact ⟨tg, tg, [], [], hr, hr, by simp, rfl⟩
  | i :: p, g, hg, t, ht, o, ho => by
    simp only [Green.get] at ht
    simp only [canon] at ho
    cases hc : g.children[i]? with
    | none => simp [hc] at ht
    | some c =>
      simp only [hc] at ht ho
      cases hcp : canon c p with
      | none => simp [hcp] at ho
      | some o' =>
        simp only [hcp, Option.map_some, Option.some.injEq] at ho
        cases g with
        | tok _ _ _ _ => simp [Green.children] at hc
        | node id k l hh cs =>
          simp only [Green.children] at hc ho
          simp only [GWf] at hg
          obtain ⟨ts, hts, _⟩ := resolveL_of_GWfL cs hg.2.2
          obtain ⟨pre, tc, post, h1, h2, h3⟩ := resolveL_split cs ts i c hts hc
          have hwc : GWf cfg I c := (GWfL_iff.mp hg.2.2) c (List.mem_of_getElem? hc)
          obtain ⟨tg', tt, pre', post', r1, r2, r3, r4⟩ := text_decomposition p c hwc t ht o' hcp
          rw [h3] at r1; cases r1
          obtain ⟨pre2, hp2, hl2⟩ := resolveL_of_GWfL (cs.take i) (GWfL_take hg.2.2 i)
          rw [h2] at hp2; cases hp2
          refine ⟨.node k ts, tt, Tree.textL pre ++ pre', post' ++ Tree.textL post, by simp [resolveG, hts], r2, ?_, ?_⟩
          · simp only [Tree.text, h1, textL_append, Tree.textL, r3, List.append_assoc]
          · rw [blen_append, r4, ← hl2, ← ho]; simp [offsetIn]; omega

/-- the statement in terms of byte slicing: `&whole_text[range]` does not panic and is the
    element's text; the length of the range is the byte length of that text -/
theorem resolve_text_slice (cfg : Cfg) (I : Interner) (r : Red) (h : RInv r) (hw : GWf cfg I r.root)
    (p : Path) (s e : Nat) (hr : r.range p = some (s, e)) :
    ∃ tg t tt, resolveG cfg I r.root = some tg ∧ Green.get r.root p = some t ∧ resolveG cfg I t = some tt ∧
      sliceBytes tg.text s e = some tt.text ∧ e - s = blen tt.text := by
  obtain ⟨hc, t, ht, he⟩ := observed_range r h p s e hr
  obtain ⟨tg, tt, pre, post, r1, r2, r3, r4⟩ := text_decomposition p r.root hw t ht s hc
  have hwt : GWf cfg I t := GWf_get hw ht
  obtain ⟨tt', r2', hl⟩ := resolve_of_GWf t hwt
  rw [r2] at r2'; cases r2'
  refine ⟨tg, t, tt, r1, ht, r2, ?_, by omega⟩
  rw [r3, he, hl, ← r4]
  exact slice_middle pre tt.text post
where
  GWf_get {cfg : Cfg} {I : Interner} {g : Green} (hw : GWf cfg I g) {p : Path} {t : Green}
      (ht : Green.get g p = some t) : GWf cfg I t := by
    induction p generalizing g with
    | nil => simp [Green.get] at ht; subst ht; exact hw
    | cons i p ih =>
      simp only [Green.get] at ht
      cases hc : g.children[i]? with
      | none => simp [hc] at ht
      | some c =>
        simp only [hc] at ht
        cases g with
        | tok _ _ _ _ => simp [Green.children] at hc
        | node _ _ _ _ cs =>
          simp only [GWf] at hw
          exact ih ((GWfL_iff.mp hw.2.2) c (List.mem_of_getElem? hc)) ht

/-! ### non-vacuity: a tree with an empty node, a zero-length and a multi-byte token, visited
    backwards first and forwards afterwards -/
example :
    let g : Green := .node 0 0 3 0 [.tok 1 10 (some 0) 0, .node 2 1 0 0 [], .tok 3 11 (some 1) 2, .tok 4 12 none 1]
    let r := [NavOp.lastChildOrToken [], .prevSiblingOrToken [3], .prevSiblingOrToken [2], .childrenWithTokens []].foldl
      (fun r op => op.run r) (Red.new g)
    (r.range [0], r.range [1], r.range [2], r.range [3]) = (some (0, 0), some (0, 0), some (0, 2), some (2, 3)) := by
  decide +kernel

end Cst.C02
