import CstModel.Proofs.Red
import CstModel.Model.Fmt
namespace Cst.C13
theorem placeholder : True := trivial
end Cst.C13
