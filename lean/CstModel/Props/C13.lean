/-
  C13 — Offset and range queries find the right element.

  Model: `Red.tokenAtOffset`, `Red.coveringElement` (`Model/Query`).
-/
import CstModel.Proofs.Walk
import CstModel.Proofs.ChunksTree
import CstModel.Proofs.Util
namespace Cst.C13

open Red

/-! ### stored ranges never change -/

theorem start_getOrAdd {r : Red} {q : Path} {o : Nat} (h : r.start q = some o) (p : Path) (i off : Nat) :
    (r.getOrAdd p i off).start q = some o := by
  unfold Red.getOrAdd
  cases hl : r.slots.lookup (p ++ [i]) with
  | some _ => exact h
  | none =>
    simp only
    unfold Red.start at h ⊢
    by_cases hq : q = []
    · simp [hq] at h ⊢; exact h
    · simp only [hq, ↓reduceIte] at h ⊢
      by_cases he : q = p ++ [i]
      · subst he; rw [hl] at h; cases h
      · rw [lookup_cons_ne (by simpa using he)]; exact h

theorem range_getOrAdd {r : Red} {q : Path} {se : Nat × Nat} (h : r.range q = some se) (p : Path) (i off : Nat) :
    (r.getOrAdd p i off).range q = some se := by
  unfold Red.range at h ⊢
  cases hs : r.start q with
  | none => simp [hs] at h
  | some o =>
    rw [start_getOrAdd hs]
    have : (r.getOrAdd p i off).green q = r.green q := by unfold Red.green; rw [getOrAdd_root]
    rw [this]
    simpa [hs] using h

/-- one step of the child iterator keeps every stored range -/
theorem range_nextElem {r : Red} {q : Path} {se : Nat × Nat} (h : r.range q = some se) (it : It) :
    (it.nextElem r).2.2.range q = some se := by
  unfold It.nextElem
  cases it.rest with
  | nil => exact h
  | cons c rest => exact range_getOrAdd h _ _ _

theorem range_findCovering {r : Red} {q : Path} {se : Nat × Nat} (h : r.range q = some se) (rg : Nat × Nat)
    (k : Nat) (it : It) : (findCovering rg it r k).2.range q = some se := by
  induction k generalizing it r with
  | zero => exact h
  | succ k ih =>
    simp only [findCovering]
    have h1 := range_nextElem h it
    cases hres : it.nextElem r with
    | mk o rest =>
      obtain ⟨it', r'⟩ := rest
      rw [hres] at h1
      cases o with
      | none => exact h1
      | some c =>
        simp only
        cases hr : r'.range c with
        | none => exact h1
        | some cr =>
          simp only
          split
          · exact h1
          · exact ih h1 it'

/-- what `find` returns satisfies the predicate: the child's (stored) range contains the range -/
theorem findCovering_contains (rg : Nat × Nat) (k : Nat) (it : It) (r : Red) (c : Path)
    (h : (findCovering rg it r k).1 = some c) :
    ∃ cr, (findCovering rg it r k).2.range c = some cr ∧ containsRange cr rg = true := by
  induction k generalizing it r with
  | zero => simp [findCovering] at h
  | succ k ih =>
    simp only [findCovering] at h ⊢
    cases hres : it.nextElem r with
    | mk o rest =>
      obtain ⟨it', r'⟩ := rest
      rw [hres] at h
      try simp only at h ⊢
      cases o with
      | none => simp at h
      | some c' =>
        simp only at h ⊢
        cases hr : r'.range c' with
        | none => simp [hr] at h
        | some cr =>
          simp only [hr] at h ⊢
          by_cases hc : containsRange cr rg = true
          · simp only [hc, ↓reduceIte, Option.some.injEq] at h ⊢
            subst h
            exact ⟨cr, hr, hc⟩
          · simp only [hc, Bool.false_eq_true, ↓reduceIte] at h ⊢
            exact ih it' r' h

/-- **`covering_element` returns an element whose range contains the given range** -/
theorem cover_contains (n : Nat) (r : Red) (p : Path) (rg : Nat × Nat) (q : Path)
    (h : (coveringGo n r p rg).1 = some q) :
    ∃ qr, (coveringGo n r p rg).2.range q = some qr ∧ containsRange qr rg = true := by
  induction n generalizing r p with
  | zero => simp [coveringGo] at h
  | succ n ih =>
    simp only [coveringGo] at h ⊢
    cases hr : r.range p with
    | none => simp [hr] at h
    | some pr =>
      simp only [hr] at h ⊢
      by_cases hc : containsRange pr rg = true
      · simp only [hc, Bool.not_true, Bool.false_eq_true, ↓reduceIte] at h ⊢
        by_cases ht : r.isToken p = true
        · simp only [ht, ↓reduceIte, Option.some.injEq] at h ⊢
          subst h; exact ⟨pr, hr, hc⟩
        · simp only [ht, Bool.false_eq_true, ↓reduceIte] at h ⊢
          cases hi : iterNew r p with
          | none => simp [hi] at h
          | some it =>
            simp only [hi] at h ⊢
            cases hf : findCovering rg it r (it.rest.length + 1) with
            | mk o r' =>
              rw [hf] at h
              try simp only at h ⊢
              cases o with
              | some c => exact ih r' c h
              | none =>
                simp only [Option.some.injEq] at h
                subst h
                have := range_findCovering hr rg (it.rest.length + 1) it
                rw [hf] at this
                exact ⟨pr, this, hc⟩
      · simp [hc] at h

/-- **`covering_element` does not panic inside its precondition**: when the starting node's range
    contains the given range (and the walk has enough fuel — the depth of the sub-tree), every
    assertion on the way down holds, because each child it steps into was selected by that very test -/
theorem cover_total (n : Nat) (r : Red) (p : Path) (rg : Nat × Nat) (pr : Nat × Nat) (t : Green)
    (hr : r.range p = some pr) (hc : containsRange pr rg = true) (ht : r.green p = some t) (hfuel : gsize t ≤ n) :
    ∃ q, (coveringGo n r p rg).1 = some q := by
  induction n generalizing r p pr t with
  | zero => cases t <;> simp [gsize] at hfuel
  | succ n ih =>
    simp only [coveringGo, hr, hc, Bool.not_true, Bool.false_eq_true, ↓reduceIte]
    by_cases htok : r.isToken p = true
    · simp [htok]
    · simp only [htok, Bool.false_eq_true, ↓reduceIte]
      have hm : ∃ o, r.start p = some o := mat_of_range hr
      obtain ⟨o, ho⟩ := hm
      simp only [iterNew, ht, ho]
      cases hf : findCovering rg ⟨p, t.children, 0, o⟩ r (t.children.length + 1) with
      | mk res r' =>
        try simp only
        cases res with
        | none => exact ⟨p, rfl⟩
        | some c =>
          have hcont := findCovering_contains rg _ _ r c (by rw [hf])
          rw [hf] at hcont
          obtain ⟨cr, hcr, hcc⟩ := hcont
          -- the child found is a child of `p`, hence strictly smaller
          obtain ⟨j, tc, hj, htc, hsz⟩ := found_is_child rg (t.children.length + 1) ⟨p, t.children, 0, o⟩ r c t
            (by simp) ht (by rw [hf])
          rw [hf] at htc
          exact ih r' c cr tc hcr hcc htc (by
            have : gsize tc < gsize t := hsz
            omega)
where
  /-- whatever the child iterator hands out is a child of the node it iterates over -/
  found_is_child (rg : Nat × Nat) (k : Nat) (it : It) (r : Red) (c : Path) (t : Green)
      (hrest : ∃ d, it.rest = t.children.drop d ∧ it.index = d) (ht : r.green it.parent = some t)
      (h : (findCovering rg it r k).1 = some c) :
      ∃ j tc, c = it.parent ++ [j] ∧ (findCovering rg it r k).2.green c = some tc ∧ gsize tc < gsize t := by
    induction k generalizing it r with
    | zero => simp [findCovering] at h
    | succ k ih =>
      obtain ⟨d, hd, hi⟩ := hrest
      simp only [findCovering, It.nextElem] at h ⊢
      cases hr : it.rest with
      | nil => simp [hr] at h
      | cons x rest =>
        simp only [hr] at h ⊢
        have hx : t.children[it.index]? = some x := by
          have := congrArg List.head? hd; rw [hr] at this; simp [List.head?_drop] at this; rw [hi]; exact this.symm
        have hroot : (r.getOrAdd it.parent it.index it.offset).root = r.root := getOrAdd_root _ _ _ _
        have hgc : (r.getOrAdd it.parent it.index it.offset).green (it.parent ++ [it.index]) = some x := by
          unfold Red.green at ht ⊢; rw [hroot]
          exact C03.get_child r.root it.parent t ht it.index x hx
        cases hrg : (r.getOrAdd it.parent it.index it.offset).range (it.parent ++ [it.index]) with
        | none => simp [hrg] at h
        | some cr =>
          simp only [hrg] at h ⊢
          by_cases hc : containsRange cr rg = true
          · simp only [hc, ↓reduceIte, Option.some.injEq] at h ⊢
            subst h
            exact ⟨it.index, x, rfl, hgc, child_smaller t x (List.mem_of_getElem? hx)⟩
          · simp only [hc, Bool.false_eq_true, ↓reduceIte] at h ⊢
            have := ih { it with rest := rest, index := it.index + 1, offset := it.offset + x.len }
              (r.getOrAdd it.parent it.index it.offset)
              ⟨d + 1, by
                have := congrArg List.tail hd; rw [hr] at this; simpa [List.tail_drop] using this, by simp [hi]⟩
              (by unfold Red.green at ht ⊢; rw [hroot]; exact ht) h
            exact this
  child_smaller (t x : Green) (h : x ∈ t.children) : gsize x < gsize t := by
    cases t with
    | tok _ _ _ _ => simp [Green.children] at h
    | node _ _ _ _ cs =>
      simp only [Green.children] at h
      simp only [gsize]
      have : gsize x ≤ gsizeL cs := by
        induction cs with
        | nil => simp at h
        | cons y ys ih =>
          simp only [List.mem_cons] at h
          simp only [gsizeL]
          rcases h with rfl | h
          · omega
          · have := ih h; omega
      omega

/-! ### `covering_element` returns the *deepest* covering element -/

theorem start_after_getOrAdd (r : Red) (p : Path) (i off : Nat) :
    ∃ o, (r.getOrAdd p i off).start (p ++ [i]) = some o := by
  unfold Red.getOrAdd
  have hne : p ++ [i] ≠ [] := by simp
  cases hl : r.slots.lookup (p ++ [i]) with
  | some o => exact ⟨o, by simp [Red.start, hne, hl]⟩
  | none => exact ⟨off, by simp [Red.start, hne, List.lookup]⟩

theorem findCovering_root (rg : Nat × Nat) (k : Nat) (it : It) (r : Red) : (findCovering rg it r k).2.root = r.root := by
  induction k generalizing it r with
  | zero => rfl
  | succ k ih =>
    simp only [findCovering, It.nextElem]
    cases hr : it.rest with
    | nil => rfl
    | cons x rest =>
      simp only
      cases hrg : (r.getOrAdd it.parent it.index it.offset).range (it.parent ++ [it.index]) with
      | none => exact getOrAdd_root _ _ _ _
      | some cr =>
        simp only
        split
        · exact getOrAdd_root _ _ _ _
        · rw [ih]; exact getOrAdd_root _ _ _ _

/-- when `find` runs off the end, it has looked at every remaining child and none of them covers the range -/
theorem findCovering_none (rg : Nat × Nat) (k : Nat) (it : It) (r : Red) (t : Green)
    (hk : it.rest.length < k) (hrest : ∃ d, it.rest = t.children.drop d ∧ it.index = d)
    (ht : r.green it.parent = some t) (h : (findCovering rg it r k).1 = none) :
    ∀ j, it.index ≤ j → j < t.children.length →
      ∃ cr, (findCovering rg it r k).2.range (it.parent ++ [j]) = some cr ∧ containsRange cr rg = false := by
  induction k generalizing it r with
  | zero => omega
  | succ k ih =>
    obtain ⟨d, hd, hi⟩ := hrest
    intro j hj1 hj2
    simp only [findCovering, It.nextElem] at h ⊢
    cases hr : it.rest with
    | nil =>
      -- no children left: there is no such `j`
      rw [hr] at hd
      have : t.children.length ≤ d := by
        have := congrArg List.length hd
        simp at this; omega
      omega
    | cons x rest =>
      simp only [hr] at h ⊢
      have hx : t.children[it.index]? = some x := by
        have := congrArg List.head? hd; rw [hr] at this; simp [List.head?_drop] at this; rw [hi]; exact this.symm
      have hroot : (r.getOrAdd it.parent it.index it.offset).root = r.root := getOrAdd_root _ _ _ _
      have hgc : (r.getOrAdd it.parent it.index it.offset).green (it.parent ++ [it.index]) = some x := by
        unfold Red.green at ht ⊢; rw [hroot]
        exact C03.get_child r.root it.parent t ht it.index x hx
      obtain ⟨o, ho⟩ := start_after_getOrAdd r it.parent it.index it.offset
      have hrg : (r.getOrAdd it.parent it.index it.offset).range (it.parent ++ [it.index]) = some (o, o + x.len) := by
        simp [Red.range, ho, hgc]
      simp only [hrg] at h ⊢
      by_cases hc : containsRange (o, o + x.len) rg = true
      · simp [hc] at h
      · simp only [hc, Bool.false_eq_true, ↓reduceIte] at h ⊢
        by_cases hji : j = it.index
        · subst hji
          refine ⟨(o, o + x.len), ?_, by simpa using hc⟩
          exact range_findCovering hrg rg k _
        · have hlen : rest.length < k := by rw [hr] at hk; simp at hk; omega
          have := ih { it with rest := rest, index := it.index + 1, offset := it.offset + x.len }
            (r.getOrAdd it.parent it.index it.offset) hlen
            ⟨d + 1, by
              have := congrArg List.tail hd; rw [hr] at this; simpa [List.tail_drop] using this, by simp [hi]⟩
            (by unfold Red.green at ht ⊢; rw [hroot]; exact ht) h j (by simp; omega) hj2
          exact this

/-- **`covering_element` returns the deepest element containing the range**: the result is a token, or
    a node none of whose children (all of them examined, with the ranges they report) contains the range -/
theorem cover_deepest (n : Nat) (r : Red) (p : Path) (rg : Nat × Nat) (q : Path)
    (h : (coveringGo n r p rg).1 = some q) :
    (coveringGo n r p rg).2.isToken q = true ∨
    ∃ t, (coveringGo n r p rg).2.green q = some t ∧
      ∀ j, j < t.children.length →
        ∃ cr, (coveringGo n r p rg).2.range (q ++ [j]) = some cr ∧ containsRange cr rg = false := by
  induction n generalizing r p with
  | zero => simp [coveringGo] at h
  | succ n ih =>
    simp only [coveringGo] at h ⊢
    cases hr : r.range p with
    | none => simp [hr] at h
    | some pr =>
      simp only [hr] at h ⊢
      by_cases hc : containsRange pr rg = true
      · simp only [hc, Bool.not_true, Bool.false_eq_true, ↓reduceIte] at h ⊢
        by_cases htk : r.isToken p = true
        · simp only [htk, ↓reduceIte, Option.some.injEq] at h ⊢
          subst h; exact Or.inl htk
        · simp only [htk, Bool.false_eq_true, ↓reduceIte] at h ⊢
          cases hi : iterNew r p with
          | none => simp [hi] at h
          | some it =>
            simp only [hi] at h ⊢
            cases hf : findCovering rg it r (it.rest.length + 1) with
            | mk o r' =>
              rw [hf] at h
              try simp only at h ⊢
              cases o with
              | some c => exact ih r' c h
              | none =>
                simp only [Option.some.injEq] at h
                subst h
                -- the iterator started at child 0 of the node at `p`
                unfold iterNew at hi
                cases hg : r.green p with
                | none => simp [hg] at hi
                | some t =>
                  cases hs : r.start p with
                  | none => simp [hg, hs] at hi
                  | some o0 =>
                    simp only [hg, hs, Option.some.injEq] at hi
                    subst hi
                    refine Or.inr ⟨t, ?_, ?_⟩
                    · have := findCovering_root rg (t.children.length + 1) ⟨p, t.children, 0, o0⟩ r
                      rw [hf] at this
                      unfold Red.green at hg ⊢
                      rw [this]; exact hg
                    · intro j hj
                      have := findCovering_none rg (t.children.length + 1) ⟨p, t.children, 0, o0⟩ r t (by simp)
                        ⟨0, by simp, rfl⟩ hg (by rw [hf]) j (Nat.zero_le _) hj
                      rw [hf] at this
                      exact this
      · simp [hc] at h

/-! ### `token_at_offset`: the children that can contain the offset -/

/-- the non-empty children whose (tiling) range contains `off`, with index and start offset -/
def hitsG (off : Nat) : Nat → Nat → List Green → List (Nat × Nat × Green)
  | _, _, [] => []
  | b, i, c :: cs =>
    (if c.len != 0 && decide (b ≤ off) && decide (off ≤ b + c.len) then [(i, b, c)] else []) ++ hitsG off (b + c.len) (i + 1) cs

def Hit (off : Nat) (x : Nat × Nat × Green) : Prop := x.2.2.len ≠ 0 ∧ x.2.1 ≤ off ∧ off ≤ x.2.1 + x.2.2.len

theorem hitsG_before (off b i : Nat) (cs : List Green) (h : off < b) : hitsG off b i cs = [] := by
  induction cs generalizing b i with
  | nil => rfl
  | cons c cs ih =>
    simp only [hitsG]
    have : ¬ b ≤ off := by omega
    simp only [this, decide_false, Bool.and_false, Bool.false_and, Bool.false_eq_true, ↓reduceIte, List.nil_append]
    exact ih (b + c.len) (i + 1) (by omega)

theorem hitsG_empty (off b i : Nat) (cs : List Green) (h : sumLen cs = 0) : hitsG off b i cs = [] := by
  induction cs generalizing b i with
  | nil => rfl
  | cons c cs ih =>
    simp only [sumLen] at h
    have hc : c.len = 0 := by omega
    simp only [hitsG, hc, bne_self_eq_false, Bool.false_and, Bool.false_eq_true, ↓reduceIte, List.nil_append]
    exact ih (b + 0) (i + 1) (by omega)

theorem hitsG_mem (off b i : Nat) (cs : List Green) (x : Nat × Nat × Green) (h : x ∈ hitsG off b i cs) :
    ∃ k, cs[k]? = some x.2.2 ∧ x.1 = i + k ∧ x.2.1 = b + offsetIn cs k ∧ Hit off x := by
  induction cs generalizing b i with
  | nil => simp [hitsG] at h
  | cons c cs ih =>
    simp only [hitsG, List.mem_append] at h
    rcases h with h | h
    · split at h
      · rename_i hc
        simp only [List.mem_singleton] at h
        subst h
        simp only [Bool.and_eq_true, bne_iff_ne, ne_eq, decide_eq_true_eq] at hc
        exact ⟨0, rfl, rfl, by simp [offsetIn_zero], hc.1.1, hc.1.2, hc.2⟩
      · simp at h
    · obtain ⟨k, h1, h2, h3, h4⟩ := ih (b + c.len) (i + 1) h
      refine ⟨k + 1, by simpa using h1, by omega, ?_, h4⟩
      rw [h3]
      have : offsetIn (c :: cs) (k + 1) = c.len + offsetIn cs k := by
        simp [offsetIn, sumLen]
      omega

/-- **one or two children**: inside a non-empty node the children tile its range, so the non-empty
    children whose closed range contains the offset are exactly one — or exactly two that meet at the
    offset, and then the offset is strictly inside the node -/
theorem hitsG_shape (off b i : Nat) (cs : List Green) (h1 : b ≤ off) (h2 : off ≤ b + sumLen cs) (h3 : 0 < sumLen cs) :
    (∃ x, hitsG off b i cs = [x]) ∨
    (∃ x y, hitsG off b i cs = [x, y] ∧ x.2.1 + x.2.2.len = off ∧ y.2.1 = off ∧ b < off ∧ off < b + sumLen cs) := by
  induction cs generalizing b i with
  | nil => simp [sumLen] at h3
  | cons c cs ih =>
    simp only [sumLen] at h2 h3
    simp only [hitsG]
    by_cases hc0 : c.len = 0
    · -- an empty child: skipped
      simp only [hc0, bne_self_eq_false, Bool.false_and, Bool.false_eq_true, ↓reduceIte, List.nil_append, Nat.add_zero]
      have := ih b (i + 1) h1 (by omega) (by omega)
      simpa [sumLen, hc0] using this
    · by_cases hlt : off < b + c.len
      · -- strictly before the end of this child: it is the only one
        have hrest := hitsG_before off (b + c.len) (i + 1) cs hlt
        have : (c.len != 0 && decide (b ≤ off) && decide (off ≤ b + c.len)) = true := by
          simp only [Bool.and_eq_true, bne_iff_ne, ne_eq, decide_eq_true_eq]; exact ⟨⟨hc0, h1⟩, by omega⟩
        simp only [this, ↓reduceIte, hrest, List.append_nil]
        exact Or.inl ⟨_, rfl⟩
      · by_cases heq : off = b + c.len
        · -- exactly at the end of this child
          have : (c.len != 0 && decide (b ≤ off) && decide (off ≤ b + c.len)) = true := by
            simp only [Bool.and_eq_true, bne_iff_ne, ne_eq, decide_eq_true_eq]; exact ⟨⟨hc0, h1⟩, by omega⟩
          simp only [this, ↓reduceIte]
          by_cases hs0 : sumLen cs = 0
          · rw [hitsG_empty off (b + c.len) (i + 1) cs hs0]
            exact Or.inl ⟨_, rfl⟩
          · -- the next non-empty child starts here: by induction it is alone among the rest
            rcases ih (b + c.len) (i + 1) (by omega) (by omega) (by omega) with ⟨y, hy⟩ | ⟨x, y, _, _, _, hlt', _⟩
            · refine Or.inr ⟨(i, b, c), y, by simp [hy], by simp [heq], ?_, by omega, by simp only [sumLen]; omega⟩
              have hm := hitsG_mem off (b + c.len) (i + 1) cs y (by rw [hy]; simp)
              obtain ⟨k, _, _, hk3, hk4⟩ := hm
              -- y contains off and starts at or after off
              have : y.2.1 ≤ off := hk4.2.1
              omega
            · omega
        · -- past this child
          have : (c.len != 0 && decide (b ≤ off) && decide (off ≤ b + c.len)) = false := by
            simp only [Bool.and_eq_false_iff, decide_eq_false_iff_not]
            right; omega
          simp only [this, Bool.false_eq_true, ↓reduceIte, List.nil_append]
          rcases ih (b + c.len) (i + 1) (by omega) (by omega) (by omega) with h | ⟨x, y, hh, e1, e2, e3, e4⟩
          · exact Or.inl h
          · exact Or.inr ⟨x, y, hh, e1, e2, by omega, by simp only [sumLen]; omega⟩

/-! ### what `children_with_tokens` leaves behind -/

theorem start_collectElems {q : Path} {o : Nat} (k : Nat) (it : It) (r : Red) (h : r.start q = some o) :
    (collectElems it r k).2.start q = some o := by
  induction k generalizing it r with
  | zero => exact h
  | succ k ih =>
    simp only [collectElems, It.nextElem]
    cases hr : it.rest with
    | nil => exact h
    | cons c rest =>
      simp only
      exact ih _ _ (start_getOrAdd h _ _ _)

theorem start_childrenWithTokens {q : Path} {o : Nat} (r : Red) (p : Path) (h : r.start q = some o) :
    (r.childrenWithTokens p).2.start q = some o := by
  unfold Red.childrenWithTokens
  cases iterNew r p with
  | none => exact h
  | some it => exact start_collectElems _ it r h

/-- every child the iterator walks over is materialised afterwards -/
theorem collectElems_mat (k : Nat) (it : It) (r : Red) (hk : it.rest.length < k) (j : Nat)
    (h1 : it.index ≤ j) (h2 : j < it.index + it.rest.length) :
    ∃ o, (collectElems it r k).2.start (it.parent ++ [j]) = some o := by
  induction k generalizing it r with
  | zero => omega
  | succ k ih =>
    simp only [collectElems, It.nextElem]
    cases hr : it.rest with
    | nil => rw [hr] at h2; simp at h2; omega
    | cons c rest =>
      simp only
      by_cases hj : j = it.index
      · subst hj
        obtain ⟨o, ho⟩ := start_after_getOrAdd r it.parent it.index it.offset
        exact ⟨o, start_collectElems k _ _ ho⟩
      · have := ih { it with rest := rest, index := it.index + 1, offset := it.offset + c.len }
          (r.getOrAdd it.parent it.index it.offset) (by rw [hr] at hk; simp at hk; simp; omega)
          (by simp; omega) (by rw [hr] at h2; simp at h2 ⊢; omega)
        exact this

/-- **after `children_with_tokens`**: the result lists all children in order, the red tree is still
    canonical, and every child reports the tiling range `start + Σ len(earlier siblings)` -/
theorem children_ranges {r : Red} (hr : RInv r) (p : Path) (t : Green) (s : Nat)
    (hg : r.green p = some t) (hs : r.start p = some s) :
    (r.childrenWithTokens p).1 = (List.range t.children.length).map (fun j => p ++ [j]) ∧
    RInv (r.childrenWithTokens p).2 ∧ (r.childrenWithTokens p).2.root = r.root ∧
    ∀ i c, t.children[i]? = some c →
      (r.childrenWithTokens p).2.start (p ++ [i]) = some (s + offsetIn t.children i) ∧
      (r.childrenWithTokens p).2.green (p ++ [i]) = some c := by
  have hk := childrenWithTokens_keeps p r hr
  have hcan : canon r.root p = some s := hr.canon.start hs
  refine ⟨?_, hk.1, hk.2, ?_⟩
  · simp only [Red.childrenWithTokens, iterNew, hg, hs]
    rw [C03.collectElems_spec _ _ _ (by simp)]
    simp [List.range_eq_range']
  · intro i c hc
    have hi : i < t.children.length := (List.getElem?_eq_some_iff.mp hc).1
    have hgc : (r.childrenWithTokens p).2.green (p ++ [i]) = some c := by
      unfold Red.green at hg ⊢
      rw [hk.2]
      exact C03.get_child r.root p t hg i c hc
    refine ⟨?_, hgc⟩
    have hmat : ∃ o, (r.childrenWithTokens p).2.start (p ++ [i]) = some o := by
      simp only [Red.childrenWithTokens, iterNew, hg, hs]
      exact collectElems_mat _ ⟨p, t.children, 0, s⟩ r (by simp) i (Nat.zero_le _) (by simpa using hi)
    obtain ⟨o, ho⟩ := hmat
    have := hk.1.canon.start ho
    rw [hk.2] at this
    unfold Red.green at hg
    rw [canon_append_single r.root p i t c s hg hc hcan] at this
    cases this
    exact ho

/-! ### the filter of `token_at_offset` is `hitsG` -/

def pureHit (off s : Nat) (cs : List Green) (i : Nat) : Bool :=
  match cs[i]? with
  | some c => c.len != 0 && decide (s + offsetIn cs i ≤ off) && decide (off ≤ s + offsetIn cs i + c.len)
  | none => false

theorem offsetIn_prefix (pre post : List Green) : offsetIn (pre ++ post) pre.length = sumLen pre := by
  simp [offsetIn]

theorem filter_pureHit (off s : Nat) (pre post : List Green) :
    (List.range' pre.length post.length).filter (pureHit off s (pre ++ post)) =
      (hitsG off (s + sumLen pre) pre.length post).map (·.1) := by
  induction post generalizing pre with
  | nil => simp [hitsG]
  | cons c post ih =>
    have hget : (pre ++ c :: post)[pre.length]? = some c := by simp
    have hih := ih (pre ++ [c])
    have e1 : pre ++ [c] ++ post = pre ++ c :: post := by simp
    have e2 : (pre ++ [c]).length = pre.length + 1 := by simp
    have e3 : sumLen (pre ++ [c]) = sumLen pre + c.len := by rw [sumLen_append]; simp [sumLen]
    rw [e1, e2, e3] at hih
    simp only [List.length_cons, List.range'_succ, List.filter_cons, hitsG]
    have hp : pureHit off s (pre ++ c :: post) pre.length =
        (c.len != 0 && decide (s + sumLen pre ≤ off) && decide (off ≤ s + sumLen pre + c.len)) := by
      simp only [pureHit, hget, offsetIn_prefix]
    rw [hp, hih]
    have e4 : s + sumLen pre + c.len = s + (sumLen pre + c.len) := by omega
    rw [e4]
    split <;> simp

theorem ne_add_iff (a l : Nat) : (a != a + l) = (l != 0) := by
  cases l with
  | zero => simp
  | succ k => simp

/-- the children `token_at_offset` keeps are the non-empty ones whose tiling range contains the offset -/
theorem filter_children {r : Red} (hr : RInv r) (p : Path) (t : Green) (s off : Nat)
    (hg : r.green p = some t) (hs : r.start p = some s) :
    (r.childrenWithTokens p).1.filter (nonEmptyContaining (r.childrenWithTokens p).2 off) =
      (hitsG off s 0 t.children).map (fun x => p ++ [x.1]) := by
  obtain ⟨hcs, _, _, hch⟩ := children_ranges hr p t s hg hs
  rw [hcs, List.filter_map]
  have : (List.range t.children.length).filter (nonEmptyContaining (r.childrenWithTokens p).2 off ∘ fun j => p ++ [j]) =
      (List.range t.children.length).filter (pureHit off s t.children) := by
    apply List.filter_congr
    intro i hi
    have hi' : i < t.children.length := List.mem_range.mp hi
    obtain ⟨c, hc⟩ : ∃ c, t.children[i]? = some c := ⟨t.children[i], List.getElem?_eq_getElem hi'⟩
    obtain ⟨h1, h2⟩ := hch i c hc
    simp only [Function.comp, nonEmptyContaining, Red.range, h1, h2, pureHit, hc, ne_add_iff]
  rw [this]
  have := filter_pureHit off s [] t.children
  simp only [List.length_nil, List.nil_append, sumLen, Nat.add_zero] at this
  rw [List.range_eq_range', this]
  simp [List.map_map]

/-! ### `token_at_offset` is total inside its precondition and returns the right tokens -/

theorem offsetIn_add_le (cs : List Green) (k : Nat) (c : Green) (h : cs[k]? = some c) :
    offsetIn cs k + c.len ≤ sumLen cs := by
  induction cs generalizing k with
  | nil => simp at h
  | cons d ds ih =>
    cases k with
    | zero =>
      simp only [List.getElem?_cons_zero, Option.some.injEq] at h
      subst h
      simp [offsetIn, sumLen]
    | succ k =>
      simp only [List.getElem?_cons_succ] at h
      have := ih k h
      have e : offsetIn (d :: ds) (k + 1) = d.len + offsetIn ds k := by simp [offsetIn, sumLen]
      rw [e]
      simp only [sumLen]
      omega

theorem child_smaller' (t x : Green) (h : x ∈ t.children) : gsize x < gsize t := by
  cases t with
  | tok _ _ _ _ => simp [Green.children] at h
  | node _ _ _ _ cs =>
    simp only [Green.children] at h
    simp only [gsize]
    have : gsize x ≤ gsizeL cs := by
      induction cs with
      | nil => simp at h
      | cons y ys ih =>
        simp only [List.mem_cons] at h
        simp only [gsizeL]
        rcases h with rfl | h
        · omega
        · have := ih h; omega
    omega

/-- a non-empty token whose closed range contains the offset and lies inside `[s, e]` -/
def TokAt (r : Red) (s e off : Nat) (q : Path) (a b : Nat) : Prop :=
  r.isToken q = true ∧ r.range q = some (a, b) ∧ a ≠ b ∧ a ≤ off ∧ off ≤ b ∧ s ≤ a ∧ b ≤ e

/-- what a correct answer for a non-empty node with range `[s, e]` looks like -/
def TaoOk (r : Red) (s e off : Nat) : TAO → Prop
  | .single q => ∃ a b, TokAt r s e off q a b
  | .between l q => ∃ a b, TokAt r s e off l a off ∧ TokAt r s e off q off b ∧ s < off ∧ off < e
  | _ => False

theorem TokAt.mono {r r' : Red} {s e off : Nat} {q : Path} {a b : Nat} (h : TokAt r s e off q a b)
    (hroot : r'.root = r.root) (hst : ∀ q o, r.start q = some o → r'.start q = some o) :
    TokAt r' s e off q a b := by
  obtain ⟨h1, h2, h3⟩ := h
  refine ⟨by unfold Red.isToken Red.green at h1 ⊢; rw [hroot]; exact h1, ?_, h3⟩
  unfold Red.range at h2 ⊢
  cases hs : r.start q with
  | none => simp [hs] at h2
  | some o =>
    rw [hst q o hs]
    unfold Red.green at h2 ⊢
    rw [hroot]
    simpa [hs] using h2

theorem TokAt.widen {r : Red} {s e s' e' off : Nat} {q : Path} {a b : Nat} (h : TokAt r s e off q a b)
    (h1 : s' ≤ s) (h2 : e ≤ e') : TokAt r s' e' off q a b := by
  obtain ⟨a1, a2, a3, a4, a5, a6, a7⟩ := h
  exact ⟨a1, a2, a3, a4, a5, by omega, by omega⟩

theorem isToken_of_green {r : Red} {p : Path} {t : Green} (h : r.green p = some t) : r.isToken p = !t.isNode := by
  simp [Red.isToken, h]

theorem range_of {r : Red} {p : Path} {t : Green} {s : Nat} (hg : r.green p = some t) (hs : r.start p = some s) :
    r.range p = some (s, s + t.len) := by
  simp [Red.range, hg, hs]

/-! #### the tokens of the sub-tree that the offset touches -/

/-- a leaf (token with its span) that is non-empty and whose closed range contains the offset -/
def hitLeaf (off : Nat) (x : Path × Nat × Green) : Bool :=
  x.2.2.len != 0 && decide (x.2.1 ≤ off) && decide (off ≤ x.2.1 + x.2.2.len)

def resPaths : TAO → List Path
  | .single q => [q]
  | .between l q => [l, q]
  | _ => []

theorem chain_bounds {o e : Nat} {L : List (Path × Nat × Green)} (h : Chain o L e) :
    o ≤ e ∧ ∀ x ∈ L, o ≤ x.2.1 ∧ x.2.1 + x.2.2.len ≤ e := by
  induction L generalizing o with
  | nil => simp only [Chain] at h; subst h; exact ⟨Nat.le_refl _, by simp⟩
  | cons y ys ih =>
    obtain ⟨h1, h2⟩ := h
    obtain ⟨i1, i2⟩ := ih h2
    refine ⟨by omega, ?_⟩
    intro x hx
    simp only [List.mem_cons] at hx
    rcases hx with rfl | hx
    · exact ⟨by omega, by omega⟩
    · have := i2 x hx; exact ⟨by omega, this.2⟩

/-- a sub-tree that is empty or whose range does not contain the offset has no such leaf -/
theorem leaves_nohit (off : Nat) (q : Path) (o : Nat) (c : Green) (hl : LenOk c)
    (h : ¬ (c.len ≠ 0 ∧ o ≤ off ∧ off ≤ o + c.len)) : (leaves q o c).filter (hitLeaf off) = [] := by
  rw [List.filter_eq_nil_iff]
  intro x hx
  obtain ⟨_, hb⟩ := chain_bounds (leaves_chain c q o hl)
  have := hb x hx
  simp only [hitLeaf, Bool.and_eq_true, bne_iff_ne, ne_eq, decide_eq_true_eq, not_and, Nat.not_le]
  intro ⟨h1, h2⟩
  by_cases hc : c.len = 0
  · omega
  · have h' := (not_and.mp h) hc
    omega

theorem filter_leavesL (off : Nat) (p : Path) : ∀ (cs : List Green) (i o : Nat), LenOkL cs →
    (leavesL p i o cs).filter (hitLeaf off) =
      (hitsG off o i cs).flatMap (fun x => (leaves (p ++ [x.1]) x.2.1 x.2.2).filter (hitLeaf off)) := by
  intro cs
  induction cs with
  | nil => intro i o _; simp [leavesL, hitsG]
  | cons c cs ih =>
    intro i o hl
    simp only [LenOkL] at hl
    simp only [leavesL, List.filter_append, hitsG, List.flatMap_append]
    rw [ih (i + 1) (o + c.len) hl.2]
    congr 1
    by_cases hc : (c.len != 0 && decide (o ≤ off) && decide (off ≤ o + c.len)) = true
    · simp [hc]
    · simp only [hc, Bool.false_eq_true, ↓reduceIte, List.flatMap_nil]
      apply leaves_nohit off _ o c hl.1
      simpa [Bool.and_eq_true] using hc

theorem leaves_tok_hit (off : Nat) (q : Path) (i o : Nat) (c : Green) (hc : c.isNode = false) (hh : Hit off (i, o, c)) :
    ((leaves q o c).filter (hitLeaf off)).map (·.1) = [q] := by
  cases c with
  | node _ _ _ _ _ => simp [Green.isNode] at hc
  | tok id k key l =>
    obtain ⟨h1, h2, h3⟩ := hh
    simp only at h1 h2 h3
    have : hitLeaf off (q, o, Green.tok id k key l) = true := by
      simp only [hitLeaf, Bool.and_eq_true, bne_iff_ne, ne_eq, decide_eq_true_eq]
      exact ⟨⟨h1, h2⟩, h3⟩
    simp [leaves, this]

/-- **`token_at_offset`** on a canonical red tree, for an offset inside the element's range: never
    panics; a token answers itself; an empty node answers `None`; a non-empty node answers with one
    non-empty token whose closed range contains the offset, or — only when the offset is strictly
    inside the node — with the two non-empty tokens that meet at the offset -/
theorem tao_go (n : Nat) : ∀ (r : Red) (p : Path) (t : Green) (s off : Nat), RInv r → r.green p = some t →
    r.start p = some s → gsize t ≤ n → s ≤ off → off ≤ s + t.len →
    RInv (tokenAtOffsetGo n r p off).2 ∧ (tokenAtOffsetGo n r p off).2.root = r.root ∧
    (∀ q o, r.start q = some o → (tokenAtOffsetGo n r p off).2.start q = some o) ∧
    (t.isNode = false → (tokenAtOffsetGo n r p off).1 = .single p) ∧
    (t.isNode = true → t.len = 0 → (tokenAtOffsetGo n r p off).1 = .none) ∧
    (t.isNode = true → 0 < t.len →
      TaoOk (tokenAtOffsetGo n r p off).2 s (s + t.len) off (tokenAtOffsetGo n r p off).1) ∧
    (t.isNode = true → 0 < t.len →
      ((leaves p s t).filter (hitLeaf off)).map (·.1) = resPaths (tokenAtOffsetGo n r p off).1) := by
  induction n with
  | zero => intro r p t s off _ _ _ hsz; cases t <;> simp [gsize] at hsz
  | succ n ih =>
    intro r p t s off hr hg hs hsz h1 h2
    have hrange := range_of hg hs
    have htok := isToken_of_green hg
    have hin : (decide (s ≤ off) && decide (off ≤ s + t.len)) = true := by simp [h1, h2]
    by_cases hnode : t.isNode = true
    · -- a node
      by_cases hlen : t.len = 0
      · -- empty: `None`
        have heq : (s == s + t.len) = true := by simp [hlen]
        have hres : tokenAtOffsetGo (n + 1) r p off = (.none, r) := by
          simp [tokenAtOffsetGo, hrange, hin, htok, hnode, heq]
        rw [hres]
        exact ⟨hr, rfl, fun _ _ h => h, by simp [hnode], fun _ _ => rfl, fun _ h => by omega, fun _ h => by omega⟩
      · -- non-empty: look at the children
        have hsum : t.len = sumLen t.children := LenOk_len (by
          have := hr.lens; unfold Red.green at hg; exact LenOk_get this hg) hnode
        obtain ⟨hcs, hr1, hroot1, hch⟩ := children_ranges hr p t s hg hs
        have hfilter := filter_children hr p t s off hg hs
        have hmono1 : ∀ q o, r.start q = some o → (r.childrenWithTokens p).2.start q = some o :=
          fun q o h => start_childrenWithTokens r p h
        have hne : (s == s + t.len) = false := by simp; omega
        -- facts about a hit child: where it sits in the new state, and that it is smaller
        have hchild : ∀ x, x ∈ hitsG off s 0 t.children →
            (r.childrenWithTokens p).2.green (p ++ [x.1]) = some x.2.2 ∧
            (r.childrenWithTokens p).2.start (p ++ [x.1]) = some x.2.1 ∧ gsize x.2.2 ≤ n ∧
            Hit off x ∧ s ≤ x.2.1 ∧ x.2.1 + x.2.2.len ≤ s + t.len := by
          intro x hx
          obtain ⟨k, hk1, hk2, hk3, hk4⟩ := hitsG_mem off s 0 t.children x hx
          have hk2' : x.1 = k := by omega
          obtain ⟨e1, e2⟩ := hch k x.2.2 hk1
          have hsm := child_smaller' t x.2.2 (List.mem_of_getElem? hk1)
          have hle := offsetIn_add_le t.children k x.2.2 hk1
          rw [hk2', hk3]
          exact ⟨e2, e1, by omega, hk4, by omega, by omega⟩
        have hlenok : LenOk t := by have := hr.lens; unfold Red.green at hg; exact LenOk_get this hg
        have hleavesEq : (leaves p s t).filter (hitLeaf off) =
            (hitsG off s 0 t.children).flatMap (fun x => (leaves (p ++ [x.1]) x.2.1 x.2.2).filter (hitLeaf off)) := by
          have := filter_leavesL off p t.children 0 s (LenOk_children hlenok)
          cases t with
          | tok _ _ _ _ => simp [Green.isNode] at hnode
          | node _ _ _ _ cs => simpa [leaves, Green.children] using this
        rcases hitsG_shape off s 0 t.children h1 (by omega) (by omega) with ⟨x, hx⟩ | ⟨x, y, hxy, ex, ey, hlo, hhi⟩
        · -- exactly one child: recurse into it
          obtain ⟨cg, cst, csz, chit, clo, chi⟩ := hchild x (by rw [hx]; simp)
          have hres : tokenAtOffsetGo (n + 1) r p off =
              tokenAtOffsetGo n (r.childrenWithTokens p).2 (p ++ [x.1]) off := by
            simp only [tokenAtOffsetGo, hrange, hin, htok, hnode, hne, Bool.not_true, Bool.false_eq_true, ↓reduceIte,
              Bool.not_false]
            rw [hfilter, hx]
            simp
          rw [hres]
          obtain ⟨i1, i2, i3, i4, i5, i6, i7⟩ := ih (r.childrenWithTokens p).2 (p ++ [x.1]) x.2.2 x.2.1 off hr1 cg cst csz chit.2.1 chit.2.2
          refine ⟨i1, i2.trans hroot1, fun q o h => i3 q o (hmono1 q o h), by simp [hnode], fun _ h => absurd h hlen, ?_, ?_⟩
          rotate_left
          · -- completeness: the hit leaves of the node are those of its only hit child
            intro _ _
            rw [hleavesEq, hx]
            simp only [List.flatMap_cons, List.flatMap_nil, List.append_nil]
            by_cases hcn : x.2.2.isNode = true
            · exact i7 hcn (Nat.pos_of_ne_zero chit.1)
            · rw [i4 (by simpa using hcn)]
              exact leaves_tok_hit off _ x.1 x.2.1 x.2.2 (by simpa using hcn) chit
          intro _ _
          by_cases hcn : x.2.2.isNode = true
          · have := i6 hcn (Nat.pos_of_ne_zero chit.1)
            -- widen from the child's range to the node's
            revert this
            cases (tokenAtOffsetGo n (r.childrenWithTokens p).2 (p ++ [x.1]) off).1 with
            | none => exact id
            | panic => exact id
            | single q => intro ⟨a, b, h⟩; exact ⟨a, b, h.widen clo chi⟩
            | between l q =>
              intro ⟨a, b, hl, hq, e1, e2⟩
              exact ⟨a, b, hl.widen clo chi, hq.widen clo chi, by omega, by omega⟩
          · have hsingle := i4 (by simpa using hcn)
            rw [hsingle]
            refine ⟨x.2.1, x.2.1 + x.2.2.len, ?_⟩
            have hg' : (tokenAtOffsetGo n (r.childrenWithTokens p).2 (p ++ [x.1]) off).2.green (p ++ [x.1]) = some x.2.2 := by
              unfold Red.green at cg ⊢; rw [i2]; exact cg
            refine ⟨by rw [isToken_of_green hg']; simpa using hcn, range_of hg' (i3 _ _ cst), ?_, chit.2.1, chit.2.2, clo, chi⟩
            have := chit.1; omega
        · -- two children meeting at the offset
          obtain ⟨xg, xst, xsz, xhit, xlo, xhi⟩ := hchild x (by rw [hxy]; simp)
          obtain ⟨yg, yst, ysz, yhit, ylo, yhi⟩ := hchild y (by rw [hxy]; simp)
          obtain ⟨a1, a2, a3, a4, a5, a6, a7⟩ := ih (r.childrenWithTokens p).2 (p ++ [x.1]) x.2.2 x.2.1 off hr1 xg xst xsz xhit.2.1 xhit.2.2
          have yg' : (tokenAtOffsetGo n (r.childrenWithTokens p).2 (p ++ [x.1]) off).2.green (p ++ [y.1]) = some y.2.2 := by
            unfold Red.green at yg ⊢; rw [a2]; exact yg
          obtain ⟨b1, b2, b3, b4, b5, b6, b7⟩ := ih (tokenAtOffsetGo n (r.childrenWithTokens p).2 (p ++ [x.1]) off).2
            (p ++ [y.1]) y.2.2 y.2.1 off a1 yg' (a3 _ _ yst) ysz yhit.2.1 yhit.2.2
          -- the left answer is a single token ending at the offset
          have hleft : ∃ ql al, (tokenAtOffsetGo n (r.childrenWithTokens p).2 (p ++ [x.1]) off).1 = .single ql ∧
              TokAt (tokenAtOffsetGo n (r.childrenWithTokens p).2 (p ++ [x.1]) off).2 s (s + t.len) off ql al off := by
            by_cases hcn : x.2.2.isNode = true
            · have := a6 hcn (Nat.pos_of_ne_zero xhit.1)
              revert this
              cases (tokenAtOffsetGo n (r.childrenWithTokens p).2 (p ++ [x.1]) off).1 with
              | none => exact False.elim
              | panic => exact False.elim
              | single q =>
                intro ⟨a, b, h⟩
                have hb : b = off := by obtain ⟨_, _, _, _, u1, _, u2⟩ := h; omega
                subst hb
                exact ⟨q, a, rfl, h.widen xlo xhi⟩
              | between l q => intro ⟨_, _, _, _, _, e2⟩; omega
            · have hsingle := a4 (by simpa using hcn)
              have hg' : (tokenAtOffsetGo n (r.childrenWithTokens p).2 (p ++ [x.1]) off).2.green (p ++ [x.1]) = some x.2.2 := by
                unfold Red.green at xg ⊢; rw [a2]; exact xg
              refine ⟨p ++ [x.1], x.2.1, hsingle, by rw [isToken_of_green hg']; simpa using hcn, ?_, ?_, xhit.2.1, by omega, xlo, by omega⟩
              · rw [range_of hg' (a3 _ _ xst), ex]
              · have := xhit.1; omega
          have hright : ∃ qr br, (tokenAtOffsetGo n (tokenAtOffsetGo n (r.childrenWithTokens p).2 (p ++ [x.1]) off).2 (p ++ [y.1]) off).1 = .single qr ∧
              TokAt (tokenAtOffsetGo n (tokenAtOffsetGo n (r.childrenWithTokens p).2 (p ++ [x.1]) off).2 (p ++ [y.1]) off).2 s (s + t.len) off qr off br := by
            by_cases hcn : y.2.2.isNode = true
            · have := b6 hcn (Nat.pos_of_ne_zero yhit.1)
              revert this
              cases (tokenAtOffsetGo n (tokenAtOffsetGo n (r.childrenWithTokens p).2 (p ++ [x.1]) off).2 (p ++ [y.1]) off).1 with
              | none => exact False.elim
              | panic => exact False.elim
              | single q =>
                intro ⟨a, b, h⟩
                have ha : a = off := by obtain ⟨_, _, _, u1, _, u2, _⟩ := h; omega
                subst ha
                exact ⟨q, b, rfl, h.widen ylo yhi⟩
              | between l q => intro ⟨_, _, _, _, e1, _⟩; omega
            · have hsingle := b4 (by simpa using hcn)
              have hg' : (tokenAtOffsetGo n (tokenAtOffsetGo n (r.childrenWithTokens p).2 (p ++ [x.1]) off).2 (p ++ [y.1]) off).2.green (p ++ [y.1]) = some y.2.2 := by
                unfold Red.green at yg' ⊢; rw [b2]; exact yg'
              refine ⟨p ++ [y.1], y.2.1 + y.2.2.len, hsingle, by rw [isToken_of_green hg']; simpa using hcn, ?_, ?_, by omega, yhit.2.2, by omega, yhi⟩
              · rw [range_of hg' (b3 _ _ (a3 _ _ yst)), ey]
              · have := yhit.1; omega
          obtain ⟨ql, al, hl1, hl2⟩ := hleft
          obtain ⟨qr, br, hr1', hr2⟩ := hright
          have hres : tokenAtOffsetGo (n + 1) r p off =
              (.between ql qr, (tokenAtOffsetGo n (tokenAtOffsetGo n (r.childrenWithTokens p).2 (p ++ [x.1]) off).2 (p ++ [y.1]) off).2) := by
            simp only [tokenAtOffsetGo, hrange, hin, htok, hnode, hne, Bool.not_true, Bool.false_eq_true, ↓reduceIte,
              Bool.not_false]
            rw [hfilter, hxy]
            simp only [List.map_cons, List.map_nil]
            rw [hl1, hr1']
          -- the hit leaves of the two children
          have px : ((leaves (p ++ [x.1]) x.2.1 x.2.2).filter (hitLeaf off)).map (·.1) = [ql] := by
            by_cases hcn : x.2.2.isNode = true
            · have := a7 hcn (Nat.pos_of_ne_zero xhit.1)
              rw [hl1] at this
              exact this
            · have h4 := a4 (by simpa using hcn)
              rw [hl1] at h4
              cases h4
              exact leaves_tok_hit off _ x.1 x.2.1 x.2.2 (by simpa using hcn) xhit
          have py : ((leaves (p ++ [y.1]) y.2.1 y.2.2).filter (hitLeaf off)).map (·.1) = [qr] := by
            by_cases hcn : y.2.2.isNode = true
            · have := b7 hcn (Nat.pos_of_ne_zero yhit.1)
              rw [hr1'] at this
              exact this
            · have h4 := b4 (by simpa using hcn)
              rw [hr1'] at h4
              cases h4
              exact leaves_tok_hit off _ y.1 y.2.1 y.2.2 (by simpa using hcn) yhit
          rw [hres]
          refine ⟨b1, (b2.trans a2).trans hroot1, fun q o h => b3 q o (a3 q o (hmono1 q o h)), by simp [hnode],
            fun _ h => absurd h hlen, fun _ _ => ⟨al, br, hl2.mono b2 b3, hr2, hlo, by omega⟩, ?_⟩
          intro _ _
          rw [hleavesEq, hxy]
          simp only [List.flatMap_cons, List.flatMap_nil, List.append_nil, List.map_append]
          rw [px, py]
          rfl
    · -- a token answers itself
      have hres : tokenAtOffsetGo (n + 1) r p off = (.single p, r) := by
        simp [tokenAtOffsetGo, hrange, hin, htok, hnode]
      rw [hres]
      exact ⟨hr, rfl, fun _ _ h => h, fun _ => rfl, fun h => absurd h hnode, fun h => absurd h hnode, fun h => absurd h hnode⟩

/-- **`token_at_offset` never panics inside its precondition** (any canonical red tree, any element, any
    offset within the element's range; the fuel the model uses is enough) -/
theorem tao_total (r : Red) (hr : RInv r) (p : Path) (t : Green) (s off : Nat) (hg : r.green p = some t)
    (hs : r.start p = some s) (h1 : s ≤ off) (h2 : off ≤ s + t.len) : (r.tokenAtOffset p off).1 ≠ .panic := by
  have hfuel : gsize t ≤ walkFuel r p := by simp [walkFuel, hg]; omega
  obtain ⟨_, _, _, a4, a5, a6, _⟩ := tao_go (walkFuel r p) r p t s off hr hg hs hfuel h1 h2
  unfold Red.tokenAtOffset
  by_cases hn : t.isNode = true
  · by_cases hl : t.len = 0
    · rw [a5 hn hl]; simp
    · have := a6 hn (Nat.pos_of_ne_zero hl)
      intro hp; rw [hp] at this; exact this
  · rw [a4 (by simpa using hn)]; simp

/-- **`token_at_offset` returns the right tokens**: `None` exactly for an empty node; otherwise one
    non-empty token of the tree whose closed range contains the offset, or the two that meet at it -/
theorem tao_spec (r : Red) (hr : RInv r) (p : Path) (t : Green) (s off : Nat) (hg : r.green p = some t)
    (hs : r.start p = some s) (h1 : s ≤ off) (h2 : off ≤ s + t.len) (hn : t.isNode = true) :
    (t.len = 0 → (r.tokenAtOffset p off).1 = .none) ∧
    (0 < t.len → TaoOk (r.tokenAtOffset p off).2 s (s + t.len) off (r.tokenAtOffset p off).1) := by
  have hfuel : gsize t ≤ walkFuel r p := by simp [walkFuel, hg]; omega
  obtain ⟨_, _, _, _, a5, a6, _⟩ := tao_go (walkFuel r p) r p t s off hr hg hs hfuel h1 h2
  exact ⟨a5 hn, a6 hn⟩

/-- **`token_at_offset` returns all of them**: the tokens it answers with are *exactly* the non-empty tokens
    of the sub-tree whose closed range contains the offset, in source order (`leaves` lists the tokens of
    the sub-tree with their spans) — one token, or the two that meet at the offset -/
theorem tao_complete (r : Red) (hr : RInv r) (p : Path) (t : Green) (s off : Nat) (hg : r.green p = some t)
    (hs : r.start p = some s) (h1 : s ≤ off) (h2 : off ≤ s + t.len) (hn : t.isNode = true) (hl : 0 < t.len) :
    ((leaves p s t).filter (hitLeaf off)).map (·.1) = resPaths (r.tokenAtOffset p off).1 := by
  have hfuel : gsize t ≤ walkFuel r p := by simp [walkFuel, hg]; omega
  obtain ⟨_, _, _, _, _, _, a7⟩ := tao_go (walkFuel r p) r p t s off hr hg hs hfuel h1 h2
  exact a7 hn hl

/-! ### non-vacuity: an empty node and a zero-length token at a boundary -/
example :
    let g : Green := .node 0 0 2 0 [.tok 1 10 (some 0) 1, .node 2 1 0 0 [], .tok 3 10 (some 1) 0, .tok 4 11 (some 0) 1]
    ((Red.new g).tokenAtOffset [] 1).1 = .between [0] [3] ∧ ((Red.new g).coveringElement [] (1, 1)).1 = some [0] ∧
    ((Red.new g).tokenAtOffset [] 3).1 = .panic := by
  decide +kernel

/-! ### the answer as an iterator (`utility_types.rs`)

`TokenAtOffset` is handed out as an `ExactSizeIterator`.  Whatever way a caller consumes it — `next`, `nth`, `last`,
`count`, the biased accessors, `map` — it sees the tokens of `tao_complete`, in order, with exact size reports. -/

/-- the tokens an answer stands for, as `Model/Util`'s iterator -/
def asIter : TAO → Util.TAO Path
  | .none | .panic => .none
  | .single x => .single x
  | .between x y => .between x y

theorem asIter_toList (t : TAO) : (asIter t).toList = resPaths t := by
  cases t <;> rfl

/-- **consuming the answer**: stepping, skipping, `last`, `count`, the size report and both biased accessors are
    the list operations on the tokens the answer stands for -/
theorem tao_iter (t : TAO) (k : Nat) :
    (asIter t).drain (k + 2) = resPaths t ∧
    ((asIter t).nth k).1 = (resPaths t)[k]? ∧ ((asIter t).nth k).2.toList = (resPaths t).drop (k + 1) ∧
    (asIter t).last = (resPaths t).getLast? ∧ (asIter t).count = (resPaths t).length ∧
    (asIter t).sizeHint = ((resPaths t).length, some (resPaths t).length) ∧
    (asIter t).leftBiased = (resPaths t).head? ∧ (asIter t).rightBiased = (resPaths t).getLast? := by
  rw [← asIter_toList]
  exact ⟨Util.TAO.drain_spec _ _ (by omega), (Util.TAO.nth_spec _ k).1, (Util.TAO.nth_spec _ k).2,
    (Util.TAO.last_count_spec _).1, (Util.TAO.last_count_spec _).2, Util.TAO.sizeHint_exact _,
    (Util.TAO.biased_spec _).1, (Util.TAO.biased_spec _).2⟩

/-- after a step the rest is still exactly described (`next` = head, remaining iterator = tail) -/
theorem tao_iter_next (t : TAO) :
    (asIter t).next.1 = (resPaths t).head? ∧ (asIter t).next.2.toList = (resPaths t).tail := by
  rw [← asIter_toList]; exact Util.TAO.next_spec _

theorem tao_iter_map {β : Type} (f : Path → β) (t : TAO) : ((asIter t).map f).toList = (resPaths t).map f := by
  rw [← asIter_toList]; exact Util.TAO.map_toList f _

example : (asIter (.between [0] [3])).nth 0 = (some [0], .single [3]) ∧ ((asIter (.between [0] [3])).nth 1).1 = some [3] := by decide

end Cst.C13
