/-
  C13 — Offset and range queries find the right element.

  Model: `Red.tokenAtOffset`, `Red.coveringElement` (`Model/Query`).
-/
import CstModel.Proofs.Walk
namespace Cst.C13

open Red

/-! ### stored ranges never change -/

theorem start_getOrAdd {r : Red} {q : Path} {o : Nat} (h : r.start q = some o) (p : Path) (i off : Nat) :
    (r.getOrAdd p i off).start q = some o := by
  unfold Red.getOrAdd
  cases hl : r.slots.lookup (p ++ [i]) with
  | some _ => exact h
  | none =>
    simp only
    unfold Red.start at h ⊢
    by_cases hq : q = []
    · simp [hq] at h ⊢; exact h
    · simp only [hq, ↓reduceIte] at h ⊢
      by_cases he : q = p ++ [i]
      · subst he; rw [hl] at h; cases h
      · rw [lookup_cons_ne (by simpa using he)]; exact h

theorem range_getOrAdd {r : Red} {q : Path} {se : Nat × Nat} (h : r.range q = some se) (p : Path) (i off : Nat) :
    (r.getOrAdd p i off).range q = some se := by
  unfold Red.range at h ⊢
  cases hs : r.start q with
  | none => simp [hs] at h
  | some o =>
    rw [start_getOrAdd hs]
    have : (r.getOrAdd p i off).green q = r.green q := by unfold Red.green; rw [getOrAdd_root]
    rw [this]
    simpa [hs] using h

/-- one step of the child iterator keeps every stored range -/
theorem range_nextElem {r : Red} {q : Path} {se : Nat × Nat} (h : r.range q = some se) (it : It) :
    (it.nextElem r).2.2.range q = some se := by
  unfold It.nextElem
  cases it.rest with
  | nil => exact h
  | cons c rest => exact range_getOrAdd h _ _ _

theorem range_findCovering {r : Red} {q : Path} {se : Nat × Nat} (h : r.range q = some se) (rg : Nat × Nat)
    (k : Nat) (it : It) : (findCovering rg it r k).2.range q = some se := by
  induction k generalizing it r with
  | zero => exact h
  | succ k ih =>
    simp only [findCovering]
    have h1 := range_nextElem h it
    cases hres : it.nextElem r with
    | mk o rest =>
      obtain ⟨it', r'⟩ := rest
      rw [hres] at h1
      cases o with
      | none => exact h1
      | some c =>
        simp only
        cases hr : r'.range c with
        | none => exact h1
        | some cr =>
          simp only
          split
          · exact h1
          · exact ih h1 it'

/-- what `find` returns satisfies the predicate: the child's (stored) range contains the range -/
theorem findCovering_contains (rg : Nat × Nat) (k : Nat) (it : It) (r : Red) (c : Path)
    (h : (findCovering rg it r k).1 = some c) :
    ∃ cr, (findCovering rg it r k).2.range c = some cr ∧ containsRange cr rg = true := by
  induction k generalizing it r with
  | zero => simp [findCovering] at h
  | succ k ih =>
    simp only [findCovering] at h ⊢
    cases hres : it.nextElem r with
    | mk o rest =>
      obtain ⟨it', r'⟩ := rest
      rw [hres] at h
      try simp only at h ⊢
      cases o with
      | none => simp at h
      | some c' =>
        simp only at h ⊢
        cases hr : r'.range c' with
        | none => simp [hr] at h
        | some cr =>
          simp only [hr] at h ⊢
          by_cases hc : containsRange cr rg = true
          · simp only [hc, ↓reduceIte, Option.some.injEq] at h ⊢
            subst h
            exact ⟨cr, hr, hc⟩
          · simp only [hc, Bool.false_eq_true, ↓reduceIte] at h ⊢
            exact ih it' r' h

/-- **`covering_element` returns an element whose range contains the given range** -/
theorem cover_contains (n : Nat) (r : Red) (p : Path) (rg : Nat × Nat) (q : Path)
    (h : (coveringGo n r p rg).1 = some q) :
    ∃ qr, (coveringGo n r p rg).2.range q = some qr ∧ containsRange qr rg = true := by
  induction n generalizing r p with
  | zero => simp [coveringGo] at h
  | succ n ih =>
    simp only [coveringGo] at h ⊢
    cases hr : r.range p with
    | none => simp [hr] at h
    | some pr =>
      simp only [hr] at h ⊢
      by_cases hc : containsRange pr rg = true
      · simp only [hc, Bool.not_true, Bool.false_eq_true, ↓reduceIte] at h ⊢
        by_cases ht : r.isToken p = true
        · simp only [ht, ↓reduceIte, Option.some.injEq] at h ⊢
          subst h; exact ⟨pr, hr, hc⟩
        · simp only [ht, Bool.false_eq_true, ↓reduceIte] at h ⊢
          cases hi : iterNew r p with
          | none => simp [hi] at h
          | some it =>
            simp only [hi] at h ⊢
            cases hf : findCovering rg it r (it.rest.length + 1) with
            | mk o r' =>
              rw [hf] at h
              try simp only at h ⊢
              cases o with
              | some c => exact ih r' c h
              | none =>
                simp only [Option.some.injEq] at h
                subst h
                have := range_findCovering hr rg (it.rest.length + 1) it
                rw [hf] at this
                exact ⟨pr, this, hc⟩
      · simp [hc] at h

/-- **`covering_element` does not panic inside its precondition**: when the starting node's range
    contains the given range (and the walk has enough fuel — the depth of the sub-tree), every
    assertion on the way down holds, because each child it steps into was selected by that very test -/
theorem cover_total (n : Nat) (r : Red) (p : Path) (rg : Nat × Nat) (pr : Nat × Nat) (t : Green)
    (hr : r.range p = some pr) (hc : containsRange pr rg = true) (ht : r.green p = some t) (hfuel : gsize t ≤ n) :
    ∃ q, (coveringGo n r p rg).1 = some q := by
  induction n generalizing r p pr t with
  | zero => cases t <;> simp [gsize] at hfuel
  | succ n ih =>
    simp only [coveringGo, hr, hc, Bool.not_true, Bool.false_eq_true, ↓reduceIte]
    by_cases htok : r.isToken p = true
    · simp [htok]
    · simp only [htok, Bool.false_eq_true, ↓reduceIte]
      have hm : ∃ o, r.start p = some o := mat_of_range hr
      obtain ⟨o, ho⟩ := hm
      simp only [iterNew, ht, ho]
      cases hf : findCovering rg ⟨p, t.children, 0, o⟩ r (t.children.length + 1) with
      | mk res r' =>
        try simp only
        cases res with
        | none => exact ⟨p, rfl⟩
        | some c =>
          have hcont := findCovering_contains rg _ _ r c (by rw [hf])
          rw [hf] at hcont
          obtain ⟨cr, hcr, hcc⟩ := hcont
          -- the child found is a child of `p`, hence strictly smaller
          obtain ⟨j, tc, hj, htc, hsz⟩ := found_is_child rg (t.children.length + 1) ⟨p, t.children, 0, o⟩ r c t
            (by simp) ht (by rw [hf])
          rw [hf] at htc
          exact ih r' c cr tc hcr hcc htc (by
            have : gsize tc < gsize t := hsz
            omega)
where
  /-- whatever the child iterator hands out is a child of the node it iterates over -/
  found_is_child (rg : Nat × Nat) (k : Nat) (it : It) (r : Red) (c : Path) (t : Green)
      (hrest : ∃ d, it.rest = t.children.drop d ∧ it.index = d) (ht : r.green it.parent = some t)
      (h : (findCovering rg it r k).1 = some c) :
      ∃ j tc, c = it.parent ++ [j] ∧ (findCovering rg it r k).2.green c = some tc ∧ gsize tc < gsize t := by
    induction k generalizing it r with
    | zero => simp [findCovering] at h
    | succ k ih =>
      obtain ⟨d, hd, hi⟩ := hrest
      simp only [findCovering, It.nextElem] at h ⊢
      cases hr : it.rest with
      | nil => simp [hr] at h
      | cons x rest =>
        simp only [hr] at h ⊢
        have hx : t.children[it.index]? = some x := by
          have := congrArg List.head? hd; rw [hr] at this; simp [List.head?_drop] at this; rw [hi]; exact this.symm
        have hroot : (r.getOrAdd it.parent it.index it.offset).root = r.root := getOrAdd_root _ _ _ _
        have hgc : (r.getOrAdd it.parent it.index it.offset).green (it.parent ++ [it.index]) = some x := by
          unfold Red.green at ht ⊢; rw [hroot]
          exact C03.get_child r.root it.parent t ht it.index x hx
        cases hrg : (r.getOrAdd it.parent it.index it.offset).range (it.parent ++ [it.index]) with
        | none => simp [hrg] at h
        | some cr =>
          simp only [hrg] at h ⊢
          by_cases hc : containsRange cr rg = true
          · simp only [hc, ↓reduceIte, Option.some.injEq] at h ⊢
            subst h
            exact ⟨it.index, x, rfl, hgc, child_smaller t x (List.mem_of_getElem? hx)⟩
          · simp only [hc, Bool.false_eq_true, ↓reduceIte] at h ⊢
            have := ih { it with rest := rest, index := it.index + 1, offset := it.offset + x.len }
              (r.getOrAdd it.parent it.index it.offset)
              ⟨d + 1, by
                have := congrArg List.tail hd; rw [hr] at this; simpa [List.tail_drop] using this, by simp [hi]⟩
              (by unfold Red.green at ht ⊢; rw [hroot]; exact ht) h
            exact this
  child_smaller (t x : Green) (h : x ∈ t.children) : gsize x < gsize t := by
    cases t with
    | tok _ _ _ _ => simp [Green.children] at h
    | node _ _ _ _ cs =>
      simp only [Green.children] at h
      simp only [gsize]
      have : gsize x ≤ gsizeL cs := by
        induction cs with
        | nil => simp at h
        | cons y ys ih =>
          simp only [List.mem_cons] at h
          simp only [gsizeL]
          rcases h with rfl | h
          · omega
          · have := ih h; omega
      omega

/-! ### non-vacuity: an empty node and a zero-length token at a boundary -/
example :
    let g : Green := .node 0 0 2 0 [.tok 1 10 (some 0) 1, .node 2 1 0 0 [], .tok 3 10 (some 1) 0, .tok 4 11 (some 0) 1]
    ((Red.new g).tokenAtOffset [] 1).1 = .between [0] [3] ∧ ((Red.new g).coveringElement [] (1, 1)).1 = some [0] ∧
    ((Red.new g).tokenAtOffset [] 3).1 = .panic := by
  decide +kernel

end Cst.C13
