/-
  Props/GenSlot — `get_or_add_node` / `get_or_add_element` (`syntax/node.rs`) as transcribed: the shape of every navigation
  step of the red tree (C05).  Read the slot; a hit is handed out as it is.  On a miss: make the child (from the green
  element, this node, the index, the offset and the tree's counter), offer it with `try_write` — which installs it only into
  a slot that is still empty, `GenNode.n_try_write` — and then *read the slot again* and hand out whatever is there now:
  the element this thread made if it won, the other thread's if it lost.  This is the operation `Model/RedConc` takes as
  atomic-per-slot (`atomic_is_get_or_add`, `race_loser_unobservable`).
  The node is a call counter: the first `read` answers `first`, a later one `second`.
-/
import CstModel.Generated.RsFns
import CstModel.Proofs.KernelRfl
namespace Cst
namespace Gen
open Rs

def READ (i : Val) : Val := .ctor 880 [i]
def OFFER (i elem : Val) : Val := .ctor 881 [i, elem]
def CHILD (args : List Val) : Val := .ctor 882 args

def slotSem (first second : Option Val) : Sem where
  debug := false
  app := fun _ _ => none
  call := fun f args =>
    if f == N.SyntaxNode.new_child || f == N.SyntaxElement.new then .ok (CHILD args) .unit else .unknown
  meth := fun m recv args =>
    match recv, args with
    | .ctor 885 [.nat n], [i] =>
      if m == N.read then .okE (vOpt (if n == 0 then first else second)) (.ctor 885 [.nat (n + 1)]) (READ i) else .unknown
    | .ctor 885 [.nat n], [i, elem] =>
      if m == N.try_write then .okE .unit (.ctor 885 [.nat (n + 1)]) (OFFER i elem) else .unknown
    | .ctor 885 [.nat _], [] =>
      if m == N.data then .ok (.strct [(N.field.ref_count, .ctor 801 [])]) recv else .unknown
    | _, _ => .unknown

def slog (evs : List Val) : Option Val := some (.ctor 0 evs)

/-- hit: one read, the element found is the answer; miss: read, make the child from exactly these ingredients, offer it, read
    again and answer with what the slot holds *now* (a slot that is still empty then cannot happen after an offer: `unwrap`) -/
theorem n_get_or_add_node (second : Option Val) (e green i off : Val) :
    callP (slotSem (some e) second) 40 Rs.Gen.n_get_or_add_node [.ctor 885 [.nat 0], green, i, off] (xs := [logId]) =
      .val e [slog [READ i]]
    ∧ callP (slotSem none second) 40 Rs.Gen.n_get_or_add_node [.ctor 885 [.nat 0], green, i, off] (xs := [logId]) =
      (match second with
       | some e2 => .val e2 [slog [READ i, OFFER i (CHILD [green, .ctor 885 [.nat 1], i, off, .ctor 801 []]), READ i]]
       | none => .panic [slog [READ i, OFFER i (CHILD [green, .ctor 885 [.nat 1], i, off, .ctor 801 []]), READ i]]) := by
  refine ⟨by kernel_rfl, ?_⟩
  cases second <;> kernel_rfl

theorem n_get_or_add_element (second : Option Val) (e green i off : Val) :
    callP (slotSem (some e) second) 40 Rs.Gen.n_get_or_add_element [.ctor 885 [.nat 0], green, i, off] (xs := [logId]) =
      .val e [slog [READ i]]
    ∧ callP (slotSem none second) 40 Rs.Gen.n_get_or_add_element [.ctor 885 [.nat 0], green, i, off] (xs := [logId]) =
      (match second with
       | some e2 => .val e2 [slog [READ i, OFFER i (CHILD [green, .ctor 885 [.nat 1], i, off, .ctor 801 []]), READ i]]
       | none => .panic [slog [READ i, OFFER i (CHILD [green, .ctor 885 [.nat 1], i, off, .ctor 801 []]), READ i]]) := by
  refine ⟨by kernel_rfl, ?_⟩
  cases second <;> kernel_rfl

end Gen
end Cst
