/-
  C18 — Per-node data behaves like an atomic optional slot.

  Model: `Model/DataSlot` (lock acquisition, body steps and release are separate transitions; any
  number of threads; other threads may run between any two transitions).  Invariants: `Proofs/DataSlot`.
-/
import CstModel.Proofs.DataSlot
import CstModel.Generated.SourceFacts
namespace Cst.C18
open Cst.DataSlot

/-- the lock modes of the four operations, as extracted from the source -/
def facts : Facts :=
  ⟨SourceFacts.dataSetW, SourceFacts.dataTrySetW, SourceFacts.dataGetW, SourceFacts.dataClearW⟩

/-- **instantiation**: every mutating operation takes the write lock, every operation is one critical
    section, and the slot lives inside its lock -/
theorem facts_ok : facts.Ok ∧ SourceFacts.dataOneSectionPerOp = true ∧ SourceFacts.dataSlotInsideLock = true := by
  refine ⟨⟨?_, ?_, ?_⟩, ?_, ?_⟩ <;> decide

/-- the data handed out is shared between all threads that hold a handle (`Arc<D>` clones of one value):
    that is only sound because a tree can be on several threads only when `D` is `Send + Sync`
    (`C08.markers_sound`); here the facts that theorem is instantiated with -/
theorem data_sharing_facts :
    SourceFacts.nodeSendNeedsDSend = true ∧ SourceFacts.nodeSendNeedsDSync = true ∧
    SourceFacts.nodeSyncNeedsDSend = true ∧ SourceFacts.nodeSyncNeedsDSync = true ∧
    SourceFacts.otherUnsafeMarkerImpls = 0 := by decide

/-- **mutual exclusion**: in every reachable state a thread inside a writing operation is alone
    inside the slot's lock -/
theorem exclusion (n : Nat) (s : Sys) (h : Reachable facts n s) (i j : Nat) (pi pj : PC)
    (hi : s.pcs[i]? = some pi) (hj : s.pcs[j]? = some pj) (hne : i ≠ j) (hw : pi.writes facts = true) :
    pj.busy = false :=
  (lk_reachable facts_ok.1 h).excl i j pi pj hi hj hne hw

/-- **linearizability**: in every reachable state — after any interleaving of the lock, body and
    release steps of any number of threads — the results recorded so far are exactly those the
    sequential optional slot gives when the operations are applied one at a time in the order in which
    their bodies completed, and the slot holds what that sequential run leaves -/
theorem linearizable (n : Nat) (s : Sys) (h : Reachable facts n s) : specRun none s.hist = some s.cell :=
  (lk_reachable facts_ok.1 h).hist

/-- what a `try_set_data` saw when it looked at the slot is still true when it acts on it -/
theorem check_stays_valid (n : Nat) (s : Sys) (h : Reachable facts n s) (i v : Nat) (b : Bool)
    (hi : s.pcs[i]? = some (.checked v b)) : b = s.cell.isSome :=
  (lk_reachable facts_ok.1 h).chk i v b hi

/-! ### consequences of the sequential specification -/

theorem specRun_cons {c : Option Nat} {e : Entry} {h : List Entry} {c' : Option Nat}
    (hr : specRun c (e :: h) = some c') : (spec c e.2.1).2 = e.2.2 ∧ specRun (spec c e.2.1).1 h = some c' := by
  obtain ⟨i, r, res⟩ := e
  simp only [specRun] at hr
  split at hr
  · rename_i heq; exact ⟨heq, hr⟩
  · cases hr

def isArc : Entry → Bool
  | (_, _, .arc _) => true
  | _ => false

/-- on a non-empty slot every conditional set fails and gets its own value back -/
theorem tries_on_full (c : Option Nat) (hc : c.isSome = true) (tries : List Entry) (c' : Option Nat)
    (hr : specRun c tries = some c') (ht : ∀ e ∈ tries, ∃ v, e.2.1 = .trySet v) :
    c' = c ∧ ∀ e ∈ tries, ∃ v, e.2.1 = .trySet v ∧ e.2.2 = .back v := by
  induction tries with
  | nil => simp only [specRun] at hr; cases hr; exact ⟨rfl, by simp⟩
  | cons e rest ih =>
    obtain ⟨v, hv⟩ := ht e (by simp)
    obtain ⟨h1, h2⟩ := specRun_cons hr
    rw [hv] at h1 h2
    simp only [spec, hc, ↓reduceIte] at h1 h2
    obtain ⟨hc', hrest⟩ := ih h2 (fun e' he' => ht e' (by simp [he']))
    refine ⟨hc', ?_⟩
    intro e' he'
    simp only [List.mem_cons] at he'
    rcases he' with rfl | he'
    · exact ⟨v, hv, h1.symm⟩
    · exact hrest e' he'

/-- **of several conditional sets on an empty slot exactly one succeeds** (the first to complete) **and
    the others get their value back** -/
theorem one_try_set_wins (tries : List Entry) (c' : Option Nat) (hne : tries ≠ [])
    (hr : specRun none tries = some c') (ht : ∀ e ∈ tries, ∃ v, e.2.1 = .trySet v) :
    (tries.filter isArc).length = 1 ∧
    (∃ i v, tries.head? = some (i, .trySet v, .arc v) ∧ c' = some v) ∧
    (∀ e ∈ tries.tail, ∃ v, e.2.1 = .trySet v ∧ e.2.2 = .back v) := by
  cases tries with
  | nil => exact absurd rfl hne
  | cons e rest =>
    obtain ⟨v, hv⟩ := ht e (by simp)
    obtain ⟨h1, h2⟩ := specRun_cons hr
    rw [hv] at h1 h2
    simp only [spec, Option.isSome_none, Bool.false_eq_true, ↓reduceIte] at h1 h2
    obtain ⟨hc', hrest⟩ := tries_on_full (some v) rfl rest c' h2 (fun e' he' => ht e' (by simp [he']))
    obtain ⟨i, r, res⟩ := e
    simp only at hv h1
    subst hv
    subst h1
    refine ⟨?_, ⟨i, v, by simp, hc'⟩, by simpa using hrest⟩
    have hnone : rest.filter isArc = [] := by
      rw [List.filter_eq_nil_iff]
      intro e' he'
      obtain ⟨w, _, hw⟩ := hrest e' he'
      obtain ⟨i', r', res'⟩ := e'
      simp only at hw
      subst hw
      simp [isArc]
    simp [List.filter_cons, isArc, hnone]

theorem specRun_split (c : Option Nat) (h1 h2 : List Entry) (c' : Option Nat)
    (hr : specRun c (h1 ++ h2) = some c') : ∃ m, specRun c h1 = some m ∧ specRun m h2 = some c' := by
  induction h1 generalizing c with
  | nil => exact ⟨c, rfl, hr⟩
  | cons e rest ih =>
    obtain ⟨i, r, res⟩ := e
    simp only [List.cons_append, specRun] at hr ⊢
    split at hr
    · rename_i heq
      simp only [heq, ↓reduceIte]
      exact ih _ hr
    · cases hr

theorem specRun_cellAfter (c : Option Nat) (h : List Entry) (c' : Option Nat) (hr : specRun c h = some c') :
    c' = cellAfter c h := by
  induction h generalizing c with
  | nil => simp only [specRun] at hr; cases hr; rfl
  | cons e rest ih =>
    obtain ⟨h1, h2⟩ := specRun_cons hr
    simpa [cellAfter] using ih _ h2

/-- **a read returns the value of the latest set not yet cleared**: in every reachable state, every
    `get_data` in the history answered with the slot content that the operations completed before it
    leave (`cellAfter` folds `set` / successful `try_set` / `clear` over the prefix) -/
theorem read_latest (n : Nat) (s : Sys) (h : Reachable facts n s) (pre post : List Entry) (t : Nat) (res : Res)
    (hh : s.hist = pre ++ (t, .get, res) :: post) : res = .got (cellAfter none pre) := by
  have hl := linearizable n s h
  rw [hh] at hl
  obtain ⟨m, hm, hrest⟩ := specRun_split none pre _ _ hl
  obtain ⟨h1, _⟩ := specRun_cons hrest
  simp only [spec] at h1
  rw [← h1, specRun_cellAfter none pre m hm]

/-- the slot itself holds what the completed operations leave -/
theorem cell_is_latest (n : Nat) (s : Sys) (h : Reachable facts n s) : s.cell = cellAfter none s.hist :=
  specRun_cellAfter none s.hist s.cell (linearizable n s h)

/-! ### ownership: validity of handed-out data, exactly-once destruction -/

/-- **data handed out stays valid after it is replaced or cleared**: as long as somebody outside the
    slot owns a value (a handle from `set_data` / `try_set_data` / `get_data`, or a value given back),
    its destructor has not run — whatever happened to the slot since -/
theorem handed_out_valid (F : Facts) (n : Nat) (s : Sys) (h : Reachable F n s) (v : Nat) (hv : v ∈ s.out) :
    s.drops v = 0 ∧ 1 ≤ s.owners v := by
  have ld := ld_reachable h
  have h1 : 1 ≤ s.out.count v := List.count_pos_iff.mpr hv
  have h2 := ld.own v
  exact ⟨ld.drp0 v (Or.inr (by omega)), by omega⟩

/-- the stored value is valid -/
theorem stored_valid (F : Facts) (n : Nat) (s : Sys) (h : Reachable F n s) (v : Nat) (hv : s.cell = some v) :
    s.drops v = 0 := by
  have ld := ld_reachable h
  have h2 := ld.own v
  rw [hv, cellIs_self] at h2
  exact ld.drp0 v (Or.inr (by omega))

/-- **every stored value is dropped exactly once**: never twice at any time; and once the slot is empty
    (cleared, or gone with the tree) and no handle is left, every value ever passed in has been
    destroyed exactly once -/
theorem dropped_exactly_once (F : Facts) (n : Nat) (s : Sys) (h : Reachable F n s) :
    (∀ v, s.drops v ≤ 1) ∧ (∀ v, v ∉ s.made → s.drops v = 0) ∧
    (s.cell = none → s.out = [] → ∀ v ∈ s.made, s.drops v = 1) := by
  have ld := ld_reachable h
  refine ⟨?_, fun v hv => ld.drp0 v (Or.inl hv), ?_⟩
  · intro v
    by_cases hm : v ∈ s.made
    · by_cases h0 : s.owners v = 0
      · rw [ld.drp1 v hm h0]; exact Nat.le_refl 1
      · rw [ld.drp0 v (Or.inr h0)]; exact Nat.zero_le 1
    · rw [ld.drp0 v (Or.inl hm)]; exact Nat.zero_le 1
  · intro hc ho v hv
    have := ld.own v
    rw [hc, ho] at this
    exact ld.drp1 v hv (by simpa [cellIs] using this)

/-! ### why the lock modes matter: with `try_set_data` under the read lock two threads both succeed -/

def badFacts : Facts := ⟨true, false, false, true⟩
def badRun : Option Sys := do
  let s1 ← step badFacts (Sys.init 2) 0 (.acquire (.trySet 1))
  let s2 ← step badFacts s1 1 (.acquire (.trySet 2))
  let s3 ← step badFacts s2 0 .body
  let s4 ← step badFacts s3 1 .body
  let s5 ← step badFacts s4 0 .body
  step badFacts s5 1 .body
theorem try_set_under_read_lock_unsound :
    (match badRun with
     | some s => s.hist == [(0, .trySet 1, .arc 1), (1, .trySet 2, .arc 2)] && specRun none s.hist == none
     | none => false) = true := by decide

/-! ### non-vacuity: three threads, interleaved sections, replaced data outlives its slot -/
def exRun : Option Sys := do
  let s ← step facts (Sys.init 3) 0 (.acquire (.trySet 1))
  let s ← step facts s 0 .body
  let s ← step facts s 0 .body
  let s ← step facts s 0 .release
  let s ← step facts s 1 (.acquire .get)
  let s ← step facts s 2 (.acquire .get)       -- two readers inside at once
  let s ← step facts s 1 .body
  let s ← step facts s 2 .body
  let s ← step facts s 1 .release
  let s ← step facts s 2 .release
  let s ← step facts s 1 (.acquire (.set 5))
  let s ← step facts s 1 .body                  -- value 1 replaced; three handles to it are still out
  let s ← step facts s 1 .release
  let s ← step facts s 2 (.acquire (.trySet 7))
  let s ← step facts s 2 .body
  let s ← step facts s 2 .body                  -- fails, 7 comes back
  step facts s 2 .release
example : (match exRun with
    | some s => s.cell == some 5 && s.out.count 1 == 3 && s.drops 1 == 0 && s.owners 1 == 3 && s.owners 5 == 2 &&
                s.hist.map (·.2.2) == [.arc 1, .got (some 1), .got (some 1), .arc 5, .back 7]
    | none => false) = true := by decide

end Cst.C18
