/-
  C01 — Built trees are lossless and structurally faithful.

  Model: `Model/Builder` (NodeCache + GreenNodeBuilder), `Model/Tree` (reference trees, their
  event streams, resolution of green trees).  The theorems hold for **every** child-hash
  function `H` (so also under arbitrary hash collisions), every static-text table, every interner
  state and every cache state satisfying `CacheInv` (which holds for the empty cache and is
  preserved by every build — so after any history; see C04).
  Helper lemmas: `Proofs/Green`, `Proofs/Builder`.
-/
import CstModel.Proofs.Builder
import CstModel.Generated.SourceFacts
namespace Cst.C01

/-- **Faithfulness.** For every tree `node k cs` whose static-kind tokens carry their static text,
    feeding its events to a builder over any invariant-respecting cache (with room for the new
    strings in the key space) succeeds, and the finished green tree resolves to exactly that tree:
    same nesting, order, kinds and token texts.  The stored length of the root is the byte length
    of the text, the cache invariant is kept and the interner only grew. -/
theorem build_faithful (cfg : Cfg) (hcmp : cfg.cmpChildren = true) (c : Cache) (hc : CacheInv cfg c)
    (k : Nat) (cs : List Tree) (hs : StaticOk cfg (.node k cs))
    (hcap : c.interner.strs.length + (Tree.node k cs).nTokens ≤ c.interner.cap) :
    ∃ g c', build cfg c (Tree.node k cs).events = .ok (g, c') ∧
      resolveG cfg c'.interner g = some (.node k cs) ∧
      g.len = blen (Tree.node k cs).text ∧
      CacheInv cfg c' ∧ c.interner.strs <+: c'.interner.strs := by
  have hb : BInv cfg (Builder.new c) := ⟨hc, by simp [Builder.new, GWfL]⟩
  obtain ⟨b', hr, hp⟩ := run_tree hcmp (.node k cs) (Builder.new c) hb hs hcap
  obtain ⟨gs, hk, hres⟩ := hp.kids
  simp only [Builder.new, List.nil_append] at hk
  -- exactly one element was pushed
  cases gs with
  | nil => simp [resolveL] at hres
  | cons g gs' =>
    cases gs' with
    | cons _ _ =>
      unfold resolveL at hres
      cases h1 : resolveG cfg b'.cache.interner g <;> simp [h1] at hres
      rename_i g2 gs2 t
      unfold resolveL at hres
      cases h2 : resolveG cfg b'.cache.interner g2 <;> cases h3 : resolveL cfg b'.cache.interner gs2 <;> simp [h2, h3] at hres
    | nil =>
      have hg : resolveG cfg b'.cache.interner g = some (.node k cs) := by
        unfold resolveL at hres
        cases h1 : resolveG cfg b'.cache.interner g with
        | none => simp [h1] at hres
        | some t => simp [h1, resolveL] at hres; rw [hres]
      have hnode : g.isNode = true := by
        cases g with
        | tok _ _ key _ => cases key <;> simp [resolveG] at hg
        | node _ _ _ _ _ => rfl
      have hw : GWf cfg b'.cache.interner g := by
        have := hp.inv.kids; rw [hk] at this; exact this.1
      obtain ⟨t, ht, hl⟩ := resolve_of_GWf g hw
      rw [hg] at ht; cases ht
      refine ⟨g, b'.cache, ?_, hg, hl, hp.inv.cache, hp.pre⟩
      simp [build, hr, Builder.finish, hk, hnode]

/-- the texts fed in by the events of a tree concatenate to the tree's text -/
theorem evTexts_events (cfg : Cfg) : (t : Tree) → (evTexts cfg t.events).flatten = t.text := by
  intro t
  exact (aux cfg t).1
where
  aux (cfg : Cfg) : (t : Tree) → ((evTexts cfg t.events).flatten = t.text) ∧ True
    | .tok k s => by simp [Tree.events, evTexts, Tree.text]
    | .node k cs => by
      refine ⟨?_, trivial⟩
      simp only [Tree.events, evTexts, Tree.text]
      rw [evTexts_append, List.flatten_append]
      simp [evTexts, auxL cfg cs]
  auxL (cfg : Cfg) : (ts : List Tree) → (evTexts cfg (Tree.eventsL ts)).flatten = Tree.textL ts
    | [] => by simp [Tree.eventsL, evTexts, Tree.textL]
    | t :: ts => by
      simp only [Tree.eventsL, Tree.textL]
      rw [evTexts_append, List.flatten_append, (aux cfg t).1, auxL cfg ts]
  evTexts_append (cfg : Cfg) (xs ys : List Ev) : evTexts cfg (xs ++ ys) = evTexts cfg xs ++ evTexts cfg ys := by
    induction xs with
    | nil => rfl
    | cons e es ih => cases e <;> simp [evTexts, ih]

/-- **Losslessness.** The concatenated text of the built tree equals the concatenation of the token
    texts fed in, and the root's stored length is its byte length. -/
theorem build_text (cfg : Cfg) (hcmp : cfg.cmpChildren = true) (c : Cache) (hc : CacheInv cfg c)
    (k : Nat) (cs : List Tree) (hs : StaticOk cfg (.node k cs))
    (hcap : c.interner.strs.length + (Tree.node k cs).nTokens ≤ c.interner.cap) :
    ∃ g c' t, build cfg c (Tree.node k cs).events = .ok (g, c') ∧ resolveG cfg c'.interner g = some t ∧
      t.text = (evTexts cfg (Tree.node k cs).events).flatten ∧
      g.len = blen (evTexts cfg (Tree.node k cs).events).flatten := by
  obtain ⟨g, c', hb, hr, hl, _, _⟩ := build_faithful cfg hcmp c hc k cs hs hcap
  exact ⟨g, c', _, hb, hr, (evTexts_events cfg _).symm, by rw [evTexts_events]; exact hl⟩

/-- adding a static-kind token by kind alone or together with its (static) text is the same
    operation -/
theorem static_two_ways (cfg : Cfg) (b : Builder) (k : Nat) (st : Text) (h : cfg.staticText k = some st) :
    b.token cfg k st = b.staticToken cfg k := by
  simp [Builder.token, Builder.staticToken, h]

/-- the configuration the driver runs: extracted threshold / comparison flag, real Fx hash under any
    mask, any static table, either build profile -/
def implCfg (statics : List (Nat × Text)) (mask : UInt32) (debug : Bool) : Cfg :=
  { statics := statics, H := fxChildHash mask, threshold := SourceFacts.childrenCacheThreshold,
    cmpChildren := SourceFacts.nodeCacheComparesChildren, debug := debug }

/-- **Instantiation** with the facts extracted from the current source: the node cache compares
    children on a hit, so faithfulness holds for the implementation's configuration — from an empty
    cache over a fresh interner, for every static table, hash mask and build profile. -/
theorem build_faithful_impl (statics : List (Nat × Text)) (mask : UInt32) (debug : Bool) (cap : Nat)
    (k : Nat) (cs : List Tree) (hs : StaticOk (implCfg statics mask debug) (.node k cs))
    (hcap : (Tree.node k cs).nTokens ≤ cap) :
    ∃ g c', build (implCfg statics mask debug) (Cache.empty (Interner.empty cap)) (Tree.node k cs).events = .ok (g, c') ∧
      resolveG (implCfg statics mask debug) c'.interner g = some (.node k cs) ∧
      g.len = blen (Tree.node k cs).text := by
  obtain ⟨g, c', h1, h2, h3, _, _⟩ :=
    build_faithful (implCfg statics mask debug) (by show SourceFacts.nodeCacheComparesChildren = true; decide) (Cache.empty (Interner.empty cap))
      (CacheInv.empty _ _) k cs hs (by simpa [Cache.empty, Interner.empty] using hcap)
  exact ⟨g, c', h1, h2, h3⟩

/-- A real 32-bit collision of the child hash (Fx model, no mask): two *different* one-token child
    lists with the same length — the reason a node-cache hit has to compare children. -/
theorem collision_witness :
    fxChildHash 0xFFFFFFFF [Green.tok 0 4 (some 0) 2] = fxChildHash 0xFFFFFFFF [Green.tok 1 568332233 (some 3) 2] := by
  decide

/-- the comparison is **necessary**: with a head-only lookup (`cmpChildren = false`) and colliding
    hashes the builder merges two different nodes — the built tree is not the events' tree. -/
theorem unfaithful_without_compare :
    let cfg : Cfg := { statics := [], H := fun _ => 0, threshold := 3, cmpChildren := false, debug := false }
    let t : Tree := .node 0 [.node 5 [.tok 4 ['a']], .node 5 [.tok 4 ['b']]]
    (match build cfg (Cache.empty (Interner.empty 10)) t.events with
     | .ok (g, c') => (resolveG cfg c'.interner g).map (Tree.beq t)
     | .error _ => none) = some false := by
  decide +kernel

/-! ### non-vacuity: the hypotheses are met by a concrete non-trivial tree, and the conclusion is
    observable by evaluation -/
example : StaticOk (implCfg [(12, ['+'])] 3 true) (.node 0 [.tok 12 ['+'], .node 1 [], .tok 10 ['é']]) := by
  simp [StaticOk, StaticOkL, StaticOkTok, implCfg, Cfg.staticText, List.lookup]
example :
    let cfg : Cfg := { statics := [], H := fun _ => 0, threshold := 3, cmpChildren := true, debug := false }
    let t : Tree := .node 0 [.node 5 [.tok 4 ['a']], .node 5 [.tok 4 ['b']]]
    (match build cfg (Cache.empty (Interner.empty 10)) t.events with
     | .ok (g, c') => (resolveG cfg c'.interner g).map (Tree.beq t)
     | .error _ => none) = some true := by
  decide +kernel

end Cst.C01
