/-
  C04 — Sharing through the node cache is transparent and effective.

  Transparency over *histories*: any number of trees built one after the other through one
  long-lived cache and interner each resolve to their own events' tree, and every earlier tree
  keeps resolving to the same tree afterwards (green values are immutable; the interner only
  grows).  Effectiveness: a token / small node that is offered again is answered from the cache
  with the very same allocation (ghost id).  "Never merged" is the faithfulness of C01, which
  holds for every hash function, i.e. also when heads collide.
-/
import CstModel.Props.C01
import CstModel.Props.C15
import CstModel.Proofs.Owner
namespace Cst.C04

/-- build a list of trees one after the other through one cache; `none` if some build panics -/
def buildMany (cfg : Cfg) (c : Cache) : List Tree → Option (List Green × Cache)
  | [] => some ([], c)
  | t :: ts =>
    match build cfg c t.events with
    | .ok (g, c') =>
      match buildMany cfg c' ts with
      | some (gs, c'') => some (g :: gs, c'')
      | none => none
    | .error _ => none

def totalTokens : List Tree → Nat
  | [] => 0
  | t :: ts => t.nTokens + totalTokens ts

def AllRootsOk (cfg : Cfg) : List Tree → Prop
  | [] => True
  | t :: ts => (∃ k cs, t = .node k cs) ∧ StaticOk cfg t ∧ AllRootsOk cfg ts

/-- **Transparency for every history.** Through any invariant-respecting cache (e.g. one that has
    already been used for any number of other trees), each tree of a history comes out equal in
    structure, kinds and text to its events — and is still that tree *after all later builds*
    (resolution in the final interner): earlier trees are never altered. -/
theorem history_transparent (cfg : Cfg) (hcmp : cfg.cmpChildren = true) :
    (ts : List Tree) → (c : Cache) → CacheInv cfg c → AllRootsOk cfg ts →
    c.interner.strs.length + totalTokens ts ≤ c.interner.cap →
    ∃ gs c', buildMany cfg c ts = some (gs, c') ∧ CacheInv cfg c' ∧
      c.interner.strs <+: c'.interner.strs ∧ c'.interner.cap = c.interner.cap ∧
      resolveL cfg c'.interner gs = some ts
  | [], c, hc, _, _ => ⟨[], c, rfl, hc, List.prefix_refl _, rfl, by simp [resolveL]⟩
  | t :: ts, c, hc, hok, hcap => by
    obtain ⟨⟨k, cs, rfl⟩, hs, hrest⟩ := hok
    simp only [totalTokens] at hcap
    obtain ⟨g, c1, hb, hr, _, hc1, hp1, hcap1, hgrow⟩ := build_faithful' cfg hcmp c hc k cs hs (by omega)
    obtain ⟨gs, c2, hm, hc2, hp2, hcap2, hr2⟩ := history_transparent cfg hcmp ts c1 hc1 hrest (by omega)
    refine ⟨g :: gs, c2, ?_, hc2, List.IsPrefix.trans hp1 hp2, hcap2.trans hcap1, ?_⟩
    · simp [buildMany, hb, hm]
    · simp [resolveL, resolveG_mono hp2 g _ hr, hr2]
where
  /-- `C01.build_faithful` with the growth bound of the interner made explicit -/
  build_faithful' (cfg : Cfg) (hcmp : cfg.cmpChildren = true) (c : Cache) (hc : CacheInv cfg c)
      (k : Nat) (cs : List Tree) (hs : StaticOk cfg (.node k cs))
      (hcap : c.interner.strs.length + (Tree.node k cs).nTokens ≤ c.interner.cap) :
      ∃ g c', build cfg c (Tree.node k cs).events = .ok (g, c') ∧
        resolveG cfg c'.interner g = some (.node k cs) ∧ g.len = blen (Tree.node k cs).text ∧
        CacheInv cfg c' ∧ c.interner.strs <+: c'.interner.strs ∧ c'.interner.cap = c.interner.cap ∧
        c'.interner.strs.length ≤ c.interner.strs.length + (Tree.node k cs).nTokens := by
    have hb : BInv cfg (Builder.new c) := ⟨hc, by simp [Builder.new, GWfL]⟩
    obtain ⟨b', hr, hp⟩ := run_tree hcmp (.node k cs) (Builder.new c) hb hs hcap
    obtain ⟨g, c', h1, h2, h3, h4, h5⟩ := C01.build_faithful cfg hcmp c hc k cs hs hcap
    have : c' = b'.cache := by
      simp only [build, hr] at h1
      unfold Builder.finish at h1
      split at h1
      · split at h1
        · cases h1; rfl
        · cases h1
      · cases h1
    subst this
    exact ⟨g, b'.cache, h1, h2, h3, h4, h5, hp.cap, hp.grow⟩

/-- a fresh cache gives the same tree as a used one: both resolve to the events' tree -/
theorem fresh_vs_shared (cfg : Cfg) (hcmp : cfg.cmpChildren = true) (c : Cache) (hc : CacheInv cfg c)
    (k : Nat) (cs : List Tree) (hs : StaticOk cfg (.node k cs)) (cap : Nat)
    (hcap : c.interner.strs.length + (Tree.node k cs).nTokens ≤ c.interner.cap)
    (hcap' : (Tree.node k cs).nTokens ≤ cap) :
    ∃ g1 c1 g2 c2, build cfg c (Tree.node k cs).events = .ok (g1, c1) ∧
      build cfg (Cache.empty (Interner.empty cap)) (Tree.node k cs).events = .ok (g2, c2) ∧
      resolveG cfg c1.interner g1 = resolveG cfg c2.interner g2 := by
  obtain ⟨g1, c1, h1, r1, _⟩ := C01.build_faithful cfg hcmp c hc k cs hs hcap
  obtain ⟨g2, c2, h2, r2, _⟩ := C01.build_faithful cfg hcmp (Cache.empty (Interner.empty cap))
    (CacheInv.empty _ _) k cs hs (by simpa [Cache.empty, Interner.empty] using hcap')
  exact ⟨g1, c1, g2, c2, h1, h2, by rw [r1, r2]⟩

/-! ### effectiveness: the cache answers a repeated request with the same allocation -/

/-- a token offered again (same kind, key, length) is the very same allocation -/
theorem token_shared (c : Cache) (d : TokData) :
    ((c.token d).2.token d).1 = (c.token d).1 ∧ ((c.token d).2.token d).2 = (c.token d).2 := by
  cases h : c.toks.lookup d with
  | some g =>
    have e : c.token d = (g, c) := by simp [Cache.token, h]
    rw [e]; simp only; rw [e]; exact ⟨rfl, rfl⟩
  | none =>
    have e : c.token d = (Green.tok c.nextId d.1 d.2.1 d.2.2,
        { c with toks := (d, Green.tok c.nextId d.1 d.2.1 d.2.2) :: c.toks, nextId := c.nextId + 1 }) := by
      simp [Cache.token, h]
    rw [e]; simp only
    have e2 : Cache.token { c with toks := (d, Green.tok c.nextId d.1 d.2.1 d.2.2) :: c.toks, nextId := c.nextId + 1 } d
        = (Green.tok c.nextId d.1 d.2.1 d.2.2, { c with toks := (d, Green.tok c.nextId d.1 d.2.1 d.2.2) :: c.toks, nextId := c.nextId + 1 }) := by
      simp [Cache.token]
    rw [e2]; exact ⟨rfl, rfl⟩

/-- token entries are never rebound or dropped by later token requests -/
theorem token_entry_stable (c : Cache) (d d' : TokData) (g : Green) (h : c.toks.lookup d = some g) :
    (c.token d').2.toks.lookup d = some g := by
  unfold Cache.token
  split
  · exact h
  · rename_i hn
    simp only [List.lookup_cons]
    by_cases e : d == d'
    · have := eq_of_beq e; subst this; rw [h] at hn; cases hn
    · simp [e, h]

/-- node requests do not touch the token cache -/
theorem node_keeps_tokens (cfg : Cfg) (c : Cache) (k : Nat) (cs : List Green) :
    (c.node cfg k cs).2.toks = c.toks := by
  unfold Cache.node
  simp only
  split
  · split <;> rfl
  · rfl

mutual
theorem beq_refl : (g : Green) → Green.beq g g = true
  | .tok _ _ _ _ => by simp [Green.beq]
  | .node _ _ _ _ cs => by simp [Green.beq, beqL_refl cs]
theorem beqL_refl : (gs : List Green) → Green.beqL gs gs = true
  | [] => rfl
  | g :: gs => by simp [Green.beqL, beq_refl g, beqL_refl gs]
end

/-- a small node offered again with the same children is the very same allocation, and the cache
    does not grow -/
theorem node_shared (cfg : Cfg) (c : Cache) (k : Nat) (cs : List Green) (hsmall : cs.length ≤ cfg.threshold) :
    ((c.node cfg k cs).2.node cfg k cs).1 = (c.node cfg k cs).1 ∧
    ((c.node cfg k cs).2.node cfg k cs).2 = (c.node cfg k cs).2 := by
  have key : ∀ c : Cache, ∀ e, c.nodes.find? (fun e => e.1 == (k, sumLen cs, cfg.H cs) && (!cfg.cmpChildren || Green.beqL e.2.children cs)) = some e →
      c.node cfg k cs = (e.2, c) := by
    intro c e h
    unfold Cache.node
    simp [hsmall, h]
  cases hf : c.nodes.find? (fun e => e.1 == (k, sumLen cs, cfg.H cs) && (!cfg.cmpChildren || Green.beqL e.2.children cs)) with
  | some e =>
    rw [key c e hf]; simp only; rw [key c e hf]; exact ⟨rfl, rfl⟩
  | none =>
    have h1 : c.node cfg k cs = (Green.node c.nextId k (sumLen cs) (cfg.H cs) cs,
        { c with nodes := ((k, sumLen cs, cfg.H cs), Green.node c.nextId k (sumLen cs) (cfg.H cs) cs) :: c.nodes, nextId := c.nextId + 1 }) := by
      unfold Cache.node
      simp [hsmall, hf]
    rw [h1]; simp only
    have := key { c with nodes := ((k, sumLen cs, cfg.H cs), Green.node c.nextId k (sumLen cs) (cfg.H cs) cs) :: c.nodes, nextId := c.nextId + 1 }
      ((k, sumLen cs, cfg.H cs), Green.node c.nextId k (sumLen cs) (cfg.H cs) cs)
      (by simp [List.find?, Green.children, beqL_refl])
    rw [this]; exact ⟨rfl, rfl⟩

/-! ### node entries are unique and stay: "stored once" for the whole history -/

mutual
theorem beq_symm : (a b : Green) → Green.beq a b = true → Green.beq b a = true
  | .tok _ _ _ _, .tok _ _ _ _, h => by
    simp only [Green.beq, Bool.and_eq_true, beq_iff_eq] at h ⊢
    exact ⟨⟨h.1.1.symm, h.1.2.symm⟩, h.2.symm⟩
  | .node _ _ _ _ cs1, .node _ _ _ _ cs2, h => by
    simp only [Green.beq, Bool.and_eq_true, beq_iff_eq] at h ⊢
    exact ⟨⟨⟨h.1.1.1.symm, h.1.1.2.symm⟩, h.1.2.symm⟩, beqL_symm cs1 cs2 h.2⟩
  | .tok .., .node .., h => by simp [Green.beq] at h
  | .node .., .tok .., h => by simp [Green.beq] at h
theorem beqL_symm : (as bs : List Green) → Green.beqL as bs = true → Green.beqL bs as = true
  | [], [], _ => rfl
  | a :: as, b :: bs, h => by
    simp only [Green.beqL, Bool.and_eq_true] at h ⊢
    exact ⟨beq_symm a b h.1, beqL_symm as bs h.2⟩
  | [], _ :: _, h => by simp [Green.beqL] at h
  | _ :: _, [], h => by simp [Green.beqL] at h
end

mutual
theorem beq_trans : (a b c : Green) → Green.beq a b = true → Green.beq b c = true → Green.beq a c = true
  | .tok _ _ _ _, .tok _ _ _ _, .tok _ _ _ _, h1, h2 => by
    simp only [Green.beq, Bool.and_eq_true, beq_iff_eq] at h1 h2 ⊢
    exact ⟨⟨h1.1.1.trans h2.1.1, h1.1.2.trans h2.1.2⟩, h1.2.trans h2.2⟩
  | .node _ _ _ _ cs1, .node _ _ _ _ cs2, .node _ _ _ _ cs3, h1, h2 => by
    simp only [Green.beq, Bool.and_eq_true, beq_iff_eq] at h1 h2 ⊢
    exact ⟨⟨⟨h1.1.1.1.trans h2.1.1.1, h1.1.1.2.trans h2.1.1.2⟩, h1.1.2.trans h2.1.2⟩, beqL_trans cs1 cs2 cs3 h1.2 h2.2⟩
  | .tok .., .node .., _, h1, _ => by simp [Green.beq] at h1
  | .node .., .tok .., _, h1, _ => by simp [Green.beq] at h1
  | .tok .., .tok .., .node .., _, h2 => by simp [Green.beq] at h2
  | .node .., .node .., .tok .., _, h2 => by simp [Green.beq] at h2
theorem beqL_trans : (as bs cs : List Green) → Green.beqL as bs = true → Green.beqL bs cs = true → Green.beqL as cs = true
  | [], [], [], _, _ => rfl
  | a :: as, b :: bs, c :: cs, h1, h2 => by
    simp only [Green.beqL, Bool.and_eq_true] at h1 h2 ⊢
    exact ⟨beq_trans a b c h1.1 h2.1, beqL_trans as bs cs h1.2 h2.2⟩
  | [], _ :: _, _, h1, _ => by simp [Green.beqL] at h1
  | _ :: _, [], _, h1, _ => by simp [Green.beqL] at h1
  | [], [], _ :: _, _, h2 => by simp [Green.beqL] at h2
  | _ :: _, _ :: _, [], _, h2 => by simp [Green.beqL] at h2
end

/-- two entries of the node cache never stand for the same small node -/
def NodeUniq (c : Cache) : Prop :=
  c.nodes.Pairwise (fun e1 e2 => ¬ (e1.1 = e2.1 ∧ Green.beqL e1.2.children e2.2.children = true))

theorem nodeUniq_empty (I : Interner) : NodeUniq (Cache.empty I) := by simp [NodeUniq, Cache.empty]

/-- the invariant survives every request (with the children comparison of the fixed code) -/
theorem nodeUniq_node (cfg : Cfg) (hcmp : cfg.cmpChildren = true) (c : Cache) (k : Nat) (cs : List Green)
    (h : NodeUniq c) : NodeUniq (c.node cfg k cs).2 := by
  unfold Cache.node
  simp only
  split
  · cases hf : c.nodes.find? (fun e => e.1 == (k, sumLen cs, cfg.H cs) && (!cfg.cmpChildren || Green.beqL e.2.children cs)) with
    | some e => exact h
    | none =>
      simp only [NodeUniq, List.pairwise_cons]
      refine ⟨?_, h⟩
      intro e he ⟨h1, h2⟩
      have := List.find?_eq_none.mp hf e he
      simp only [hcmp, Bool.not_true, Bool.false_or, Bool.and_eq_true, beq_iff_eq, not_and, Bool.not_eq_true] at this
      have hb : Green.beqL e.2.children cs = true := beqL_symm _ _ (by simpa [Green.children] using h2)
      rw [this h1.symm] at hb
      cases hb
  · exact h

theorem nodeUniq_token (c : Cache) (d : TokData) (h : NodeUniq c) : NodeUniq (c.token d).2 := by
  unfold Cache.token
  split <;> exact h

/-- requests only ever add entries -/
theorem node_entries_grow (cfg : Cfg) (c : Cache) (k : Nat) (cs : List Green) (e : Head × Green)
    (he : e ∈ c.nodes) : e ∈ (c.node cfg k cs).2.nodes := by
  unfold Cache.node
  simp only
  split
  · split
    · exact he
    · exact List.mem_cons_of_mem _ he
  · exact he

theorem token_keeps_nodes (c : Cache) (d : TokData) : (c.token d).2.nodes = c.nodes := by
  unfold Cache.token
  split <;> rfl

/-- what a request for a small node answers with is an entry of the cache afterwards -/
theorem node_answer_entry (cfg : Cfg) (hcmp : cfg.cmpChildren = true) (c : Cache) (k : Nat) (cs : List Green)
    (hsmall : cs.length ≤ cfg.threshold) :
    ((k, sumLen cs, cfg.H cs), (c.node cfg k cs).1) ∈ (c.node cfg k cs).2.nodes ∧
    Green.beqL (c.node cfg k cs).1.children cs = true := by
  unfold Cache.node
  simp only [hsmall, ↓reduceIte]
  cases hf : c.nodes.find? (fun e => e.1 == (k, sumLen cs, cfg.H cs) && (!cfg.cmpChildren || Green.beqL e.2.children cs)) with
  | some e =>
    have hp := List.find?_some hf
    simp only [hcmp, Bool.not_true, Bool.false_or, Bool.and_eq_true, beq_iff_eq] at hp
    have hm := List.mem_of_find?_eq_some hf
    simp only
    exact ⟨by rw [← hp.1]; exact hm, hp.2⟩
  | none =>
    simp only
    exact ⟨by simp, by simp [Green.children, beqL_refl]⟩

theorem find_unique {α : Type} (R : α → α → Prop) (p : α → Bool) (l : List α) (x : α)
    (hpw : l.Pairwise R) (hR : ∀ a b, p a = true → p b = true → ¬ R a b) (hx : x ∈ l) (hpx : p x = true) :
    l.find? p = some x := by
  induction l with
  | nil => cases hx
  | cons y ys ih =>
    rw [List.pairwise_cons] at hpw
    by_cases hpy : p y = true
    · simp only [List.find?_cons, hpy]
      simp only [List.mem_cons] at hx
      rcases hx with rfl | hx
      · rfl
      · exact absurd (hpw.1 x hx) (hR y x hpy hpx)
    · simp only [List.find?_cons, hpy]
      simp only [List.mem_cons] at hx
      rcases hx with rfl | hx
      · exact absurd hpx hpy
      · exact ih hpw.2 hx

/-- **stored once, for the whole history**: once a small node stands in the cache, *every* later request
    for a structurally equal small node of that kind — after any number of other requests, which only
    add entries and keep them unique — is answered with that very allocation, and the cache does not grow.
    (`hH`: structurally equal child lists hash equally — `C15.fx_respects` for the real hash.) -/
theorem node_entry_stable (cfg : Cfg) (hcmp : cfg.cmpChildren = true)
    (hH : ∀ a b, Green.beqL a b = true → cfg.H a = cfg.H b ∧ sumLen a = sumLen b)
    (c : Cache) (hu : NodeUniq c) (k : Nat) (g : Green) (cs0 cs : List Green)
    (hentry : ((k, sumLen cs0, cfg.H cs0), g) ∈ c.nodes) (hg : Green.beqL g.children cs0 = true)
    (heq : Green.beqL cs0 cs = true) (hsmall : cs.length ≤ cfg.threshold) :
    c.node cfg k cs = (g, c) := by
  obtain ⟨e1, e2⟩ := hH cs0 cs heq
  have hfind : c.nodes.find? (fun e => e.1 == (k, sumLen cs, cfg.H cs) && (!cfg.cmpChildren || Green.beqL e.2.children cs)) =
      some ((k, sumLen cs0, cfg.H cs0), g) := by
    apply find_unique (fun (e1 e2 : Head × Green) => ¬ (e1.1 = e2.1 ∧ Green.beqL e1.2.children e2.2.children = true)) _ c.nodes _ hu
    · intro a b ha hb hR
      simp only [hcmp, Bool.not_true, Bool.false_or, Bool.and_eq_true, beq_iff_eq] at ha hb
      exact hR ⟨ha.1.trans hb.1.symm, beqL_trans _ _ _ ha.2 (beqL_symm _ _ hb.2)⟩
    · exact hentry
    · simp only [hcmp, Bool.not_true, Bool.false_or, Bool.and_eq_true, beq_iff_eq]
      exact ⟨by rw [e1, e2], beqL_trans _ _ _ hg heq⟩
  unfold Cache.node
  simp [hsmall, hfind]

theorem len_of_beq : (a b : Green) → Green.beq a b = true → a.len = b.len
  | .tok _ _ _ _, .tok _ _ _ _, h => by
    simp only [Green.beq, Bool.and_eq_true, beq_iff_eq] at h; simp [Green.len, h.2]
  | .node _ _ _ _ _, .node _ _ _ _ _, h => by
    simp only [Green.beq, Bool.and_eq_true, beq_iff_eq] at h; simp [Green.len, h.1.1.2]
  | .tok .., .node .., h => by simp [Green.beq] at h
  | .node .., .tok .., h => by simp [Green.beq] at h

theorem sumLen_of_beqL : (as bs : List Green) → Green.beqL as bs = true → sumLen as = sumLen bs
  | [], [], _ => rfl
  | a :: as, b :: bs, h => by
    simp only [Green.beqL, Bool.and_eq_true] at h
    simp [sumLen, len_of_beq a b h.1, sumLen_of_beqL as bs h.2]
  | [], _ :: _, h => by simp [Green.beqL] at h
  | _ :: _, [], h => by simp [Green.beqL] at h

/-- the same for the implementation's hash (Fx over the children's words, under any mask) and the
    comparison the source makes (extracted) -/
theorem node_entry_stable_impl (mask : UInt32) (statics : List (Nat × Text)) (th : Nat) (dbg : Bool)
    (c : Cache) (hu : NodeUniq c) (k : Nat) (g : Green) (cs0 cs : List Green) :
    let cfg : Cfg := { statics := statics, H := fxChildHash mask, threshold := th,
                       cmpChildren := SourceFacts.nodeCacheComparesChildren, debug := dbg }
    ((k, sumLen cs0, cfg.H cs0), g) ∈ c.nodes → Green.beqL g.children cs0 = true →
    Green.beqL cs0 cs = true → cs.length ≤ cfg.threshold → c.node cfg k cs = (g, c) := by
  intro cfg h1 h2 h3 h4
  have hc : SourceFacts.nodeCacheComparesChildren = true := by decide
  exact node_entry_stable cfg hc (fun a b hab => ⟨C15.fx_respects mask a b hab, sumLen_of_beqL a b hab⟩)
    c hu k g cs0 cs h1 h2 h3 h4

/-- nodes above the threshold are never entered into the cache -/
theorem big_node_not_cached (cfg : Cfg) (c : Cache) (k : Nat) (cs : List Green) (hbig : cfg.threshold < cs.length) :
    (c.node cfg k cs).2.nodes = c.nodes ∧ (c.node cfg k cs).1.id = c.nextId := by
  unfold Cache.node
  have : ¬ cs.length ≤ cfg.threshold := by omega
  simp [this, Cache.freshNode, Green.id]

/-- the extracted threshold is the documented one (small nodes = at most three children) -/
theorem threshold_fact : SourceFacts.childrenCacheThreshold = 3 := by decide

/-! ### non-vacuity -/
example :
    let cfg : Cfg := { statics := [(12, ['+'])], H := fun _ => 7, threshold := 3, cmpChildren := true, debug := false }
    (match buildMany cfg (Cache.empty (Interner.empty 10))
        [.node 0 [.node 5 [.tok 4 ['a']], .tok 12 ['+']], .node 0 [.node 5 [.tok 4 ['b']]], .node 5 [.tok 4 ['a']]] with
     | some (gs, c') => (resolveL cfg c'.interner gs).map (fun ts => ts.length)
     | none => none) = some 3 := by
  decide +kernel


/-! ### the four ways of giving a builder its cache (`Model/Owner`)

`with_cache` (borrowed cache), `from_cache` (owned cache), `with_interner` (fresh cache over a borrowed interner),
`from_interner` (fresh cache over an owned interner).  Sharing is *transparent* whichever route is taken, the cache
comes back from `finish` exactly when the builder owned it, and what a borrowed cache has learnt is what an owned
one would have been handed back with. -/

/-- `finish` returns the cache iff the builder owned it; otherwise the lender sees it; the interner can be taken out
    of the returned cache iff that cache owns it -/
theorem finish_returns_cache_iff_owned (cfg : Cfg) (r : Route) (c : Cache) (evs : List Ev) (o : Outcome)
    (h : buildVia cfg r c evs = .ok o) :
    (o.returned.isSome ↔ r ≠ .withCache) ∧ (o.lentCache.isSome ↔ r = .withCache) ∧
    (o.lentInterner.isSome ↔ r = .withInterner) ∧ (o.intoInterner.isSome ↔ (r = .fromCache ∨ r = .fromInterner)) := by
  unfold buildVia at h
  cases hb : build cfg (r.start c) evs with
  | error p => simp [hb] at h
  | ok gc =>
    obtain ⟨g, c'⟩ := gc
    simp [hb] at h
    subst h
    cases r <;> simp [Route.ownsCache, Route.ownsInterner]

/-- **transparency on every route**: for every tree, through any of the four constructors, from any
    invariant-respecting cache, the build succeeds, the finished tree resolves — through the interner the caller holds
    afterwards — to exactly the events' tree, and the cache the caller keeps is again a good one over an interner that
    only grew -/
theorem via_faithful (cfg : Cfg) (hcmp : cfg.cmpChildren = true) (r : Route) (c : Cache) (hc : CacheInv cfg c)
    (k : Nat) (cs : List Tree) (hs : StaticOk cfg (.node k cs))
    (hcap : c.interner.strs.length + (Tree.node k cs).nTokens ≤ c.interner.cap) :
    ∃ o, buildVia cfg r c (Tree.node k cs).events = .ok o ∧
      resolveG cfg (o.slotAfter r c).interner o.tree = some (.node k cs) ∧
      o.tree.len = blen (Tree.node k cs).text ∧
      CacheInv cfg (o.slotAfter r c) ∧ c.interner.strs <+: (o.slotAfter r c).interner.strs := by
  have hcap' : (r.start c).interner.strs.length + (Tree.node k cs).nTokens ≤ (r.start c).interner.cap := by
    rw [Route.start_interner]; exact hcap
  obtain ⟨g, c', hb, hres, hlen, hinv, hpre⟩ := C01.build_faithful cfg hcmp (r.start c) (r.start_inv hc) k cs hs hcap'
  rw [Route.start_interner] at hpre
  have hv : buildVia cfg r c (Tree.node k cs).events = .ok
      { tree := g, returned := if r.ownsCache then some c' else none, lentCache := if r.ownsCache then none else some c',
        lentInterner := if r == .withInterner then some c'.interner else none,
        intoInterner := if r.ownsCache && r.ownsInterner then some c'.interner else none } := by
    simp [buildVia, hb]
  refine ⟨_, hv, ?_⟩
  cases r <;> simp [Outcome.slotAfter, Route.ownsCache, hres, hlen, hinv, hpre, CacheInv.fresh]

/-- the routes cannot be told apart by the tree: any two of them, from any two good caches over interners with room,
    give trees that resolve to the same thing -/
theorem via_routes_agree (cfg : Cfg) (hcmp : cfg.cmpChildren = true) (r1 r2 : Route) (c1 c2 : Cache)
    (h1 : CacheInv cfg c1) (h2 : CacheInv cfg c2) (k : Nat) (cs : List Tree) (hs : StaticOk cfg (.node k cs))
    (hcap1 : c1.interner.strs.length + (Tree.node k cs).nTokens ≤ c1.interner.cap)
    (hcap2 : c2.interner.strs.length + (Tree.node k cs).nTokens ≤ c2.interner.cap) :
    ∃ o1 o2, buildVia cfg r1 c1 (Tree.node k cs).events = .ok o1 ∧ buildVia cfg r2 c2 (Tree.node k cs).events = .ok o2 ∧
      resolveG cfg (o1.slotAfter r1 c1).interner o1.tree = resolveG cfg (o2.slotAfter r2 c2).interner o2.tree := by
  obtain ⟨o1, a1, a2, _⟩ := via_faithful cfg hcmp r1 c1 h1 k cs hs hcap1
  obtain ⟨o2, b1, b2, _⟩ := via_faithful cfg hcmp r2 c2 h2 k cs hs hcap2
  exact ⟨o1, o2, a1, b1, by rw [a2, b2]⟩

/-- a lent cache learns exactly what an owned one is handed back with: same tree (same allocations), same cache -/
theorem with_cache_is_from_cache (cfg : Cfg) (c : Cache) (evs : List Ev) :
    (match buildVia cfg .withCache c evs, buildVia cfg .fromCache c evs with
     | .ok o1, .ok o2 => o1.tree = o2.tree ∧ o1.lentCache = o2.returned ∧ o1.slotAfter .withCache c = o2.slotAfter .fromCache c
     | .error p1, .error p2 => p1 = p2
     | _, _ => False) := by
  unfold buildVia
  simp only [Route.start]
  cases build cfg c evs with
  | error p => simp
  | ok gc => simp [Route.ownsCache, Outcome.slotAfter]

/-- after `with_interner` the build's cache is gone, but every string it interned stays resolvable: the slot is an empty
    cache over the grown interner — sharing starts afresh, nothing else is lost -/
theorem with_interner_forgets (cfg : Cfg) (c : Cache) (evs : List Ev) (o : Outcome)
    (h : buildVia cfg .withInterner c evs = .ok o) :
    (o.slotAfter .withInterner c).toks = [] ∧ (o.slotAfter .withInterner c).nodes = [] ∧
    o.lentInterner = some (o.slotAfter .withInterner c).interner := by
  unfold buildVia at h
  cases hb : build cfg (Route.start .withInterner c) evs with
  | error p => simp [hb] at h
  | ok gc =>
    simp [hb] at h
    subst h
    simp [Outcome.slotAfter, Cache.fresh, Route.ownsCache]

/-! non-vacuity: one tree through the routes from a cache that already knows its sub-tree -/
def ownerDemo : Bool :=
  let cfg : Cfg := { statics := [], H := fun _ => 0, threshold := 3, cmpChildren := true, debug := false }
  let evs : List Ev := [.start 0, .start 1, .tok 10 ['a'], .finish, .finish]
  match build cfg (Cache.empty (Interner.empty 10)) evs with
  | .ok (_, c) =>
    (match buildVia cfg .withCache c evs, buildVia cfg .withInterner c evs with
     | .ok o1, .ok o2 => o1.returned.isNone && o1.lentCache.isSome && o2.returned.isSome && o2.intoInterner.isNone &&
         o1.tree.id != o2.tree.id           -- the lent cache shared the old root, the fresh cache allocated anew
     | _, _ => false)
  | .error _ => false

example : ownerDemo = true := by decide +kernel

end Cst.C04
