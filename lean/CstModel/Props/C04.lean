/-
  C04 — Sharing through the node cache is transparent and effective.

  Transparency over *histories*: any number of trees built one after the other through one
  long-lived cache and interner each resolve to their own events' tree, and every earlier tree
  keeps resolving to the same tree afterwards (green values are immutable; the interner only
  grows).  Effectiveness: a token / small node that is offered again is answered from the cache
  with the very same allocation (ghost id).  "Never merged" is the faithfulness of C01, which
  holds for every hash function, i.e. also when heads collide.
-/
import CstModel.Props.C01
namespace Cst.C04

/-- build a list of trees one after the other through one cache; `none` if some build panics -/
def buildMany (cfg : Cfg) (c : Cache) : List Tree → Option (List Green × Cache)
  | [] => some ([], c)
  | t :: ts =>
    match build cfg c t.events with
    | .ok (g, c') =>
      match buildMany cfg c' ts with
      | some (gs, c'') => some (g :: gs, c'')
      | none => none
    | .error _ => none

def totalTokens : List Tree → Nat
  | [] => 0
  | t :: ts => t.nTokens + totalTokens ts

def AllRootsOk (cfg : Cfg) : List Tree → Prop
  | [] => True
  | t :: ts => (∃ k cs, t = .node k cs) ∧ StaticOk cfg t ∧ AllRootsOk cfg ts

/-- **Transparency for every history.** Through any invariant-respecting cache (e.g. one that has
    already been used for any number of other trees), each tree of a history comes out equal in
    structure, kinds and text to its events — and is still that tree *after all later builds*
    (resolution in the final interner): earlier trees are never altered. -/
theorem history_transparent (cfg : Cfg) (hcmp : cfg.cmpChildren = true) :
    (ts : List Tree) → (c : Cache) → CacheInv cfg c → AllRootsOk cfg ts →
    c.interner.strs.length + totalTokens ts ≤ c.interner.cap →
    ∃ gs c', buildMany cfg c ts = some (gs, c') ∧ CacheInv cfg c' ∧
      c.interner.strs <+: c'.interner.strs ∧ c'.interner.cap = c.interner.cap ∧
      resolveL cfg c'.interner gs = some ts
  | [], c, hc, _, _ => ⟨[], c, rfl, hc, List.prefix_refl _, rfl, by simp [resolveL]⟩
  | t :: ts, c, hc, hok, hcap => by
    obtain ⟨⟨k, cs, rfl⟩, hs, hrest⟩ := hok
    simp only [totalTokens] at hcap
    obtain ⟨g, c1, hb, hr, _, hc1, hp1, hcap1, hgrow⟩ := build_faithful' cfg hcmp c hc k cs hs (by omega)
    obtain ⟨gs, c2, hm, hc2, hp2, hcap2, hr2⟩ := history_transparent cfg hcmp ts c1 hc1 hrest (by omega)
    refine ⟨g :: gs, c2, ?_, hc2, List.IsPrefix.trans hp1 hp2, hcap2.trans hcap1, ?_⟩
    · simp [buildMany, hb, hm]
    · simp [resolveL, resolveG_mono hp2 g _ hr, hr2]
where
  /-- `C01.build_faithful` with the growth bound of the interner made explicit -/
  build_faithful' (cfg : Cfg) (hcmp : cfg.cmpChildren = true) (c : Cache) (hc : CacheInv cfg c)
      (k : Nat) (cs : List Tree) (hs : StaticOk cfg (.node k cs))
      (hcap : c.interner.strs.length + (Tree.node k cs).nTokens ≤ c.interner.cap) :
      ∃ g c', build cfg c (Tree.node k cs).events = .ok (g, c') ∧
        resolveG cfg c'.interner g = some (.node k cs) ∧ g.len = blen (Tree.node k cs).text ∧
        CacheInv cfg c' ∧ c.interner.strs <+: c'.interner.strs ∧ c'.interner.cap = c.interner.cap ∧
        c'.interner.strs.length ≤ c.interner.strs.length + (Tree.node k cs).nTokens := by
    have hb : BInv cfg (Builder.new c) := ⟨hc, by simp [Builder.new, GWfL]⟩
    obtain ⟨b', hr, hp⟩ := run_tree hcmp (.node k cs) (Builder.new c) hb hs hcap
    obtain ⟨g, c', h1, h2, h3, h4, h5⟩ := C01.build_faithful cfg hcmp c hc k cs hs hcap
    have : c' = b'.cache := by
      simp only [build, hr] at h1
      unfold Builder.finish at h1
      split at h1
      · split at h1
        · cases h1; rfl
        · cases h1
      · cases h1
    subst this
    exact ⟨g, b'.cache, h1, h2, h3, h4, h5, hp.cap, hp.grow⟩

/-- a fresh cache gives the same tree as a used one: both resolve to the events' tree -/
theorem fresh_vs_shared (cfg : Cfg) (hcmp : cfg.cmpChildren = true) (c : Cache) (hc : CacheInv cfg c)
    (k : Nat) (cs : List Tree) (hs : StaticOk cfg (.node k cs)) (cap : Nat)
    (hcap : c.interner.strs.length + (Tree.node k cs).nTokens ≤ c.interner.cap)
    (hcap' : (Tree.node k cs).nTokens ≤ cap) :
    ∃ g1 c1 g2 c2, build cfg c (Tree.node k cs).events = .ok (g1, c1) ∧
      build cfg (Cache.empty (Interner.empty cap)) (Tree.node k cs).events = .ok (g2, c2) ∧
      resolveG cfg c1.interner g1 = resolveG cfg c2.interner g2 := by
  obtain ⟨g1, c1, h1, r1, _⟩ := C01.build_faithful cfg hcmp c hc k cs hs hcap
  obtain ⟨g2, c2, h2, r2, _⟩ := C01.build_faithful cfg hcmp (Cache.empty (Interner.empty cap))
    (CacheInv.empty _ _) k cs hs (by simpa [Cache.empty, Interner.empty] using hcap')
  exact ⟨g1, c1, g2, c2, h1, h2, by rw [r1, r2]⟩

/-! ### effectiveness: the cache answers a repeated request with the same allocation -/

/-- a token offered again (same kind, key, length) is the very same allocation -/
theorem token_shared (c : Cache) (d : TokData) :
    ((c.token d).2.token d).1 = (c.token d).1 ∧ ((c.token d).2.token d).2 = (c.token d).2 := by
  cases h : c.toks.lookup d with
  | some g =>
    have e : c.token d = (g, c) := by simp [Cache.token, h]
    rw [e]; simp only; rw [e]; exact ⟨rfl, rfl⟩
  | none =>
    have e : c.token d = (Green.tok c.nextId d.1 d.2.1 d.2.2,
        { c with toks := (d, Green.tok c.nextId d.1 d.2.1 d.2.2) :: c.toks, nextId := c.nextId + 1 }) := by
      simp [Cache.token, h]
    rw [e]; simp only
    have e2 : Cache.token { c with toks := (d, Green.tok c.nextId d.1 d.2.1 d.2.2) :: c.toks, nextId := c.nextId + 1 } d
        = (Green.tok c.nextId d.1 d.2.1 d.2.2, { c with toks := (d, Green.tok c.nextId d.1 d.2.1 d.2.2) :: c.toks, nextId := c.nextId + 1 }) := by
      simp [Cache.token]
    rw [e2]; exact ⟨rfl, rfl⟩

/-- token entries are never rebound or dropped by later token requests -/
theorem token_entry_stable (c : Cache) (d d' : TokData) (g : Green) (h : c.toks.lookup d = some g) :
    (c.token d').2.toks.lookup d = some g := by
  unfold Cache.token
  split
  · exact h
  · rename_i hn
    simp only [List.lookup_cons]
    by_cases e : d == d'
    · have := eq_of_beq e; subst this; rw [h] at hn; cases hn
    · simp [e, h]

/-- node requests do not touch the token cache -/
theorem node_keeps_tokens (cfg : Cfg) (c : Cache) (k : Nat) (cs : List Green) :
    (c.node cfg k cs).2.toks = c.toks := by
  unfold Cache.node
  simp only
  split
  · split <;> rfl
  · rfl

mutual
theorem beq_refl : (g : Green) → Green.beq g g = true
  | .tok _ _ _ _ => by simp [Green.beq]
  | .node _ _ _ _ cs => by simp [Green.beq, beqL_refl cs]
theorem beqL_refl : (gs : List Green) → Green.beqL gs gs = true
  | [] => rfl
  | g :: gs => by simp [Green.beqL, beq_refl g, beqL_refl gs]
end

/-- a small node offered again with the same children is the very same allocation, and the cache
    does not grow -/
theorem node_shared (cfg : Cfg) (c : Cache) (k : Nat) (cs : List Green) (hsmall : cs.length ≤ cfg.threshold) :
    ((c.node cfg k cs).2.node cfg k cs).1 = (c.node cfg k cs).1 ∧
    ((c.node cfg k cs).2.node cfg k cs).2 = (c.node cfg k cs).2 := by
  have key : ∀ c : Cache, ∀ e, c.nodes.find? (fun e => e.1 == (k, sumLen cs, cfg.H cs) && (!cfg.cmpChildren || Green.beqL e.2.children cs)) = some e →
      c.node cfg k cs = (e.2, c) := by
    intro c e h
    unfold Cache.node
    simp [hsmall, h]
  cases hf : c.nodes.find? (fun e => e.1 == (k, sumLen cs, cfg.H cs) && (!cfg.cmpChildren || Green.beqL e.2.children cs)) with
  | some e =>
    rw [key c e hf]; simp only; rw [key c e hf]; exact ⟨rfl, rfl⟩
  | none =>
    have h1 : c.node cfg k cs = (Green.node c.nextId k (sumLen cs) (cfg.H cs) cs,
        { c with nodes := ((k, sumLen cs, cfg.H cs), Green.node c.nextId k (sumLen cs) (cfg.H cs) cs) :: c.nodes, nextId := c.nextId + 1 }) := by
      unfold Cache.node
      simp [hsmall, hf]
    rw [h1]; simp only
    have := key { c with nodes := ((k, sumLen cs, cfg.H cs), Green.node c.nextId k (sumLen cs) (cfg.H cs) cs) :: c.nodes, nextId := c.nextId + 1 }
      ((k, sumLen cs, cfg.H cs), Green.node c.nextId k (sumLen cs) (cfg.H cs) cs)
      (by simp [List.find?, Green.children, beqL_refl])
    rw [this]; exact ⟨rfl, rfl⟩

/-- nodes above the threshold are never entered into the cache -/
theorem big_node_not_cached (cfg : Cfg) (c : Cache) (k : Nat) (cs : List Green) (hbig : cfg.threshold < cs.length) :
    (c.node cfg k cs).2.nodes = c.nodes ∧ (c.node cfg k cs).1.id = c.nextId := by
  unfold Cache.node
  have : ¬ cs.length ≤ cfg.threshold := by omega
  simp [this, Cache.freshNode, Green.id]

/-- the extracted threshold is the documented one (small nodes = at most three children) -/
theorem threshold_fact : SourceFacts.childrenCacheThreshold = 3 := by decide

/-! ### non-vacuity -/
example :
    let cfg : Cfg := { statics := [(12, ['+'])], H := fun _ => 7, threshold := 3, cmpChildren := true, debug := false }
    (match buildMany cfg (Cache.empty (Interner.empty 10))
        [.node 0 [.node 5 [.tok 4 ['a']], .tok 12 ['+']], .node 0 [.node 5 [.tok 4 ['b']]], .node 5 [.tok 4 ['a']]] with
     | some (gs, c') => (resolveL cfg c'.interner gs).map (fun ts => ts.length)
     | none => none) = some 3 := by
  decide +kernel

end Cst.C04
