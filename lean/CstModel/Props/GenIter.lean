/-
  Props/GenIter — the shared core of the red child iterators (`Iter` in `syntax/iter.rs`) as transcribed: it starts at the
  parent's own start offset with index 0, and each `next` hands out the green child together with *the index and the offset
  it had before*, then moves the offset on by that child's stored length and the index by one.  Hence the offset handed out
  with child `i` is the parent's start plus the lengths of children `0 … i−1` — the prefix sum that `RInv` / `history_canonical`
  (C02) say every red element carries, whichever route creates it (C03: the iterators visit the children in order).
-/
import CstModel.Generated.RsFns
import CstModel.Proofs.KernelRfl
namespace Cst
namespace Gen
open Rs

def encIter (g : Val) (off idx : Nat) : Val :=
  .strct [(N.field.green, g), (N.field.offset, .nat off), (N.field.index, .nat idx)]

/-- the green child iterator `g` answers `next` with `nx` (an element and its stored length) and is `g'` afterwards -/
def iterSem (nx : Option (Val × Nat)) (g' : Val) (start : Nat) : Sem :=
  { Sem.none with meth := fun m recv args =>
      match recv, args with
      | .ctor 895 [], [] =>
        if m == N.next then .ok (vOpt (nx.map fun p => .ctor 896 [p.1, .nat p.2])) g' else .unknown
      | .ctor 896 [_, .nat l], [] => if m == N.text_len then .ok (.nat l) recv else .unknown
      | .atom 6, [] =>
        if m == N.text_range then .ok (.ctor 897 [.nat start]) recv
        else if m == N.green then .ok (.ctor 898 []) recv
        else .unknown
      | .ctor 897 [.nat s], [] => if m == N.start then .ok (.nat s) recv else .unknown
      | .ctor 898 [], [] => if m == N.children then .ok (.ctor 895 []) recv else .unknown
      | _, _ => .unknown }

/-- `Iter::new(parent)`: the parent's green children, the parent's start offset, index 0 -/
theorem it_new (nx : Option (Val × Nat)) (g' : Val) (start : Nat) :
    call (iterSem nx g' start) 30 Rs.Gen.it_new [.unit, .atom 6] (xs := []) =
      .val (encIter (.ctor 895 []) start 0) [] := by
  kernel_rfl

/-- `Iter::next`: nothing left → `None`, offset and index untouched; otherwise the child with the index and offset *before* the
    step, and the iterator moved on by the child's stored length and by one -/
theorem it_next (g' : Val) (start off idx : Nat) (e : Val) (l : Nat) :
    call (iterSem none g' start) 30 Rs.Gen.it_next [encIter (.ctor 895 []) off idx] =
      .val vNone [some (encIter g' off idx)]
    ∧ call (iterSem (some (e, l)) g' start) 30 Rs.Gen.it_next [encIter (.ctor 895 []) off idx] =
      .val (vSome (vTuple [.ctor 896 [e, .nat l], .nat idx, .nat off])) [some (encIter g' (off + l) (idx + 1))] :=
  ⟨by kernel_rfl, by kernel_rfl⟩

/-- the element iterator: its `inner` answers `next` with `nx`; the parent answers `get_or_add_element(g, i, o)` with `GOT(g, i, o)` -/
def ecSem (nx : Option (Val × Val × Val)) : Sem :=
  { Sem.none with
    call := fun f args => if f == N.Iter.new then (match args with | [p] => .ok (.ctor 899 [p]) .unit | _ => .unknown) else .unknown
    meth := fun m recv args =>
      match recv, args with
      | .ctor 899 [p], [] =>
        if m == N.next then .ok (vOpt (nx.map fun t => vTuple [t.1, t.2.1, t.2.2])) (.ctor 899 [p]) else .unknown
      | .atom 6, [g, i, o] => if m == N.get_or_add_element then .ok (.ctor 900 [g, i, o]) recv else .unknown
      | _, _ => .unknown }

/-- both child iterators are made of the shared core over the parent, and the parent -/
theorem children_new (nx : Option (Val × Val × Val)) :
    call (ecSem nx) 20 Rs.Gen.ec_new [.unit, .atom 6] (xs := []) =
      .val (.strct [(N.field.inner, .ctor 899 [.atom 6]), (N.field.parent, .atom 6)]) []
    ∧ call (ecSem nx) 20 Rs.Gen.nc_new [.unit, .atom 6] (xs := []) =
      .val (.strct [(N.field.inner, .ctor 899 [.atom 6]), (N.field.parent, .atom 6)]) [] :=
  ⟨by kernel_rfl, by kernel_rfl⟩

/-- `SyntaxElementChildren::next`: what the core hands out — green child, index, offset — goes unchanged and in this order to the
    parent's `get_or_add_element`, whose answer is the item -/
theorem ec_next (g i o : Val) :
    call (ecSem none) 30 Rs.Gen.ec_next [.strct [(N.field.inner, .ctor 899 [.atom 6]), (N.field.parent, .atom 6)]] (xs := []) = .val vNone []
    ∧ call (ecSem (some (g, i, o))) 30 Rs.Gen.ec_next [.strct [(N.field.inner, .ctor 899 [.atom 6]), (N.field.parent, .atom 6)]] (xs := []) =
      .val (vSome (.ctor 900 [g, i, o])) [] :=
  ⟨by kernel_rfl, by kernel_rfl⟩

end Gen
end Cst
