/-
  Props/GenIter — the shared core of the red child iterators (`Iter` in `syntax/iter.rs`) as transcribed: it starts at the
  parent's own start offset with index 0, and each `next` hands out the green child together with *the index and the offset
  it had before*, then moves the offset on by that child's stored length and the index by one.  Hence the offset handed out
  with child `i` is the parent's start plus the lengths of children `0 … i−1` — the prefix sum that `RInv` / `history_canonical`
  (C02) say every red element carries, whichever route creates it (C03: the iterators visit the children in order).
-/
import CstModel.Generated.RsFns
import CstModel.Proofs.KernelRfl
namespace Cst
namespace Gen
open Rs

def encIter (g : Val) (off idx : Nat) : Val :=
  .strct [(N.field.green, g), (N.field.offset, .nat off), (N.field.index, .nat idx)]

/-- the green child iterator `g` answers `next` with `nx` (an element and its stored length) and is `g'` afterwards -/
def iterSem (nx : Option (Val × Nat)) (g' : Val) (start : Nat) : Sem :=
  { Sem.none with meth := fun m recv args =>
      match recv, args with
      | .ctor 895 [], [] =>
        if m == N.next then .ok (vOpt (nx.map fun p => .ctor 896 [p.1, .nat p.2])) g' else .unknown
      | .ctor 896 [_, .nat l], [] => if m == N.text_len then .ok (.nat l) recv else .unknown
      | .atom 6, [] =>
        if m == N.text_range then .ok (.ctor 897 [.nat start]) recv
        else if m == N.green then .ok (.ctor 898 []) recv
        else .unknown
      | .ctor 897 [.nat s], [] => if m == N.start then .ok (.nat s) recv else .unknown
      | .ctor 898 [], [] => if m == N.children then .ok (.ctor 895 []) recv else .unknown
      | _, _ => .unknown }

/-- `Iter::new(parent)`: the parent's green children, the parent's start offset, index 0 -/
theorem it_new (nx : Option (Val × Nat)) (g' : Val) (start : Nat) :
    call (iterSem nx g' start) 30 Rs.Gen.it_new [.unit, .atom 6] (xs := []) =
      .val (encIter (.ctor 895 []) start 0) [] := by
  kernel_rfl

/-- `Iter::next`: nothing left → `None`, offset and index untouched; otherwise the child with the index and offset *before* the
    step, and the iterator moved on by the child's stored length and by one -/
theorem it_next (g' : Val) (start off idx : Nat) (e : Val) (l : Nat) :
    call (iterSem none g' start) 30 Rs.Gen.it_next [encIter (.ctor 895 []) off idx] =
      .val vNone [some (encIter g' off idx)]
    ∧ call (iterSem (some (e, l)) g' start) 30 Rs.Gen.it_next [encIter (.ctor 895 []) off idx] =
      .val (vSome (vTuple [.ctor 896 [e, .nat l], .nat idx, .nat off])) [some (encIter g' (off + l) (idx + 1))] :=
  ⟨by kernel_rfl, by kernel_rfl⟩

end Gen
end Cst
