/-
  C16 — Serialized trees deserialize to the same tree.

  Model: `Model/Serde`.  Reference trees with optional per-node data (`DT`), their event stream
  and data list (what the three serialisation forms write), and `deserialize` (the visitor with its
  nesting checks, the replay into a fresh builder, the data attachment).
-/
import CstModel.Model.Serde
import CstModel.Props.C09
import CstModel.Props.C01
namespace Cst.C16

/-- a tree with optional data on its nodes -/
inductive DT where
  | tok (k : Nat) (s : Text)
  | node (k : Nat) (d : Option Nat) (cs : List DT)

mutual
def strip : DT → Tree
  | .tok k s => .tok k s
  | .node k _ cs => .node k (stripL cs)
def stripL : List DT → List Tree
  | [] => []
  | t :: ts => strip t :: stripL ts
end

mutual
/-- the event stream written for a tree (flag = the node carries data) -/
def serEv : DT → List SEv
  | .tok k s => [.token k s]
  | .node k d cs => .enter k d.isSome :: (serEvL cs ++ [.leave])
def serEvL : List DT → List SEv
  | [] => []
  | t :: ts => serEv t ++ serEvL ts
end

mutual
/-- the data options of the nodes in preorder -/
def optsOf : DT → List (Option Nat)
  | .tok .. => []
  | .node _ d cs => d :: optsOfL cs
def optsOfL : List DT → List (Option Nat)
  | [] => []
  | t :: ts => optsOf t ++ optsOfL ts
end

/-- the data list written: the data of the flagged nodes, in preorder -/
def dataOf (t : DT) : List Nat := (optsOf t).filterMap id

/-- which node (preorder index) carries which value -/
def positions : List (Option Nat) → Nat → List (Nat × Nat)
  | [], _ => []
  | none :: os, i => positions os (i + 1)
  | some d :: os, i => (i, d) :: positions os (i + 1)

theorem attach_roundtrip (os : List (Option Nat)) (i : Nat) :
    attachData (os.map Option.isSome) (os.filterMap id) i = some (positions os i) := by
  induction os generalizing i with
  | nil => rfl
  | cons o os ih =>
    cases o with
    | none => simpa [attachData, positions] using ih (i + 1)
    | some d => simp [attachData, positions, ih (i + 1)]

/-- a data list of the wrong length is rejected: too few … -/
theorem attach_underflow (fs : List Bool) (i : Nat) (h : fs.contains true = true) : attachData fs [] i = none := by
  induction fs generalizing i with
  | nil => simp at h
  | cons f fs ih =>
    cases f with
    | true => rfl
    | false => simp only [attachData]; exact ih (i + 1) (by simpa using h)

/-- … or too many -/
theorem attach_leftover (fs : List Bool) (ds : List Nat) (i : Nat) (h : (fs.filter id).length < ds.length) :
    attachData fs ds i = none := by
  induction fs generalizing ds i with
  | nil => cases ds with
    | nil => simp at h
    | cons d ds => rfl
  | cons f fs ih =>
    cases f with
    | false => simp only [attachData]; exact ih ds (i + 1) (by simpa using h)
    | true =>
      cases ds with
      | nil => rfl
      | cons d ds => simp only [attachData]; rw [ih ds (i + 1) (by simpa using h)]; rfl

/-! ### the visitor never lets the builder panic -/

/-- the three situations the visitor can be in -/
inductive Phase (cfg : Cfg) (s : DeSt) : Prop where
  | before (hb : BInv cfg s.b) (h1 : s.openN = 0) (h2 : s.roots = 0) (h3 : s.b.parents = []) (h4 : s.b.children = [])
  | inside (hb : BInv cfg s.b) (h1 : 0 < s.openN) (h2 : s.roots = 1) (h3 : s.b.parents.length = s.openN)
      (h4 : ∃ k, s.b.parents.head? = some (k, 0)) (h5 : C09.WF s.b)
  | after (hb : BInv cfg s.b) (h1 : s.openN = 0) (h2 : s.roots = 1) (h3 : s.b.parents = [])
      (h4 : ∃ g, s.b.children = [g] ∧ g.isNode = true)

theorem Phase.binv {cfg : Cfg} {s : DeSt} (h : Phase cfg s) : BInv cfg s.b := by
  cases h <;> assumption

/-- in a release build a token only panics when the interner is full -/
theorem token_ok (cfg : Cfg) (hdbg : cfg.debug = false) (b : Builder) (k : Nat) (t : Text)
    (hroom : b.cache.interner.strs.length + 1 ≤ b.cache.interner.cap) :
    ∃ b', b.token cfg k t = .ok b' ∧ b'.parents = b.parents ∧ (∃ g, b'.children = b.children ++ [g]) ∧
      b'.cache.interner.cap = b.cache.interner.cap ∧
      b'.cache.interner.strs.length ≤ b.cache.interner.strs.length + 1 := by
  unfold Builder.token
  cases hst : cfg.staticText k with
  | some st =>
    simp only [hdbg, Bool.false_and, Bool.false_eq_true, ↓reduceIte]
    refine ⟨_, rfl, rfl, ⟨_, rfl⟩, ?_, ?_⟩ <;> (unfold Cache.token; split <;> simp)
  | none =>
    simp only
    cases hin : b.cache.interner.intern t with
    | none =>
      exfalso
      unfold Interner.intern at hin
      split at hin
      · cases hin
      · split at hin
        · omega
        · cases hin
    | some r =>
      obtain ⟨key, I'⟩ := r
      have hp := intern_prefix hin
      have hgrow : I'.strs.length ≤ b.cache.interner.strs.length + 1 := by
        unfold Interner.intern at hin
        split at hin
        · cases hin; omega
        · split at hin
          · cases hin
          · cases hin; simp
      refine ⟨_, rfl, rfl, ⟨_, rfl⟩, ?_, ?_⟩
      · show (Cache.token { b.cache with interner := I' } (k, some key, blen t)).2.interner.cap = _
        have : (Cache.token { b.cache with interner := I' } (k, some key, blen t)).2.interner = I' := by
          unfold Cache.token; split <;> rfl
        rw [this]; exact hp.2
      · show (Cache.token { b.cache with interner := I' } (k, some key, blen t)).2.interner.strs.length ≤ _
        have : (Cache.token { b.cache with interner := I' } (k, some key, blen t)).2.interner = I' := by
          unfold Cache.token; split <;> rfl
        rw [this]; exact hgrow

/-- one event: never a panic; the phase invariant is kept; the interner grows by at most one -/
theorem step_phase (cfg : Cfg) (hcmp : cfg.cmpChildren = true) (hdbg : cfg.debug = false) (s : DeSt)
    (hp : Phase cfg s) (hroom : s.b.cache.interner.strs.length + 1 ≤ s.b.cache.interner.cap) (e : SEv) :
    (∃ s', deserStep cfg s e = .ok s' ∧ Phase cfg s' ∧ s'.b.cache.interner.cap = s.b.cache.interner.cap ∧
        s'.b.cache.interner.strs.length ≤ s.b.cache.interner.strs.length + 1) ∨
    deserStep cfg s e = .err := by
  cases e with
  | enter k f =>
    have hstep : ¬ (s.openN = 0 ∧ s.roots > 0) →
        deserStep cfg s (.enter k f) = .ok ⟨s.b.startNode k, s.flags ++ [f], s.openN + 1, if s.openN = 0 then s.roots + 1 else s.roots⟩ := by
      intro hne; simp [deserStep, hne]
    cases hp with
    | before hb h1 h2 h3 h4 =>
      left
      refine ⟨_, hstep (by omega), ?_, rfl, by simp [Builder.startNode]⟩
      refine Phase.inside ⟨hb.cache, hb.kids⟩ (by simp) (by simp [h1, h2]) (by simp [Builder.startNode, h3, h1])
        ⟨k, by simp [Builder.startNode, h3, h4]⟩ (C09.wf_start s.b k (by simp [C09.WF, C09.WFl, h3]))
    | inside hb h1 h2 h3 h4 h5 =>
      left
      refine ⟨_, hstep (by omega), ?_, rfl, by simp [Builder.startNode]⟩
      have hno : s.openN ≠ 0 := by omega
      refine Phase.inside ⟨hb.cache, hb.kids⟩ (by simp) (by simp [hno, h2]) (by simp [Builder.startNode, h3]) ?_ (C09.wf_start s.b k h5)
      obtain ⟨k0, hk0⟩ := h4
      refine ⟨k0, ?_⟩
      cases hpar : s.b.parents with
      | nil => simp [hpar] at h3; omega
      | cons x xs => simp [Builder.startNode, hpar] at hk0 ⊢; exact hk0
    | after hb h1 h2 h3 h4 =>
      right; simp [deserStep, h1, h2]
  | token k t =>
    cases hp with
    | before hb h1 h2 h3 h4 => right; simp [deserStep, h1]
    | after hb h1 h2 h3 h4 => right; simp [deserStep, h1]
    | inside hb h1 h2 h3 h4 h5 =>
      left
      obtain ⟨b', hb', hpar, ⟨g, hch⟩, hcap, hgrow⟩ := token_ok cfg hdbg s.b k t hroom
      have hno : s.openN ≠ 0 := by omega
      refine ⟨{ s with b := b' }, by simp [deserStep, hno, hb'], ?_, hcap, hgrow⟩
      exact Phase.inside (token_inv hb hb') h1 h2 (by simp [hpar, h3]) (by simpa [hpar] using h4) (C09.wf_token hb' h5)
  | leave =>
    cases hp with
    | before hb h1 h2 h3 h4 => right; simp [deserStep, h1]
    | after hb h1 h2 h3 h4 => right; simp [deserStep, h1]
    | inside hb h1 h2 h3 h4 h5 =>
      left
      have hopen : s.b.parents ≠ [] := by intro e; simp [e] at h3; omega
      obtain ⟨b', hb'⟩ := C09.finish_total (cfg := cfg) s.b h5 hopen
      obtain ⟨hinv, hint, k, first, g, hl, hpar, hch, hisn⟩ := finishNode_inv hcmp hb hb'
      have hno : s.openN ≠ 0 := by omega
      refine ⟨{ s with b := b', openN := s.openN - 1 }, by simp [deserStep, hno, hb'], ?_, by simp [hint], by simp [hint]⟩
      by_cases h1' : s.openN = 1
      · -- the root is finished: exactly one node is left
        have hlen : s.b.parents.length = 1 := by omega
        obtain ⟨k0, hk0⟩ := h4
        have hsingle : s.b.parents = [(k0, 0)] := by
          cases hp : s.b.parents with
          | nil => simp [hp] at hlen
          | cons x xs =>
            cases xs with
            | nil => simp [hp] at hk0; rw [hk0]
            | cons y ys => simp [hp] at hlen
        rw [hsingle] at hl
        simp at hl
        obtain ⟨rfl, rfl⟩ := hl
        refine Phase.after hinv (by simp [h1']) h2 (by simp [hpar, hsingle]) ⟨g, by simp [hch], hisn⟩
      · refine Phase.inside hinv (by simp; omega) h2 (by simp [hpar, h3]) ?_ (C09.wf_finish hb' h5)
        obtain ⟨k0, hk0⟩ := h4
        refine ⟨k0, ?_⟩
        rw [hpar]
        cases hp : s.b.parents with
        | nil => simp [hp] at hopen
        | cons x xs =>
          cases xs with
          | nil => simp [hp] at h3; omega
          | cons y ys => simp [hp] at hk0 ⊢; exact hk0

/-- **rejection is an error, never a panic**: whatever the event stream and whatever the data list
    — balanced or not, any length — deserialisation does not panic (release build; the key space
    has room for the texts of the stream) -/
theorem deser_no_panic (cfg : Cfg) (hcmp : cfg.cmpChildren = true) (hdbg : cfg.debug = false)
    (cap : Nat) (evs : List SEv) (data : List Nat) (hcap : evs.length + 1 ≤ cap) :
    (∃ r, deserialize cfg cap evs data = .ok r) ∨ deserialize cfg cap evs data = .err := by
  -- the run
  have hrun : ∀ (evs : List SEv) (s : DeSt), Phase cfg s →
      s.b.cache.interner.strs.length + evs.length + 1 ≤ s.b.cache.interner.cap →
      (∃ s', deserRun cfg s evs = .ok s' ∧ Phase cfg s') ∨ deserRun cfg s evs = .err := by
    intro evs
    induction evs with
    | nil => intro s hp _; exact Or.inl ⟨s, rfl, hp⟩
    | cons e es ih =>
      intro s hp hroom
      simp only [List.length_cons] at hroom
      rcases step_phase cfg hcmp hdbg s hp (by omega) e with ⟨s', hs', hp', hc', hg'⟩ | herr
      · simp only [deserRun, hs']
        exact ih s' hp' (by omega)
      · right; simp [deserRun, herr]
  unfold deserialize
  have h0 : Phase cfg ⟨Builder.new (Cache.empty (Interner.empty cap)), [], 0, 0⟩ :=
    Phase.before ⟨CacheInv.empty _ _, by simp [Builder.new, GWfL]⟩ rfl rfl rfl rfl
  rcases hrun evs _ h0 (by simpa [Builder.new, Cache.empty, Interner.empty] using hcap) with ⟨s', hs', hp'⟩ | herr
  · rw [hs']
    simp only
    by_cases hbad : s'.openN ≠ 0 ∨ s'.roots ≠ 1
    · right; simp [hbad]
    · simp only [hbad, ↓reduceIte]
      cases hp' with
      | before _ h1 h2 _ _ => exfalso; apply hbad; right; omega
      | inside _ h1 _ _ _ _ => exfalso; apply hbad; left; omega
      | after hb h1 h2 h3 h4 =>
        obtain ⟨g, hg, hn⟩ := h4
        simp only [Builder.finish, hg, hn, ↓reduceIte]
        cases attachData s'.flags data 0 with
        | some att => exact Or.inl ⟨_, rfl⟩
        | none => right; rfl
  · right; rw [herr]

/-! ### round trip -/

theorem run_split (cfg : Cfg) (b b' : Builder) (xs ys : List Ev) (h : b.run cfg (xs ++ ys) = .ok b') :
    ∃ b1, b.run cfg xs = .ok b1 ∧ b1.run cfg ys = .ok b' := by
  rw [Builder.run_append] at h
  cases h1 : b.run cfg xs with
  | error p => simp [h1] at h
  | ok b1 => simp only [h1] at h; exact ⟨b1, rfl, h⟩

theorem deserRun_append (cfg : Cfg) (s : DeSt) (xs ys : List SEv) :
    deserRun cfg s (xs ++ ys) = (match deserRun cfg s xs with | .ok s' => deserRun cfg s' ys | .err => .err | .panic => .panic) := by
  induction xs generalizing s with
  | nil => rfl
  | cons e es ih =>
    simp only [List.cons_append, deserRun]
    cases deserStep cfg s e with
    | ok s' => exact ih s'
    | err => rfl
    | panic => rfl

theorem step_enter (cfg : Cfg) (s : DeSt) (k : Nat) (f : Bool) (h : ¬ (s.openN = 0 ∧ s.roots > 0)) :
    deserStep cfg s (.enter k f) =
      .ok ⟨s.b.startNode k, s.flags ++ [f], s.openN + 1, if s.openN = 0 then s.roots + 1 else s.roots⟩ := by
  simp [deserStep, h]

theorem step_leave (cfg : Cfg) (s : DeSt) (b' : Builder) (h : s.openN ≠ 0) (hf : s.b.finishNode cfg = .ok b') :
    deserStep cfg s .leave = .ok ⟨b', s.flags, s.openN - 1, s.roots⟩ := by
  simp [deserStep, h, hf]

theorem step_token (cfg : Cfg) (s : DeSt) (k : Nat) (t : Text) (b' : Builder) (h : s.openN ≠ 0)
    (ht : s.b.token cfg k t = .ok b') : deserStep cfg s (.token k t) = .ok ⟨b', s.flags, s.openN, s.roots⟩ := by
  simp [deserStep, h, ht]

theorem deserRun_cons_ok (cfg : Cfg) (s s' : DeSt) (e : SEv) (es : List SEv) (h : deserStep cfg s e = .ok s') :
    deserRun cfg s (e :: es) = deserRun cfg s' es := by
  simp [deserRun, h]

mutual
/-- inside an open node, the events of a (data-carrying) tree drive the visitor exactly like the
    builder events of the stripped tree drive the builder; the flags seen are the tree's flags -/
theorem run_dt (cfg : Cfg) : (t : DT) → (s : DeSt) → 0 < s.openN → (b' : Builder) →
    s.b.run cfg (strip t).events = .ok b' →
    deserRun cfg s (serEv t) = .ok ⟨b', s.flags ++ (optsOf t).map Option.isSome, s.openN, s.roots⟩
  | .tok k tx, s, hop, b', h => by
    simp only [strip, Tree.events, Builder.run, Builder.step] at h
    cases ht : s.b.token cfg k tx with
    | error p => simp [ht] at h
    | ok b1 =>
      simp only [ht, Except.ok.injEq] at h; subst h
      simp only [serEv]
      rw [deserRun_cons_ok cfg s _ _ _ (step_token cfg s k tx b1 (by omega) ht)]
      simp [deserRun, optsOf]
  | .node k d cs, s, hop, b', h => by
    simp only [strip, Tree.events, Builder.run, Builder.step] at h
    obtain ⟨b1, h1, h2⟩ := run_split cfg _ _ _ _ h
    simp only [Builder.run, Builder.step] at h2
    cases hf : b1.finishNode cfg with
    | error p => simp [hf] at h2
    | ok b2 =>
      simp only [hf, Except.ok.injEq] at h2; subst h2
      have hno : s.openN ≠ 0 := by omega
      simp only [serEv]
      rw [deserRun_cons_ok cfg s _ _ _ (step_enter cfg s k d.isSome (by omega)), deserRun_append]
      simp only [hno, ↓reduceIte]
      rw [run_dtL cfg cs ⟨s.b.startNode k, s.flags ++ [d.isSome], s.openN + 1, s.roots⟩ (by simp) b1 h1]
      simp only
      rw [deserRun_cons_ok cfg _ _ _ _ (step_leave cfg _ b2 (by simp) hf)]
      simp [deserRun, optsOf, List.append_assoc]
theorem run_dtL (cfg : Cfg) : (ts : List DT) → (s : DeSt) → 0 < s.openN → (b' : Builder) →
    s.b.run cfg (Tree.eventsL (stripL ts)) = .ok b' →
    deserRun cfg s (serEvL ts) = .ok ⟨b', s.flags ++ (optsOfL ts).map Option.isSome, s.openN, s.roots⟩
  | [], s, _, b', h => by
    simp only [stripL, Tree.eventsL, Builder.run, Except.ok.injEq] at h; subst h
    simp [serEvL, deserRun, optsOfL]
  | t :: ts, s, hop, b', h => by
    simp only [stripL, Tree.eventsL] at h
    obtain ⟨b1, h1, h2⟩ := run_split cfg _ _ _ _ h
    simp only [serEvL]
    rw [deserRun_append, run_dt cfg t s hop b1 h1]
    simp only
    rw [run_dtL cfg ts ⟨b1, s.flags ++ (optsOf t).map Option.isSome, s.openN, s.roots⟩ hop b' h2]
    simp [optsOfL, List.append_assoc]
end

/-- **Round trip.** For every tree, every partial assignment of data to its nodes and every token
    text (static kinds with their static text), the events and data written by serialisation are
    read back as a tree with the same kinds, structure and token texts, with the same data on the
    same nodes (preorder index). -/
theorem roundtrip (cfg : Cfg) (hcmp : cfg.cmpChildren = true) (cap : Nat) (k : Nat) (d : Option Nat) (cs : List DT)
    (hs : StaticOk cfg (strip (.node k d cs))) (hcap : (strip (.node k d cs)).nTokens ≤ cap) :
    ∃ g c, deserialize cfg cap (serEv (.node k d cs)) (dataOf (.node k d cs)) =
        .ok (g, c, positions (optsOf (.node k d cs)) 0) ∧
      resolveG cfg c.interner g = some (strip (.node k d cs)) := by
  obtain ⟨g, c', hbuild, hres, _, _, _⟩ := C01.build_faithful cfg hcmp (Cache.empty (Interner.empty cap))
    (CacheInv.empty _ _) k (stripL cs) hs (by simpa [Cache.empty, Interner.empty, strip] using hcap)
  refine ⟨g, c', ?_, hres⟩
  -- decompose the builder run
  unfold build at hbuild
  cases hrun : (Builder.new (Cache.empty (Interner.empty cap))).run cfg (Tree.node k (stripL cs)).events with
  | error p => simp [hrun] at hbuild
  | ok bfin =>
    simp only [hrun] at hbuild
    simp only [Tree.events, Builder.run, Builder.step] at hrun
    obtain ⟨b1, h1, h2⟩ := run_split cfg _ _ _ _ hrun
    simp only [Builder.run, Builder.step] at h2
    cases hf : b1.finishNode cfg with
    | error p => simp [hf] at h2
    | ok b2 =>
      simp only [hf, Except.ok.injEq] at h2; subst h2
      have hrunD : deserRun cfg ⟨Builder.new (Cache.empty (Interner.empty cap)), [], 0, 0⟩ (serEv (.node k d cs)) =
          .ok ⟨b2, (optsOf (.node k d cs)).map Option.isSome, 0, 1⟩ := by
        simp only [serEv]
        rw [deserRun_cons_ok cfg _ _ _ _ (step_enter cfg _ k d.isSome (by simp)), deserRun_append]
        simp only [↓reduceIte]
        rw [run_dtL cfg cs ⟨(Builder.new (Cache.empty (Interner.empty cap))).startNode k, [] ++ [d.isSome], 0 + 1, 0 + 1⟩
          (by simp) b1 h1]
        simp only
        rw [deserRun_cons_ok cfg _ _ _ _ (step_leave cfg _ b2 (by simp) hf)]
        simp [deserRun, optsOf]
      unfold deserialize
      rw [hrunD]
      simp only [ne_eq, not_true_eq_false, or_self, ↓reduceIte, hbuild]
      rw [dataOf, attach_roundtrip]

/-! ### non-vacuity: unbalanced, doubly rooted and data-mismatched streams are errors -/
example :
    let cfg : Cfg := { statics := [], H := fun _ => 0, threshold := 3, cmpChildren := true, debug := false }
    let isErr := fun (r : DRes (Green × Cache × List (Nat × Nat))) => match r with | .err => true | _ => false
    (isErr (deserialize cfg 100 [.leave] []), isErr (deserialize cfg 100 [.enter 0 false, .leave, .enter 0 false] []),
     isErr (deserialize cfg 100 [.enter 0 true, .leave] []), isErr (deserialize cfg 100 [.enter 0 false, .leave] [7]),
     isErr (deserialize cfg 100 [.enter 0 true, .token 10 ['a'], .leave] [7])) = (true, true, true, true, false) := by
  decide +kernel

end Cst.C16
