/-
  Props/GenData — the per-node data slot (`set_data`, `try_set_data`, `get_data`, `clear_data` in `syntax/node.rs`) as
  transcribed, against a `Sem` that logs the effects on the slot in program order (C18): every operation has exactly one
  critical section — writers under the exclusive lock, the reader under the shared lock —, `try_set_data` looks before it
  stores and gives the caller's value back untouched when the slot is taken, `set_data` / `try_set_data` store a *second* handle
  to the allocation they return, `get_data` hands out a new handle to what is stored, `clear_data` stores `None`.
  These are `dataSetW`, `dataTrySetW`, `dataClearW`, `dataGetW`, `dataOneSectionPerOp` of `Generated/SourceFacts.lean`, obtained
  by evaluation (`data_facts_agree`).
-/
import CstModel.Generated.RsFns
import CstModel.Generated.SourceFacts
import CstModel.Proofs.KernelRfl
namespace Cst
namespace Gen
open Rs

def DLOCK (write : Bool) : Val := .ctor 860 [.bool write]
def DLOAD : Val := .ctor 861 []
def DSTORE (v : Val) : Val := .ctor 862 [v]
def ARC (d : Val) : Val := .ctor 863 [d]
/-- another handle to the same allocation -/
def HANDLE (a : Val) : Val := .ctor 864 [a]

/-- `full`: a writer finds the slot taken; `content`: what the reader finds -/
def dSem (full : Bool) (content : Option Val) : Sem where
  debug := false
  app := fun k args => if k == N.Arc.clone then (match args with | [a] => some (HANDLE a) | _ => none) else none
  call := fun f args =>
    match args with
    | [v] =>
      if f == N.Arc.new then .ok (ARC v) .unit
      else if f == N.Arc.clone then .ok (HANDLE v) .unit
      else .unknown
    | [_, v] => if f == N.ptr_write then .okE .unit .unit (DSTORE v) else .unknown
    | _ => .unknown
  meth := fun m recv args =>
    match recv, args with
    | .atom 5, [] => if m == N.data then .ok (.strct [(N.field.data, .ctor 870 [])]) recv else .unknown
    | .ctor 870 [], [] =>
      if m == N.write then .okE (.ctor N.ptr []) recv (DLOCK true)
      else if m == N.read then .okE (vOpt content) recv (DLOCK false)
      else .unknown
    | .ctor 22 [], [] =>
      if m == N.is_some then .okE (.bool full) recv DLOAD
      else if m == N.is_none then .okE (.bool (!full)) recv DLOAD
      else if m == N.deref then .okE (if full then vSome (.atom 0) else vNone) recv DLOAD
      else .unknown
    | _, _ => .unknown

def dlog (evs : List Val) : Option Val := some (.ctor 0 evs)

theorem d_set_data (full : Bool) (c : Option Val) (d : Val) :
    call (dSem full c) 30 Rs.Gen.d_set_data [.atom 5, d] (xs := [logId]) =
      .val (ARC d) [dlog [DLOCK true, DSTORE (vSome (HANDLE (ARC d)))]] := by
  kernel_rfl

theorem d_try_set_data (c : Option Val) (d : Val) :
    call (dSem true c) 30 Rs.Gen.d_try_set_data [.atom 5, d] (xs := [logId]) =
      .val (.ctor N.Err [d]) [dlog [DLOCK true, DLOAD]]
    ∧ call (dSem false c) 30 Rs.Gen.d_try_set_data [.atom 5, d] (xs := [logId]) =
      .val (.ctor N.Ok [ARC d]) [dlog [DLOCK true, DLOAD, DSTORE (vSome (HANDLE (ARC d)))]] :=
  ⟨by kernel_rfl, by kernel_rfl⟩

theorem d_get_data (full : Bool) (c : Option Val) :
    call (dSem full c) 30 Rs.Gen.d_get_data [.atom 5] (xs := [logId]) =
      .val (vOpt (c.map HANDLE)) [dlog [DLOCK false]] := by
  cases c <;> kernel_rfl

theorem d_clear_data (full : Bool) (c : Option Val) :
    call (dSem full c) 30 Rs.Gen.d_clear_data [.atom 5] (xs := [logId]) = .val .unit [dlog [DLOCK true, DSTORE vNone]] := by
  kernel_rfl

theorem data_facts_agree :
    SourceFacts.dataSetW = true ∧ SourceFacts.dataTrySetW = true ∧ SourceFacts.dataClearW = true ∧ SourceFacts.dataGetW = false
    ∧ SourceFacts.dataOneSectionPerOp = true := by
  decide

end Gen
end Cst
