/-
  Props/GenNode — the reference-count and slot protocol of the red tree (`syntax/node.rs`) as transcribed:
  `Clone for SyntaxNode`, `Drop for SyntaxNode`, `try_write` (installation of a freshly created child, and what the loser
  of a creation race does) and `read`.  Statements marked `#[cfg(cstree_verif)]` (the instrumentation) are skipped by the
  translator; everything these functions do to shared memory — counter read-modify-writes with amount and ordering, lock
  acquisitions with their mode, slot reads and the slot store, hand-backs of blocks to the allocator — is an *event*: the
  `Sem` below appends one per effect to a log, in program order, and the theorems state the whole log.

  These are the same facts that `tools/extract_facts.py` reads off the source by pattern (`cloneAmount`, `dropOrdering`,
  `loserNodeComp`, `slotInstallOnlyIfEmpty`, `teardownWhenPrev`, `teardownRootLast`, …) and that the theorems of C05 / C06 /
  C07 are instantiated with; here they are obtained by *evaluating* the transcribed bodies, and `facts_agree` checks that
  the two translators say the same.
-/
import CstModel.Generated.RsFns
import CstModel.Generated.SourceFacts
import CstModel.Proofs.KernelRfl
namespace Cst
namespace Gen
open Rs

/-! events -/
/-- a counter read-modify-write: the amount, and whether its ordering has a release part / an acquire part
    (`AcqRel` and `SeqCst` have both) -/
def RMW_ADD (amount : Val) (rel acq : Bool) : Val := .ctor 850 [amount, .bool rel, .bool acq]
def RMW_SUB (amount : Val) (rel acq : Bool) : Val := .ctor 851 [amount, .bool rel, .bool acq]
def ordRel : Val → Bool
  | .ctor 31 [] => true | .ctor 33 [] => true | .ctor 34 [] => true | _ => false
def ordAcq : Val → Bool
  | .ctor 32 [] => true | .ctor 33 [] => true | .ctor 34 [] => true | _ => false
def TEARDOWN (node : Val) : Val := .ctor 852 [node]
def DROPPED (v : Val) : Val := .ctor 853 [v]
def LOCK (locks idx : Val) (write : Bool) : Val := .ctor 854 [locks, idx, .bool write]
def SLOT_STORE (slot v : Val) : Val := .ctor 855 [slot, v]
def SLOT_LOAD (slot : Val) : Val := .ctor 856 [slot]

/-! values: a handle is a struct with its `data` pointer; `data()` opens it -/
def handle (id : Nat) : Val := .strct [(N.field.data, .ctor 806 [.nat id])]
def COUNTER : Val := .ctor 801 []
def nodeData (id : Nat) : Val :=
  .strct [(N.field.ref_count, COUNTER), (N.field.child_locks, .ctor 802 [.nat id]), (N.field.children, .ctor 803 [.nat id])]
def BOX (p : Val) : Val := .ctor 808 [p]
def UNCOUNTED (h : Val) : Val := .ctor 809 [h]

/-- `last`: the decrement saw 1; `empty`: the slot was empty; `content`: what a reader finds in the slot -/
structure NObs where
  last : Bool
  empty : Bool
  content : Option Val
  slotIsPointer : Bool     -- `try_write` keeps the raw slot pointer; `read` dereferences at once

def nSem (o : NObs) : Sem where
  debug := false
  app := fun _ _ => none
  call := fun f args =>
    match args with
    | [.sym 40 _, .nat 1] => if f == N.eq then .ok (.bool o.last) .unit else .unknown
    | [p, v] => if f == N.ptr_write then .okE .unit .unit (SLOT_STORE p v) else .unknown
    | [v] =>
      if f == N.drop then .okE .unit .unit (DROPPED v)
      else if f == N.Box.from_raw then .ok (BOX v) .unit
      else .unknown
    | _ => .unknown
  meth := fun m recv args =>
    match recv, args with
    | .strct [(617, .ctor 806 [.nat id])], [] =>
      if m == N.data then .ok (nodeData id) recv
      else if m == N.root then .ok (handle 0) recv
      else if m == N.clone_uncounted then .ok (handle id) recv
      else if m == N.drop_recursive then .okE .unit recv (TEARDOWN recv)
      else if m == N.parent then .ok (handle (id + 1000)) recv
      else .unknown
    | .ctor 801 [], [amount, ord] =>
      if m == N.fetch_add then .okE (.sym 40 (.atom 0)) recv (RMW_ADD amount (ordRel ord) (ordAcq ord))
      else if m == N.fetch_sub then .okE (.sym 40 (.atom 0)) recv (RMW_SUB amount (ordRel ord) (ordAcq ord))
      else .unknown
    | .ctor 802 [id], [i] => if m == N.get_unchecked then .ok (.ctor 810 [id, i]) recv else .unknown
    | .ctor 803 [id], [i] => if m == N.get_unchecked then .ok (.ctor 811 [id, i]) recv else .unknown
    | .ctor 810 [id, i], [] =>
      if m == N.write then .okE (.atom 1) recv (LOCK id i true)
      else if m == N.read then .okE (.atom 1) recv (LOCK id i false)
      else .unknown
    | .ctor 811 [id, i], [] =>
      if m == N.get then
        (if o.slotIsPointer then .ok (.ctor N.ptr [id, i]) recv
         else .okE (vOpt o.content) recv (SLOT_LOAD (.ctor N.ptr [id, i])))
      else .unknown
    | .ctor 22 [id, i], [] =>
      if m == N.is_none then .okE (.bool o.empty) recv (SLOT_LOAD (.ctor N.ptr [id, i]))
      else if m == N.is_some then .okE (.bool (!o.empty)) recv (SLOT_LOAD (.ctor N.ptr [id, i]))
      else .unknown
    | .ctor 806 [id], [] => if m == N.as_ptr then .ok (.ctor 806 [id]) recv else .unknown
    | _, _ => .unknown

def logOf (evs : List Val) : Option Val := some (.ctor 0 evs)

/-- `clone`: exactly one read-modify-write on the tree's counter, `+1`, release and acquire, then an uncounted copy of the handle -/
theorem n_clone (o : NObs) (id : Nat) :
    call (nSem o) 30 Rs.Gen.n_clone [handle id] (xs := [logId]) =
      .val (handle id) [logOf [RMW_ADD (.nat 1) true true]] := by
  kernel_rfl

/-- `drop`: exactly one read-modify-write, `-1`, release and acquire; nothing else unless it saw 1, and then: tear the children of
    the root down, drop the root handle, free the root's block, free the counter cell — in this order -/
theorem n_drop (o : NObs) (id : Nat) :
    call (nSem o) 40 Rs.Gen.n_drop [handle id] (xs := [logId]) =
      .val .unit [logOf ([RMW_SUB (.nat 1) true true] ++
        (if o.last then [TEARDOWN (handle 0), DROPPED (handle 0), DROPPED (BOX (.ctor 806 [.nat 0])), DROPPED (BOX COUNTER)] else []))] := by
  obtain ⟨last, e, c, p⟩ := o
  cases last <;> kernel_rfl

/-- `try_write(index, elem)`: takes the slot's lock exclusively, looks at the slot, and stores only into an empty slot;
    the loser of a creation race compensates the counter — `+2` for a node, `+1` for a token, release and acquire — *before* it drops what it
    had made, and hands a node's fresh block back -/
theorem n_try_write (o : NObs) (ho : o.slotIsPointer = true) (id i nid : Nat) :
    call (nSem o) 40 Rs.Gen.n_try_write [handle id, .nat i, .ctor N.SyntaxElement.Node [handle nid]] (xs := [logId]) =
      .val .unit [logOf ([LOCK (.nat id) (.nat i) true, SLOT_LOAD (.ctor N.ptr [.nat id, .nat i])] ++
        (if o.empty then [SLOT_STORE (.ctor N.ptr [.nat id, .nat i]) (vSome (.ctor N.SyntaxElement.Node [handle nid]))]
         else [RMW_ADD (.nat 2) true true, DROPPED (handle nid), DROPPED (BOX (.ctor 806 [.nat nid]))]))]
    ∧ call (nSem o) 40 Rs.Gen.n_try_write [handle id, .nat i, .ctor N.SyntaxElement.Token [handle nid]] (xs := [logId]) =
      .val .unit [logOf ([LOCK (.nat id) (.nat i) true, SLOT_LOAD (.ctor N.ptr [.nat id, .nat i])] ++
        (if o.empty then [SLOT_STORE (.ctor N.ptr [.nat id, .nat i]) (vSome (.ctor N.SyntaxElement.Token [handle nid]))]
         else [RMW_ADD (.nat 1) true true, DROPPED (handle nid)]))] := by
  obtain ⟨last, e, c, p⟩ := o
  simp only at ho; subst ho
  cases e <;> exact ⟨by kernel_rfl, by kernel_rfl⟩

/-- `read(index)`: takes the slot's lock shared, loads the slot, hands out what it holds -/
theorem n_read (o : NObs) (ho : o.slotIsPointer = false) (id i : Nat) :
    call (nSem o) 40 Rs.Gen.n_read [handle id, .nat i] (xs := [logId]) =
      .val (vOpt o.content) [logOf [LOCK (.nat id) (.nat i) false, SLOT_LOAD (.ctor N.ptr [.nat id, .nat i])]] := by
  obtain ⟨last, e, c, p⟩ := o
  simp only at ho; subst ho
  cases c <;> kernel_rfl

/-- the pattern translator (`Generated/SourceFacts.lean`) and the evaluated bodies say the same (ordering codes: 3 = `AcqRel`, 4 = `SeqCst` — both have the release and the acquire part the logs record) -/
theorem facts_agree :
    SourceFacts.cloneAmount = 1 ∧ (SourceFacts.cloneOrdering = 3 ∨ SourceFacts.cloneOrdering = 4) ∧ SourceFacts.dropAmount = 1 ∧ (SourceFacts.dropOrdering = 3 ∨ SourceFacts.dropOrdering = 4)
    ∧ SourceFacts.loserNodeComp = 2 ∧ (SourceFacts.loserNodeOrdering = 3 ∨ SourceFacts.loserNodeOrdering = 4) ∧ SourceFacts.loserTokenComp = 1 ∧ (SourceFacts.loserTokenOrdering = 3 ∨ SourceFacts.loserTokenOrdering = 4)
    ∧ SourceFacts.teardownWhenPrev = 1 ∧ SourceFacts.teardownRootLast = true ∧ SourceFacts.slotInstallOnlyIfEmpty = true
    ∧ SourceFacts.slotWriteUnderWriteLock = true ∧ SourceFacts.slotReadUnderReadLock = true := by
  decide

end Gen
end Cst
