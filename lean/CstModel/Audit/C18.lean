import CstModel.Props.C18
import CstModel.Props.GenData
open Cst.C18
#print axioms facts_ok
#print axioms exclusion
#print axioms linearizable
#print axioms check_stays_valid
#print axioms one_try_set_wins
#print axioms read_latest
#print axioms cell_is_latest
#print axioms handed_out_valid
#print axioms stored_valid
#print axioms dropped_exactly_once
#print axioms try_set_under_read_lock_unsound
#print axioms data_sharing_facts
#print axioms Cst.Gen.d_set_data
#print axioms Cst.Gen.d_try_set_data
#print axioms Cst.Gen.d_get_data
#print axioms Cst.Gen.d_clear_data
#print axioms Cst.Gen.data_facts_agree
