import CstModel.Props.C18
open Cst.C18
#print axioms facts_ok
#print axioms exclusion
#print axioms linearizable
#print axioms check_stays_valid
#print axioms one_try_set_wins
#print axioms read_latest
#print axioms cell_is_latest
#print axioms handed_out_valid
#print axioms stored_valid
#print axioms dropped_exactly_once
#print axioms try_set_under_read_lock_unsound
#print axioms data_sharing_facts
