import CstModel.Props.C10
import CstModel.Props.GenIntern
open Cst.C10
#print axioms issued_resolves
#print axioms key_eq_iff
#print axioms stable
#print axioms error_iff
#print axioms concurrent
#print axioms raw_roundtrip
#print axioms raw_reject
#print axioms key_roundtrip
#print axioms builtin_capacity_fits
#print axioms usize_reject
#print axioms Cst.Gen.i_get_or_intern
#print axioms Cst.Gen.i_resolve
#print axioms Cst.Gen.i_fwd
