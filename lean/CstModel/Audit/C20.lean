import CstModel.Props.C20
import CstModel.Props.GenBuilder2
import CstModel.Props.GenBuilder3
import CstModel.Props.GenIntern
open Cst.C20
#print axioms fail_no_change
#print axioms static_never_interns
#print axioms no_fault
#print axioms resume_equiv
#print axioms finished_tree_equiv
#print axioms Cst.Gen.b_token_raw
#print axioms Cst.Gen.b_static_token_raw
#print axioms Cst.Gen.i_get_or_intern
#print axioms Cst.Gen.i_get_or_intern_arg
#print axioms Cst.Gen.i_fwd
#print axioms Cst.Gen.b_token_model
#print axioms Cst.Gen.b_static_token_model
