import CstModel.Props.C03
import CstModel.Proofs.WalkN
import CstModel.Proofs.Walk
import CstModel.Proofs.TokenSpec
import CstModel.Proofs.BackN
import CstModel.Props.Gen
import CstModel.Props.GenIter
import CstModel.Props.GenNav
open Cst.C03
#print axioms parent_child
#print axioms ancestorsOf_spec
#print axioms firstChildOrToken_spec
#print axioms lastChildOrToken_spec
#print axioms firstChild_spec
#print axioms nextSiblingOrToken_spec
#print axioms prevSiblingOrToken_spec
#print axioms collectElems_spec
#print axioms elem_iter_size_agrees
#print axioms node_iter_size_agrees
#print axioms preorder_spec
#print axioms Cst.walkNextT_sim
#print axioms Cst.walk_sim
#print axioms Cst.preorderWithTokens_spec
#print axioms Cst.firstChild_path
#print axioms Cst.nextSibling_path
#print axioms Cst.walkNextN_sim
#print axioms Cst.walk_preN
#print axioms Cst.preorder_nodes_spec
#print axioms Cst.firstToken_spec
#print axioms Cst.lastToken_spec
#print axioms Cst.nextToken_spec
#print axioms Cst.prevToken_spec
#print axioms Cst.leaves_split
#print axioms Cst.lastChild_path
#print axioms Cst.prevSibling_path
#print axioms Cst.lastChild_spec
#print axioms Cst.prevSibling_spec
#print axioms forwarders_elem_ok
#print axioms forwarders_resolved_ok
#print axioms elem_token_first_last
#print axioms elem_token_ancestors
#print axioms Cst.Gen.not_into_node
#print axioms Cst.Gen.not_into_token
#print axioms Cst.Gen.not_as_node
#print axioms Cst.Gen.not_as_token
#print axioms Cst.Gen.not_as_ref
#print axioms Cst.Gen.not_cloned
#print axioms Cst.Gen.walk_map
#print axioms Cst.Gen.it_new
#print axioms Cst.Gen.it_next
#print axioms Cst.Gen.children_new
#print axioms Cst.Gen.ec_next
#print axioms Cst.Gen.nv_first
#print axioms Cst.Gen.nv_last
#print axioms Cst.Gen.nv_next_after
#print axioms Cst.Gen.nv_prev_before
#print axioms Cst.Gen.nv_next_sibling
#print axioms Cst.Gen.nv_prev_sibling
#print axioms Cst.Gen.tk_siblings
#print axioms Cst.Gen.tk_green
#print axioms Cst.Gen.tk_kinds
#print axioms Cst.Gen.nd_accessors
