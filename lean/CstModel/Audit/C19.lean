import CstModel.Props.C19
import CstModel.Props.C03
import CstModel.Props.Gen
open Cst.C19
#print axioms boundary_window
#print axioms takeBytes_of_boundary
#print axioms abbrevGo_total
#print axioms token_debug_total
#print axioms token_debug_total_impl
#print axioms debug_rec_positions
#print axioms debug_lines
#print axioms leafTexts_leaves
#print axioms display_text
#print axioms Cst.C03.forwarders_elem_ok
#print axioms Cst.C03.forwarders_resolved_ok
#print axioms Cst.Gen.tok_write_debug_raw
#print axioms Cst.Gen.tok_write_debug
#print axioms Cst.Gen.not_display
