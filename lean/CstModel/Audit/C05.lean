import CstModel.Props.C05
import CstModel.Props.GenNode
import CstModel.Props.GenSlot
open Cst.C05
#print axioms step_effect
#print axioms torn_mono
#print axioms slot_write_once
#print axioms one_element_per_slot
#print axioms completion_reads_slot
#print axioms loser_net_zero
#print axioms slot_protocol_facts
#print axioms slots_canonical_any_interleaving
#print axioms concurrent_agrees_with_sequential
#print axioms race_loser_unobservable
#print axioms atomic_is_get_or_add
#print axioms Cst.Gen.n_try_write
#print axioms Cst.Gen.n_read
#print axioms Cst.Gen.n_get_or_add_node
#print axioms Cst.Gen.n_get_or_add_element
