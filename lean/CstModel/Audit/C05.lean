import CstModel.Props.C05
open Cst.C05
#print axioms step_effect
#print axioms torn_mono
#print axioms slot_write_once
#print axioms one_element_per_slot
#print axioms completion_reads_slot
#print axioms loser_net_zero
#print axioms slot_protocol_facts
