import CstModel.Props.C08
open Cst.C08
#print axioms markers_sound
#print axioms markers_complete
#print axioms generic_iff
#print axioms facts_sound
#print axioms markers_sound_impl
#print axioms unbounded_is_unsound
#print axioms text_sound
#print axioms kind_irrelevant
#print axioms iter_sound
