import CstModel.Props.C08
import CstModel.Props.GenNav
open Cst.C08
#print axioms markers_sound
#print axioms markers_complete
#print axioms generic_iff
#print axioms facts_sound
#print axioms markers_sound_impl
#print axioms unbounded_is_unsound
#print axioms text_sound
#print axioms kind_irrelevant
#print axioms iter_sound
#print axioms Cst.Gen.nd_accessors
#print axioms Cst.Gen.tk_kinds
