import CstModel.Props.C14
open Cst.C14
#print axioms placeholder
