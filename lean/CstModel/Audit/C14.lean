import CstModel.Props.C14
open Cst.C14
#print axioms replace_spec
#print axioms replace_shares
#print axioms replace_kind_mismatch
#print axioms replace_id
