import CstModel.Props.C16
import CstModel.Proofs.SerRed
open Cst.C16
#print axioms attach_roundtrip
#print axioms attach_underflow
#print axioms attach_leftover
#print axioms step_phase
#print axioms deser_no_panic
#print axioms run_dt
#print axioms roundtrip
#print axioms Cst.ser_pre
#print axioms Cst.toDT_strip
#print axioms Cst.ser_red
#print axioms Cst.ser_de_roundtrip
