import CstModel.Props.C12
open Cst.C12
#print axioms concat_spec
#print axioms contains_spec
#print axioms find_spec
#print axioms eqStr_spec
#print axioms charAt_spec
#print axioms slice_spec
#print axioms zip_spec
#print axioms viewsEq_spec
