import CstModel.Props.C12
import CstModel.Proofs.ChunksTree
open Cst.C12
#print axioms concat_spec
#print axioms contains_spec
#print axioms find_spec
#print axioms eqStr_spec
#print axioms charAt_spec
#print axioms slice_spec
#print axioms zip_spec
#print axioms viewsEq_spec
#print axioms Cst.cut_spec
#print axioms Cst.leaves_text
#print axioms Cst.walk_all_mat
#print axioms Cst.chunks_tree
#print axioms Cst.cut_spec_conv
#print axioms Cst.chunks_tree_eq
#print axioms Cst.chunks_tree_conv
#print axioms Cst.chunks_tree_panics
