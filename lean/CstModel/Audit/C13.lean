import CstModel.Props.C13
open Cst.C13
#print axioms range_getOrAdd
#print axioms findCovering_contains
#print axioms cover_contains
#print axioms cover_total
