import CstModel.Props.C13
open Cst.C13
#print axioms placeholder
