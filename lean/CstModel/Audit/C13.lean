import CstModel.Props.C13
import CstModel.Props.Gen
open Cst.C13
#print axioms range_getOrAdd
#print axioms findCovering_contains
#print axioms cover_contains
#print axioms cover_total
#print axioms cover_deepest
#print axioms hitsG_shape
#print axioms children_ranges
#print axioms filter_children
#print axioms tao_go
#print axioms tao_total
#print axioms tao_spec
#print axioms tao_complete
#print axioms tao_iter
#print axioms tao_iter_next
#print axioms tao_iter_map
#print axioms Cst.Gen.tao_map
#print axioms Cst.Gen.tao_right_biased
#print axioms Cst.Gen.tao_left_biased
#print axioms Cst.Gen.tao_next
#print axioms Cst.Gen.tao_size_hint
