import CstModel.Props.C15
import CstModel.Props.GenToken
open Cst.C15
#print axioms fx_respects
#print axioms mkNew_wf
#print axioms mkNew_resolves
#print axioms len_sum
#print axioms eq_iff_struct
#print axioms hash_congr
#print axioms next_spec
#print axioms nextBack_spec
#print axioms nth_spec
#print axioms nthBack_spec
#print axioms last_spec
#print axioms fold_spec
#print axioms rfold_spec
#print axioms Cst.Gen.gt_fields
#print axioms Cst.Gen.gt_text
