import CstModel.Props.C09
import CstModel.Props.GenBuilder
open Cst.C09
#print axioms wf_new
#print axioms wf_start
#print axioms wf_token
#print axioms wf_stok
#print axioms wf_finish
#print axioms wf_startAt
#print axioms wf_revert
#print axioms misuse_safe
#print axioms misuse_safe_revert
#print axioms finish_total
#print axioms revert_ok
#print axioms wrap_ok
#print axioms wrap_contains
#print axioms wrap_open_panics
#print axioms keeps_start
#print axioms keeps_token
#print axioms keeps_finish
#print axioms keeps_revert
#print axioms Cst.Gen.b_checkpoint
#print axioms Cst.Gen.b_checkpoint_model
#print axioms Cst.Gen.b_start_node
#print axioms Cst.Gen.b_start_node_model
#print axioms Cst.Gen.b_revert_to_raw
#print axioms Cst.Gen.b_revert_to
#print axioms Cst.Gen.b_start_node_at_raw
#print axioms Cst.Gen.b_start_node_at
