import CstModel.Props.C02
import CstModel.Props.C03
import CstModel.Props.Gen
import CstModel.Props.GenToken
import CstModel.Props.GenIter
import CstModel.Props.GenNav
open Cst.C02
#print axioms history_canonical
#print axioms observed_range
#print axioms indexed_lookups_canonical
#print axioms childrenTo_canonical
#print axioms tiling
#print axioms slice_middle
#print axioms text_decomposition
#print axioms resolve_text_slice
#print axioms Cst.C03.forwarders_elem_ok
#print axioms Cst.C03.forwarders_resolved_ok
#print axioms Cst.Gen.tok_text_range
#print axioms Cst.Gen.nd_text_range
#print axioms Cst.Gen.it_new
#print axioms Cst.Gen.it_next
#print axioms Cst.Gen.children_new
#print axioms Cst.Gen.ec_next
#print axioms Cst.Gen.nv_first
#print axioms Cst.Gen.nv_last
#print axioms Cst.Gen.nv_next_after
#print axioms Cst.Gen.nv_prev_before
#print axioms Cst.Gen.nv_next_sibling
#print axioms Cst.Gen.nv_prev_sibling
#print axioms Cst.Gen.tk_siblings
#print axioms Cst.Gen.tk_green
#print axioms Cst.Gen.tk_kinds
#print axioms Cst.Gen.nd_accessors
