import CstModel.Props.C04
import CstModel.Props.Gen
open Cst.C04
#print axioms history_transparent
#print axioms fresh_vs_shared
#print axioms token_shared
#print axioms token_entry_stable
#print axioms node_keeps_tokens
#print axioms node_shared
#print axioms big_node_not_cached
#print axioms threshold_fact
#print axioms nodeUniq_node
#print axioms node_answer_entry
#print axioms node_entry_stable
#print axioms node_entry_stable_impl
#print axioms finish_returns_cache_iff_owned
#print axioms via_faithful
#print axioms via_routes_agree
#print axioms with_cache_is_from_cache
#print axioms with_interner_forgets
#print axioms Cst.Gen.mo_into_owned
#print axioms Cst.Gen.mo_deref
