import CstModel.Props.C11
import CstModel.Props.Gen
import CstModel.Props.GenToken
open Cst.C11
#print axioms tokenText_eq_resolve
#print axioms resolve_built
#print axioms static_no_interner
#print axioms static_two_ways
#print axioms textEq_total
#print axioms textEq_symm
#print axioms textEq_sound
#print axioms textEq_complete_same_class
#print axioms Cst.Gen.tok_text_eq_raw
#print axioms Cst.Gen.tok_text_eq
#print axioms Cst.Gen.tok_resolve_text
#print axioms Cst.Gen.tok_resolve_text_model
#print axioms Cst.Gen.gt_text
#print axioms Cst.Gen.rt_text
#print axioms Cst.Gen.tok_static_text_key
