import CstModel.Props.C01
open Cst.C01
#print axioms build_faithful
#print axioms build_text
#print axioms evTexts_events
#print axioms static_two_ways
#print axioms build_faithful_impl
#print axioms collision_witness
#print axioms unfaithful_without_compare
