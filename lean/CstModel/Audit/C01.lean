import CstModel.Props.C01
import CstModel.Props.GenBuilder2
import CstModel.Props.GenBuilder3
open Cst.C01
#print axioms build_faithful
#print axioms build_text
#print axioms evTexts_events
#print axioms static_two_ways
#print axioms build_faithful_impl
#print axioms collision_witness
#print axioms unfaithful_without_compare
#print axioms Cst.Gen.b_finish_node_raw
#print axioms Cst.Gen.b_finish_raw
#print axioms Cst.Gen.b_token_raw
#print axioms Cst.Gen.b_static_token_raw
#print axioms Cst.Gen.b_token_model
#print axioms Cst.Gen.b_static_token_model
