import CstModel.Props.C06
import CstModel.Props.GenNode
open Cst.C06
#print axioms Cst.Conc.inv_step
#print axioms facts_ok
#print axioms protocol_facts
#print axioms inv_always
#print axioms no_premature_teardown
#print axioms teardown_at_most_once
#print axioms all_dropped_torn
#print axioms after_teardown_quiet
#print axioms loser_never_tears_down
#print axioms comp_one_is_unsound
#print axioms ordering_facts
#print axioms teardown_frees_each_once
#print axioms teardown_safe
#print axioms teardown_counter
#print axioms teardown_shape_facts
#print axioms Cst.Gen.n_clone
#print axioms Cst.Gen.n_drop
#print axioms Cst.Gen.n_try_write
#print axioms Cst.Gen.facts_agree
