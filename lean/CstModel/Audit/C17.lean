import CstModel.Props.C17
open Cst.C17
#print axioms accepts_iff
#print axioms accepted_laws
#print axioms assert_fact
#print axioms le_assert_unsound
#print axioms ill_formed_rejected
