import CstModel.Props.C07
import CstModel.Props.GenNode
open Cst.C07
#print axioms facts_ok
#print axioms teardown_race_free
#print axioms race_free_any_inc_ordering
#print axioms accesses_before_teardown
#print axioms no_access_after_teardown
#print axioms relaxed_dec_races
#print axioms release_only_dec_races
#print axioms acquire_only_dec_races
#print axioms slot_facts
#print axioms slot_accesses_race_free
#print axioms reference_sees_install
#print axioms slot_scenario_relaxed_races
#print axioms marker_facts
#print axioms data_lock_facts
#print axioms data_scenario_relaxed_races
#print axioms Cst.Gen.n_clone
#print axioms Cst.Gen.n_drop
#print axioms Cst.Gen.n_try_write
#print axioms Cst.Gen.n_read
#print axioms Cst.Gen.facts_agree
