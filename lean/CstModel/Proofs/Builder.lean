/- helper lemmas for the builder / node-cache model (C01, C04, C09, C20) -/
import CstModel.Proofs.Green
namespace Cst

/-- cache invariant: every token entry is the token its key describes, every node entry has the
    head its key describes, and everything stored is well-formed w.r.t. the cache's interner.
    Holds for the empty cache and is preserved by every operation — hence after any history. -/
structure CacheInv (cfg : Cfg) (c : Cache) : Prop where
  toks : ∀ d g, (d, g) ∈ c.toks → (∃ id, g = Green.tok id d.1 d.2.1 d.2.2) ∧ GWf cfg c.interner g
  nodes : ∀ h g, (h, g) ∈ c.nodes → (∃ id cs, g = Green.node id h.1 h.2.1 h.2.2 cs) ∧ GWf cfg c.interner g

theorem CacheInv.empty (cfg : Cfg) (I : Interner) : CacheInv cfg (Cache.empty I) :=
  ⟨by simp [Cache.empty], by simp [Cache.empty]⟩

theorem CacheInv.mono {cfg : Cfg} {c : Cache} {J : Interner} (h : CacheInv cfg c)
    (hp : c.interner.strs <+: J.strs) : CacheInv cfg { c with interner := J } :=
  ⟨fun d g hm => ⟨(h.toks d g hm).1, GWf_mono hp g (h.toks d g hm).2⟩,
   fun hd g hm => ⟨(h.nodes hd g hm).1, GWf_mono hp g (h.nodes hd g hm).2⟩⟩

theorem lookup_mem {α β : Type} [BEq α] [LawfulBEq α] {l : List (α × β)} {a : α} {b : β}
    (h : l.lookup a = some b) : (a, b) ∈ l := by
  induction l with
  | nil => simp at h
  | cons x xs ih =>
    obtain ⟨k, v⟩ := x
    simp only [List.lookup_cons] at h
    by_cases hk : a == k
    · simp [hk] at h; have := eq_of_beq hk; subst this; subst h; simp
    · simp [hk] at h; exact List.mem_cons_of_mem _ (ih h)

/-- `NodeCache::token`: returns exactly the token described by the data, keeps the invariant -/
theorem Cache.token_spec {cfg : Cfg} {c : Cache} (hc : CacheInv cfg c) (d : TokData)
    (hd : GWf cfg c.interner (Green.tok 0 d.1 d.2.1 d.2.2)) :
    ∃ id, (c.token d).1 = Green.tok id d.1 d.2.1 d.2.2 ∧ CacheInv cfg (c.token d).2 ∧
      (c.token d).2.interner = c.interner := by
  unfold Cache.token
  split
  · rename_i g hl
    obtain ⟨⟨id, hid⟩, _⟩ := hc.toks d g (lookup_mem hl)
    exact ⟨id, hid, hc, rfl⟩
  · refine ⟨c.nextId, rfl, ⟨?_, ?_⟩, rfl⟩
    · intro d' g hm
      simp only [List.mem_cons, Prod.mk.injEq] at hm
      rcases hm with ⟨rfl, rfl⟩ | hm
      · refine ⟨⟨_, rfl⟩, ?_⟩
        obtain ⟨k, key, l⟩ := d'
        cases key <;> simpa [GWf] using hd
      · exact hc.toks d' g hm
    · exact hc.nodes

/-- `NodeCache::node`: with children compared on a hit, the node returned has exactly the given
    kind and children (up to sharing), whatever the hash function does -/
theorem Cache.node_spec {cfg : Cfg} (hcmp : cfg.cmpChildren = true) {c : Cache} (hc : CacheInv cfg c)
    (kind : Nat) (cs : List Green) (hcs : GWfL cfg c.interner cs) :
    ∃ g c', c.node cfg kind cs = (g, c') ∧
      CacheInv cfg c' ∧ c'.interner = c.interner ∧ GWf cfg c.interner g ∧
      resolveG cfg c.interner g = (resolveL cfg c.interner cs).map (Tree.node kind) ∧
      g.kind = kind ∧ g.len = sumLen cs ∧ g.isNode = true := by
  have fresh : ∀ (n : Nat), GWf cfg c.interner (Green.node n kind (sumLen cs) (cfg.H cs) cs) := by
    intro n; simp [GWf, hcs]
  unfold Cache.node
  simp only
  split
  · split
    · rename_i e hf
      have hm := List.mem_of_find?_eq_some hf
      have hp := List.find?_some hf
      simp only [hcmp, Bool.not_true, Bool.false_or, Bool.and_eq_true, beq_iff_eq] at hp
      obtain ⟨he, hb⟩ := hp
      obtain ⟨hd, g⟩ := e
      simp only at he hb hm ⊢
      subst he
      obtain ⟨⟨id, cs', hg⟩, hw⟩ := hc.nodes _ g hm
      subst hg
      simp only [Green.children] at hb
      refine ⟨_, _, rfl, hc, rfl, hw, ?_, rfl, rfl, rfl⟩
      simp [resolveG, resolveL_of_beqL cs' cs hb]
    · refine ⟨_, _, rfl, ⟨hc.toks, ?_⟩, rfl, fresh _, by simp [resolveG], rfl, rfl, rfl⟩
      intro h g hm
      simp only [List.mem_cons, Prod.mk.injEq] at hm
      rcases hm with ⟨rfl, rfl⟩ | hm
      · exact ⟨⟨_, _, rfl⟩, fresh _⟩
      · exact hc.nodes h g hm
  · exact ⟨_, _, rfl, ⟨hc.toks, hc.nodes⟩, rfl, fresh _, by simp [resolveG], rfl, rfl, rfl⟩

/-! ### running event lists -/

theorem Builder.run_append (cfg : Cfg) (b : Builder) (xs ys : List Ev) :
    b.run cfg (xs ++ ys) = (match b.run cfg xs with | .ok b' => b'.run cfg ys | .error p => .error p) := by
  induction xs generalizing b with
  | nil => simp [Builder.run]
  | cons e es ih =>
    simp only [List.cons_append, Builder.run]
    cases b.step cfg e with
    | ok b' => simpa using ih b'
    | error p => rfl

/-- builder invariant: cache invariant + every element on the child stack is well-formed -/
structure BInv (cfg : Cfg) (b : Builder) : Prop where
  cache : CacheInv cfg b.cache
  kids : GWfL cfg b.cache.interner b.children

/-- static-kind tokens are offered with their static text (what the debug assert demands) -/
def StaticOkTok (cfg : Cfg) (k : Nat) (s : Text) : Prop := ∀ st, cfg.staticText k = some st → s = st

mutual
def StaticOk (cfg : Cfg) : Tree → Prop
  | .tok k s => StaticOkTok cfg k s
  | .node _ cs => StaticOkL cfg cs
def StaticOkL (cfg : Cfg) : List Tree → Prop
  | [] => True
  | t :: ts => StaticOk cfg t ∧ StaticOkL cfg ts
end

/-- what one successfully absorbed element leaves behind -/
structure Pushed (cfg : Cfg) (b b' : Builder) (ts : List Tree) (n : Nat) : Prop where
  parents : b'.parents = b.parents
  inv : BInv cfg b'
  pre : b.cache.interner.strs <+: b'.cache.interner.strs
  cap : b'.cache.interner.cap = b.cache.interner.cap
  grow : b'.cache.interner.strs.length ≤ b.cache.interner.strs.length + n
  kids : ∃ gs, b'.children = b.children ++ gs ∧ resolveL cfg b'.cache.interner gs = some ts

theorem token_pushed {cfg : Cfg} {b : Builder} (hb : BInv cfg b) (k : Nat) (s : Text)
    (hs : StaticOkTok cfg k s) (hcap : b.cache.interner.strs.length + 1 ≤ b.cache.interner.cap) :
    ∃ b', b.token cfg k s = .ok b' ∧ Pushed cfg b b' [.tok k s] 1 := by
  unfold Builder.token
  cases hst : cfg.staticText k with
  | some st =>
    have hss : s = st := hs st hst
    subst hss
    simp only [bne_self_eq_false, Bool.and_false, Bool.false_eq_true, ↓reduceIte]
    obtain ⟨id, hid, hci, hint⟩ := Cache.token_spec hb.cache (k, none, blen s) (by simp [GWf, hst])
    refine ⟨_, rfl, ⟨rfl, ⟨hci, ?_⟩, ?_, ?_, ?_, ⟨[(b.cache.token (k, none, blen s)).1], rfl, ?_⟩⟩⟩
    · simp only [hint]
      rw [GWfL_append]; refine ⟨hb.kids, ?_⟩
      simp only [hid]; simp [GWfL, GWf, hst]
    · simp [hint]
    · simp [hint]
    · simp [hint]
    · simp only [hid]; simp [resolveL, resolveG, hst]
  | none =>
    simp only
    cases hin : b.cache.interner.intern s with
    | none =>
      have := (C10aux_error hin)
      omega
    | some r =>
      obtain ⟨key, I'⟩ := r
      have hp := intern_prefix hin
      have hres := intern_resolve hin
      have hci' : CacheInv cfg { b.cache with interner := I' } := hb.cache.mono hp.1
      obtain ⟨id, hid, hci, hint⟩ := Cache.token_spec hci' (k, some key, blen s) (by simp [GWf, hres, hst])
      have hint' : (Cache.token { b.cache with interner := I' } (k, some key, blen s)).2.interner = I' := hint
      refine ⟨_, rfl, ⟨rfl, ⟨hci, ?_⟩, ?_, ?_, ?_, ⟨[(Cache.token { b.cache with interner := I' } (k, some key, blen s)).1], rfl, ?_⟩⟩⟩
      · simp only [hint']
        rw [GWfL_append]; refine ⟨GWfL_mono hp.1 _ hb.kids, ?_⟩
        simp only [hid]; simp [GWfL, GWf, hres, hst]
      · simp only [hint']; exact hp.1
      · simp only [hint']; exact hp.2
      · simp only [hint']
        unfold Interner.intern at hin
        split at hin
        · cases hin; omega
        · split at hin
          · cases hin
          · cases hin; simp
      · simp only [hid, hint']; simp [resolveL, resolveG, hres]
where
  C10aux_error {I : Interner} {s : Text} (h : I.intern s = none) : I.strs.length ≥ I.cap := by
    unfold Interner.intern at h
    split at h
    · cases h
    · split at h
      · assumption
      · cases h

end Cst

namespace Cst

theorem resolveL_append {cfg : Cfg} {I : Interner} (as bs : List Green) (ts us : List Tree)
    (ha : resolveL cfg I as = some ts) (hb : resolveL cfg I bs = some us) :
    resolveL cfg I (as ++ bs) = some (ts ++ us) := by
  induction as generalizing ts with
  | nil => simp [resolveL] at ha; subst ha; simpa using hb
  | cons a as ih =>
    unfold resolveL at ha
    cases hg : resolveG cfg I a with
    | none => simp [hg] at ha
    | some t =>
      cases hgs : resolveL cfg I as with
      | none => simp [hg, hgs] at ha
      | some ts' =>
        simp [hg, hgs] at ha; subst ha
        simp [resolveL, hg, ih ts' hgs]

theorem Pushed.refl {cfg : Cfg} {b : Builder} (hb : BInv cfg b) : Pushed cfg b b [] 0 :=
  ⟨rfl, hb, List.prefix_refl _, rfl, by omega, ⟨[], by simp, by simp [resolveL]⟩⟩

theorem Pushed.trans {cfg : Cfg} {b b1 b2 : Builder} {ts us : List Tree} {n m : Nat}
    (h1 : Pushed cfg b b1 ts n) (h2 : Pushed cfg b1 b2 us m) : Pushed cfg b b2 (ts ++ us) (n + m) := by
  obtain ⟨gs, hk1, hr1⟩ := h1.kids
  obtain ⟨hs, hk2, hr2⟩ := h2.kids
  refine ⟨h2.parents.trans h1.parents, h2.inv, List.IsPrefix.trans h1.pre h2.pre, h2.cap.trans h1.cap, ?_, ⟨gs ++ hs, ?_, ?_⟩⟩
  · have := h1.grow; have := h2.grow; omega
  · rw [hk2, hk1, List.append_assoc]
  · exact resolveL_append gs hs ts us (resolveL_mono h2.pre gs ts hr1) hr2

/-- `finish_node` after the children of the node have been absorbed -/
theorem finish_pushed {cfg : Cfg} (hcmp : cfg.cmpChildren = true) {b0 b : Builder} (k : Nat)
    (ts : List Tree) (n : Nat) (h : Pushed cfg (b0.startNode k) b ts n) :
    ∃ b', b.finishNode cfg = .ok b' ∧ Pushed cfg b0 b' [.node k ts] n := by
  obtain ⟨gs, hk, hr⟩ := h.kids
  have hpar : b.parents = b0.parents ++ [(k, b0.children.length)] := by
    rw [h.parents]; rfl
  have hkids : b.children = b0.children ++ gs := by rw [hk]; rfl
  unfold Builder.finishNode
  have hlast : b.parents.getLast? = some (k, b0.children.length) := by rw [hpar]; simp
  rw [hlast]
  simp only
  have hlen : ¬ (b0.children.length > b.children.length) := by rw [hkids]; simp
  simp only [hlen, ↓reduceIte]
  have hdrop : b.children.drop b0.children.length = gs := by rw [hkids]; simp
  have htake : b.children.take b0.children.length = b0.children := by rw [hkids]; simp
  have hw := h.inv.kids
  rw [hkids, GWfL_append] at hw
  obtain ⟨g, c', hnode, hci, hint, hgw, hres, _, _⟩ := Cache.node_spec hcmp h.inv.cache k gs hw.2
  rw [hdrop, hnode]
  refine ⟨_, rfl, ⟨?_, ⟨hci, ?_⟩, ?_, ?_, ?_, ⟨[g], ?_, ?_⟩⟩⟩
  · simp [hpar]
  · simp only [hint, htake]
    rw [GWfL_append]; exact ⟨hw.1, by simp [GWfL, hgw]⟩
  · simp only [hint]; exact h.pre
  · simp only [hint]; exact h.cap
  · simp only [hint]; exact h.grow
  · simp [htake]
  · simp only [hint]; simp [resolveL, hres, hr]

mutual
/-- absorbing the events of one tree pushes exactly one element that resolves to that tree -/
theorem run_tree {cfg : Cfg} (hcmp : cfg.cmpChildren = true) :
    (t : Tree) → (b : Builder) → BInv cfg b → StaticOk cfg t →
    b.cache.interner.strs.length + t.nTokens ≤ b.cache.interner.cap →
    ∃ b', b.run cfg t.events = .ok b' ∧ Pushed cfg b b' [t] t.nTokens
  | .tok k s, b, hb, hs, hcap => by
    obtain ⟨b', hb', hp⟩ := token_pushed hb k s hs (by simpa [Tree.nTokens] using hcap)
    exact ⟨b', by simp [Tree.events, Builder.run, Builder.step, hb'], hp⟩
  | .node k cs, b, hb, hs, hcap => by
    have hb1 : BInv cfg (b.startNode k) := ⟨hb.cache, hb.kids⟩
    obtain ⟨b2, hr2, hp2⟩ := run_trees hcmp cs (b.startNode k) hb1 hs (by simpa [Tree.nTokens, Builder.startNode] using hcap)
    obtain ⟨b3, hr3, hp3⟩ := finish_pushed hcmp k cs _ hp2
    refine ⟨b3, ?_, hp3⟩
    simp only [Tree.events, Builder.run, Builder.step]
    rw [Builder.run_append, hr2]
    simp [Builder.run, Builder.step, hr3]
theorem run_trees {cfg : Cfg} (hcmp : cfg.cmpChildren = true) :
    (ts : List Tree) → (b : Builder) → BInv cfg b → StaticOkL cfg ts →
    b.cache.interner.strs.length + Tree.nTokensL ts ≤ b.cache.interner.cap →
    ∃ b', b.run cfg (Tree.eventsL ts) = .ok b' ∧ Pushed cfg b b' ts (Tree.nTokensL ts)
  | [], b, hb, _, _ => ⟨b, by simp [Tree.eventsL, Builder.run], Pushed.refl hb⟩
  | t :: ts, b, hb, hs, hcap => by
    simp only [Tree.nTokensL] at hcap
    obtain ⟨b1, hr1, hp1⟩ := run_tree hcmp t b hb hs.1 (by omega)
    obtain ⟨b2, hr2, hp2⟩ := run_trees hcmp ts b1 hp1.inv hs.2 (by have := hp1.grow; have := hp1.cap; omega)
    refine ⟨b2, ?_, ?_⟩
    · simp only [Tree.eventsL]; rw [Builder.run_append, hr1]; exact hr2
    · have := hp1.trans hp2; simpa [Tree.nTokensL] using this
end

/-- `finish_node` keeps the builder invariant (any state, not only tree-shaped histories) and
    pushes a node -/
theorem finishNode_inv {cfg : Cfg} (hcmp : cfg.cmpChildren = true) {b b' : Builder} (hb : BInv cfg b)
    (h : b.finishNode cfg = .ok b') :
    BInv cfg b' ∧ b'.cache.interner = b.cache.interner ∧
      ∃ k first g, b.parents.getLast? = some (k, first) ∧ b'.parents = b.parents.dropLast ∧
        b'.children = b.children.take first ++ [g] ∧ g.isNode = true := by
  unfold Builder.finishNode at h
  cases hl : b.parents.getLast? with
  | none => simp [hl] at h
  | some kf =>
    obtain ⟨k, first⟩ := kf
    simp only [hl] at h
    by_cases hf : first > b.children.length
    · simp [hf] at h
    · simp only [hf, ↓reduceIte] at h
      have hkids := hb.kids
      have hsplit : b.children = b.children.take first ++ b.children.drop first := (List.take_append_drop _ _).symm
      rw [hsplit, GWfL_append] at hkids
      obtain ⟨g, c', hnode, hci, hint, hgw, _, _, _, hisn⟩ := Cache.node_spec hcmp hb.cache k (b.children.drop first) hkids.2
      rw [hnode] at h
      simp only [Except.ok.injEq] at h
      subst h
      refine ⟨⟨hci, ?_⟩, hint, k, first, g, rfl, rfl, rfl, hisn⟩
      simp only [hint]
      rw [GWfL_append]; exact ⟨hkids.1, by simp [GWfL, hgw]⟩

/-- `token` keeps the builder invariant when it does not panic -/
theorem token_inv {cfg : Cfg} {b b' : Builder} (hb : BInv cfg b) {k : Nat} {s : Text}
    (h : b.token cfg k s = .ok b') : BInv cfg b' := by
  unfold Builder.token at h
  cases hst : cfg.staticText k with
  | some st =>
    simp only [hst] at h
    split at h
    · cases h
    · obtain ⟨id, hid, hci, hint⟩ := Cache.token_spec hb.cache (k, none, blen st) (by simp [GWf, hst])
      simp only [Except.ok.injEq] at h
      subst h
      refine ⟨hci, ?_⟩
      simp only [hint]
      rw [GWfL_append]; refine ⟨hb.kids, ?_⟩
      simp only [hid]; simp [GWfL, GWf, hst]
  | none =>
    simp only [hst] at h
    cases hin : b.cache.interner.intern s with
    | none => simp [hin] at h
    | some r =>
      obtain ⟨key, I'⟩ := r
      simp only [hin, Except.ok.injEq] at h
      have hp := intern_prefix hin
      have hres := intern_resolve hin
      have hci' : CacheInv cfg { b.cache with interner := I' } := hb.cache.mono hp.1
      obtain ⟨id, hid, hci, hint⟩ := Cache.token_spec hci' (k, some key, blen s) (by simp [GWf, hres, hst])
      have hint' : (Cache.token { b.cache with interner := I' } (k, some key, blen s)).2.interner = I' := hint
      subst h
      refine ⟨hci, ?_⟩
      simp only [hint']
      rw [GWfL_append]; refine ⟨GWfL_mono hp.1 _ hb.kids, ?_⟩
      simp only [hid]; simp [GWfL, GWf, hres, hst]

end Cst
