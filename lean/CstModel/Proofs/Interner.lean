/- helper lemmas for the interner model (C10, used by C01/C04/C11/C15) -/
import CstModel.Model.Interner
namespace Cst

theorem findIdx_some {s : Text} {l : List Text} {i : Nat} (h : findIdx s l = some i) :
    l[i]? = some s := by
  induction l generalizing i with
  | nil => simp [findIdx] at h
  | cons x xs ih =>
    unfold findIdx at h
    split at h
    · rename_i hx; cases h; simp [hx]
    · cases hf : findIdx s xs with
      | none => simp [hf] at h
      | some j => simp [hf] at h; subst h; simpa using ih hf

theorem findIdx_none {s : Text} {l : List Text} (h : findIdx s l = none) : s ∉ l := by
  induction l with
  | nil => simp
  | cons x xs ih =>
    unfold findIdx at h
    split at h
    · simp at h
    · rename_i hx
      cases hf : findIdx s xs with
      | none => simp [ih hf]; exact fun e => hx e.symm
      | some j => simp [hf] at h

theorem findIdx_of_mem {s : Text} {l : List Text} (h : s ∈ l) : ∃ i, findIdx s l = some i := by
  cases hf : findIdx s l with
  | some i => exact ⟨i, rfl⟩
  | none => exact absurd h (findIdx_none hf)

/-- every operation only appends: the old table is a prefix of the new one -/
theorem intern_prefix {I I' : Interner} {s : Text} {k : Nat} (h : I.intern s = some (k, I')) :
    I.strs <+: I'.strs ∧ I'.cap = I.cap := by
  unfold Interner.intern at h
  split at h
  · cases h; exact ⟨List.prefix_refl _, rfl⟩
  · split at h
    · cases h
    · cases h; exact ⟨List.prefix_append _ _, rfl⟩

theorem resolve_mono {I J : Interner} (hp : I.strs <+: J.strs) {k : Nat} {s : Text}
    (h : I.resolve k = some s) : J.resolve k = some s := by
  obtain ⟨t, ht⟩ := hp
  unfold Interner.resolve at *
  rw [← ht]
  have hk : k < I.strs.length := by
    rcases List.getElem?_eq_some_iff.mp h with ⟨hk, _⟩; exact hk
  rw [List.getElem?_append_left hk]; exact h

theorem intern_resolve {I I' : Interner} {s : Text} {k : Nat} (h : I.intern s = some (k, I')) :
    I'.resolve k = some s := by
  unfold Interner.intern at h
  split at h
  · rename_i i hf; cases h; exact findIdx_some hf
  · split at h
    · cases h
    · cases h; simp [Interner.resolve]

theorem intern_nodup {I I' : Interner} {s : Text} {k : Nat} (hn : I.strs.Nodup)
    (h : I.intern s = some (k, I')) : I'.strs.Nodup := by
  unfold Interner.intern at h
  split at h
  · cases h; exact hn
  · rename_i hf
    split at h
    · cases h
    · cases h
      have := findIdx_none hf
      simp only
      rw [List.nodup_append]
      refine ⟨hn, by simp, ?_⟩
      intro a ha b hb
      simp at hb; subst hb
      intro e; subst e; exact this ha

theorem resolve_inj {I : Interner} (hn : I.strs.Nodup) {k1 k2 : Nat} {s : Text}
    (h1 : I.resolve k1 = some s) (h2 : I.resolve k2 = some s) : k1 = k2 := by
  unfold Interner.resolve at *
  rcases List.getElem?_eq_some_iff.mp h1 with ⟨hk1, _⟩
  exact (List.getElem?_inj hk1 hn).mp (h1.trans h2.symm)

/-- a key that resolves is below the table length -/
theorem resolve_lt {I : Interner} {k : Nat} {s : Text} (h : I.resolve k = some s) : k < I.strs.length := by
  rcases List.getElem?_eq_some_iff.mp h with ⟨hk, _⟩; exact hk

/-- the key returned is always below the capacity (so the conversion to `TokenKey` cannot fail) -/
theorem intern_lt_cap {I I' : Interner} {s : Text} {k : Nat} (hc : I.strs.length ≤ I.cap)
    (h : I.intern s = some (k, I')) : k < I.cap ∧ I'.strs.length ≤ I'.cap := by
  unfold Interner.intern at h
  split at h
  · rename_i i hf; cases h
    have := resolve_lt (I := I) (findIdx_some hf)
    exact ⟨by omega, hc⟩
  · split at h
    · cases h
    · cases h; simp; omega

end Cst
