/-
  Proofs/DataSlot — invariants of the data-slot transition system.

  * `Lk`: the lock discipline (a writer is alone), what a `try_set_data` saw is still true, and the
          recorded history replays against the sequential specification ending in the slot's content;
  * `Ld`: the ownership ledger (strong count = slot + outside owners; the destructor of a value has
          run exactly when it has no owner left).
-/
import CstModel.Model.DataSlot
namespace Cst.DataSlot

def Facts.Ok (F : Facts) : Prop := F.setW = true ∧ F.trySetW = true ∧ F.clearW = true

/-! ### field lemmas -/

@[simp] theorem dec_cell (s : Sys) (v : Nat) : (dec s v).cell = s.cell := by unfold dec; split <;> rfl
@[simp] theorem dec_pcs (s : Sys) (v : Nat) : (dec s v).pcs = s.pcs := by unfold dec; split <;> rfl
@[simp] theorem dec_hist (s : Sys) (v : Nat) : (dec s v).hist = s.hist := by unfold dec; split <;> rfl
@[simp] theorem dec_out (s : Sys) (v : Nat) : (dec s v).out = s.out := by unfold dec; split <;> rfl
@[simp] theorem dec_made (s : Sys) (v : Nat) : (dec s v).made = s.made := by unfold dec; split <;> rfl
@[simp] theorem decOpt_cell (s : Sys) (o : Option Nat) : (decOpt s o).cell = s.cell := by cases o <;> simp [decOpt]
@[simp] theorem decOpt_pcs (s : Sys) (o : Option Nat) : (decOpt s o).pcs = s.pcs := by cases o <;> simp [decOpt]
@[simp] theorem decOpt_hist (s : Sys) (o : Option Nat) : (decOpt s o).hist = s.hist := by cases o <;> simp [decOpt]
@[simp] theorem decOpt_out (s : Sys) (o : Option Nat) : (decOpt s o).out = s.out := by cases o <;> simp [decOpt]
@[simp] theorem decOpt_made (s : Sys) (o : Option Nat) : (decOpt s o).made = s.made := by cases o <;> simp [decOpt]
@[simp] theorem store_cell (s : Sys) (v : Nat) : (store s v).cell = some v := by simp [store]
@[simp] theorem store_pcs (s : Sys) (v : Nat) : (store s v).pcs = s.pcs := by simp [store, inc]
@[simp] theorem store_hist (s : Sys) (v : Nat) : (store s v).hist = s.hist := by simp [store, inc]
@[simp] theorem store_out (s : Sys) (v : Nat) : (store s v).out = s.out := by simp [store, inc]
@[simp] theorem store_made (s : Sys) (v : Nat) : (store s v).made = s.made := by simp [store, inc]

@[simp] theorem takeIn_cell (s : Sys) (o : Option Nat) : (takeIn s o).cell = s.cell := by cases o <;> rfl
@[simp] theorem takeIn_pcs (s : Sys) (o : Option Nat) : (takeIn s o).pcs = s.pcs := by cases o <;> rfl
@[simp] theorem takeIn_hist (s : Sys) (o : Option Nat) : (takeIn s o).hist = s.hist := by cases o <;> rfl
@[simp] theorem share_cell (s : Sys) (o : Option Nat) : (share s o).cell = s.cell := by cases o <;> rfl
@[simp] theorem share_pcs (s : Sys) (o : Option Nat) : (share s o).pcs = s.pcs := by cases o <;> rfl
@[simp] theorem share_hist (s : Sys) (o : Option Nat) : (share s o).hist = s.hist := by cases o <;> rfl

theorem specRun_append (c : Option Nat) (h : List Entry) (i : Nat) (r : Req) (res : Res) (c' : Option Nat)
    (hr : specRun c h = some c') (hs : (spec c' r).2 = res) :
    specRun c (h ++ [(i, r, res)]) = some (spec c' r).1 := by
  induction h generalizing c with
  | nil =>
    simp only [specRun] at hr
    cases hr
    simp [specRun, hs]
  | cons e rest ih =>
    obtain ⟨j, r', res'⟩ := e
    simp only [List.cons_append, specRun] at hr ⊢
    split at hr
    · rename_i heq
      simp only [heq, ↓reduceIte]
      exact ih _ hr
    · cases hr

/-! ### the lock invariant -/

structure Lk (F : Facts) (s : Sys) : Prop where
  excl : ∀ (i j : Nat) (pi pj : PC), s.pcs[i]? = some pi → s.pcs[j]? = some pj → i ≠ j → pi.writes F = true → pj.busy = false
  chk : ∀ (i v : Nat) (b : Bool), s.pcs[i]? = some (PC.checked v b) → b = s.cell.isSome
  hist : specRun none s.hist = some s.cell

theorem lk_init (F : Facts) (n : Nat) : Lk F (Sys.init n) := by
  refine ⟨?_, ?_, rfl⟩
  · intro i j pi pj hi hj _ hw
    simp only [Sys.init, List.getElem?_replicate] at hi
    split at hi
    · cases hi; simp [PC.writes, PC.req] at hw
    · cases hi
  · intro i v b hi
    simp only [Sys.init, List.getElem?_replicate] at hi
    split at hi <;> cases hi

theorem getElem?_set_cases {α} (l : List α) (i j : Nat) (x y : α) (h : (l.set i x)[j]? = some y) :
    (j = i ∧ y = x) ∨ (j ≠ i ∧ l[j]? = some y) := by
  by_cases hji : j = i
  · subst hji
    rw [List.getElem?_set_self'] at h
    cases hl : l[j]? with
    | none => simp [hl] at h
    | some z => simp [hl] at h; exact Or.inl ⟨rfl, h.symm⟩
  · rw [List.getElem?_set_ne (Ne.symm hji)] at h
    exact Or.inr ⟨hji, h⟩

/-- changing one thread's state to something that is not busy / not `checked` keeps the lock part -/
theorem lk_release (F : Facts) (s : Sys) (i : Nat) (h : Lk F s) : Lk F (setPc s i .idle) := by
  refine ⟨?_, ?_, h.hist⟩
  · intro a b pa pb ha hb hab hw
    simp only [setPc] at ha hb
    rcases getElem?_set_cases _ _ _ _ _ ha with ⟨_, rfl⟩ | ⟨hai, ha'⟩
    · simp [PC.writes, PC.req] at hw
    · rcases getElem?_set_cases _ _ _ _ _ hb with ⟨_, rfl⟩ | ⟨_, hb'⟩
      · rfl
      · exact h.excl a b pa pb ha' hb' hab hw
  · intro a v b ha
    simp only [setPc] at ha
    rcases getElem?_set_cases _ _ _ _ _ ha with ⟨_, hh⟩ | ⟨_, ha'⟩
    · cases hh
    · exact h.chk a v b ha'

theorem all_not_busy {s : Sys} (hall : s.pcs.all (fun p => !p.busy) = true) (j : Nat) (p : PC)
    (hj : s.pcs[j]? = some p) : p.busy = false := by
  rw [List.all_eq_true] at hall
  have := hall p (List.mem_of_getElem? hj)
  simpa using this

theorem all_not_writes {F : Facts} {s : Sys} (hall : s.pcs.all (fun p => !p.writes F) = true) (j : Nat) (p : PC)
    (hj : s.pcs[j]? = some p) : p.writes F = false := by
  rw [List.all_eq_true] at hall
  have := hall p (List.mem_of_getElem? hj)
  simpa using this

theorem writes_busy {F : Facts} {p : PC} (h : p.writes F = true) : p.busy = true := by
  unfold PC.writes at h
  unfold PC.busy
  cases hp : p.req with
  | none => simp [hp] at h
  | some r => rfl

/-- a thread whose state writes is alone: every other thread is not busy -/
theorem others_idle {F : Facts} {s : Sys} (h : Lk F s) {i : Nat} {p : PC} (hi : s.pcs[i]? = some p)
    (hw : p.writes F = true) (j : Nat) (q : PC) (hj : s.pcs[j]? = some q) (hne : j ≠ i) : q.busy = false :=
  h.excl i j p q hi hj (Ne.symm hne) hw

/-- the thread `i` moves (within its critical section) to a state `p'` that still has a request, the
    slot becomes `c'`, the history grows by what the specification says -/
theorem lk_move {F : Facts} {s s' : Sys} (h : Lk F s) (i : Nat) (p p' : PC)
    (hi : s.pcs[i]? = some p) (hbusy : p.busy = true) (hpcs : s'.pcs = s.pcs.set i p')
    (hwr : p'.writes F = p.writes F)
    (hchk : ∀ v b, p' = .checked v b → b = s'.cell.isSome)
    (hcell : s'.cell = s.cell ∨ p.writes F = true)
    (hhist : specRun none s'.hist = some s'.cell) : Lk F s' := by
  refine ⟨?_, ?_, hhist⟩
  · intro a b pa pb ha hb hab hw
    rw [hpcs] at ha hb
    rcases getElem?_set_cases _ _ _ _ _ ha with ⟨rfl, rfl⟩ | ⟨hai, ha'⟩
    · rcases getElem?_set_cases _ _ _ _ _ hb with ⟨hba, _⟩ | ⟨hbi, hb'⟩
      · exact absurd hba.symm hab
      · rw [hwr] at hw
        exact others_idle h hi hw b pb hb' hbi
    · rcases getElem?_set_cases _ _ _ _ _ hb with ⟨rfl, rfl⟩ | ⟨hbi, hb'⟩
      · have := h.excl a b pa p ha' hi hab hw
        -- `p` was busy (it held the lock), so nobody else can have been writing
        rw [hbusy] at this
        cases this
      · exact h.excl a b pa pb ha' hb' hab hw
  · intro a v b ha
    rw [hpcs] at ha
    rcases getElem?_set_cases _ _ _ _ _ ha with ⟨_, hh⟩ | ⟨hai, ha'⟩
    · exact hchk v b hh.symm
    · rcases hcell with hc | hw
      · rw [hc]; exact h.chk a v b ha'
      · have := others_idle h hi hw a _ ha' hai
        simp [PC.busy, PC.req] at this

theorem lk_acquire {F : Facts} {s : Sys} (h : Lk F s) (i : Nat) (r : Req) (hi : s.pcs[i]? = some .idle)
    (hfree : lockFree F s r = true)
    {s' : Sys} (hpcs : s'.pcs = s.pcs.set i (.locked r)) (hcell : s'.cell = s.cell) (hhist : s'.hist = s.hist) :
    Lk F s' := by
  refine ⟨?_, ?_, by rw [hhist, hcell]; exact h.hist⟩
  · intro a b pa pb ha hb hab hw
    rw [hpcs] at ha hb
    unfold lockFree at hfree
    by_cases hm : F.mode r = true
    · simp only [hm, ↓reduceIte] at hfree
      rcases getElem?_set_cases _ _ _ _ _ hb with ⟨rfl, rfl⟩ | ⟨hbi, hb'⟩
      · rcases getElem?_set_cases _ _ _ _ _ ha with ⟨hai, _⟩ | ⟨_, ha'⟩
        · exact absurd hai hab
        · have := all_not_busy hfree a pa ha'
          rw [writes_busy hw] at this
          cases this
      · exact all_not_busy hfree b pb hb'
    · simp only [hm] at hfree
      rcases getElem?_set_cases _ _ _ _ _ ha with ⟨_, rfl⟩ | ⟨_, ha'⟩
      · simp [PC.writes, PC.req] at hw
        exact absurd hw hm
      · have := all_not_writes hfree a pa ha'
        rw [hw] at this
        cases this
  · intro a v b ha
    rw [hpcs] at ha
    rcases getElem?_set_cases _ _ _ _ _ ha with ⟨_, hh⟩ | ⟨_, ha'⟩
    · cases hh
    · rw [hcell]; exact h.chk a v b ha'

theorem lk_step {F : Facts} (hF : F.Ok) {s s' : Sys} (h : Lk F s) (i : Nat) (a : Act)
    (hs : step F s i a = some s') : Lk F s' := by
  obtain ⟨hset, htry, hclr⟩ := hF
  unfold step at hs
  cases hi : s.pcs[i]? with
  | none => simp [hi] at hs
  | some pc =>
    simp only [hi] at hs
    cases a with
    | acquire r =>
      cases pc with
      | idle =>
        simp only at hs
        split at hs
        · rename_i hcond
          simp only [Bool.and_eq_true] at hcond
          cases hs
          exact lk_acquire h i r hi hcond.1 (by simp [setPc]) (by simp [setPc]) (by simp [setPc])
        · cases hs
      | locked _ => simp at hs
      | checked _ _ => simp at hs
      | done _ _ => simp at hs
    | body =>
      cases pc with
      | idle => simp at hs
      | done _ _ => simp at hs
      | locked r =>
        cases r with
        | set v =>
          simp only at hs
          cases hs
          refine lk_move h i _ (.done (.set v) (.arc v)) hi rfl (by simp [log, setPc]) rfl (by intro _ _ hh; cases hh)
            (Or.inr (by simp [PC.writes, PC.req, Facts.mode, hset])) ?_
          simp only [log, setPc, store_hist, store_cell]
          exact specRun_append _ _ _ _ _ _ h.hist rfl
        | trySet v =>
          simp only at hs
          cases hs
          refine lk_move h i _ (.checked v s.cell.isSome) hi rfl (by simp [setPc]) rfl
            (by intro _ _ hh; cases hh; simp [setPc]) (Or.inl rfl) ?_
          simp only [setPc]
          exact h.hist
        | get =>
          simp only at hs
          cases hs
          refine lk_move h i _ (.done .get (.got s.cell)) hi rfl (by simp [log, setPc]) rfl (by intro _ _ hh; cases hh)
            (Or.inl (by simp [log, setPc])) ?_
          simp only [log, setPc, share_hist, share_cell]
          have := specRun_append none s.hist i .get (.got s.cell) s.cell h.hist rfl
          simpa [spec] using this
        | clear =>
          simp only at hs
          cases hs
          refine lk_move h i _ (.done .clear .unit) hi rfl (by simp [log, setPc]) rfl (by intro _ _ hh; cases hh)
            (Or.inr (by simp [PC.writes, PC.req, Facts.mode, hclr])) ?_
          simp only [log, setPc, decOpt_hist, decOpt_cell]
          have := specRun_append none s.hist i .clear .unit s.cell h.hist rfl
          simpa [spec] using this
      | checked v b =>
        have hb : b = s.cell.isSome := h.chk i v b hi
        cases b with
        | true =>
          simp only at hs
          cases hs
          refine lk_move h i _ (.done (.trySet v) (.back v)) hi rfl (by simp [log, setPc]) rfl (by intro _ _ hh; cases hh)
            (Or.inl rfl) ?_
          simp only [log, setPc]
          have := specRun_append none s.hist i (.trySet v) (.back v) s.cell h.hist (by simp [spec, ← hb])
          simpa [spec, ← hb] using this
        | false =>
          simp only at hs
          cases hs
          refine lk_move h i _ (.done (.trySet v) (.arc v)) hi rfl (by simp [log, setPc]) rfl (by intro _ _ hh; cases hh)
            (Or.inr (by simp [PC.writes, PC.req, Facts.mode, htry])) ?_
          simp only [log, setPc, store_hist, store_cell]
          have := specRun_append none s.hist i (.trySet v) (.arc v) s.cell h.hist (by simp [spec, ← hb])
          simpa [spec, ← hb] using this
    | release =>
      cases pc with
      | done _ _ => simp only at hs; cases hs; exact lk_release F s i h
      | idle => simp at hs
      | locked _ => simp at hs
      | checked _ _ => simp at hs
    | dropHandle v =>
      have hs : (if (s.out.contains v && s.pcs.all (fun p => p.pending != some v)) = true then some (dec { s with out := s.out.erase v } v) else none) = some s' := by
        cases pc <;> exact hs
      split at hs
      · cases hs
        exact ⟨by simpa using h.excl, by simpa using h.chk, by simpa using h.hist⟩
      · cases hs
    | teardown =>
      cases pc with
      | idle =>
        simp only at hs
        split at hs
        · rename_i hall
          cases hs
          refine ⟨?_, ?_, ?_⟩
          · intro a b pa pb ha hb hab hw
            simp only [log, decOpt_pcs] at ha hb
            exact all_not_busy hall b pb hb
          · intro a v b ha
            simp only [log, decOpt_pcs] at ha
            have := all_not_busy hall a _ ha
            simp [PC.busy, PC.req] at this
          · simp only [log, decOpt_hist, decOpt_cell]
            have := specRun_append none s.hist i .clear .unit s.cell h.hist rfl
            simpa [spec] using this
        · cases hs
      | locked _ => simp at hs
      | checked _ _ => simp at hs
      | done _ _ => simp at hs

theorem lk_reachable {F : Facts} (hF : F.Ok) {n : Nat} {s : Sys} (h : Reachable F n s) : Lk F s := by
  induction h with
  | init => exact lk_init F n
  | step i a _ hs ih => exact lk_step hF ih i a hs

/-! ### the ownership ledger -/

/-- 1 when the slot holds `w` -/
def cellIs : Option Nat → Nat → Nat
  | some x, w => if x = w then 1 else 0
  | none, _ => 0

theorem cellIs_self (w : Nat) : cellIs (some w) w = 1 := by simp [cellIs]
theorem cellIs_ne {v w : Nat} (h : v ≠ w) : cellIs (some v) w = 0 := by simp [cellIs, h]
theorem cellIs_le (c : Option Nat) (w : Nat) : cellIs c w ≤ 1 := by
  cases c with
  | none => simp [cellIs]
  | some x => simp only [cellIs]; split <;> omega
theorem cellIs_pos {c : Option Nat} {w : Nat} (h : cellIs c w = 1) : c = some w := by
  cases c with
  | none => simp [cellIs] at h
  | some x => simp only [cellIs] at h; split at h <;> simp_all

structure Ld (s : Sys) : Prop where
  own : ∀ w : Nat, s.owners w = cellIs s.cell w + s.out.count w
  drp1 : ∀ w : Nat, w ∈ s.made → s.owners w = 0 → s.drops w = 1
  drp0 : ∀ w : Nat, (w ∉ s.made ∨ s.owners w ≠ 0) → s.drops w = 0
  mad : ∀ w : Nat, w ∉ s.made → s.owners w = 0
  pnd : ∀ (i : Nat) (p : PC) (v : Nat), s.pcs[i]? = some p → p.pending = some v → v ∈ s.made ∧ v ∈ s.out

theorem ld_init (n : Nat) : Ld (Sys.init n) := by
  refine ⟨by intro w; simp [Sys.init, cellIs], by intro w h; simp [Sys.init] at h, by intro w _; rfl, by intro w _; rfl, ?_⟩
  intro i p v hi hp
  simp only [Sys.init, List.getElem?_replicate] at hi
  split at hi
  · cases hi; cases hp
  · cases hi

/-- `v` has one owner more than the slot and `out` account for; letting that owner go restores the ledger -/
theorem ld_dec (s : Sys) (v : Nat)
    (hown : ∀ w : Nat, s.owners w = cellIs s.cell w + s.out.count w + (if w = v then 1 else 0))
    (hdrp1 : ∀ w : Nat, w ∈ s.made → s.owners w = 0 → s.drops w = 1)
    (hdrp0 : ∀ w : Nat, (w ∉ s.made ∨ s.owners w ≠ 0) → s.drops w = 0)
    (hmad : ∀ w : Nat, w ∉ s.made → s.owners w = 0)
    (hpnd : ∀ (i : Nat) (p : PC) (x : Nat), s.pcs[i]? = some p → p.pending = some x → x ∈ s.made ∧ x ∈ s.out) : Ld (dec s v) := by
  have hv : 1 ≤ s.owners v := by have := hown v; simp only [↓reduceIte] at this; omega
  have hvm : v ∈ s.made := by
    apply Classical.byContradiction
    intro hn
    have := hmad v hn
    omega
  have hd0 : s.drops v = 0 := hdrp0 v (Or.inr (by omega))
  refine ⟨?_, ?_, ?_, ?_, by simpa using hpnd⟩
  · intro w
    simp only [dec_cell, dec_out]
    have := hown w
    unfold dec
    by_cases hwv : w = v
    · subst hwv
      simp only [↓reduceIte] at this
      split <;> simp only [upd, ↓reduceIte] <;> omega
    · simp only [hwv, ↓reduceIte] at this
      split <;> simp only [upd, hwv, ↓reduceIte] <;> omega
  · intro w hwm hw0
    simp only [dec_made] at hwm
    unfold dec at hw0 ⊢
    by_cases hwv : w = v
    · subst hwv
      split
      · simp only [upd, ↓reduceIte]; omega
      · rename_i hne
        rw [if_neg hne] at hw0
        simp only [upd, ↓reduceIte] at hw0
        omega
    · split
      · rename_i h1
        rw [if_pos h1] at hw0
        simp only [upd, hwv, ↓reduceIte] at hw0 ⊢
        exact hdrp1 w hwm hw0
      · rename_i h1
        rw [if_neg h1] at hw0
        simp only [upd, hwv, ↓reduceIte] at hw0 ⊢
        exact hdrp1 w hwm hw0
  · intro w hw
    simp only [dec_made] at hw
    unfold dec at hw ⊢
    by_cases hwv : w = v
    · subst hwv
      split
      · rename_i h1
        rw [if_pos h1] at hw
        simp only [upd, ↓reduceIte] at hw
        rcases hw with hw | hw
        · exact absurd hvm hw
        · exact absurd rfl hw
      · simp only [upd, ↓reduceIte]; exact hd0
    · split
      · rename_i h1
        rw [if_pos h1] at hw
        simp only [upd, hwv, ↓reduceIte] at hw ⊢
        exact hdrp0 w hw
      · rename_i h1
        rw [if_neg h1] at hw
        simp only [upd, hwv, ↓reduceIte] at hw ⊢
        exact hdrp0 w hw
  · intro w hw
    simp only [dec_made] at hw
    have := hmad w hw
    unfold dec
    by_cases hwv : w = v
    · subst hwv; exact absurd hvm hw
    · split <;> simp only [upd, hwv, ↓reduceIte] <;> exact this

theorem ld_decOpt (s : Sys) (o : Option Nat)
    (hown : ∀ w : Nat, s.owners w = cellIs s.cell w + s.out.count w + cellIs o w)
    (hdrp1 : ∀ w : Nat, w ∈ s.made → s.owners w = 0 → s.drops w = 1)
    (hdrp0 : ∀ w : Nat, (w ∉ s.made ∨ s.owners w ≠ 0) → s.drops w = 0)
    (hmad : ∀ w : Nat, w ∉ s.made → s.owners w = 0)
    (hpnd : ∀ (i : Nat) (p : PC) (x : Nat), s.pcs[i]? = some p → p.pending = some x → x ∈ s.made ∧ x ∈ s.out) : Ld (decOpt s o) := by
  cases o with
  | none =>
    refine ⟨?_, hdrp1, hdrp0, hmad, hpnd⟩
    intro w
    have := hown w
    simpa [cellIs, decOpt] using this
  | some v =>
    refine ld_dec s v ?_ hdrp1 hdrp0 hmad hpnd
    intro w
    have := hown w
    by_cases hwv : w = v
    · subst hwv
      simpa [cellIs] using this
    · have hvw : ¬ v = w := fun h => hwv h.symm
      simp only [hwv, ↓reduceIte]
      simpa [cellIs, hvw] using this

/-- only the thread states / the history change: the ledger is untouched as long as the new state of
    thread `i` has no pending value of its own -/
theorem ld_pcs {s s' : Sys} (h : Ld s) (i : Nat) (p' : PC)
    (hpcs : s'.pcs = s.pcs.set i p') (hcell : s'.cell = s.cell) (hout : s'.out = s.out)
    (hown : s'.owners = s.owners) (hdrops : s'.drops = s.drops) (hmade : s'.made = s.made)
    (hp : ∀ v, p'.pending = some v → v ∈ s.made ∧ v ∈ s.out) : Ld s' := by
  refine ⟨by rw [hown, hcell, hout]; exact h.own, by rw [hown, hdrops, hmade]; exact h.drp1,
    by rw [hown, hdrops, hmade]; exact h.drp0, by rw [hown, hmade]; exact h.mad, ?_⟩
  intro a p v ha hpv
  rw [hpcs] at ha
  rw [hmade, hout]
  rcases getElem?_set_cases _ _ _ _ _ ha with ⟨_, rfl⟩ | ⟨_, ha'⟩
  · exact hp v hpv
  · exact h.pnd a p v ha' hpv

/-- `store` keeps the ledger when the stored value is a pending one -/
theorem ld_store {s : Sys} (h : Ld s) (v : Nat) (hvm : v ∈ s.made) (hvo : v ∈ s.out) : Ld (store s v) := by
  unfold store
  have hov : 1 ≤ s.owners v := by
    have := h.own v
    have : 1 ≤ s.out.count v := List.count_pos_iff.mpr hvo
    omega
  apply ld_decOpt
  · intro w
    have := h.own w
    simp only [inc, upd]
    by_cases hwv : w = v
    · subst hwv; simp only [↓reduceIte, cellIs_self]; omega
    · have : ¬ v = w := fun hh => hwv hh.symm
      simp only [hwv, ↓reduceIte, cellIs_ne this]; omega
  · intro w hwm hw0
    simp only [inc, upd] at hwm hw0 ⊢
    by_cases hwv : w = v
    · subst hwv; simp only [↓reduceIte] at hw0; omega
    · simp only [hwv, ↓reduceIte] at hw0; exact h.drp1 w hwm hw0
  · intro w hw
    simp only [inc, upd] at hw ⊢
    by_cases hwv : w = v
    · subst hwv; exact h.drp0 w (Or.inr (by omega))
    · simp only [hwv, ↓reduceIte] at hw; exact h.drp0 w hw
  · intro w hw
    simp only [inc, upd] at hw ⊢
    by_cases hwv : w = v
    · subst hwv; exact absurd hvm hw
    · simp only [hwv, ↓reduceIte]; exact h.mad w hw
  · intro a p x ha hp
    exact h.pnd a p x ha hp

/-- the slot's content goes (`clear_data`, teardown) -/
theorem ld_clear {s : Sys} (h : Ld s) : Ld (decOpt { s with cell := none } s.cell) := by
  apply ld_decOpt
  · intro w
    have := h.own w
    have h0 : cellIs (none : Option Nat) w = 0 := rfl
    show s.owners w = cellIs none w + s.out.count w + cellIs s.cell w
    omega
  · exact h.drp1
  · exact h.drp0
  · exact h.mad
  · exact h.pnd

theorem ld_step {F : Facts} {s s' : Sys} (h : Ld s) (i : Nat) (a : Act)
    (hs : step F s i a = some s') : Ld s' := by
  unfold step at hs
  cases hi : s.pcs[i]? with
  | none => simp [hi] at hs
  | some pc =>
    simp only [hi] at hs
    cases a with
    | acquire r =>
      cases pc with
      | idle =>
        simp only at hs
        split at hs
        · rename_i hcond
          simp only [Bool.and_eq_true] at hcond
          cases hs
          cases hn : newValue r with
          | none =>
            simp only [takeIn]
            exact ld_pcs h i (.locked r) rfl rfl rfl rfl rfl rfl (by intro v hv; simp [PC.pending, hn] at hv)
          | some v =>
            have hfresh : v ∉ s.made := by
              have := hcond.2
              simpa [freshOk, hn] using this
            have hv0 : s.owners v = 0 := h.mad v hfresh
            have hown := h.own v
            have hc0 : cellIs s.cell v = 0 := by omega
            have ho0 : s.out.count v = 0 := by omega
            simp only [takeIn, setPc]
            refine ⟨?_, ?_, ?_, ?_, ?_⟩
            · intro w
              have := h.own w
              by_cases hwv : w = v
              · subst hwv; simp only [upd, ↓reduceIte, List.count_cons_self]; omega
              · have : ¬ v = w := fun hh => hwv hh.symm
                simp only [upd, hwv, ↓reduceIte, List.count_cons_of_ne this]; omega
            · intro w hwm hw0
              by_cases hwv : w = v
              · subst hwv; simp [upd] at hw0
              · simp only [upd, hwv, ↓reduceIte] at hw0
                simp only [List.mem_cons, hwv, false_or] at hwm
                exact h.drp1 w hwm hw0
            · intro w hw
              by_cases hwv : w = v
              · subst hwv; exact h.drp0 w (Or.inl hfresh)
              · simp only [upd, hwv, ↓reduceIte, List.mem_cons, false_or] at hw
                exact h.drp0 w hw
            · intro w hw
              simp only [List.mem_cons, not_or] at hw
              simp only [upd, hw.1, ↓reduceIte]
              exact h.mad w hw.2
            · intro a p x ha hp
              rcases getElem?_set_cases _ _ _ _ _ ha with ⟨_, rfl⟩ | ⟨_, ha'⟩
              · simp only [PC.pending, hn, Option.some.injEq] at hp
                subst hp
                exact ⟨by simp, by simp⟩
              · have := h.pnd a p x ha' hp
                exact ⟨List.mem_cons_of_mem _ this.1, List.mem_cons_of_mem _ this.2⟩
        · cases hs
      | locked _ => simp at hs
      | checked _ _ => simp at hs
      | done _ _ => simp at hs
    | body =>
      cases pc with
      | idle => simp at hs
      | done _ _ => simp at hs
      | locked r =>
        cases r with
        | set v =>
          simp only at hs
          cases hs
          have hp := h.pnd i _ v hi rfl
          have h1 := ld_store h v hp.1 hp.2
          exact ld_pcs h1 i (.done (.set v) (.arc v)) (by simp [log, setPc]) rfl rfl rfl rfl rfl (by intro x hx; cases hx)
        | trySet v =>
          simp only at hs
          cases hs
          have hp := h.pnd i _ v hi rfl
          exact ld_pcs h i (.checked v s.cell.isSome) rfl rfl rfl rfl rfl rfl
            (by intro x hx; simp only [PC.pending, Option.some.injEq] at hx; subst hx; exact hp)
        | get =>
          simp only at hs
          cases hs
          have h1 : Ld (share s s.cell) := by
            cases hc : s.cell with
            | none => simpa [share] using h
            | some w =>
              have hcw : cellIs s.cell w = 1 := by rw [hc]; exact cellIs_self w
              have how : 1 ≤ s.owners w := by have := h.own w; omega
              have hwm : w ∈ s.made := by
                apply Classical.byContradiction
                intro hn
                have := h.mad w hn
                omega
              simp only [share, inc]
              refine ⟨?_, ?_, ?_, ?_, ?_⟩
              · intro x
                have := h.own x
                by_cases hxw : x = w
                · subst hxw; simp only [upd, ↓reduceIte, List.count_cons_self]; omega
                · have : ¬ w = x := fun hh => hxw hh.symm
                  simp only [upd, hxw, ↓reduceIte, List.count_cons_of_ne this]; omega
              · intro x hxm hx0
                by_cases hxw : x = w
                · subst hxw; simp [upd] at hx0
                · simp only [upd, hxw, ↓reduceIte] at hx0 ⊢
                  exact h.drp1 x hxm hx0
              · intro x hx
                by_cases hxw : x = w
                · subst hxw; exact h.drp0 x (Or.inr (by omega))
                · simp only [upd, hxw, ↓reduceIte] at hx
                  exact h.drp0 x hx
              · intro x hx
                by_cases hxw : x = w
                · subst hxw; exact absurd hwm hx
                · simp only [upd, hxw, ↓reduceIte]; exact h.mad x hx
              · intro a p x ha hp
                have := h.pnd a p x ha hp
                exact ⟨this.1, List.mem_cons_of_mem _ this.2⟩
          exact ld_pcs h1 i (.done .get (.got s.cell)) (by simp [log, setPc]) (by simp [log, setPc]) rfl rfl rfl rfl (by intro x hx; cases hx)
        | clear =>
          simp only at hs
          cases hs
          exact ld_pcs (ld_clear h) i (.done .clear .unit) (by simp [log, setPc]) rfl rfl rfl rfl rfl (by intro x hx; cases hx)
      | checked v b =>
        have hp := h.pnd i _ v hi rfl
        cases b with
        | true =>
          simp only at hs
          cases hs
          exact ld_pcs h i (.done (.trySet v) (.back v)) rfl rfl rfl rfl rfl rfl (by intro x hx; cases hx)
        | false =>
          simp only at hs
          cases hs
          have h1 := ld_store h v hp.1 hp.2
          exact ld_pcs h1 i (.done (.trySet v) (.arc v)) (by simp [log, setPc]) rfl rfl rfl rfl rfl (by intro x hx; cases hx)
    | release =>
      cases pc with
      | done _ _ => simp only at hs; cases hs; exact ld_pcs h i .idle rfl rfl rfl rfl rfl rfl (by intro x hx; cases hx)
      | idle => simp at hs
      | locked _ => simp at hs
      | checked _ _ => simp at hs
    | dropHandle v =>
      have hs : (if (s.out.contains v && s.pcs.all (fun p => p.pending != some v)) = true then some (dec { s with out := s.out.erase v } v) else none) = some s' := by
        cases pc <;> exact hs
      split at hs
      · rename_i hcond
        simp only [Bool.and_eq_true, List.contains_iff_mem, List.all_eq_true, bne_iff_ne, ne_eq] at hcond
        cases hs
        have hvo : 1 ≤ s.out.count v := List.count_pos_iff.mpr hcond.1
        apply ld_dec
        · intro w
          have := h.own w
          by_cases hwv : w = v
          · subst hwv
            simp only [↓reduceIte, List.count_erase_self]
            omega
          · have : ¬ v = w := fun hh => hwv hh.symm
            simp only [hwv, ↓reduceIte, List.count_erase_of_ne hwv]
            omega
        · exact h.drp1
        · exact h.drp0
        · exact h.mad
        · intro a p x ha hp
          have hx := h.pnd a p x ha hp
          have hne : x ≠ v := by
            intro hxv
            subst hxv
            exact hcond.2 p (List.mem_of_getElem? ha) hp
          exact ⟨hx.1, (List.mem_erase_of_ne hne).mpr hx.2⟩
      · cases hs
    | teardown =>
      cases pc with
      | idle =>
        simp only at hs
        split at hs
        · cases hs
          have h1 := ld_clear h
          exact ⟨h1.own, h1.drp1, h1.drp0, h1.mad, h1.pnd⟩
        · cases hs
      | locked _ => simp at hs
      | checked _ _ => simp at hs
      | done _ _ => simp at hs

theorem ld_reachable {F : Facts} {n : Nat} {s : Sys} (h : Reachable F n s) : Ld s := by
  induction h with
  | init => exact ld_init n
  | step i a _ hs ih => exact ld_step ih i a hs

end Cst.DataSlot
