/-
  Proofs/SerRed — the event stream the red-level serialiser writes (a walk over the red tree with
  `preorder_with_tokens`, resolving token texts on the way) is the recursive event stream of the tree.
-/
import CstModel.Model.Serde
import CstModel.Proofs.Walk
import CstModel.Props.C11
import CstModel.Props.C16
namespace Cst
open Red

mutual
/-- the tree (with data on its nodes) that a green tree and a data assignment stand for; `none` when a
    token does not resolve -/
def toDT (cfg : Cfg) (I : Interner) (data : Path → Option Nat) (p : Path) : Green → Option C16.DT
  | .tok id k key len => (tokenText cfg I (.tok id k key len)).map (fun s => C16.DT.tok k s)
  | .node _ k _ _ cs => (toDTL cfg I data p 0 cs).map (fun ds => C16.DT.node k (data p) ds)
def toDTL (cfg : Cfg) (I : Interner) (data : Path → Option Nat) (p : Path) (i : Nat) : List Green → Option (List C16.DT)
  | [] => some []
  | c :: cs =>
    match toDT cfg I data (p ++ [i]) c, toDTL cfg I data p (i + 1) cs with
    | some d, some ds => some (d :: ds)
    | _, _ => none
end

theorem collectEvents_append (cfg : Cfg) (I : Interner) (r : Red) (flag : Path → Bool) (a b : List WE) (x y : List SEv)
    (ha : collectEvents cfg I r flag a = some x) (hb : collectEvents cfg I r flag b = some y) :
    collectEvents cfg I r flag (a ++ b) = some (x ++ y) := by
  induction a generalizing x with
  | nil => simp only [collectEvents] at ha; cases ha; simpa using hb
  | cons e es ih =>
    simp only [List.cons_append, collectEvents] at ha ⊢
    cases he : serEvent cfg I r flag e with
    | none => simp [he] at ha
    | some o =>
      cases hes : collectEvents cfg I r flag es with
      | none => cases o <;> simp [he, hes] at ha
      | some ss =>
        rw [ih ss hes]
        cases o with
        | none => simp only [he, hes] at ha ⊢; cases ha; rfl
        | some s => simp only [he, hes] at ha ⊢; cases ha; rfl

mutual
/-- the walk events of a sub-tree serialise to the recursive event stream of the tree it stands for -/
theorem ser_pre (cfg : Cfg) (I : Interner) (r : Red) (data : Path → Option Nat) :
    (g : Green) → (p : Path) → (dt : C16.DT) → Green.get r.root p = some g → toDT cfg I data p g = some dt →
    collectEvents cfg I r (fun q => (data q).isSome) (C03.pre p g) = some (C16.serEv dt)
  | .tok id k key len, p, dt, hg, hd => by
    simp only [toDT] at hd
    cases ht : tokenText cfg I (.tok id k key len) with
    | none => simp [ht] at hd
    | some s =>
      simp only [ht, Option.map_some, Option.some.injEq] at hd
      subst hd
      have hgr : r.green p = some (.tok id k key len) := hg
      simp [C03.pre, collectEvents, serEvent, hgr, Green.isNode, ht, Green.kind, C16.serEv]
  | .node id k len h cs, p, dt, hg, hd => by
    simp only [toDT] at hd
    cases hl : toDTL cfg I data p 0 cs with
    | none => simp [hl] at hd
    | some ds =>
      simp only [hl, Option.map_some, Option.some.injEq] at hd
      subst hd
      have hgr : r.green p = some (.node id k len h cs) := hg
      have hkids := ser_preL cfg I r data cs p 0 ds (.node id k len h cs) hg (by simp [Green.children]) hl
      have hleave : collectEvents cfg I r (fun q => (data q).isSome) [.leave p] = some [SEv.leave] := by
        simp [collectEvents, serEvent, hgr, Green.isNode]
      have hbody := collectEvents_append cfg I r _ _ _ _ _ hkids hleave
      simp only [C03.pre, collectEvents, serEvent, hgr, Green.isNode, ↓reduceIte, hbody, Green.kind, C16.serEv]
theorem ser_preL (cfg : Cfg) (I : Interner) (r : Red) (data : Path → Option Nat) :
    (cs : List Green) → (p : Path) → (i : Nat) → (ds : List C16.DT) → (t : Green) → Green.get r.root p = some t →
    t.children.drop i = cs → toDTL cfg I data p i cs = some ds →
    collectEvents cfg I r (fun q => (data q).isSome) (C03.preL p i cs) = some (C16.serEvL ds)
  | [], _, _, ds, _, _, _, hd => by
    simp only [toDTL, Option.some.injEq] at hd
    subst hd
    simp [C03.preL, collectEvents, C16.serEvL]
  | c :: cs, p, i, ds, t, hg, hdrop, hd => by
    simp only [toDTL] at hd
    cases h1 : toDT cfg I data (p ++ [i]) c with
    | none => simp [h1] at hd
    | some d =>
      cases h2 : toDTL cfg I data p (i + 1) cs with
      | none => simp [h1, h2] at hd
      | some ds' =>
        simp only [h1, h2, Option.some.injEq] at hd
        subst hd
        have hci : t.children[i]? = some c := by
          have := congrArg List.head? hdrop; simpa [List.head?_drop] using this
        have hgc : Green.get r.root (p ++ [i]) = some c := C03.get_child r.root p t hg i c hci
        have hrest : t.children.drop (i + 1) = cs := by
          have := congrArg List.tail hdrop; simpa [List.tail_drop] using this
        have e1 := ser_pre cfg I r data c (p ++ [i]) d hgc h1
        have e2 := ser_preL cfg I r data cs p (i + 1) ds' t hg hrest h2
        simp only [C03.preL, C16.serEvL]
        exact collectEvents_append cfg I r _ _ _ _ _ e1 e2
end

mutual
/-- forgetting the data gives back the tree the green tree resolves to -/
theorem toDT_strip (cfg : Cfg) (I : Interner) (data : Path → Option Nat) :
    (g : Green) → (p : Path) → (dt : C16.DT) → GWf cfg I g → toDT cfg I data p g = some dt →
    resolveG cfg I g = some (C16.strip dt)
  | .tok id k key len, p, dt, hw, hd => by
    simp only [toDT] at hd
    have he := C11.tokenText_eq_resolve cfg I id k key len hw
    cases ht : tokenText cfg I (.tok id k key len) with
    | none => simp [ht] at hd
    | some s =>
      simp only [ht, Option.map_some, Option.some.injEq] at hd
      subst hd
      rw [ht] at he
      cases key with
      | none =>
        simp only [resolveG] at he ⊢
        cases hs : cfg.staticText k with
        | none => simp [hs] at he
        | some st => simp [hs, Tree.text] at he ⊢; simp [C16.strip, he]
      | some key =>
        simp only [resolveG] at he ⊢
        cases hs : I.resolve key with
        | none => simp [hs] at he
        | some st => simp [hs, Tree.text] at he ⊢; simp [C16.strip, he]
  | .node id k len h cs, p, dt, hw, hd => by
    simp only [toDT] at hd
    cases hl : toDTL cfg I data p 0 cs with
    | none => simp [hl] at hd
    | some ds =>
      simp only [hl, Option.map_some, Option.some.injEq] at hd
      subst hd
      simp only [GWf] at hw
      have := toDTL_strip cfg I data cs p 0 ds hw.2.2 hl
      simp [resolveG, this, C16.strip]
theorem toDTL_strip (cfg : Cfg) (I : Interner) (data : Path → Option Nat) :
    (cs : List Green) → (p : Path) → (i : Nat) → (ds : List C16.DT) → GWfL cfg I cs → toDTL cfg I data p i cs = some ds →
    resolveL cfg I cs = some (C16.stripL ds)
  | [], _, _, ds, _, hd => by
    simp only [toDTL, Option.some.injEq] at hd
    subst hd
    simp [resolveL, C16.stripL]
  | c :: cs, p, i, ds, hw, hd => by
    simp only [toDTL] at hd
    cases h1 : toDT cfg I data (p ++ [i]) c with
    | none => simp [h1] at hd
    | some d =>
      cases h2 : toDTL cfg I data p (i + 1) cs with
      | none => simp [h1, h2] at hd
      | some ds' =>
        simp only [h1, h2, Option.some.injEq] at hd
        subst hd
        simp only [GWfL] at hw
        simp [resolveL, toDT_strip cfg I data c (p ++ [i]) d hw.1 h1, toDTL_strip cfg I data cs p (i + 1) ds' hw.2 h2, C16.stripL]
end

/-- **the serialiser's walk writes the tree's event stream**: for a fresh red tree over `g`, any data
    assignment and any interner in which the tokens resolve, `serialize` returns exactly `serEv` of the
    tree `g` stands for (which `C16.roundtrip` then reads back) -/
theorem ser_red (cfg : Cfg) (I : Interner) (data : Path → Option Nat) (g : Green) (dt : C16.DT)
    (hd : toDT cfg I data [] g = some dt) :
    ((Red.new g).serialize cfg I (fun q => (data q).isSome)).1 = some (C16.serEv dt) := by
  have hspec := preorderWithTokens_spec (Red.new g) (Closed.new g) [] g (Mat.root _) (by simp [Red.green, Red.new, Green.get])
  simp only [Red.serialize]
  rw [hspec.1]
  have hroot : ((Red.new g).preorderWithTokens []).2.root = g := hspec.2.1
  exact ser_pre cfg I _ data g [] dt (by rw [hroot]; simp [Green.get]) hd

mutual
theorem staticOk_of_GWf (cfg : Cfg) (I : Interner) :
    (g : Green) → (t : Tree) → GWf cfg I g → resolveG cfg I g = some t → StaticOk cfg t
  | .tok _ k none _, t, hw, hr => by
    simp only [GWf] at hw
    obtain ⟨st, hs, _⟩ := hw
    simp only [resolveG, hs, Option.map_some, Option.some.injEq] at hr
    subst hr
    intro st' hs'
    rw [hs] at hs'
    exact Option.some.inj hs'
  | .tok _ k (some key) _, t, hw, hr => by
    simp only [GWf] at hw
    cases hk : I.resolve key with
    | none => simp [resolveG, hk] at hr
    | some s =>
      simp only [resolveG, hk, Option.map_some, Option.some.injEq] at hr
      subst hr
      intro st' hs'
      rw [hw.1] at hs'
      cases hs'
  | .node _ k _ _ cs, t, hw, hr => by
    simp only [GWf] at hw
    cases hl : resolveL cfg I cs with
    | none => simp [resolveG, hl] at hr
    | some ts =>
      simp only [resolveG, hl, Option.map_some, Option.some.injEq] at hr
      subst hr
      exact staticOkL_of_GWfL cfg I cs ts hw.2.2 hl
theorem staticOkL_of_GWfL (cfg : Cfg) (I : Interner) :
    (gs : List Green) → (ts : List Tree) → GWfL cfg I gs → resolveL cfg I gs = some ts → StaticOkL cfg ts
  | [], ts, _, hr => by
    simp only [resolveL, Option.some.injEq] at hr
    subst hr
    trivial
  | g :: gs, ts, hw, hr => by
    simp only [GWfL] at hw
    simp only [resolveL] at hr
    cases h1 : resolveG cfg I g with
    | none => simp [h1] at hr
    | some t =>
      cases h2 : resolveL cfg I gs with
      | none => simp [h1, h2] at hr
      | some ts' =>
        simp only [h1, h2, Option.some.injEq] at hr
        subst hr
        exact ⟨staticOk_of_GWf cfg I g t hw.1 h1, staticOkL_of_GWfL cfg I gs ts' hw.2 h2⟩
end

/-- **serialise, then deserialise**: the events the red-level serialiser writes for any well-formed green
    tree with any data assignment are read back (through a fresh builder) as a tree that resolves to the
    same tree, with the same data on the same nodes -/
theorem ser_de_roundtrip (cfg : Cfg) (hcmp : cfg.cmpChildren = true) (cap : Nat) (I : Interner)
    (data : Path → Option Nat) (id k len : Nat) (h : UInt32) (cs : List Green)
    (hw : GWf cfg I (.node id k len h cs)) (dt : C16.DT) (hd : toDT cfg I data [] (.node id k len h cs) = some dt)
    (hcap : (C16.strip dt).nTokens ≤ cap) :
    ∃ evs, ((Red.new (.node id k len h cs)).serialize cfg I (fun q => (data q).isSome)).1 = some evs ∧
      ∃ g' c, deserialize cfg cap evs (C16.dataOf dt) = .ok (g', c, C16.positions (C16.optsOf dt) 0) ∧
        resolveG cfg c.interner g' = resolveG cfg I (.node id k len h cs) := by
  refine ⟨C16.serEv dt, ser_red cfg I data _ dt hd, ?_⟩
  have hres := toDT_strip cfg I data _ [] dt hw hd
  have hso := staticOk_of_GWf cfg I _ _ hw hres
  -- a node stands for a node
  simp only [toDT] at hd
  cases hl : toDTL cfg I data [] 0 cs with
  | none => simp [hl] at hd
  | some ds =>
    simp only [hl, Option.map_some, Option.some.injEq] at hd
    subst hd
    obtain ⟨g', c, h1, h2⟩ := C16.roundtrip cfg hcmp cap k (data []) ds hso hcap
    exact ⟨g', c, h1, by rw [h2, hres]⟩

end Cst
