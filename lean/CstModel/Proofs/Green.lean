/- helper lemmas about green elements: well-formedness, resolution, structural equality -/
import CstModel.Model.Tree
import CstModel.Proofs.Interner
namespace Cst

mutual
/-- a green element is well-formed w.r.t. a syntax and an interner: keys resolve, key-less tokens
    have static text, stored lengths and hashes are the computed ones -/
def GWf (cfg : Cfg) (I : Interner) : Green → Prop
  | .tok _ k none l => ∃ st, cfg.staticText k = some st ∧ l = blen st
  | .tok _ k (some key) l => cfg.staticText k = none ∧ ∃ s, I.resolve key = some s ∧ l = blen s
  | .node _ _ l h cs => l = sumLen cs ∧ h = cfg.H cs ∧ GWfL cfg I cs
def GWfL (cfg : Cfg) (I : Interner) : List Green → Prop
  | [] => True
  | g :: gs => GWf cfg I g ∧ GWfL cfg I gs
end

theorem GWfL_iff {cfg : Cfg} {I : Interner} {gs : List Green} : GWfL cfg I gs ↔ ∀ g ∈ gs, GWf cfg I g := by
  induction gs with
  | nil => simp [GWfL]
  | cons g gs ih => simp [GWfL, ih]

theorem GWfL_append {cfg : Cfg} {I : Interner} {as bs : List Green} :
    GWfL cfg I (as ++ bs) ↔ GWfL cfg I as ∧ GWfL cfg I bs := by
  simp only [GWfL_iff, List.mem_append]
  constructor
  · intro h; exact ⟨fun g hg => h g (Or.inl hg), fun g hg => h g (Or.inr hg)⟩
  · intro ⟨h1, h2⟩ g hg; rcases hg with hg | hg; exact h1 g hg; exact h2 g hg

mutual
theorem GWf_mono {cfg : Cfg} {I J : Interner} (hp : I.strs <+: J.strs) :
    (g : Green) → GWf cfg I g → GWf cfg J g
  | .tok _ _ none _, h => by simpa [GWf] using h
  | .tok _ _ (some key) _, h => by
    simp only [GWf] at h ⊢
    obtain ⟨hn, s, hs, hl⟩ := h
    exact ⟨hn, s, resolve_mono hp hs, hl⟩
  | .node _ _ _ _ cs, h => by
    simp only [GWf] at h ⊢
    exact ⟨h.1, h.2.1, GWfL_mono hp cs h.2.2⟩
theorem GWfL_mono {cfg : Cfg} {I J : Interner} (hp : I.strs <+: J.strs) :
    (gs : List Green) → GWfL cfg I gs → GWfL cfg J gs
  | [], _ => trivial
  | g :: gs, h => ⟨GWf_mono hp g h.1, GWfL_mono hp gs h.2⟩
end

mutual
/-- a well-formed element resolves, and its stored length is the byte length of its text -/
theorem resolve_of_GWf {cfg : Cfg} {I : Interner} :
    (g : Green) → GWf cfg I g → ∃ t, resolveG cfg I g = some t ∧ g.len = blen t.text
  | .tok _ k none l, h => by
    simp only [GWf] at h
    obtain ⟨st, hs, hl⟩ := h
    exact ⟨.tok k st, by simp [resolveG, hs], by simp [Green.len, Tree.text, hl]⟩
  | .tok _ k (some key) l, h => by
    simp only [GWf] at h
    obtain ⟨_, s, hs, hl⟩ := h
    exact ⟨.tok k s, by simp [resolveG, hs], by simp [Green.len, Tree.text, hl]⟩
  | .node _ k l hh cs, h => by
    simp only [GWf] at h
    obtain ⟨ts, hts, hlen⟩ := resolveL_of_GWfL cs h.2.2
    exact ⟨.node k ts, by simp [resolveG, hts], by simp [Green.len, Tree.text, h.1, hlen]⟩
theorem resolveL_of_GWfL {cfg : Cfg} {I : Interner} :
    (gs : List Green) → GWfL cfg I gs → ∃ ts, resolveL cfg I gs = some ts ∧ sumLen gs = blen (Tree.textL ts)
  | [], _ => ⟨[], by simp [resolveL], by simp [sumLen, Tree.textL]⟩
  | g :: gs, h => by
    obtain ⟨t, ht, hl⟩ := resolve_of_GWf g h.1
    obtain ⟨ts, hts, hls⟩ := resolveL_of_GWfL gs h.2
    exact ⟨t :: ts, by simp [resolveL, ht, hts], by simp [sumLen, Tree.textL, blen_append, hl, hls]⟩
end

mutual
theorem resolveG_mono {cfg : Cfg} {I J : Interner} (hp : I.strs <+: J.strs) :
    (g : Green) → (t : Tree) → resolveG cfg I g = some t → resolveG cfg J g = some t
  | .tok _ _ none _, t, h => by simpa [resolveG] using h
  | .tok _ k (some key) _, t, h => by
    simp only [resolveG, Option.map_eq_some_iff] at h ⊢
    obtain ⟨s, hs, ht⟩ := h
    exact ⟨s, resolve_mono hp hs, ht⟩
  | .node _ k _ _ cs, t, h => by
    simp only [resolveG, Option.map_eq_some_iff] at h ⊢
    obtain ⟨ts, hts, ht⟩ := h
    exact ⟨ts, resolveL_mono hp cs ts hts, ht⟩
theorem resolveL_mono {cfg : Cfg} {I J : Interner} (hp : I.strs <+: J.strs) :
    (gs : List Green) → (ts : List Tree) → resolveL cfg I gs = some ts → resolveL cfg J gs = some ts
  | [], ts, h => by simpa [resolveL] using h
  | g :: gs, ts, h => by
    unfold resolveL at h ⊢
    cases hg : resolveG cfg I g with
    | none => simp [hg] at h
    | some t =>
      cases hgs : resolveL cfg I gs with
      | none => simp [hg, hgs] at h
      | some ts' =>
        simp [hg, hgs] at h
        simp [resolveG_mono hp g t hg, resolveL_mono hp gs ts' hgs, h]
end

mutual
/-- structurally equal elements resolve to the same tree (ids play no role) -/
theorem resolve_of_beq {cfg : Cfg} {I : Interner} :
    (a b : Green) → Green.beq a b = true → resolveG cfg I a = resolveG cfg I b
  | .tok _ k1 key1 l1, .tok _ k2 key2 l2, h => by
    simp only [Green.beq, Bool.and_eq_true, beq_iff_eq] at h
    obtain ⟨⟨hk, hkey⟩, _⟩ := h
    subst hk; subst hkey
    cases key1 <;> simp [resolveG]
  | .node _ k1 l1 h1 cs1, .node _ k2 l2 h2 cs2, h => by
    simp only [Green.beq, Bool.and_eq_true, beq_iff_eq] at h
    obtain ⟨⟨⟨hk, _⟩, _⟩, hcs⟩ := h
    subst hk
    simp [resolveG, resolveL_of_beqL cs1 cs2 hcs]
  | .tok .., .node .., h => by simp [Green.beq] at h
  | .node .., .tok .., h => by simp [Green.beq] at h
theorem resolveL_of_beqL {cfg : Cfg} {I : Interner} :
    (as bs : List Green) → Green.beqL as bs = true → resolveL cfg I as = resolveL cfg I bs
  | [], [], _ => rfl
  | a :: as, b :: bs, h => by
    simp only [Green.beqL, Bool.and_eq_true] at h
    simp [resolveL, resolve_of_beq a b h.1, resolveL_of_beqL as bs h.2]
  | [], _ :: _, h => by simp [Green.beqL] at h
  | _ :: _, [], h => by simp [Green.beqL] at h
end

end Cst
