/- counting lemmas and the inductive invariant of the slot / reference-count protocol -/
import CstModel.Model.Conc
namespace Cst.Conc

/-- decrements a thread still owes the counter on the loser path (they were added in advance) -/
def owed : PC → Int
  | .added _ true _ => 2
  | .added _ false _ => 1
  | .dropped1 _ _ => 1
  | _ => 0

def sumOwned : List Thr → Int
  | [] => 0
  | t :: ts => (t.owned : Int) + sumOwned ts

def sumOwed : List Thr → Int
  | [] => 0
  | t :: ts => owed t.pc + sumOwed ts

theorem owed_nonneg (p : PC) : 0 ≤ owed p := by
  cases p <;> simp [owed] <;> (rename_i b _ ; cases b <;> simp)

theorem sumOwned_set (l : List Thr) (i : Nat) (t u : Thr) (h : l[i]? = some t) :
    sumOwned (l.set i u) = sumOwned l - t.owned + u.owned := by
  induction l generalizing i with
  | nil => simp at h
  | cons x xs ih =>
    cases i with
    | zero => simp at h; subst h; simp [sumOwned]; omega
    | succ n => simp at h; simp [sumOwned, ih n h]; omega

theorem sumOwed_set (l : List Thr) (i : Nat) (t u : Thr) (h : l[i]? = some t) :
    sumOwed (l.set i u) = sumOwed l - owed t.pc + owed u.pc := by
  induction l generalizing i with
  | nil => simp at h
  | cons x xs ih =>
    cases i with
    | zero => simp at h; subst h; simp [sumOwed]; omega
    | succ n => simp at h; simp [sumOwed, ih n h]; omega

theorem sumOwned_nonneg (l : List Thr) : 0 ≤ sumOwned l := by
  induction l with
  | nil => simp [sumOwned]
  | cons x xs ih => simp [sumOwned]; omega

theorem sumOwed_nonneg (l : List Thr) : 0 ≤ sumOwed l := by
  induction l with
  | nil => simp [sumOwed]
  | cons x xs ih => simp only [sumOwed]; have := owed_nonneg x.pc; omega

theorem owned_le_sum (l : List Thr) (i : Nat) (t : Thr) (h : l[i]? = some t) : (t.owned : Int) ≤ sumOwned l := by
  induction l generalizing i with
  | nil => simp at h
  | cons x xs ih =>
    cases i with
    | zero => simp at h; subst h; have := sumOwned_nonneg xs; simp [sumOwned]; omega
    | succ n => simp at h; have := ih n h; simp [sumOwned]; omega

theorem owed_le_sum (l : List Thr) (i : Nat) (t : Thr) (h : l[i]? = some t) : owed t.pc ≤ sumOwed l := by
  induction l generalizing i with
  | nil => simp at h
  | cons x xs ih =>
    cases i with
    | zero => simp at h; subst h; have := sumOwed_nonneg xs; simp [sumOwed]; omega
    | succ n => simp at h; have := ih n h; have := owed_nonneg x.pc; simp [sumOwed]; omega

/-- **the invariant**: while the tree is alive the counter equals the owned handles plus the
    decrements owed on loser paths; a busy thread owns a handle; teardown happens at most once, and
    only when nobody owns a handle -/
structure Inv (s : Sys) : Prop where
  rcEq : s.torn = 0 → s.rc = sumOwned s.thr + sumOwed s.thr
  busyOwns : ∀ t ∈ s.thr, t.pc ≠ .idle → t.owned ≥ 1
  tornLe : s.torn ≤ 1
  tornNone : s.torn = 1 → sumOwned s.thr = 0
  /-- while the tree is alive the counter is positive: it reaches 0 only in the step that tears down -/
  rcPos : s.torn = 0 → 1 ≤ s.rc

theorem mem_set_cases {l : List Thr} {i : Nat} {u x : Thr} (h : x ∈ l.set i u) : x = u ∨ x ∈ l := by
  rcases List.mem_or_eq_of_mem_set h with h | h
  · exact Or.inr h
  · exact Or.inl h

/-- updating one thread (and the counter) consistently preserves the invariant -/
theorem inv_setThr (s : Sys) (i : Nat) (t u : Thr) (rc' : Int) (s2 : Sys) (ht : s.thr[i]? = some t) (hI : Inv s)
    (h0 : s.torn = 0)
    (hs2 : s2.thr = s.thr.set i u ∧ s2.rc = rc' ∧ s2.torn = s.torn)
    (hrc : rc' = s.rc - t.owned + u.owned - owed t.pc + owed u.pc)
    (hbusy : u.pc ≠ .idle → u.owned ≥ 1) (hpos : s.rc ≤ rc') : Inv s2 := by
  obtain ⟨e1, e2, e3⟩ := hs2
  refine ⟨?_, ?_, ?_, ?_, ?_⟩
  · intro _
    have h1 := hI.rcEq h0
    rw [e1, e2, sumOwned_set _ _ _ u ht, sumOwed_set _ _ _ u ht]
    omega
  · intro x hx hpc
    rw [e1] at hx
    rcases mem_set_cases hx with rfl | hx
    · exact hbusy hpc
    · exact hI.busyOwns x hx hpc
  · rw [e3]; exact hI.tornLe
  · intro h; rw [e3] at h; omega
  · intro _; rw [e2]; have := hI.rcPos h0; omega

/-- `dec` on a state whose counter is one ahead of the books -/
theorem inv_dec (s : Sys) (h0 : s.torn = 0)
    (hrc : s.rc = sumOwned s.thr + sumOwed s.thr + 1)
    (hbusy : ∀ t ∈ s.thr, t.pc ≠ .idle → t.owned ≥ 1) : Inv (dec s) := by
  unfold dec
  by_cases h1 : s.rc = 1
  · have a := sumOwned_nonneg s.thr
    have b := sumOwed_nonneg s.thr
    simp only [h1, ↓reduceIte]
    refine ⟨?_, hbusy, ?_, ?_, ?_⟩
    · intro h; simp [h0] at h
    · simp [h0]
    · intro _; show sumOwned s.thr = 0; omega
    · intro h; simp [h0] at h
  · simp only [h1, ↓reduceIte]
    have a := sumOwned_nonneg s.thr
    have b := sumOwed_nonneg s.thr
    refine ⟨?_, hbusy, ?_, ?_, ?_⟩
    · intro _; simp; omega
    · simp [h0]
    · intro h; simp [h0] at h
    · intro _; simp; omega

theorem inv_spawn (s : Sys) (hI : Inv s) : Inv { s with thr := s.thr ++ [⟨0, .idle⟩] } := by
  have e1 : ∀ l : List Thr, sumOwned (l ++ [⟨0, .idle⟩]) = sumOwned l := by
    intro l; induction l with
    | nil => simp [sumOwned]
    | cons x xs ih => simp [sumOwned, ih]
  have e2 : ∀ l : List Thr, sumOwed (l ++ [⟨0, .idle⟩]) = sumOwed l := by
    intro l; induction l with
    | nil => simp [sumOwed, owed]
    | cons x xs ih => simp [sumOwed, ih]
  refine ⟨?_, ?_, hI.tornLe, ?_, hI.rcPos⟩
  · intro h; simp only [e1, e2]; exact hI.rcEq h
  · intro x hx hpc
    simp only [List.mem_append, List.mem_singleton] at hx
    rcases hx with hx | rfl
    · exact hI.busyOwns x hx hpc
    · simp at hpc
  · intro h; simp only [e1]; exact hI.tornNone h

theorem owned_zero_of_sum (l : List Thr) (i : Nat) (t : Thr) (h : l[i]? = some t)
    (hz : sumOwned l = 0) : t.owned = 0 := by
  have := owned_le_sum l i t h; omega

/-- after teardown nobody owns a handle, so nobody is busy and nobody can act (except `spawn`) -/
theorem torn_all_idle (s : Sys) (hI : Inv s) (ht : s.torn = 1) (i : Nat) (t : Thr) (h : s.thr[i]? = some t) :
    t.owned = 0 ∧ t.pc = .idle := by
  have h0 := owned_zero_of_sum s.thr i t h (hI.tornNone ht)
  refine ⟨h0, ?_⟩
  by_cases hp : t.pc = .idle
  · exact hp
  · have := hI.busyOwns t (List.mem_of_getElem? h) hp; omega

end Cst.Conc

namespace Cst.Conc

theorem sums_setThr (s : Sys) (i : Nat) (t u : Thr) (ht : s.thr[i]? = some t) :
    sumOwned (setThr s i u).thr = sumOwned s.thr - t.owned + u.owned ∧
    sumOwed (setThr s i u).thr = sumOwed s.thr - owed t.pc + owed u.pc :=
  ⟨sumOwned_set _ _ _ u ht, sumOwed_set _ _ _ u ht⟩

theorem busy_setThr (s : Sys) (i : Nat) (u : Thr) (hI : Inv s) (hbusy : u.pc ≠ .idle → u.owned ≥ 1) :
    ∀ x ∈ (setThr s i u).thr, x.pc ≠ .idle → x.owned ≥ 1 := by
  intro x hx hpc
  rcases mem_set_cases hx with rfl | hx
  · exact hbusy hpc
  · exact hI.busyOwns x hx hpc

/-- **the invariant is inductive**, given the compensation amounts extracted from the source -/
theorem inv_step (F : Facts) (hN : F.compNode = 2) (hT : F.compTok = 1)
    (s s' : Sys) (i : Nat) (a : Act) (hI : Inv s) (hs : step F s i a = some s') : Inv s' := by
  unfold step at hs
  cases hti : s.thr[i]? with
  | none => simp [hti] at hs
  | some t =>
    obtain ⟨tow, tpc⟩ := t
    simp only [hti] at hs
    by_cases h0 : s.torn = 0
    · -- alive
      have hrc := hI.rcEq h0
      have hown : tpc ≠ .idle → tow ≥ 1 := fun h => hI.busyOwns ⟨tow, tpc⟩ (List.mem_of_getElem? hti) h
      cases a with
      | spawn => simp only [Option.some.injEq] at hs; subst hs; exact inv_spawn s hI
      | clone =>
        cases tpc <;> (try simp only at hs) <;> try (simp at hs; done)
        split at hs
        · simp only [Option.some.injEq] at hs; subst hs
          exact inv_setThr s i ⟨tow, .idle⟩ ⟨tow + 1, .idle⟩ (s.rc + 1) _ hti hI h0 ⟨rfl, rfl, rfl⟩ (by simp [owed]; omega) (by simp) (by omega)
        · simp at hs
      | dropH =>
        cases tpc <;> (try simp only at hs) <;> try (simp at hs; done)
        split at hs
        · rename_i ho
          simp only [Option.some.injEq] at hs; subst hs
          obtain ⟨e1, e2⟩ := sums_setThr s i ⟨tow, .idle⟩ ⟨tow - 1, .idle⟩ hti
          refine inv_dec _ h0 ?_ (busy_setThr s i _ hI (by simp))
          show s.rc = _
          rw [e1, e2]; simp only [owed]; omega
        · simp at hs
      | send j =>
        cases tpc <;> (try simp only at hs) <;> try (simp at hs; done)
        split at hs
        · rename_i hc
          cases huj : s.thr[j]? with
          | none => simp [huj] at hs
          | some u =>
            simp only [huj, Option.some.injEq] at hs; subst hs
            have hij : j ≠ i := hc.2
            have h1 := sums_setThr s i ⟨tow, .idle⟩ ⟨tow - 1, .idle⟩ hti
            have huj' : (setThr s i ⟨tow - 1, .idle⟩).thr[j]? = some u := by
              simp only [setThr, List.getElem?_set]
              have : ¬ i = j := fun e => hij e.symm
              simp [this, huj]
            have h2 := sums_setThr (setThr s i ⟨tow - 1, .idle⟩) j u ⟨u.owned + 1, u.pc⟩ huj'
            have hto := owned_le_sum s.thr i _ hti
            refine ⟨?_, ?_, hI.tornLe, ?_, hI.rcPos⟩
            · intro _
              show s.rc = _
              rw [h2.1, h2.2, h1.1, h1.2]; simp only [owed]; have := hc.1; omega
            · intro x hx hpc
              rcases mem_set_cases hx with rfl | hx
              · simp only; omega
              · rcases mem_set_cases hx with rfl | hx
                · simp at hpc
                · exact hI.busyOwns x hx hpc
            · intro h; simp [setThr] at h; omega
        · simp at hs
      | rdHit sl =>
        cases tpc <;> (try simp only at hs) <;> try (simp at hs; done)
        split at hs
        · split at hs
          · simp only [Option.some.injEq] at hs; subst hs; exact hI
          · simp at hs
        · simp at hs
      | rdMiss sl n =>
        cases tpc <;> (try simp only at hs) <;> try (simp at hs; done)
        split at hs
        · rename_i hc
          split at hs
          · simp only [Option.some.injEq] at hs; subst hs
            exact inv_setThr s i ⟨tow, .idle⟩ ⟨tow, .missed sl n s.nextId⟩ s.rc _ hti hI h0 ⟨rfl, rfl, rfl⟩
              (by simp [owed]) (by intro _; exact hc.1) (by omega)
          · simp at hs
        · simp at hs
      | install =>
        cases tpc <;> (try simp only at hs) <;> try (simp at hs; done)
        rename_i sl n c
        split at hs
        · simp at hs
        · split at hs
          · simp only [Option.some.injEq] at hs; subst hs
            exact inv_setThr s i ⟨tow, .missed sl n c⟩ ⟨tow, .reread sl⟩ s.rc _ hti hI h0 ⟨rfl, rfl, rfl⟩
              (by simp [owed]) (by intro _; exact hown (by simp)) (by omega)
          · simp at hs
      | lose =>
        cases tpc <;> (try simp only at hs) <;> try (simp at hs; done)
        rename_i sl n c
        split at hs
        · simp at hs
        · split at hs
          · simp only [Option.some.injEq] at hs; subst hs
            exact inv_setThr s i ⟨tow, .missed sl n c⟩ ⟨tow, .holdW sl n c⟩ s.rc _ hti hI h0 ⟨rfl, rfl, rfl⟩
              (by simp [owed]) (by intro _; exact hown (by simp)) (by omega)
          · simp at hs
      | fetchAdd =>
        cases tpc <;> (try simp only at hs) <;> try (simp at hs; done)
        rename_i sl n c
        simp only [Option.some.injEq] at hs; subst hs
        refine inv_setThr s i ⟨tow, .holdW sl n c⟩ ⟨tow, .added sl n c⟩ (s.rc + (if n then F.compNode else F.compTok)) _ hti hI h0
          ⟨rfl, rfl, rfl⟩ ?_ (by intro _; exact hown (by simp)) (by cases n <;> simp [hN, hT] <;> omega)
        cases n <;> simp [owed, hN, hT]
      | dropCand =>
        cases tpc <;> (try simp only at hs) <;> try (simp at hs; done)
        rename_i sl n c
        cases n with
        | true =>
          simp only [Option.some.injEq] at hs; subst hs
          obtain ⟨e1, e2⟩ := sums_setThr s i ⟨tow, .added sl true c⟩ ⟨tow, .dropped1 sl c⟩ hti
          refine inv_dec _ h0 ?_ (busy_setThr s i _ hI (by intro _; exact hown (by simp)))
          show s.rc = _
          rw [e1, e2]; simp only [owed]; omega
        | false =>
          simp only [Option.some.injEq] at hs; subst hs
          obtain ⟨e1, e2⟩ := sums_setThr s i ⟨tow, .added sl false c⟩ ⟨tow, .reread sl⟩ hti
          refine inv_dec _ h0 ?_ (busy_setThr s i _ hI (by intro _; exact hown (by simp)))
          show s.rc = _
          rw [e1, e2]; simp only [owed]; omega
      | freeCand =>
        cases tpc <;> (try simp only at hs) <;> try (simp at hs; done)
        rename_i sl c
        simp only [Option.some.injEq] at hs; subst hs
        have hI' : Inv ({ s with blocks := s.blocks.filter (· != c), freed := s.freed ++ [c] } : Sys) :=
          ⟨hI.rcEq, hI.busyOwns, hI.tornLe, hI.tornNone, hI.rcPos⟩
        obtain ⟨e1, e2⟩ := sums_setThr ({ s with blocks := s.blocks.filter (· != c), freed := s.freed ++ [c] } : Sys) i
          ⟨tow, .dropped1 sl c⟩ ⟨tow, .reread sl⟩ hti
        refine inv_dec _ h0 ?_ (busy_setThr _ i _ hI' (by intro _; exact hown (by simp)))
        show s.rc = _
        rw [e1, e2]; simp only [owed]; omega
      | reread =>
        cases tpc <;> (try simp only at hs) <;> try (simp at hs; done)
        rename_i sl
        split at hs
        · simp at hs
        · split at hs
          · simp only [Option.some.injEq] at hs; subst hs
            exact inv_setThr s i ⟨tow, .reread sl⟩ ⟨tow, .idle⟩ s.rc _ hti hI h0 ⟨rfl, rfl, rfl⟩ (by simp [owed]) (by simp) (by omega)
          · simp at hs
    · -- torn down: nobody owns a handle, so nothing but `spawn` is enabled
      have h1 : s.torn = 1 := by have := hI.tornLe; omega
      obtain ⟨ho, hp⟩ := torn_all_idle s hI h1 i _ hti
      simp only at ho hp
      subst ho; subst hp
      cases a <;> (try simp only at hs) <;> try (simp at hs; done)
      · simp only [Option.some.injEq] at hs; subst hs; exact inv_spawn s hI

/-- the invariant holds in every reachable state -/
theorem inv_reachable (F : Facts) (hN : F.compNode = 2) (hT : F.compTok = 1) (s0 s : Sys) (h0 : Inv s0)
    (hr : Reachable F s0 s) : Inv s := by
  induction hr with
  | refl => exact h0
  | step s s' i a _ hs ih => exact inv_step F hN hT s s' i a ih hs

theorem inv_init (nslots nthreads owned : Nat) (hpos : 1 ≤ nthreads * owned) : Inv (Sys.init nslots nthreads owned) := by
  have e1 : ∀ n, sumOwned (List.replicate n (⟨owned, .idle⟩ : Thr)) = (n : Int) * owned := by
    intro n; induction n with
    | zero => simp [sumOwned]
    | succ n ih => simp [List.replicate_succ, sumOwned, ih]; rw [Int.add_mul]; omega
  have e2 : ∀ n, sumOwed (List.replicate n (⟨owned, .idle⟩ : Thr)) = 0 := by
    intro n; induction n with
    | zero => simp [sumOwed]
    | succ n ih => simp [List.replicate_succ, sumOwed, ih, owed]
  refine ⟨?_, ?_, by simp [Sys.init], by simp [Sys.init], ?_⟩
  · intro _; simp [Sys.init, e1, e2]
  · intro t ht hp
    simp only [Sys.init, List.mem_replicate] at ht
    rw [ht.2] at hp; simp at hp
  · intro _; simp only [Sys.init]; exact_mod_cast hpos

end Cst.Conc
