import CstModel.Model.Owner
import CstModel.Proofs.Builder
namespace Cst

theorem CacheInv.fresh {cfg : Cfg} {c : Cache} : CacheInv cfg c.fresh :=
  ⟨by simp [Cache.fresh], by simp [Cache.fresh]⟩

@[simp] theorem Cache.fresh_interner (c : Cache) : c.fresh.interner = c.interner := rfl

theorem Route.start_interner (r : Route) (c : Cache) : (r.start c).interner = c.interner := by
  cases r <;> rfl

theorem Route.start_inv {cfg : Cfg} (r : Route) {c : Cache} (h : CacheInv cfg c) : CacheInv cfg (r.start c) := by
  cases r
  · exact h
  · exact h
  · exact CacheInv.fresh
  · exact CacheInv.fresh

end Cst
