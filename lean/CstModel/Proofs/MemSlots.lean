/-
  Proofs/MemSlots — the invariant behind data-race freedom of the red tree's slots and teardown.
-/
import CstModel.Model.MemSlots
import CstModel.Proofs.MemModel
namespace Cst.MemS
open Cst.Mem

def Holds (s : Sys) (a : SAcc) : Prop :=
  a.ep ≤ s.L a.thr ∨ ∃ (j n : Nat), s.owned[j]? = some n ∧ 1 ≤ n ∧ (j = a.thr ∨ a.ep ≤ s.C j a.thr)

structure Inv (s : Sys) : Prop where
  rcEq : s.torn = false → s.rc = (s.owned.sum : Int)
  epOwn : ∀ a ∈ s.acc, a.ep ≤ s.C a.thr a.thr
  cover : s.torn = false → ∀ a ∈ s.acc, Holds s a
  tornDone : s.torn = true → ∀ n ∈ s.owned, n = 0
  noRace : s.raced = false
  /-- every access to a still empty slot happened under its lock and was released into the lock's clock -/
  lockCov : s.torn = false → ∀ a ∈ s.acc, s.slots[a.loc]? = some false → a.ep ≤ s.K a.loc a.thr
  /-- so was the write that filled a slot -/
  wrCov : s.torn = false → ∀ a ∈ s.acc, a.wr = true → a.ep ≤ s.K a.loc a.thr
  /-- a thread that holds a reference into a slot has synchronised with the write that filled it -/
  known : s.torn = false → ∀ (t sl : Nat), sl ∈ s.knows t →
    s.slots[sl]? = some true ∧ ∀ a ∈ s.acc, a.loc = sl → a.wr = true → a.thr = t ∨ a.ep ≤ s.C t a.thr

theorem inv_init (l : List Nat) (n : Nat) : Inv (Sys.init l n) := by
  refine ⟨fun _ => rfl, ?_, ?_, ?_, rfl, ?_, ?_, ?_⟩
  · intro a h; simp [Sys.init] at h
  · intro _ a h; simp [Sys.init] at h
  · intro h; simp [Sys.init] at h
  · intro _ a h; simp [Sys.init] at h
  · intro _ a h; simp [Sys.init] at h
  · intro _ t sl h; simp [Sys.init] at h

/-! ### the counter RMW -/

theorem rmw_C_mono (s : Sys) (t : Nat) (rel acq : Bool) (j i : Nat) : s.C j i ≤ (rmw s t rel acq).C j i := by
  unfold rmw updC
  simp only
  by_cases hj : j = t
  · subst hj
    simp only [↓reduceIte]
    cases rel <;> cases acq <;> simp only [Bool.false_eq_true, ↓reduceIte]
    · exact Nat.le_refl _
    · exact le_join_left _ _ _
    · exact le_tick _ _ _
    · exact Nat.le_trans (le_join_left _ _ _) (le_tick _ _ _)
  · simp only [hj, ↓reduceIte]
    exact Nat.le_refl _

theorem rmw_L_mono (s : Sys) (t : Nat) (rel acq : Bool) (i : Nat) : s.L i ≤ (rmw s t rel acq).L i := by
  unfold rmw
  simp only
  cases rel <;> simp only [Bool.false_eq_true, ↓reduceIte]
  · exact Nat.le_refl _
  · exact le_join_left _ _ _

theorem rmw_release (s : Sys) (t : Nat) (acq : Bool) (i : Nat) : s.C t i ≤ (rmw s t true acq).L i := by
  unfold rmw
  simp only [↓reduceIte]
  cases acq <;> simp only [Bool.false_eq_true, ↓reduceIte]
  · exact le_join_right _ _ _
  · exact Nat.le_trans (le_join_left _ _ _) (le_join_right _ _ _)

theorem rmw_acquire (s : Sys) (t : Nat) (rel : Bool) (i : Nat) : s.L i ≤ (rmw s t rel true).C t i := by
  unfold rmw updC
  simp only [↓reduceIte]
  cases rel <;> simp only [Bool.false_eq_true, ↓reduceIte]
  · exact le_join_right _ _ _
  · exact Nat.le_trans (le_join_right _ _ _) (le_tick _ _ _)

@[simp] theorem rmw_owned (s : Sys) (t : Nat) (rel acq : Bool) : (rmw s t rel acq).owned = s.owned := rfl
@[simp] theorem rmw_acc (s : Sys) (t : Nat) (rel acq : Bool) : (rmw s t rel acq).acc = s.acc := rfl
@[simp] theorem rmw_rc (s : Sys) (t : Nat) (rel acq : Bool) : (rmw s t rel acq).rc = s.rc := rfl
@[simp] theorem rmw_torn (s : Sys) (t : Nat) (rel acq : Bool) : (rmw s t rel acq).torn = s.torn := rfl
@[simp] theorem rmw_raced (s : Sys) (t : Nat) (rel acq : Bool) : (rmw s t rel acq).raced = s.raced := rfl
@[simp] theorem rmw_K (s : Sys) (t : Nat) (rel acq : Bool) : (rmw s t rel acq).K = s.K := rfl
@[simp] theorem rmw_slots (s : Sys) (t : Nat) (rel acq : Bool) : (rmw s t rel acq).slots = s.slots := rfl
@[simp] theorem rmw_knows (s : Sys) (t : Nat) (rel acq : Bool) : (rmw s t rel acq).knows = s.knows := rfl

theorem holds_mono {s s' : Sys} {a : SAcc} (h : Holds s a)
    (hL : ∀ i, s.L i ≤ s'.L i) (hC : ∀ j i, s.C j i ≤ s'.C j i)
    (hO : ∀ (j n : Nat), s.owned[j]? = some n → 1 ≤ n → ∃ n', s'.owned[j]? = some n' ∧ 1 ≤ n') : Holds s' a := by
  rcases h with h | ⟨j, n, hj, hn, hc⟩
  · exact Or.inl (Nat.le_trans h (hL _))
  · obtain ⟨n', hj', hn'⟩ := hO j n hj hn
    refine Or.inr ⟨j, n', hj', hn', ?_⟩
    rcases hc with hc | hc
    · exact Or.inl hc
    · exact Or.inr (Nat.le_trans hc (hC _ _))

theorem torn_blocks {s : Sys} (h : Inv s) (ht : s.torn = true) (t n : Nat) (hn : s.owned[t]? = some n) : n = 0 :=
  h.tornDone ht n (List.mem_of_getElem? hn)

/-- a step that only makes clocks grow, keeps the handle counts, the slots, the lock clocks, the
    accesses and what threads know, keeps the invariant -/
theorem inv_clocks {s s' : Sys} (h : Inv s)
    (hrc : s'.torn = false → s'.rc = (s'.owned.sum : Int))
    (hL : ∀ i, s.L i ≤ s'.L i) (hC : ∀ j i, s.C j i ≤ s'.C j i)
    (hO : ∀ (j n : Nat), s.owned[j]? = some n → 1 ≤ n → ∃ n', s'.owned[j]? = some n' ∧ 1 ≤ n')
    (hacc : s'.acc = s.acc) (hK : s'.K = s.K) (hsl : s'.slots = s.slots) (hkn : s'.knows = s.knows)
    (htorn : s'.torn = s.torn) (hraced : s'.raced = s.raced)
    (htd : s'.torn = true → ∀ n ∈ s'.owned, n = 0) : Inv s' := by
  refine ⟨hrc, ?_, ?_, htd, by rw [hraced]; exact h.noRace, ?_, ?_, ?_⟩
  · intro a ha; rw [hacc] at ha; exact Nat.le_trans (h.epOwn a ha) (hC _ _)
  · intro ht a ha; rw [hacc] at ha; rw [htorn] at ht
    exact holds_mono (h.cover ht a ha) hL hC hO
  · intro ht a ha; rw [hacc] at ha; rw [htorn] at ht; rw [hK, hsl]; exact h.lockCov ht a ha
  · intro ht a ha; rw [hacc] at ha; rw [htorn] at ht; rw [hK]; exact h.wrCov ht a ha
  · intro ht t sl hsl'; rw [htorn] at ht; rw [hkn] at hsl'
    obtain ⟨h1, h2⟩ := h.known ht t sl hsl'
    refine ⟨by rw [hsl]; exact h1, ?_⟩
    intro a ha hl hw; rw [hacc] at ha
    rcases h2 a ha hl hw with h3 | h3
    · exact Or.inl h3
    · exact Or.inr (Nat.le_trans h3 (hC _ _))

theorem getElem?_set_true (l : List Bool) (i j : Nat) (b : Bool) (h : (l.set i true)[j]? = some b) :
    (j = i ∧ b = true) ∨ (j ≠ i ∧ l[j]? = some b) := Cst.Mem.getElem?_set_cases l i j true b h

/-- a critical section on a slot keeps the invariant -/
theorem inv_locked {s : Sys} (h : Inv s) (ht : s.torn = false) (t n sl : Nat) (wr fill learn b : Bool)
    (hn : s.owned[t]? = some n) (h1 : 1 ≤ n) (hb : s.slots[sl]? = some b)
    (hwr : wr = true → b = false) (hfill : fill = true → wr = true)
    (hlearn : learn = true → (b = true ∨ fill = true)) : Inv (locked s t sl wr fill learn) := by
  have hC : ∀ j i, s.C j i ≤ (locked s t sl wr fill learn).C j i := by
    intro j i
    simp only [locked, updC]
    by_cases hj : j = t
    · subst hj
      simp only [↓reduceIte]
      exact Nat.le_trans (le_join_left _ _ _) (le_tick _ _ _)
    · simp only [hj, ↓reduceIte]; exact Nat.le_refl _
  have hCt : ∀ i, join (s.C t) (s.K sl) i ≤ (locked s t sl wr fill learn).C t i := by
    intro i; simp only [locked, updC, ↓reduceIte]; exact le_tick _ _ _
  have hK : ∀ l i, s.K l i ≤ (locked s t sl wr fill learn).K l i := by
    intro l i
    simp only [locked, updK]
    by_cases hl : l = sl
    · subst hl; simp only [↓reduceIte]; exact le_join_left _ _ _
    · simp only [hl, ↓reduceIte]; exact Nat.le_refl _
  have hKsl : ∀ i, join (s.C t) (s.K sl) i ≤ (locked s t sl wr fill learn).K sl i := by
    intro i; simp only [locked, updK, ↓reduceIte]; exact le_join_right _ _ _
  have hslots : ∀ (j : Nat) (c : Bool), (locked s t sl wr fill learn).slots[j]? = some c →
      (c = true ∧ j = sl ∧ fill = true) ∨ s.slots[j]? = some c := by
    intro j c hc
    simp only [locked] at hc
    cases fill with
    | false => simp only [Bool.false_eq_true, ↓reduceIte] at hc; exact Or.inr hc
    | true =>
      simp only [↓reduceIte] at hc
      rcases getElem?_set_true _ _ _ _ hc with ⟨e1, e2⟩ | ⟨_, e2⟩
      · exact Or.inl ⟨e2, e1, rfl⟩
      · exact Or.inr e2
  have hfilled : ∀ j : Nat, s.slots[j]? = some true → (locked s t sl wr fill learn).slots[j]? = some true := by
    intro j hj
    simp only [locked]
    cases fill with
    | false => simpa using hj
    | true =>
      simp only [↓reduceIte]
      by_cases hjs : j = sl
      · subst hjs; exact Cst.Mem.getElem?_set_self_some _ _ _ _ hj
      · rw [List.getElem?_set_ne (Ne.symm hjs)]; exact hj
  -- the conflicting earlier accesses are ordered before this one
  have hord : ∀ a ∈ s.acc, a.loc = sl → (a.wr = true ∨ wr = true) → a.ep ≤ join (s.C t) (s.K sl) a.thr := by
    intro a ha hl hw
    have hle : a.ep ≤ s.K sl a.thr := by
      cases hwr' : wr with
      | true =>
        have := h.lockCov ht a ha (by rw [hl, hb, hwr hwr'])
        rw [hl] at this; exact this
      | false =>
        rcases hw with hw | hw
        · have := h.wrCov ht a ha hw; rw [hl] at this; exact this
        · rw [hwr'] at hw; cases hw
    exact Nat.le_trans hle (le_join_right _ _ _)
  refine ⟨?_, ?_, ?_, ?_, ?_, ?_, ?_, ?_⟩
  · intro _; simp only [locked]; exact h.rcEq ht
  · intro a ha
    simp only [locked, List.mem_cons] at ha
    rcases ha with rfl | ha
    · exact hCt t
    · exact Nat.le_trans (h.epOwn a ha) (hC _ _)
  · intro _ a ha
    simp only [locked, List.mem_cons] at ha
    rcases ha with rfl | ha
    · exact Or.inr ⟨t, n, by simpa [locked] using hn, h1, Or.inl rfl⟩
    · exact holds_mono (h.cover ht a ha) (fun _ => Nat.le_refl _) hC (fun j m hj hm => ⟨m, by simpa [locked] using hj, hm⟩)
  · intro htt; simp only [locked] at htt; rw [ht] at htt; cases htt
  · simp only [locked, h.noRace, Bool.false_or]
    rw [List.any_eq_false]
    intro a ha
    simp only [racesWith, Bool.and_eq_true, beq_iff_eq, Bool.or_eq_true, bne_iff_ne, ne_eq, Bool.not_eq_true',
      decide_eq_false_iff_not, not_and, Decidable.not_not]
    intro ⟨⟨hl, hw⟩, _⟩
    exact hord a ha hl hw
  · intro _ a ha hempty
    simp only [locked, List.mem_cons] at ha
    rcases ha with rfl | ha
    · exact hKsl t
    · rcases hslots _ _ hempty with ⟨hc, _, _⟩ | hs
      · cases hc
      · exact Nat.le_trans (h.lockCov ht a ha hs) (hK _ _)
  · intro _ a ha hw
    simp only [locked, List.mem_cons] at ha
    rcases ha with rfl | ha
    · exact hKsl t
    · exact Nat.le_trans (h.wrCov ht a ha hw) (hK _ _)
  · intro _ t' sl' hk
    have hold : sl' ∈ s.knows t' →
        (locked s t sl wr fill learn).slots[sl']? = some true ∧
        ∀ a ∈ (locked s t sl wr fill learn).acc, a.loc = sl' → a.wr = true → a.thr = t' ∨ a.ep ≤ (locked s t sl wr fill learn).C t' a.thr := by
      intro hk0
      obtain ⟨k1, k2⟩ := h.known ht t' sl' hk0
      refine ⟨hfilled _ k1, ?_⟩
      intro a ha hl hw
      simp only [locked, List.mem_cons] at ha
      rcases ha with rfl | ha
      · -- the new access is a write to a slot somebody knows: impossible, writes go to empty slots
        simp only at hl hw
        have : b = false := hwr hw
        subst this
        rw [← hl, hb] at k1
        cases k1
      · rcases k2 a ha hl hw with k3 | k3
        · exact Or.inl k3
        · exact Or.inr (Nat.le_trans k3 (hC _ _))
    by_cases htt : t' = t
    · subst htt
      cases hl : learn with
      | false =>
        simp only [locked, hl, Bool.false_eq_true, ↓reduceIte] at hk
        have := hold hk
        simpa [locked, hl] using this
      | true =>
        have hk' : sl' = sl ∨ sl' ∈ s.knows t' := by
          simp only [locked, hl, ↓reduceIte, updKnows, List.mem_cons] at hk
          exact hk
        rcases hk' with rfl | hk'
        · -- newly learnt: the slot is filled now, and its write was released into the lock's clock
          refine ⟨?_, ?_⟩
          · rcases hlearn hl with hbt | hft
            · subst hbt; exact hfilled _ hb
            · subst hft
              simp only [locked, ↓reduceIte]
              exact Cst.Mem.getElem?_set_self_some _ _ _ _ hb
          · intro a ha hla hw
            simp only [locked, List.mem_cons] at ha
            rcases ha with rfl | ha
            · exact Or.inl rfl
            · refine Or.inr ?_
              have h1' := h.wrCov ht a ha hw
              rw [hla] at h1'
              exact Nat.le_trans (Nat.le_trans h1' (le_join_right _ _ _)) (hCt _)
        · exact hold hk'
    · have hk0 : sl' ∈ s.knows t' := by
        simp only [locked] at hk
        cases learn with
        | false => simpa using hk
        | true => simpa [updKnows, htt] using hk
      exact hold hk0

theorem inv_step {O : Ords} (hrel : O.decRel = true) (hacq : O.decAcq = true) {s s' : Sys} (h : Inv s)
    (t : Nat) (a : Act) (hs : step O s t a = some s') : Inv s' := by
  unfold step at hs
  cases hn : s.owned[t]? with
  | none => simp [hn] at hs
  | some n =>
    simp only [hn] at hs
    have htf : 1 ≤ n → s.torn = false := by
      intro h1
      cases ht : s.torn with
      | false => rfl
      | true => have := torn_blocks h ht t n hn; omega
    cases a with
    | spawn =>
      simp only [Option.some.injEq] at hs
      subst hs
      refine inv_clocks h ?_ (fun _ => Nat.le_refl _) (fun _ _ => Nat.le_refl _) ?_ rfl rfl rfl rfl rfl rfl ?_
      · intro ht
        simp only [List.sum_append, List.sum_cons, List.sum_nil, Nat.add_zero]
        exact h.rcEq ht
      · intro j m hj hm
        exact ⟨m, by rw [List.getElem?_append_left (List.getElem?_eq_some_iff.mp hj).1]; exact hj, hm⟩
      · intro ht m hm
        simp only [List.mem_append, List.mem_singleton] at hm
        rcases hm with hm | hm
        · exact h.tornDone ht m hm
        · exact hm
    | clone =>
      simp only at hs
      split at hs
      · rename_i h1
        have ht := htf h1
        simp only [Option.some.injEq] at hs
        subst hs
        refine inv_clocks h ?_ (fun i => rmw_L_mono _ _ _ _ i) (fun j i => rmw_C_mono _ _ _ _ j i) ?_ rfl rfl rfl rfl rfl rfl ?_
        · intro _
          simp only [rmw_rc, rmw_owned]
          rw [sum_set s.owned t n (n + 1) hn, h.rcEq ht]
          omega
        · intro j m hj hm
          simp only [rmw_owned]
          by_cases hjt : j = t
          · subst hjt
            exact ⟨n + 1, Cst.Mem.getElem?_set_self_some _ _ _ _ hn, by omega⟩
          · exact ⟨m, by rw [List.getElem?_set_ne (Ne.symm hjt)]; exact hj, hm⟩
        · intro htt
          simp only [rmw_torn] at htt
          rw [ht] at htt
          cases htt
      · cases hs
    | send j =>
      simp only at hs
      split at hs
      · rename_i h1
        have ht := htf h1.1
        have hjt : j ≠ t := h1.2
        cases hm : s.owned[j]? with
        | none => simp [hm] at hs
        | some m =>
          simp only [hm, Option.some.injEq] at hs
          subst hs
          have hj1 : (s.owned.set t (n - 1))[j]? = some m := by
            rw [List.getElem?_set_ne (Ne.symm hjt)]; exact hm
          have hCmono : ∀ k i, s.C k i ≤ (updC (updC s.C j (join (s.C j) (s.C t))) t (tick (s.C t) t)) k i := by
            intro k i
            simp only [updC]
            by_cases hkt : k = t
            · subst hkt; simp only [↓reduceIte]; exact le_tick _ _ _
            · simp only [hkt, ↓reduceIte]
              by_cases hkj : k = j
              · subst hkj; simp only [↓reduceIte]; exact le_join_left _ _ _
              · simp only [hkj, ↓reduceIte]; exact Nat.le_refl _
          have hCj : ∀ i, (updC (updC s.C j (join (s.C j) (s.C t))) t (tick (s.C t) t)) j i = join (s.C j) (s.C t) i := by
            intro i; simp [updC, hjt]
          refine ⟨?_, ?_, ?_, ?_, h.noRace, ?_, ?_, ?_⟩
          · intro _
            simp only
            rw [sum_set _ j m (m + 1) hj1, sum_set s.owned t n (n - 1) hn, h.rcEq ht]
            omega
          · intro a ha
            exact Nat.le_trans (h.epOwn a ha) (hCmono _ _)
          · intro _ a ha
            have hep := h.epOwn a ha
            rcases h.cover ht a ha with hL | ⟨k, nk, hk, hnk, hc⟩
            · exact Or.inl hL
            · by_cases hkt : k = t
              · subst hkt
                refine Or.inr ⟨j, m + 1, Cst.Mem.getElem?_set_self_some _ _ _ _ hj1, by omega, ?_⟩
                rcases hc with hc | hc
                · refine Or.inr ?_
                  simp only
                  rw [hCj, ← hc]
                  exact Nat.le_trans hep (by rw [← hc]; exact le_join_right _ _ _)
                · refine Or.inr ?_
                  simp only
                  rw [hCj]
                  exact Nat.le_trans hc (le_join_right _ _ _)
              · by_cases hkj : k = j
                · subst hkj
                  refine Or.inr ⟨k, m + 1, Cst.Mem.getElem?_set_self_some _ _ _ _ hj1, by omega, ?_⟩
                  rcases hc with hc | hc
                  · exact Or.inl hc
                  · exact Or.inr (Nat.le_trans hc (hCmono _ _))
                · refine Or.inr ⟨k, nk, ?_, hnk, ?_⟩
                  · simp only
                    rw [List.getElem?_set_ne (Ne.symm hkj), List.getElem?_set_ne (Ne.symm hkt)]
                    exact hk
                  · rcases hc with hc | hc
                    · exact Or.inl hc
                    · exact Or.inr (Nat.le_trans hc (hCmono _ _))
          · intro htt
            simp only at htt
            rw [ht] at htt
            cases htt
          · intro _ a ha he; exact h.lockCov ht a ha he
          · intro _ a ha hw; exact h.wrCov ht a ha hw
          · intro _ t' sl hk
            simp only [updKnows] at hk
            by_cases htj : t' = j
            · subst htj
              simp only [↓reduceIte, List.mem_append] at hk
              rcases hk with hk | hk
              · -- learnt from the sender: the receiver's clock absorbs the sender's
                obtain ⟨k1, k2⟩ := h.known ht t sl hk
                refine ⟨k1, ?_⟩
                intro a ha hl hw
                refine Or.inr ?_
                simp only
                rw [hCj]
                rcases k2 a ha hl hw with k3 | k3
                · rw [k3]
                  have := h.epOwn a ha
                  rw [k3] at this
                  exact Nat.le_trans this (le_join_right _ _ _)
                · exact Nat.le_trans k3 (le_join_right _ _ _)
              · obtain ⟨k1, k2⟩ := h.known ht t' sl hk
                refine ⟨k1, ?_⟩
                intro a ha hl hw
                rcases k2 a ha hl hw with k3 | k3
                · exact Or.inl k3
                · exact Or.inr (Nat.le_trans k3 (hCmono _ _))
            · simp only [htj, ↓reduceIte] at hk
              obtain ⟨k1, k2⟩ := h.known ht t' sl hk
              refine ⟨k1, ?_⟩
              intro a ha hl hw
              rcases k2 a ha hl hw with k3 | k3
              · exact Or.inl k3
              · exact Or.inr (Nat.le_trans k3 (hCmono _ _))
      · cases hs
    | rdSlot sl =>
      simp only at hs
      cases hb : s.slots[sl]? with
      | none => simp [hb] at hs
      | some b =>
        simp only [hb] at hs
        split at hs
        · rename_i h1
          simp only [Option.some.injEq] at hs
          subst hs
          exact inv_locked h (htf h1) t n sl false false b b hn h1 hb (by simp) (by simp) (fun hl => Or.inl hl)
        · cases hs
    | wrSlot sl =>
      simp only at hs
      cases hb : s.slots[sl]? with
      | none => simp [hb] at hs
      | some b =>
        cases b with
        | true => simp [hb] at hs
        | false =>
          simp only [hb] at hs
          split at hs
          · rename_i h1
            simp only [Option.some.injEq] at hs
            subst hs
            exact inv_locked h (htf h1) t n sl true true true false hn h1 hb (fun _ => rfl) (fun _ => rfl) (fun _ => Or.inr rfl)
          · cases hs
    | loseSlot sl =>
      simp only at hs
      cases hb : s.slots[sl]? with
      | none => simp [hb] at hs
      | some b =>
        cases b with
        | false => simp [hb] at hs
        | true =>
          simp only [hb] at hs
          split at hs
          · rename_i h1
            simp only [Option.some.injEq] at hs
            subst hs
            exact inv_locked h (htf h1) t n sl false false true true hn h1 hb (by simp) (by simp) (fun _ => Or.inl rfl)
          · cases hs
    | dataRd sl =>
      simp only at hs
      cases hb : s.slots[sl]? with
      | none => simp [hb] at hs
      | some b =>
        cases b with
        | true => simp [hb] at hs
        | false =>
          simp only [hb] at hs
          split at hs
          · rename_i h1
            simp only [Option.some.injEq] at hs
            subst hs
            exact inv_locked h (htf h1) t n sl false false false false hn h1 hb (by simp) (by simp) (by simp)
          · cases hs
    | dataWr sl =>
      simp only at hs
      cases hb : s.slots[sl]? with
      | none => simp [hb] at hs
      | some b =>
        cases b with
        | true => simp [hb] at hs
        | false =>
          simp only [hb] at hs
          split at hs
          · rename_i h1
            simp only [Option.some.injEq] at hs
            subst hs
            exact inv_locked h (htf h1) t n sl true false false false hn h1 hb (fun _ => rfl) (by simp) (by simp)
          · cases hs
    | useElem sl =>
      simp only at hs
      split at hs
      · rename_i h1
        have ht := htf h1.1
        have hkn : sl ∈ s.knows t := by simpa using h1.2
        obtain ⟨k1, k2⟩ := h.known ht t sl hkn
        simp only [Option.some.injEq] at hs
        subst hs
        refine ⟨h.rcEq, ?_, ?_, h.tornDone, ?_, ?_, ?_, ?_⟩
        · intro a ha
          simp only [List.mem_cons] at ha
          rcases ha with rfl | ha
          · exact Nat.le_refl _
          · exact h.epOwn a ha
        · intro _ a ha
          simp only [List.mem_cons] at ha
          rcases ha with rfl | ha
          · exact Or.inr ⟨t, n, hn, h1.1, Or.inl rfl⟩
          · exact h.cover ht a ha
        · simp only [h.noRace, Bool.false_or]
          rw [List.any_eq_false]
          intro a ha
          simp only [racesWith, Bool.and_eq_true, beq_iff_eq, Bool.or_eq_true, Bool.false_eq_true, or_false, bne_iff_ne, ne_eq,
            Bool.not_eq_true', decide_eq_false_iff_not, not_and, Decidable.not_not]
          intro ⟨⟨hl, hw⟩, hne⟩
          rcases k2 a ha hl hw with k3 | k3
          · exact absurd k3 hne
          · exact k3
        · intro _ a ha he
          simp only [List.mem_cons] at ha
          rcases ha with rfl | ha
          · simp only at he; rw [k1] at he; cases he
          · exact h.lockCov ht a ha he
        · intro _ a ha hw
          simp only [List.mem_cons] at ha
          rcases ha with rfl | ha
          · cases hw
          · exact h.wrCov ht a ha hw
        · intro _ t' sl' hk
          obtain ⟨q1, q2⟩ := h.known ht t' sl' hk
          refine ⟨q1, ?_⟩
          intro a ha hl hw
          simp only [List.mem_cons] at ha
          rcases ha with rfl | ha
          · cases hw
          · exact q2 a ha hl hw
      · cases hs
    | drop =>
      simp only at hs
      split at hs
      · rename_i h1
        have ht := htf h1
        have hsum := h.rcEq ht
        split at hs
        · -- the last handle: teardown
          rename_i hrc1
          simp only [Option.some.injEq] at hs
          subst hs
          have hsn : s.owned.sum = n := by
            have := le_sum_of_getElem? s.owned t n hn
            omega
          have hothers := others_zero s.owned t n hn hsn
          refine ⟨by intro htt; simp at htt, ?_, by intro htt; simp at htt, ?_, ?_, by intro htt; simp at htt,
            by intro htt; simp at htt, by intro htt; simp at htt⟩
          · intro a ha
            simp only [List.mem_append, List.mem_map, List.mem_range, rmw_acc] at ha
            rcases ha with ⟨sl, _, rfl⟩ | ha
            · exact Nat.le_refl _
            · exact Nat.le_trans (h.epOwn a ha) (rmw_C_mono _ _ _ _ _ _)
          · intro _ m hm
            simp only [rmw_owned] at hm
            obtain ⟨k, hk⟩ := mem_getElem? hm
            rcases Cst.Mem.getElem?_set_cases _ _ _ _ _ hk with ⟨_, rfl⟩ | ⟨hkt, hk'⟩
            · omega
            · exact hothers k m hk' hkt
          · have hnr : s.raced = false := h.noRace
            simp only [rmw_raced, rmw_acc, hnr, Bool.false_or]
            rw [List.any_eq_false]
            intro a ha
            simp only [Bool.and_eq_true, bne_iff_ne, ne_eq, Bool.not_eq_true', decide_eq_false_iff_not, not_and,
              Decidable.not_not]
            intro hat
            rw [hacq]
            rcases h.cover ht a ha with hL | ⟨k, nk, hk, hnk, hc⟩
            · exact Nat.le_trans hL (rmw_acquire _ t O.decRel a.thr)
            · by_cases hkt : k = t
              · subst hkt
                rcases hc with hc | hc
                · exact absurd hc.symm hat
                · exact Nat.le_trans hc (rmw_C_mono _ _ _ _ _ _)
              · have := hothers k nk hk hkt
                omega
        · rename_i hrc1
          simp only [Option.some.injEq] at hs
          subst hs
          refine ⟨?_, ?_, ?_, ?_, h.noRace, ?_, ?_, ?_⟩
          · intro _
            simp only [rmw_rc, rmw_owned]
            rw [sum_set s.owned t n (n - 1) hn, hsum]
            omega
          · intro a ha
            exact Nat.le_trans (h.epOwn a ha) (rmw_C_mono _ _ _ _ _ _)
          · intro _ a ha
            have hep := h.epOwn a ha
            rw [hrel]
            rcases h.cover ht a ha with hL | ⟨k, nk, hk, hnk, hc⟩
            · exact Or.inl (Nat.le_trans hL (rmw_L_mono _ _ _ _ _))
            · by_cases hkt : k = t
              · subst hkt
                refine Or.inl ?_
                rcases hc with hc | hc
                · rw [← hc]
                  exact Nat.le_trans hep (by rw [← hc]; exact rmw_release _ k O.decAcq k)
                · exact Nat.le_trans hc (rmw_release _ k O.decAcq a.thr)
              · refine Or.inr ⟨k, nk, ?_, hnk, ?_⟩
                · simp only [rmw_owned]
                  rw [List.getElem?_set_ne (Ne.symm hkt)]
                  exact hk
                · rcases hc with hc | hc
                  · exact Or.inl hc
                  · exact Or.inr (Nat.le_trans hc (rmw_C_mono _ _ _ _ _ _))
          · intro htt
            simp only [rmw_torn] at htt
            rw [ht] at htt
            cases htt
          · intro _ a ha he; exact h.lockCov ht a ha he
          · intro _ a ha hw; exact h.wrCov ht a ha hw
          · intro _ t' sl hk
            obtain ⟨q1, q2⟩ := h.known ht t' sl hk
            refine ⟨q1, ?_⟩
            intro a ha hl hw
            rcases q2 a ha hl hw with q3 | q3
            · exact Or.inl q3
            · exact Or.inr (Nat.le_trans q3 (rmw_C_mono _ _ _ _ _ _))
      · cases hs

theorem inv_reachable {O : Ords} (hrel : O.decRel = true) (hacq : O.decAcq = true) {s : Sys}
    (h : Reachable O s) : Inv s := by
  induction h with
  | init l n => exact inv_init l n
  | step t a _ hs ih => exact inv_step hrel hacq ih t a hs

end Cst.MemS
