import CstModel.Model.Util
namespace Cst
namespace Util
open TAO
variable {α β : Type}

/-- stepping with `next` enumerates exactly `toList`, and every intermediate size report is exact -/
theorem TAO.next_spec (t : TAO α) :
    t.next.1 = t.toList.head? ∧ t.next.2.toList = t.toList.tail := by
  cases t <;> simp [TAO.next, TAO.toList]

theorem TAO.sizeHint_exact (t : TAO α) : t.sizeHint = (t.toList.length, some t.toList.length) := by
  cases t <;> rfl

theorem TAO.drain_none (k : Nat) : (TAO.none : TAO α).drain k = [] := by
  cases k <;> simp [TAO.drain, TAO.next]

theorem TAO.drain_spec (t : TAO α) (k : Nat) (h : 2 ≤ k) : t.drain k = t.toList := by
  match k, h with
  | k + 2, _ => cases t <;> simp [TAO.drain, TAO.next, TAO.toList, TAO.drain_none]

theorem TAO.nth_spec (t : TAO α) (k : Nat) :
    (t.nth k).1 = t.toList[k]? ∧ (t.nth k).2.toList = t.toList.drop (k + 1) := by
  induction k generalizing t with
  | zero => cases t <;> simp [TAO.nth, TAO.next, TAO.toList]
  | succ k ih =>
    cases t with
    | none => simp [TAO.nth, TAO.next, TAO.toList]
    | single a =>
      have := ih (TAO.none : TAO α)
      simp [TAO.nth, TAO.next, TAO.toList] at this ⊢
      exact this
    | between l r =>
      have := ih (TAO.single r)
      simp [TAO.nth, TAO.next, TAO.toList] at this ⊢
      exact this

theorem TAO.last_count_spec (t : TAO α) : t.last = t.toList.getLast? ∧ t.count = t.toList.length := by
  simp [TAO.last, TAO.count, TAO.drain_spec t 3 (by omega)]

theorem TAO.biased_spec (t : TAO α) : t.leftBiased = t.toList.head? ∧ t.rightBiased = t.toList.getLast? := by
  cases t <;> simp [TAO.leftBiased, TAO.rightBiased, TAO.toList]

theorem TAO.map_toList (f : α → β) (t : TAO α) : (t.map f).toList = t.toList.map f := by
  cases t <;> rfl

theorem TAO.length_le_two (t : TAO α) : t.toList.length ≤ 2 := by cases t <;> simp [TAO.toList]

theorem NodeOrToken.into_exclusive {N T : Type} (e : NodeOrToken N T) :
    (e.intoNode.isSome ≠ e.intoToken.isSome) := by cases e <;> simp [NodeOrToken.intoNode, NodeOrToken.intoToken]

theorem WalkEvent.map_id (e : WalkEvent α) : e.map id = e := by cases e <;> rfl
theorem WalkEvent.map_comp {γ : Type} (f : α → β) (g : β → γ) (e : WalkEvent α) : (e.map f).map g = e.map (g ∘ f) := by cases e <;> rfl
end Util
end Cst
