/- simulation: the state-threading preorder iterator of `Model/Red` computes the pure successor
   function of `C03` on materialised positions, hence enumerates the recursive preorder -/
import CstModel.Props.C03
namespace Cst

open Red C03

/-- position `q` has been materialised (or is the root) -/
def Mat (r : Red) (q : Path) : Prop := ∃ o, r.start q = some o

theorem Mat.root (r : Red) : Mat r [] := ⟨0, by simp [Red.start]⟩

theorem lookup_cons_ne {l : List (Path × Nat)} {a b : Path} {v : Nat} (h : ¬ (a == b) = true) :
    List.lookup a ((b, v) :: l) = List.lookup a l := by
  simp [List.lookup_cons, h]

theorem Mat.getOrAdd {r : Red} {q : Path} (h : Mat r q) (p : Path) (i off : Nat) : Mat (r.getOrAdd p i off) q := by
  obtain ⟨o, ho⟩ := h
  unfold Red.getOrAdd
  cases hl : r.slots.lookup (p ++ [i]) with
  | some _ => exact ⟨o, ho⟩
  | none =>
    simp only
    unfold Mat
    unfold Red.start at ho ⊢
    by_cases hq : q = []
    · simp [hq]
    · simp only [hq, ↓reduceIte] at ho ⊢
      by_cases he : q = p ++ [i]
      · subst he; rw [hl] at ho; cases ho
      · refine ⟨o, ?_⟩
        rw [lookup_cons_ne (by simpa using he)]; exact ho

theorem Mat.getOrAdd_self (r : Red) (p : Path) (i off : Nat) : Mat (r.getOrAdd p i off) (p ++ [i]) := by
  unfold Red.getOrAdd
  cases hl : r.slots.lookup (p ++ [i]) with
  | some o => exact ⟨o, by simp [Red.start, hl]⟩
  | none => exact ⟨off, by simp [Red.start, List.lookup_cons]⟩

theorem getOrAdd_root (r : Red) (p : Path) (i off : Nat) : (r.getOrAdd p i off).root = r.root := by
  unfold Red.getOrAdd; split <;> rfl

theorem Mat.getOrAdd_inv {r : Red} {p : Path} {i off : Nat} {x : Path} (h : Mat (r.getOrAdd p i off) x) :
    Mat r x ∨ x = p ++ [i] := by
  obtain ⟨o, ho⟩ := h
  unfold Red.getOrAdd at ho
  cases hl : r.slots.lookup (p ++ [i]) with
  | some _ => simp only [hl] at ho; exact Or.inl ⟨o, ho⟩
  | none =>
    simp only [hl] at ho
    by_cases he : x = p ++ [i]
    · exact Or.inr he
    · left
      unfold Mat
      unfold Red.start at ho ⊢
      by_cases hx : x = []
      · simp [hx]
      · simp only [hx, ↓reduceIte] at ho ⊢
        rw [lookup_cons_ne (by simpa using he)] at ho
        exact ⟨o, ho⟩

/-- the parent of every materialised position is materialised (handles are only ever created
    through a handle to their parent) -/
def Closed (r : Red) : Prop := ∀ q i, Mat r (q ++ [i]) → Mat r q

theorem Closed.new (g : Green) : Closed (Red.new g) := by
  intro q i h
  obtain ⟨o, ho⟩ := h
  simp [Red.start, Red.new] at ho

theorem Closed.getOrAdd {r : Red} (hc : Closed r) {p : Path} (hp : Mat r p) (i off : Nat) :
    Closed (r.getOrAdd p i off) := by
  intro q j h
  rcases Mat.getOrAdd_inv h with h | h
  · exact (hc q j h).getOrAdd p i off
  · have : q = p := (List.append_inj_left' h (by simp))
    subst this; exact hp.getOrAdd q i off

theorem pick_closed {r : Red} (hc : Closed r) {p : Path} (hp : Mat r p) (cand : Option (Green × Nat × Nat)) :
    Closed (r.pick p cand).2 := by
  cases cand with
  | none => exact hc
  | some e => obtain ⟨c, i, o⟩ := e; exact hc.getOrAdd hp i o

/-- materialising through `pick`: the result (if any) is materialised, nothing is forgotten, the
    green tree is untouched -/
theorem pick_mat (r : Red) (p : Path) (cand : Option (Green × Nat × Nat)) :
    (∀ q, (r.pick p cand).1 = some q → Mat (r.pick p cand).2 q) ∧
    (∀ q, Mat r q → Mat (r.pick p cand).2 q) ∧ (r.pick p cand).2.root = r.root := by
  cases cand with
  | none => exact ⟨by simp [Red.pick], fun q h => h, rfl⟩
  | some e =>
    obtain ⟨c, i, o⟩ := e
    refine ⟨?_, fun q h => h.getOrAdd p i o, getOrAdd_root r p i o⟩
    intro q hq
    simp only [Red.pick, Option.some.injEq] at hq
    subst hq
    exact Mat.getOrAdd_self r p i o

theorem firstChildOrToken_mat (r : Red) (p : Path) :
    (∀ q, (r.firstChildOrToken p).1 = some q → Mat (r.firstChildOrToken p).2 q) ∧
    (∀ q, Mat r q → Mat (r.firstChildOrToken p).2 q) ∧ (r.firstChildOrToken p).2.root = r.root ∧
    (Closed r → Closed (r.firstChildOrToken p).2) := by
  simp only [Red.firstChildOrToken]
  cases r.green p with
  | none => exact ⟨by simp, fun q h => h, rfl, id⟩
  | some g =>
    cases hs : r.start p with
    | none => exact ⟨by simp, fun q h => h, rfl, id⟩
    | some o =>
      have := pick_mat r p ((childrenFrom g.children 0 o).head?)
      exact ⟨this.1, this.2.1, this.2.2, fun hc => pick_closed hc ⟨o, hs⟩ _⟩

theorem mat_of_range {r : Red} {p : Path} {se : Nat × Nat} (h : r.range p = some se) : Mat r p := by
  unfold Red.range at h
  cases hs : r.start p with
  | none => simp [hs] at h
  | some o => exact ⟨o, hs⟩

theorem nextSiblingOrToken_mat (r : Red) (p : Path) :
    (∀ q, (r.nextSiblingOrToken p).1 = some q → Mat (r.nextSiblingOrToken p).2 q) ∧
    (∀ q, Mat r q → Mat (r.nextSiblingOrToken p).2 q) ∧ (r.nextSiblingOrToken p).2.root = r.root ∧
    (Closed r → Closed (r.nextSiblingOrToken p).2) := by
  simp only [Red.nextSiblingOrToken]
  cases hsp : Red.split p with
  | none => exact ⟨by simp, fun q h => h, rfl, id⟩
  | some qi =>
    obtain ⟨q, i⟩ := qi
    cases hr : r.range p with
    | none => exact ⟨by simp, fun q h => h, rfl, id⟩
    | some se =>
      simp only [Red.nextChildOrTokenAfter]
      cases r.green q with
      | none => exact ⟨by simp, fun q h => h, rfl, id⟩
      | some g =>
        have := pick_mat r q ((childrenFrom g.children (i + 1) se.2).head?)
        refine ⟨this.1, this.2.1, this.2.2, fun hc => pick_closed hc ?_ _⟩
        have hp := split_spec hsp
        exact hc q i (hp ▸ mat_of_range hr)

theorem arity_eq (g : Green) (p : Path) (t : Green) (h : Green.get g p = some t) : arity g p = t.children.length := by
  simp [arity, h]

theorem range_of_mat {r : Red} {p : Path} {t : Green} (hm : Mat r p) (ht : r.green p = some t) :
    ∃ se, r.range p = some se := by
  obtain ⟨o, ho⟩ := hm
  exact ⟨(o, o + t.len), by simp [Red.range, ho, ht]⟩

/-- what the walks need to know about an event: its position exists and is materialised, and it
    lies in the sub-tree of `start` -/
def EvOk (r : Red) (start : Path) : WE → Prop
  | .enter p => Mat r p ∧ (∃ t, r.green p = some t) ∧ start <+: p
  | .leave p => Mat r p ∧ (∃ t, r.green p = some t) ∧ start <+: p

/-- **simulation step**: on a materialised position the state-threading successor computes the pure
    successor, and the next event is again materialised -/
theorem walkNextT_sim (start : Path) (r : Red) (hcl : Closed r) (e : WE) (he : EvOk r start e) :
    (walkNextT start r e).1 = C03.next r.root start e ∧
    (∀ e', (walkNextT start r e).1 = some e' → EvOk (walkNextT start r e).2 start e') ∧
    (∀ q, Mat r q → Mat (walkNextT start r e).2 q) ∧ (walkNextT start r e).2.root = r.root ∧
    Closed (walkNextT start r e).2 := by
  cases e with
  | enter p =>
    obtain ⟨hm, ⟨t, ht⟩, hpre⟩ := he
    obtain ⟨o, ho⟩ := hm
    have hget : Green.get r.root p = some t := ht
    simp only [walkNextT, ht, C03.next, arity_eq _ _ _ hget]
    by_cases hn : t.isNode = true
    · simp only [hn, ↓reduceIte]
      have hspec := firstChildOrToken_spec r p t o ht ho
      have hmat := firstChildOrToken_mat r p
      cases hres : r.firstChildOrToken p with
      | mk res r1 =>
        rw [hres] at hspec hmat
        simp only at hspec hmat
        cases hc : t.children with
        | nil =>
          simp only [hc, ↓reduceIte] at hspec
          subst hspec
          simp only [List.length_nil, Nat.lt_irrefl, ↓reduceIte]
          refine ⟨by first | rfl | trivial, ?_, hmat.2.1, hmat.2.2.1, hmat.2.2.2 hcl⟩
          intro e' he'
          cases he'
          exact ⟨hmat.2.1 p ⟨o, ho⟩, ⟨t, by unfold Red.green at ht ⊢; rw [hmat.2.2.1]; exact ht⟩, hpre⟩
        | cons c cs =>
          simp only [hc, reduceCtorEq, ↓reduceIte] at hspec
          subst hspec
          simp only [List.length_cons, Nat.zero_lt_succ, ↓reduceIte]
          refine ⟨by first | rfl | trivial, ?_, hmat.2.1, hmat.2.2.1, hmat.2.2.2 hcl⟩
          intro e' he'
          cases he'
          refine ⟨hmat.1 _ rfl, ⟨c, ?_⟩, List.IsPrefix.trans hpre (List.prefix_append _ _)⟩
          unfold Red.green; rw [hmat.2.2.1]
          exact get_child r.root p t hget 0 c (by simp [hc])
    · have hn' : t.isNode = false := by simpa using hn
      have : t.children = [] := token_children hn'
      simp only [hn', Bool.false_eq_true, ↓reduceIte, this, List.length_nil, Nat.lt_irrefl]
      refine ⟨by first | rfl | trivial, ?_, fun q h => h, by first | rfl | trivial, hcl⟩
      intro e' he'
      cases he'
      exact ⟨⟨o, ho⟩, ⟨t, ht⟩, hpre⟩
  | leave p =>
    obtain ⟨hm, ⟨t, ht⟩, hpre⟩ := he
    simp only [walkNextT, C03.next]
    by_cases hps : p = start
    · simp only [hps, ↓reduceIte]
      exact ⟨by first | rfl | trivial, by simp, fun q h => h, by first | rfl | trivial, hcl⟩
    · simp only [hps, ↓reduceIte]
      cases hl : p.getLast? with
      | none =>
        -- the root can only be left when it is `start`
        have : p = [] := List.getLast?_eq_none_iff.mp hl
        subst this
        have : start = [] := List.prefix_nil.mp hpre
        exact absurd this.symm hps
      | some i =>
        obtain ⟨q, rfl⟩ := List.getLast?_eq_some_iff.mp hl
        simp only [List.dropLast_concat]
        -- the parent exists
        have hgq : ∃ tq, Green.get r.root q = some tq ∧ tq.children[i]? = some t := by
          have : Green.get r.root (q ++ [i]) = some t := ht
          rw [get_append_single] at this
          cases hq : Green.get r.root q with
          | none => simp [hq] at this
          | some tq => simp only [hq, Option.bind_some] at this; exact ⟨tq, rfl, this⟩
        obtain ⟨tq, htq, hti⟩ := hgq
        obtain ⟨se, hse⟩ := range_of_mat hm ht
        have hspec := nextSiblingOrToken_spec r q i tq se htq hse
        have hmat := nextSiblingOrToken_mat r (q ++ [i])
        have hpq : start <+: q := by
          -- `start` is a proper prefix of `q ++ [i]`
          obtain ⟨rest, hrest⟩ := hpre
          cases hrl : rest.getLast? with
          | none =>
            have : rest = [] := List.getLast?_eq_none_iff.mp hrl
            subst this; simp at hrest; exact absurd hrest.symm hps
          | some j =>
            obtain ⟨rest', rfl⟩ := List.getLast?_eq_some_iff.mp hrl
            rw [← List.append_assoc] at hrest
            have := List.append_inj_left' hrest (by simp)
            exact ⟨rest', this⟩
        cases hres : r.nextSiblingOrToken (q ++ [i]) with
        | mk res r1 =>
          rw [hres] at hspec hmat
          simp only at hspec hmat
          rw [arity_eq _ _ _ htq]
          by_cases hlt : i + 1 < tq.children.length
          · simp only [hlt, ↓reduceIte] at hspec ⊢
            subst hspec
            refine ⟨by first | rfl | trivial, ?_, hmat.2.1, hmat.2.2.1, hmat.2.2.2 hcl⟩
            intro e' he'
            cases he'
            refine ⟨hmat.1 _ rfl, ⟨tq.children[i + 1], ?_⟩, List.IsPrefix.trans hpq (List.prefix_append _ _)⟩
            unfold Red.green; rw [hmat.2.2.1]
            exact get_child r.root q tq htq (i + 1) _ (List.getElem?_eq_getElem hlt)
          · simp only [hlt, ↓reduceIte] at hspec ⊢
            subst hspec
            simp only [parent_child]
            refine ⟨by first | rfl | trivial, ?_, hmat.2.1, hmat.2.2.1, hmat.2.2.2 hcl⟩
            intro e' he'
            cases he'
            refine ⟨?_, ⟨tq, by unfold Red.green; rw [hmat.2.2.1]; exact htq⟩, hpq⟩
            -- the parent of a materialised position is materialised
            exact (hmat.2.2.2 hcl) q i (hmat.2.1 _ hm)

/-- the whole walk: the modelled iterator yields exactly the pure successor-function walk -/
theorem walk_sim (start : Path) (n : Nat) (r : Red) (hcl : Closed r) (e : WE) (he : EvOk r start e) :
    (Red.walk (walkNextT start) n r e).1 = C03.walkN r.root start n e ∧
    (Red.walk (walkNextT start) n r e).2.root = r.root ∧ Closed (Red.walk (walkNextT start) n r e).2 ∧
    (∀ q, Mat r q → Mat (Red.walk (walkNextT start) n r e).2 q) := by
  induction n generalizing r e with
  | zero => exact ⟨rfl, rfl, hcl, fun q h => h⟩
  | succ n ih =>
    have hs := walkNextT_sim start r hcl e he
    simp only [Red.walk, C03.walkN]
    cases hres : walkNextT start r e with
    | mk o r1 =>
      rw [hres] at hs
      simp only at hs
      rw [← hs.1]
      cases o with
      | none => exact ⟨rfl, hs.2.2.2.1, hs.2.2.2.2, hs.2.2.1⟩
      | some e' =>
        have := ih r1 hs.2.2.2.2 e' (hs.2.1 e' rfl)
        simp only
        rw [this.1, hs.2.2.2.1]
        exact ⟨rfl, this.2.1.trans hs.2.2.2.1, this.2.2.1, fun q h => this.2.2.2 q (hs.2.2.1 q h)⟩

/-- **the modelled `preorder_with_tokens` is the recursive preorder of the sub-tree** — properly
    nested enter/leave events, every element exactly once, in source order -/
theorem preorderWithTokens_spec (r : Red) (hcl : Closed r) (p : Path) (t : Green)
    (hm : Mat r p) (ht : r.green p = some t) :
    (r.preorderWithTokens p).1 = C03.pre p t ∧ (r.preorderWithTokens p).2.root = r.root ∧
      Closed (r.preorderWithTokens p).2 ∧ (∀ q, Mat r q → Mat (r.preorderWithTokens p).2 q) := by
  have hs := walk_sim p (Red.walkFuel r p) r hcl (.enter p) ⟨hm, ⟨t, ht⟩, List.prefix_refl _⟩
  refine ⟨?_, hs.2.1, hs.2.2.1, hs.2.2.2⟩
  simp only [Red.preorderWithTokens]
  rw [hs.1]
  -- enough fuel: 2 * size + 1 ≥ number of events
  have hlen : (C03.pre p t).length = 2 * Red.gsize t := (pre_length p t).1
  have hfuel : Red.walkFuel r p = 1 + (C03.pre p t).length := by
    simp [Red.walkFuel, ht, hlen]; omega
  rw [hfuel]
  exact C03.preorder_spec r.root p t ht 1
where
  pre_length : (p : Path) → (t : Green) → ((C03.pre p t).length = 2 * Red.gsize t) ∧ True
    | p, .tok .. => by simp [C03.pre, Red.gsize]
    | p, .node _ _ _ _ cs => by
      refine ⟨?_, trivial⟩
      simp only [C03.pre, Red.gsize, List.length_cons, List.length_append, List.length_nil, preL_length p 0 cs]
      omega
  preL_length : (p : Path) → (i : Nat) → (cs : List Green) → (C03.preL p i cs).length = 2 * Red.gsizeL cs
    | _, _, [] => by simp [C03.preL, Red.gsizeL]
    | p, i, c :: cs => by
      simp only [C03.preL, Red.gsizeL, List.length_append, (pre_length (p ++ [i]) c).1, preL_length p (i + 1) cs]
      omega

end Cst
