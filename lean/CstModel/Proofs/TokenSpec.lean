/-
  Proofs/TokenSpec — `first_token` / `last_token` return the first / last token leaf of the sub-tree
  (searching on past children without tokens), on any canonical red tree.
-/
import CstModel.Proofs.TokenNav
import CstModel.Proofs.Walk
import CstModel.Proofs.ChunksTree
namespace Cst
open Red

mutual
/-- paths of the token leaves of a sub-tree, in source order -/
def leafPaths (p : Path) : Green → List Path
  | .tok .. => [p]
  | .node _ _ _ _ cs => leafPathsL p 0 cs
def leafPathsL (p : Path) (i : Nat) : List Green → List Path
  | [] => []
  | c :: cs => leafPaths (p ++ [i]) c ++ leafPathsL p (i + 1) cs
end

mutual
theorem leaves_map_fst : (g : Green) → (p : Path) → (o : Nat) → (leaves p o g).map (·.1) = leafPaths p g
  | .tok .., _, _ => rfl
  | .node _ _ _ _ cs, p, o => by simp only [leaves, leafPaths]; exact leavesL_map_fst cs p 0 o
theorem leavesL_map_fst : (cs : List Green) → (p : Path) → (i o : Nat) → (leavesL p i o cs).map (·.1) = leafPathsL p i cs
  | [], _, _, _ => rfl
  | c :: cs, p, i, o => by
    simp only [leavesL, leafPathsL, List.map_append, leaves_map_fst c (p ++ [i]) o, leavesL_map_fst cs p (i + 1) (o + c.len)]
end

theorem gsizeL_mem {cs : List Green} {c : Green} (h : c ∈ cs) : gsize c ≤ gsizeL cs := by
  induction cs with
  | nil => cases h
  | cons x xs ih =>
    simp only [List.mem_cons] at h
    simp only [gsizeL]
    rcases h with rfl | h
    · omega
    · have := ih h; omega

/-- **`first_token`**: the first token leaf of the sub-tree (`None` exactly when it has none) -/
theorem firstTokenGo_spec (n : Nat) : ∀ (r : Red) (p : Path) (g : Green), RInv r → Mat r p → r.green p = some g →
    gsize g ≤ n →
    (Red.firstTokenGo n r p).1 = (leafPaths p g).head? ∧ RInv (Red.firstTokenGo n r p).2 ∧
    (Red.firstTokenGo n r p).2.root = r.root ∧ (∀ q, Mat r q → Mat (Red.firstTokenGo n r p).2 q) := by
  induction n with
  | zero => intro r p g _ _ _ hsz; cases g <;> simp [gsize] at hsz
  | succ n ih =>
    intro r p g hr hm hg hsz
    simp only [Red.firstTokenGo]
    by_cases htok : r.isToken p = true
    · simp only [htok, ↓reduceIte]
      cases g with
      | tok _ _ _ _ => exact ⟨by first | rfl | trivial, hr, by first | rfl | trivial, fun _ h => h⟩
      | node _ _ _ _ _ => simp [Red.isToken, hg, Green.isNode] at htok
    · simp only [htok, Bool.false_eq_true, ↓reduceIte]
      cases g with
      | tok _ _ _ _ => simp [Red.isToken, hg, Green.isNode] at htok
      | node id k l h cs =>
        obtain ⟨o, ho⟩ := hm
        have hi : iterNew r p = some ⟨p, cs, 0, o⟩ := by simp [iterNew, hg, ho, Green.children]
        simp only [hi, leafPaths]
        have hit := iterNew_ok hr hi
        -- the scan over the children
        suffices ∀ k (rest : List Green) (idx off : Nat) (r' : Red), RInv r' → ItOk r' ⟨p, rest, idx, off⟩ →
            rest.length < k → (∀ c ∈ rest, gsize c ≤ n) →
            (Red.firstTokenGo.scan n ⟨p, rest, idx, off⟩ r' k).1 = (leafPathsL p idx rest).head? ∧
            RInv (Red.firstTokenGo.scan n ⟨p, rest, idx, off⟩ r' k).2 ∧
            (Red.firstTokenGo.scan n ⟨p, rest, idx, off⟩ r' k).2.root = r'.root ∧
            (∀ q, Mat r' q → Mat (Red.firstTokenGo.scan n ⟨p, rest, idx, off⟩ r' k).2 q) by
          have := this (cs.length + 1) cs 0 o r hr hit (by simp) (by
            intro c hc
            have := gsizeL_mem hc
            simp only [gsize] at hsz
            omega)
          exact this
        intro k
        induction k with
        | zero => intro rest idx off r' _ _ hk; omega
        | succ k ihk =>
          intro rest idx off r' hr' hit' hk hsmall
          simp only [Red.firstTokenGo.scan, Red.It.nextElem]
          cases rest with
          | nil => simp only [leafPathsL, List.head?_nil]; exact ⟨by first | rfl | trivial, hr', by first | rfl | trivial, fun _ h => h⟩
          | cons c rest =>
            simp only
            have hstep := ItOk.step hr' hit' c rest rfl
            simp only at hstep
            obtain ⟨gp, base, hgp, _, hrestEq, _⟩ := hit'
            simp only at hgp hrestEq
            have hci : gp.children[idx]? = some c := by
              have := congrArg List.head? hrestEq; simp [List.head?_drop] at this; exact this.symm
            have hgc : (r'.getOrAdd p idx off).green (p ++ [idx]) = some c := by
              unfold Red.green at hgp ⊢
              rw [hstep.2.1]
              exact C03.get_child r'.root p gp hgp idx c hci
            have hmc : Mat (r'.getOrAdd p idx off) (p ++ [idx]) := Mat.getOrAdd_self _ _ _ _
            have hcs : gsize c ≤ n := hsmall c (by simp)
            obtain ⟨f1, f2, f3, f4⟩ := ih (r'.getOrAdd p idx off) (p ++ [idx]) c hstep.1 hmc hgc hcs
            simp only [leafPathsL]
            cases hft : Red.firstTokenGo n (r'.getOrAdd p idx off) (p ++ [idx]) with
            | mk ot r'' =>
              rw [hft] at f1 f2 f3 f4
              simp only at f1 f2 f3 f4
              cases ot with
              | some t =>
                simp only
                refine ⟨?_, f2, ?_, ?_⟩
                · rw [List.head?_append, ← f1]; rfl
                · rw [f3]; exact hstep.2.1
                · intro q hq; exact f4 q (hq.getOrAdd _ _ _)
              | none =>
                simp only
                have hnil : leafPaths (p ++ [idx]) c = [] := by
                  cases hl : leafPaths (p ++ [idx]) c with
                  | nil => rfl
                  | cons a as => rw [hl] at f1; simp at f1
                rw [hnil, List.nil_append]
                have hit'' : ItOk r'' ⟨p, rest, idx + 1, off + c.len⟩ := ItOk.of_root hstep.2.2.1 f3
                have := ihk rest (idx + 1) (off + c.len) r'' f2 hit'' (by simp at hk ⊢; omega)
                  (fun d hd => hsmall d (by simp [hd]))
                refine ⟨this.1, this.2.1, ?_, ?_⟩
                · rw [this.2.2.1, f3]; exact hstep.2.1
                · intro q hq; exact this.2.2.2 q (f4 q (hq.getOrAdd _ _ _))

/-- `SyntaxNode::first_token` / `SyntaxElementRef::first_token` -/
theorem firstToken_spec (r : Red) (hr : RInv r) (p : Path) (g : Green) (hm : Mat r p) (hg : r.green p = some g) :
    (r.firstToken p).1 = (leafPaths p g).head? := by
  have hfuel : gsize g ≤ Red.walkFuel r p := by simp [Red.walkFuel, hg]; omega
  exact (firstTokenGo_spec _ r p g hr hm hg hfuel).1

/-! ### `last_token` -/

theorem leafPathsL_append (p : Path) (i : Nat) (a b : List Green) :
    leafPathsL p i (a ++ b) = leafPathsL p i a ++ leafPathsL p (i + a.length) b := by
  induction a generalizing i with
  | nil => simp [leafPathsL]
  | cons c cs ih =>
    have e : i + 1 + cs.length = i + (cs.length + 1) := by omega
    simp only [List.cons_append, leafPathsL, ih (i + 1), List.append_assoc, List.length_cons, e]

theorem leafPathsL_take_succ (p : Path) (cs : List Green) (i : Nat) (c : Green) (hc : cs[i]? = some c) :
    leafPathsL p 0 (cs.take (i + 1)) = leafPathsL p 0 (cs.take i) ++ leafPaths (p ++ [i]) c := by
  have hi : i < cs.length := (List.getElem?_eq_some_iff.mp hc).1
  have e : cs.take (i + 1) = cs.take i ++ [c] := by
    rw [List.take_add_one, hc]; rfl
  rw [e, leafPathsL_append]
  have hl : (cs.take i).length = i := by rw [List.length_take]; omega
  simp [leafPathsL, hl]

theorem lastChildOrToken_mat (r : Red) (p : Path) :
    (∀ q, (r.lastChildOrToken p).1 = some q → Mat (r.lastChildOrToken p).2 q) ∧
    (∀ q, Mat r q → Mat (r.lastChildOrToken p).2 q) := by
  simp only [Red.lastChildOrToken]
  cases r.green p with
  | none => exact ⟨by simp, fun q h => h⟩
  | some g =>
    cases hs : r.start p with
    | none => exact ⟨by simp, fun q h => h⟩
    | some o =>
      have := pick_mat r p ((childrenTo g.children g.children.length (o + g.len)).head?)
      exact ⟨this.1, this.2.1⟩

theorem prevSiblingOrToken_mat (r : Red) (p : Path) :
    (∀ q, (r.prevSiblingOrToken p).1 = some q → Mat (r.prevSiblingOrToken p).2 q) ∧
    (∀ q, Mat r q → Mat (r.prevSiblingOrToken p).2 q) := by
  simp only [Red.prevSiblingOrToken]
  cases Red.split p with
  | none => exact ⟨by simp, fun q h => h⟩
  | some qi =>
    obtain ⟨q, i⟩ := qi
    cases r.range p with
    | none => exact ⟨by simp, fun q h => h⟩
    | some se =>
      simp only [Red.prevChildOrTokenBefore]
      cases r.green q with
      | none => exact ⟨by simp, fun q h => h⟩
      | some g =>
        have := pick_mat r q ((childrenTo g.children i se.1).head?)
        exact ⟨this.1, this.2.1⟩

/-- **`last_token`**: the last token leaf of the sub-tree -/
theorem lastTokenGo_spec (n : Nat) : ∀ (r : Red) (p : Path) (g : Green), RInv r → Mat r p → r.green p = some g →
    gsize g ≤ n →
    (Red.lastTokenGo n r p).1 = (leafPaths p g).getLast? ∧ RInv (Red.lastTokenGo n r p).2 ∧
    (Red.lastTokenGo n r p).2.root = r.root ∧ (∀ q, Mat r q → Mat (Red.lastTokenGo n r p).2 q) := by
  induction n with
  | zero => intro r p g _ _ _ hsz; cases g <;> simp [gsize] at hsz
  | succ n ih =>
    intro r p g hr hm hg hsz
    simp only [Red.lastTokenGo]
    by_cases htok : r.isToken p = true
    · simp only [htok, ↓reduceIte]
      cases g with
      | tok _ _ _ _ => exact ⟨by first | rfl | trivial, hr, by first | rfl | trivial, fun _ h => h⟩
      | node _ _ _ _ _ => simp [Red.isToken, hg, Green.isNode] at htok
    · simp only [htok, Bool.false_eq_true, ↓reduceIte]
      cases g with
      | tok _ _ _ _ => simp [Red.isToken, hg, Green.isNode] at htok
      | node id kd l h cs =>
        obtain ⟨o, ho⟩ := hm
        have hspec := C03.lastChildOrToken_spec r p _ o hg ho
        have hkeep : RInv (r.lastChildOrToken p).2 ∧ (r.lastChildOrToken p).2.root = r.root := lastChildOrToken_keeps p r hr
        have hmat := lastChildOrToken_mat r p
        simp only [Green.children] at hspec
        cases hres : r.lastChildOrToken p with
        | mk oc r1 =>
          rw [hres] at hspec hkeep hmat
          simp only at hspec hkeep hmat
          cases hcs : cs with
          | nil =>
            simp only [hcs, ↓reduceIte] at hspec
            subst hspec
            simp only [leafPaths, leafPathsL, List.getLast?_nil]
            exact ⟨by first | rfl | trivial, hkeep.1, hkeep.2, hmat.2⟩
          | cons c0 cs0 =>
            have hne : cs ≠ [] := by rw [hcs]; simp
            simp only [hne, ↓reduceIte] at hspec
            subst hspec
            simp only [leafPaths]
            rw [← hcs]
            -- scanning backwards from child `i`
            suffices ∀ k i (r' : Red), RInv r' → r'.root = r.root → Mat r' (p ++ [i]) → i < cs.length → i < k →
                (Red.lastTokenGo.scanBack n r' (p ++ [i]) k).1 = (leafPathsL p 0 (cs.take (i + 1))).getLast? ∧
                RInv (Red.lastTokenGo.scanBack n r' (p ++ [i]) k).2 ∧
                (Red.lastTokenGo.scanBack n r' (p ++ [i]) k).2.root = r'.root ∧
                (∀ q, Mat r' q → Mat (Red.lastTokenGo.scanBack n r' (p ++ [i]) k).2 q) by
              have hlen : cs.length - 1 < cs.length := by
                have : 0 < cs.length := List.length_pos_iff.mpr hne
                omega
              have hk : Red.nSiblings r1 (p ++ [cs.length - 1]) = cs.length + 1 := by
                simp only [Red.nSiblings, C03.parent_child]
                have : r1.green p = some (.node id kd l h cs) := by unfold Red.green at hg ⊢; rw [hkeep.2]; exact hg
                simp [this, Green.children]
              have := this (Red.nSiblings r1 (p ++ [cs.length - 1])) (cs.length - 1) r1 hkeep.1 hkeep.2 (hmat.1 _ rfl) hlen (by rw [hk]; omega)
              have e : cs.length - 1 + 1 = cs.length := by omega
              rw [e, List.take_length] at this
              exact ⟨this.1, this.2.1, this.2.2.1.trans hkeep.2, fun q hq => this.2.2.2 q (hmat.2 q hq)⟩
            intro k
            induction k with
            | zero => intro i r' _ _ _ _ hk; omega
            | succ k ihk =>
              intro i r' hr' hroot' hmi hi hk
              have hci : cs[i]? = some cs[i] := List.getElem?_eq_getElem hi
              have hgp : r'.green p = some (.node id kd l h cs) := by unfold Red.green at hg ⊢; rw [hroot']; exact hg
              have hgc : r'.green (p ++ [i]) = some cs[i] := by
                unfold Red.green at hgp ⊢
                exact C03.get_child r'.root p _ hgp i cs[i] (by simpa [Green.children] using hci)
              have hsmall : gsize cs[i] ≤ n := by
                have := gsizeL_mem (List.getElem_mem hi)
                simp only [gsize] at hsz
                omega
              obtain ⟨f1, f2, f3, f4⟩ := ih r' (p ++ [i]) cs[i] hr' hmi hgc hsmall
              simp only [Red.lastTokenGo.scanBack]
              rw [leafPathsL_take_succ p cs i cs[i] hci, List.getLast?_append]
              cases hlt : Red.lastTokenGo n r' (p ++ [i]) with
              | mk ot r2 =>
                rw [hlt] at f1 f2 f3 f4
                simp only at f1 f2 f3 f4
                cases ot with
                | some t =>
                  simp only
                  rw [← f1]
                  exact ⟨by first | rfl | trivial, f2, f3, f4⟩
                | none =>
                  simp only
                  rw [← f1, Option.none_or]
                  have hm2 : Mat r2 (p ++ [i]) := f4 _ hmi
                  have hg2 : r2.green p = some (.node id kd l h cs) := by unfold Red.green at hgp ⊢; rw [f3]; exact hgp
                  have hgc2 : r2.green (p ++ [i]) = some cs[i] := by unfold Red.green at hgc ⊢; rw [f3]; exact hgc
                  obtain ⟨se, hse⟩ := range_of_mat hm2 hgc2
                  have hps := C03.prevSiblingOrToken_spec r2 p i _ se hg2 (by simpa [Green.children] using hi) hse
                  have hpk : RInv (r2.prevSiblingOrToken (p ++ [i])).2 ∧ (r2.prevSiblingOrToken (p ++ [i])).2.root = r2.root :=
                    prevSiblingOrToken_keeps (p ++ [i]) r2 f2
                  have hpm := prevSiblingOrToken_mat r2 (p ++ [i])
                  cases hpr : r2.prevSiblingOrToken (p ++ [i]) with
                  | mk oc r3 =>
                    rw [hpr] at hps hpk hpm
                    simp only at hps hpk hpm
                    by_cases hi0 : i = 0
                    · simp only [hi0, ↓reduceIte] at hps
                      subst hps
                      simp only [hi0, List.take_zero, leafPathsL, List.getLast?_nil]
                      exact ⟨by first | rfl | trivial, hpk.1, hpk.2.trans f3, fun q hq => hpm.2 q (f4 q hq)⟩
                    · simp only [hi0, ↓reduceIte] at hps
                      subst hps
                      simp only
                      have := ihk (i - 1) r3 hpk.1 ((hpk.2.trans f3).trans hroot') (hpm.1 _ rfl) (by omega) (by omega)
                      have e : i - 1 + 1 = i := by omega
                      rw [e] at this
                      exact ⟨this.1, this.2.1, (this.2.2.1.trans hpk.2).trans f3, fun q hq => this.2.2.2 q (hpm.2 q (f4 q hq))⟩

/-- `SyntaxNode::last_token` / `SyntaxElementRef::last_token` -/
theorem lastToken_spec (r : Red) (hr : RInv r) (p : Path) (g : Green) (hm : Mat r p) (hg : r.green p = some g) :
    (r.lastToken p).1 = (leafPaths p g).getLast? := by
  have hfuel : gsize g ≤ Red.walkFuel r p := by simp [Red.walkFuel, hg]; omega
  exact (lastTokenGo_spec _ r p g hr hm hg hfuel).1

/-! ### `next_token` -/

/-- the token leaves that follow the sub-tree at `p` in source order: those of the following siblings,
    then those that follow the parent (fuel = length of the path) -/
def afterGo (root : Green) : Nat → Path → List Path
  | 0, _ => []
  | n + 1, p =>
    match p.getLast? with
    | none => []
    | some i =>
      (match Green.get root p.dropLast with
       | some t => leafPathsL p.dropLast (i + 1) (t.children.drop (i + 1))
       | none => []) ++ afterGo root n p.dropLast

/-- the scan over the following siblings: first token leaf among children `j, j+1, …` of `q` -/
theorem nextSibScan_spec (r0 : Red) (q : Path) (t : Green) : ∀ (k j : Nat) (r : Red), RInv r → r.root = r0.root →
    r.green q = some t → Mat r (q ++ [j]) → j < t.children.length → t.children.length - j < k →
    (Red.nextTokenGo.sibScan r (q ++ [j]) k).1 = (leafPathsL q j (t.children.drop j)).head? ∧
    RInv (Red.nextTokenGo.sibScan r (q ++ [j]) k).2 ∧ (Red.nextTokenGo.sibScan r (q ++ [j]) k).2.root = r.root ∧
    (∀ x, Mat r x → Mat (Red.nextTokenGo.sibScan r (q ++ [j]) k).2 x) := by
  intro k
  induction k with
  | zero => intro j r _ _ _ _ _ hk; omega
  | succ k ih =>
    intro j r hr hroot hgq hm hj hk
    have hcj : t.children[j]? = some t.children[j] := List.getElem?_eq_getElem hj
    have hgc : r.green (q ++ [j]) = some t.children[j] := by
      unfold Red.green at hgq ⊢
      exact C03.get_child r.root q t hgq j _ hcj
    have hfuel : gsize t.children[j] ≤ Red.walkFuel r (q ++ [j]) := by simp [Red.walkFuel, hgc]; omega
    obtain ⟨f1, f2, f3, f4⟩ := firstTokenGo_spec _ r (q ++ [j]) t.children[j] hr hm hgc hfuel
    have hdrop : t.children.drop j = t.children[j] :: t.children.drop (j + 1) := by
      rw [List.drop_eq_getElem_cons hj]
    simp only [Red.nextTokenGo.sibScan, Red.elemFirstToken]
    rw [hdrop]
    simp only [leafPathsL, List.head?_append]
    cases hft : Red.firstTokenGo (Red.walkFuel r (q ++ [j])) r (q ++ [j]) with
    | mk ot r1 =>
      rw [hft] at f1 f2 f3 f4
      simp only at f1 f2 f3 f4
      cases ot with
      | some x =>
        simp only
        rw [← f1]
        exact ⟨by first | rfl | trivial, f2, f3, f4⟩
      | none =>
        simp only
        rw [← f1, Option.none_or]
        have hm1 : Mat r1 (q ++ [j]) := f4 _ hm
        have hgq1 : r1.green q = some t := by unfold Red.green at hgq ⊢; rw [f3]; exact hgq
        have hgc1 : r1.green (q ++ [j]) = some t.children[j] := by unfold Red.green at hgc ⊢; rw [f3]; exact hgc
        obtain ⟨se, hse⟩ := range_of_mat hm1 hgc1
        have hns := C03.nextSiblingOrToken_spec r1 q j t se hgq1 hse
        have hnk : RInv (r1.nextSiblingOrToken (q ++ [j])).2 ∧ (r1.nextSiblingOrToken (q ++ [j])).2.root = r1.root :=
          nextSiblingOrToken_keeps (q ++ [j]) r1 f2
        have hnm := nextSiblingOrToken_mat r1 (q ++ [j])
        cases hnr : r1.nextSiblingOrToken (q ++ [j]) with
        | mk os r2 =>
          rw [hnr] at hns hnk hnm
          simp only at hns hnk hnm
          by_cases hlt : j + 1 < t.children.length
          · simp only [hlt, ↓reduceIte] at hns
            subst hns
            simp only
            have hgq2 : r2.green q = some t := by unfold Red.green at hgq1 ⊢; rw [hnk.2]; exact hgq1
            have := ih (j + 1) r2 hnk.1 ((hnk.2.trans f3).trans hroot) hgq2 (hnm.1 _ rfl) hlt (by omega)
            exact ⟨this.1, this.2.1, (this.2.2.1.trans hnk.2).trans f3, fun x hx => this.2.2.2 x (hnm.2.1 x (f4 x hx))⟩
          · simp only [hlt, ↓reduceIte] at hns
            subst hns
            have hnil : t.children.drop (j + 1) = [] := List.drop_eq_nil_of_le (by omega)
            simp only [hnil, leafPathsL, List.head?_nil]
            exact ⟨by first | rfl | trivial, hnk.1, hnk.2.trans f3, fun x hx => hnm.2.1 x (f4 x hx)⟩

/-- **`next_token`**: the first token leaf that follows the element in source order — among the following
    siblings first, then after the parent, and so on up to the root (`None` at the end of the tree) -/
theorem nextTokenGo_spec (n : Nat) : ∀ (r : Red) (cur : Path), RInv r → (∀ q, q <+: cur → Mat r q) →
    (∃ c, r.green cur = some c) → cur.length ≤ n →
    (Red.nextTokenGo (n + 1) r cur).1 = (afterGo r.root (n + 1) cur).head? := by
  induction n with
  | zero =>
    intro r cur hr hmat hg hlen
    have : cur = [] := List.eq_nil_of_length_eq_zero (by omega)
    subst this
    simp [Red.nextTokenGo, Red.nextSiblingOrToken, Red.split, Red.nextTokenGo.up, Red.parent, afterGo]
  | succ n ih =>
    intro r cur hr hmat hg hlen
    cases hl : cur.getLast? with
    | none =>
      have : cur = [] := List.getLast?_eq_none_iff.mp hl
      subst this
      simp [Red.nextTokenGo, Red.nextSiblingOrToken, Red.split, Red.nextTokenGo.up, Red.parent, afterGo]
    | some i =>
      obtain ⟨q, rfl⟩ := List.getLast?_eq_some_iff.mp hl
      obtain ⟨c, hc⟩ := hg
      have hmcur : Mat r (q ++ [i]) := hmat _ (List.prefix_refl _)
      have hmq : Mat r q := hmat q (List.prefix_append _ _)
      -- the parent
      have hgq : ∃ t, r.green q = some t ∧ t.children[i]? = some c := by
        have : Green.get r.root (q ++ [i]) = some c := hc
        rw [get_append_single] at this
        cases hq : Green.get r.root q with
        | none => simp [hq] at this
        | some t => simp only [hq, Option.bind_some] at this; exact ⟨t, hq, this⟩
      obtain ⟨t, htq, hti⟩ := hgq
      have hi : i < t.children.length := (List.getElem?_eq_some_iff.mp hti).1
      obtain ⟨se, hse⟩ := range_of_mat hmcur hc
      have hns := C03.nextSiblingOrToken_spec r q i t se htq hse
      have hnk : RInv (r.nextSiblingOrToken (q ++ [i])).2 ∧ (r.nextSiblingOrToken (q ++ [i])).2.root = r.root :=
        nextSiblingOrToken_keeps (q ++ [i]) r hr
      have hnm := nextSiblingOrToken_mat r (q ++ [i])
      have hgetq : Green.get r.root q = some t := htq
      simp only [Red.nextTokenGo, afterGo, hl, List.dropLast_concat, hgetq]
      -- going up: the recursion on the parent
      have hup : ∀ (r' : Red), RInv r' → r'.root = r.root → (∀ x, Mat r x → Mat r' x) →
          (Red.nextTokenGo.up (n + 1) r' (q ++ [i])).1 = (afterGo r.root (n + 1) q).head? := by
        intro r' hr' hroot' hmono
        simp only [Red.nextTokenGo.up, C03.parent_child]
        have := ih r' q hr' (fun x hx => hmono x (hmat x (List.IsPrefix.trans hx (List.prefix_append _ _))))
          ⟨t, by unfold Red.green at htq ⊢; rw [hroot']; exact htq⟩ (by simp at hlen; omega)
        rw [this, hroot']
      cases hnr : r.nextSiblingOrToken (q ++ [i]) with
      | mk os r1 =>
        rw [hnr] at hns hnk hnm
        simp only at hns hnk hnm
        by_cases hlt : i + 1 < t.children.length
        · simp only [hlt, ↓reduceIte] at hns
          subst hns
          simp only
          have hgq1 : r1.green q = some t := by unfold Red.green at htq ⊢; rw [hnk.2]; exact htq
          have hk : Red.nSiblings r1 (q ++ [i + 1]) = t.children.length + 1 := by
            simp [Red.nSiblings, C03.parent_child, hgq1]
          have hscan := nextSibScan_spec r q t (Red.nSiblings r1 (q ++ [i + 1])) (i + 1) r1 hnk.1 hnk.2 hgq1 (hnm.1 _ rfl) hlt (by rw [hk]; omega)
          cases hsc : Red.nextTokenGo.sibScan r1 (q ++ [i + 1]) (Red.nSiblings r1 (q ++ [i + 1])) with
          | mk ot r2 =>
            rw [hsc] at hscan
            simp only at hscan
            rw [List.head?_append]
            cases ot with
            | some x =>
              simp only
              rw [← hscan.1]
              rfl
            | none =>
              simp only
              rw [← hscan.1, Option.none_or]
              exact hup r2 hscan.2.1 (hscan.2.2.1.trans hnk.2) (fun x hx => hscan.2.2.2 x (hnm.2.1 x hx))
        · simp only [hlt, ↓reduceIte] at hns
          subst hns
          simp only
          have hnil : t.children.drop (i + 1) = [] := List.drop_eq_nil_of_le (by omega)
          simp only [hnil, leafPathsL, List.nil_append]
          exact hup r1 hnk.1 hnk.2 hnm.2.1

/-- `SyntaxToken::next_token` (and the same walk from a node) -/
theorem nextToken_spec (r : Red) (hr : RInv r) (cur : Path) (hmat : ∀ q, q <+: cur → Mat r q)
    (hg : ∃ c, r.green cur = some c) :
    (r.nextToken cur).1 = (afterGo r.root (cur.length + 1) cur).head? :=
  nextTokenGo_spec cur.length r cur hr hmat hg (Nat.le_refl _)

/-! ### `prev_token` -/

/-- the token leaves that precede the sub-tree at `p` in source order -/
def beforeGo (root : Green) : Nat → Path → List Path
  | 0, _ => []
  | n + 1, p =>
    match p.getLast? with
    | none => []
    | some i =>
      beforeGo root n p.dropLast ++
      (match Green.get root p.dropLast with
       | some t => leafPathsL p.dropLast 0 (t.children.take i)
       | none => [])

/-- the backwards scan over the preceding siblings: last token leaf among children `0 … j` of `q` -/
theorem prevSibScan_spec (r0 : Red) (q : Path) (t : Green) : ∀ (k j : Nat) (r : Red), RInv r → r.root = r0.root →
    r.green q = some t → Mat r (q ++ [j]) → j < t.children.length → j < k →
    (Red.prevTokenGo.sibScan r (q ++ [j]) k).1 = (leafPathsL q 0 (t.children.take (j + 1))).getLast? ∧
    RInv (Red.prevTokenGo.sibScan r (q ++ [j]) k).2 ∧ (Red.prevTokenGo.sibScan r (q ++ [j]) k).2.root = r.root ∧
    (∀ x, Mat r x → Mat (Red.prevTokenGo.sibScan r (q ++ [j]) k).2 x) := by
  intro k
  induction k with
  | zero => intro j r _ _ _ _ _ hk; omega
  | succ k ih =>
    intro j r hr hroot hgq hm hj hk
    have hcj : t.children[j]? = some t.children[j] := List.getElem?_eq_getElem hj
    have hgc : r.green (q ++ [j]) = some t.children[j] := by
      unfold Red.green at hgq ⊢
      exact C03.get_child r.root q t hgq j _ hcj
    have hfuel : gsize t.children[j] ≤ Red.walkFuel r (q ++ [j]) := by simp [Red.walkFuel, hgc]; omega
    obtain ⟨f1, f2, f3, f4⟩ := lastTokenGo_spec _ r (q ++ [j]) t.children[j] hr hm hgc hfuel
    simp only [Red.prevTokenGo.sibScan, Red.elemLastToken]
    rw [leafPathsL_take_succ q t.children j _ hcj, List.getLast?_append]
    cases hft : Red.lastTokenGo (Red.walkFuel r (q ++ [j])) r (q ++ [j]) with
    | mk ot r1 =>
      rw [hft] at f1 f2 f3 f4
      simp only at f1 f2 f3 f4
      cases ot with
      | some x =>
        simp only
        rw [← f1]
        exact ⟨by first | rfl | trivial, f2, f3, f4⟩
      | none =>
        simp only
        rw [← f1, Option.none_or]
        have hm1 : Mat r1 (q ++ [j]) := f4 _ hm
        have hgq1 : r1.green q = some t := by unfold Red.green at hgq ⊢; rw [f3]; exact hgq
        have hgc1 : r1.green (q ++ [j]) = some t.children[j] := by unfold Red.green at hgc ⊢; rw [f3]; exact hgc
        obtain ⟨se, hse⟩ := range_of_mat hm1 hgc1
        have hns := C03.prevSiblingOrToken_spec r1 q j t se hgq1 hj hse
        have hnk : RInv (r1.prevSiblingOrToken (q ++ [j])).2 ∧ (r1.prevSiblingOrToken (q ++ [j])).2.root = r1.root :=
          prevSiblingOrToken_keeps (q ++ [j]) r1 f2
        have hnm := prevSiblingOrToken_mat r1 (q ++ [j])
        cases hnr : r1.prevSiblingOrToken (q ++ [j]) with
        | mk os r2 =>
          rw [hnr] at hns hnk hnm
          simp only at hns hnk hnm
          by_cases h0 : j = 0
          · simp only [h0, ↓reduceIte] at hns
            subst hns
            subst h0
            simp only [List.take_zero, leafPathsL, List.getLast?_nil]
            exact ⟨by first | rfl | trivial, hnk.1, hnk.2.trans f3, fun x hx => hnm.2 x (f4 x hx)⟩
          · simp only [h0, ↓reduceIte] at hns
            subst hns
            simp only
            have hgq2 : r2.green q = some t := by unfold Red.green at hgq1 ⊢; rw [hnk.2]; exact hgq1
            have := ih (j - 1) r2 hnk.1 ((hnk.2.trans f3).trans hroot) hgq2 (hnm.1 _ rfl) (by omega) (by omega)
            have e : j - 1 + 1 = j := by omega
            rw [e] at this
            exact ⟨this.1, this.2.1, (this.2.2.1.trans hnk.2).trans f3, fun x hx => this.2.2.2 x (hnm.2 x (f4 x hx))⟩

/-- **`prev_token`**: the last token leaf that precedes the element in source order -/
theorem prevTokenGo_spec (n : Nat) : ∀ (r : Red) (cur : Path), RInv r → (∀ q, q <+: cur → Mat r q) →
    (∃ c, r.green cur = some c) → cur.length ≤ n →
    (Red.prevTokenGo (n + 1) r cur).1 = (beforeGo r.root (n + 1) cur).getLast? := by
  induction n with
  | zero =>
    intro r cur hr hmat hg hlen
    have : cur = [] := List.eq_nil_of_length_eq_zero (by omega)
    subst this
    simp [Red.prevTokenGo, Red.prevSiblingOrToken, Red.split, Red.prevTokenGo.up, Red.parent, beforeGo]
  | succ n ih =>
    intro r cur hr hmat hg hlen
    cases hl : cur.getLast? with
    | none =>
      have : cur = [] := List.getLast?_eq_none_iff.mp hl
      subst this
      simp [Red.prevTokenGo, Red.prevSiblingOrToken, Red.split, Red.prevTokenGo.up, Red.parent, beforeGo]
    | some i =>
      obtain ⟨q, rfl⟩ := List.getLast?_eq_some_iff.mp hl
      obtain ⟨c, hc⟩ := hg
      have hmcur : Mat r (q ++ [i]) := hmat _ (List.prefix_refl _)
      have hgq : ∃ t, r.green q = some t ∧ t.children[i]? = some c := by
        have : Green.get r.root (q ++ [i]) = some c := hc
        rw [get_append_single] at this
        cases hq : Green.get r.root q with
        | none => simp [hq] at this
        | some t => simp only [hq, Option.bind_some] at this; exact ⟨t, hq, this⟩
      obtain ⟨t, htq, hti⟩ := hgq
      have hi : i < t.children.length := (List.getElem?_eq_some_iff.mp hti).1
      obtain ⟨se, hse⟩ := range_of_mat hmcur hc
      have hns := C03.prevSiblingOrToken_spec r q i t se htq hi hse
      have hnk : RInv (r.prevSiblingOrToken (q ++ [i])).2 ∧ (r.prevSiblingOrToken (q ++ [i])).2.root = r.root :=
        prevSiblingOrToken_keeps (q ++ [i]) r hr
      have hnm := prevSiblingOrToken_mat r (q ++ [i])
      have hgetq : Green.get r.root q = some t := htq
      simp only [Red.prevTokenGo, beforeGo, hl, List.dropLast_concat, hgetq]
      have hup : ∀ (r' : Red), RInv r' → r'.root = r.root → (∀ x, Mat r x → Mat r' x) →
          (Red.prevTokenGo.up (n + 1) r' (q ++ [i])).1 = (beforeGo r.root (n + 1) q).getLast? := by
        intro r' hr' hroot' hmono
        simp only [Red.prevTokenGo.up, C03.parent_child]
        have := ih r' q hr' (fun x hx => hmono x (hmat x (List.IsPrefix.trans hx (List.prefix_append _ _))))
          ⟨t, by unfold Red.green at htq ⊢; rw [hroot']; exact htq⟩ (by simp at hlen; omega)
        rw [this, hroot']
      cases hnr : r.prevSiblingOrToken (q ++ [i]) with
      | mk os r1 =>
        rw [hnr] at hns hnk hnm
        simp only at hns hnk hnm
        by_cases h0 : i = 0
        · simp only [h0, ↓reduceIte] at hns
          subst hns
          subst h0
          simp only [List.take_zero, leafPathsL, List.append_nil]
          exact hup r1 hnk.1 hnk.2 hnm.2
        · simp only [h0, ↓reduceIte] at hns
          subst hns
          simp only
          have hgq1 : r1.green q = some t := by unfold Red.green at htq ⊢; rw [hnk.2]; exact htq
          have hk : Red.nSiblings r1 (q ++ [i - 1]) = t.children.length + 1 := by
            simp [Red.nSiblings, C03.parent_child, hgq1]
          have hscan := prevSibScan_spec r q t (Red.nSiblings r1 (q ++ [i - 1])) (i - 1) r1 hnk.1 hnk.2 hgq1 (hnm.1 _ rfl) (by omega) (by rw [hk]; omega)
          have e : i - 1 + 1 = i := by omega
          rw [e] at hscan
          cases hsc : Red.prevTokenGo.sibScan r1 (q ++ [i - 1]) (Red.nSiblings r1 (q ++ [i - 1])) with
          | mk ot r2 =>
            rw [hsc] at hscan
            simp only at hscan
            rw [List.getLast?_append]
            cases ot with
            | some x =>
              simp only
              rw [← hscan.1]
              rfl
            | none =>
              simp only
              rw [← hscan.1, Option.none_or]
              exact hup r2 hscan.2.1 (hscan.2.2.1.trans hnk.2) (fun x hx => hscan.2.2.2 x (hnm.2 x hx))

/-- `SyntaxToken::prev_token` (and the same walk from a node) -/
theorem prevToken_spec (r : Red) (hr : RInv r) (cur : Path) (hmat : ∀ q, q <+: cur → Mat r q)
    (hg : ∃ c, r.green cur = some c) :
    (r.prevToken cur).1 = (beforeGo r.root (cur.length + 1) cur).getLast? :=
  prevTokenGo_spec cur.length r cur hr hmat hg (Nat.le_refl _)

/-! ### `beforeGo` / `afterGo` are what surrounds the sub-tree in the source order of the whole tree -/

theorem leaves_split (root : Green) : ∀ (n : Nat) (cur : Path) (c : Green), Green.get root cur = some c →
    cur.length ≤ n →
    leafPaths [] root = beforeGo root n cur ++ leafPaths cur c ++ afterGo root n cur := by
  intro n
  induction n with
  | zero =>
    intro cur c hc hlen
    have : cur = [] := List.eq_nil_of_length_eq_zero (by omega)
    subst this
    simp only [Green.get] at hc
    cases hc
    simp [beforeGo, afterGo]
  | succ n ih =>
    intro cur c hc hlen
    cases hl : cur.getLast? with
    | none =>
      have : cur = [] := List.getLast?_eq_none_iff.mp hl
      subst this
      simp only [Green.get] at hc
      cases hc
      simp [beforeGo, afterGo]
    | some i =>
      obtain ⟨q, rfl⟩ := List.getLast?_eq_some_iff.mp hl
      rw [get_append_single] at hc
      cases hq : Green.get root q with
      | none => simp [hq] at hc
      | some t =>
        simp only [hq, Option.bind_some] at hc
        have hi : i < t.children.length := (List.getElem?_eq_some_iff.mp hc).1
        have hqq := ih q t hq (by simp at hlen; omega)
        simp only [beforeGo, afterGo, hl, List.dropLast_concat, hq]
        rw [hqq]
        have hsplit : leafPaths q t = leafPathsL q 0 (t.children.take i) ++ leafPaths (q ++ [i]) c ++
            leafPathsL q (i + 1) (t.children.drop (i + 1)) := by
          cases t with
          | tok _ _ _ _ => simp [Green.children] at hi
          | node id kd l h cs =>
            simp only [Green.children] at hc hi ⊢
            simp only [leafPaths]
            have e : cs = cs.take (i + 1) ++ cs.drop (i + 1) := (List.take_append_drop _ _).symm
            have hlen' : (cs.take (i + 1)).length = i + 1 := by rw [List.length_take]; omega
            conv => lhs; rw [e]
            rw [leafPathsL_append, leafPathsL_take_succ q cs i c hc, hlen', Nat.zero_add]
        rw [hsplit]
        simp only [List.append_assoc]

end Cst
