/-
  Proofs/TokenSpec — `first_token` / `last_token` return the first / last token leaf of the sub-tree
  (searching on past children without tokens), on any canonical red tree.
-/
import CstModel.Proofs.TokenNav
import CstModel.Proofs.Walk
import CstModel.Proofs.ChunksTree
namespace Cst
open Red

mutual
/-- paths of the token leaves of a sub-tree, in source order -/
def leafPaths (p : Path) : Green → List Path
  | .tok .. => [p]
  | .node _ _ _ _ cs => leafPathsL p 0 cs
def leafPathsL (p : Path) (i : Nat) : List Green → List Path
  | [] => []
  | c :: cs => leafPaths (p ++ [i]) c ++ leafPathsL p (i + 1) cs
end

mutual
theorem leaves_map_fst : (g : Green) → (p : Path) → (o : Nat) → (leaves p o g).map (·.1) = leafPaths p g
  | .tok .., _, _ => rfl
  | .node _ _ _ _ cs, p, o => by simp only [leaves, leafPaths]; exact leavesL_map_fst cs p 0 o
theorem leavesL_map_fst : (cs : List Green) → (p : Path) → (i o : Nat) → (leavesL p i o cs).map (·.1) = leafPathsL p i cs
  | [], _, _, _ => rfl
  | c :: cs, p, i, o => by
    simp only [leavesL, leafPathsL, List.map_append, leaves_map_fst c (p ++ [i]) o, leavesL_map_fst cs p (i + 1) (o + c.len)]
end

theorem gsizeL_mem {cs : List Green} {c : Green} (h : c ∈ cs) : gsize c ≤ gsizeL cs := by
  induction cs with
  | nil => cases h
  | cons x xs ih =>
    simp only [List.mem_cons] at h
    simp only [gsizeL]
    rcases h with rfl | h
    · omega
    · have := ih h; omega

/-- **`first_token`**: the first token leaf of the sub-tree (`None` exactly when it has none) -/
theorem firstTokenGo_spec (n : Nat) : ∀ (r : Red) (p : Path) (g : Green), RInv r → Mat r p → r.green p = some g →
    gsize g ≤ n →
    (Red.firstTokenGo n r p).1 = (leafPaths p g).head? ∧ RInv (Red.firstTokenGo n r p).2 ∧
    (Red.firstTokenGo n r p).2.root = r.root ∧ (∀ q, Mat r q → Mat (Red.firstTokenGo n r p).2 q) := by
  induction n with
  | zero => intro r p g _ _ _ hsz; cases g <;> simp [gsize] at hsz
  | succ n ih =>
    intro r p g hr hm hg hsz
    simp only [Red.firstTokenGo]
    by_cases htok : r.isToken p = true
    · simp only [htok, ↓reduceIte]
      cases g with
      | tok _ _ _ _ => exact ⟨by first | rfl | trivial, hr, by first | rfl | trivial, fun _ h => h⟩
      | node _ _ _ _ _ => simp [Red.isToken, hg, Green.isNode] at htok
    · simp only [htok, Bool.false_eq_true, ↓reduceIte]
      cases g with
      | tok _ _ _ _ => simp [Red.isToken, hg, Green.isNode] at htok
      | node id k l h cs =>
        obtain ⟨o, ho⟩ := hm
        have hi : iterNew r p = some ⟨p, cs, 0, o⟩ := by simp [iterNew, hg, ho, Green.children]
        simp only [hi, leafPaths]
        have hit := iterNew_ok hr hi
        -- the scan over the children
        suffices ∀ k (rest : List Green) (idx off : Nat) (r' : Red), RInv r' → ItOk r' ⟨p, rest, idx, off⟩ →
            rest.length < k → (∀ c ∈ rest, gsize c ≤ n) →
            (Red.firstTokenGo.scan n ⟨p, rest, idx, off⟩ r' k).1 = (leafPathsL p idx rest).head? ∧
            RInv (Red.firstTokenGo.scan n ⟨p, rest, idx, off⟩ r' k).2 ∧
            (Red.firstTokenGo.scan n ⟨p, rest, idx, off⟩ r' k).2.root = r'.root ∧
            (∀ q, Mat r' q → Mat (Red.firstTokenGo.scan n ⟨p, rest, idx, off⟩ r' k).2 q) by
          have := this (cs.length + 1) cs 0 o r hr hit (by simp) (by
            intro c hc
            have := gsizeL_mem hc
            simp only [gsize] at hsz
            omega)
          exact this
        intro k
        induction k with
        | zero => intro rest idx off r' _ _ hk; omega
        | succ k ihk =>
          intro rest idx off r' hr' hit' hk hsmall
          simp only [Red.firstTokenGo.scan, Red.It.nextElem]
          cases rest with
          | nil => simp only [leafPathsL, List.head?_nil]; exact ⟨by first | rfl | trivial, hr', by first | rfl | trivial, fun _ h => h⟩
          | cons c rest =>
            simp only
            have hstep := ItOk.step hr' hit' c rest rfl
            simp only at hstep
            obtain ⟨gp, base, hgp, _, hrestEq, _⟩ := hit'
            simp only at hgp hrestEq
            have hci : gp.children[idx]? = some c := by
              have := congrArg List.head? hrestEq; simp [List.head?_drop] at this; exact this.symm
            have hgc : (r'.getOrAdd p idx off).green (p ++ [idx]) = some c := by
              unfold Red.green at hgp ⊢
              rw [hstep.2.1]
              exact C03.get_child r'.root p gp hgp idx c hci
            have hmc : Mat (r'.getOrAdd p idx off) (p ++ [idx]) := Mat.getOrAdd_self _ _ _ _
            have hcs : gsize c ≤ n := hsmall c (by simp)
            obtain ⟨f1, f2, f3, f4⟩ := ih (r'.getOrAdd p idx off) (p ++ [idx]) c hstep.1 hmc hgc hcs
            simp only [leafPathsL]
            cases hft : Red.firstTokenGo n (r'.getOrAdd p idx off) (p ++ [idx]) with
            | mk ot r'' =>
              rw [hft] at f1 f2 f3 f4
              simp only at f1 f2 f3 f4
              cases ot with
              | some t =>
                simp only
                refine ⟨?_, f2, ?_, ?_⟩
                · rw [List.head?_append, ← f1]; rfl
                · rw [f3]; exact hstep.2.1
                · intro q hq; exact f4 q (hq.getOrAdd _ _ _)
              | none =>
                simp only
                have hnil : leafPaths (p ++ [idx]) c = [] := by
                  cases hl : leafPaths (p ++ [idx]) c with
                  | nil => rfl
                  | cons a as => rw [hl] at f1; simp at f1
                rw [hnil, List.nil_append]
                have hit'' : ItOk r'' ⟨p, rest, idx + 1, off + c.len⟩ := ItOk.of_root hstep.2.2.1 f3
                have := ihk rest (idx + 1) (off + c.len) r'' f2 hit'' (by simp at hk ⊢; omega)
                  (fun d hd => hsmall d (by simp [hd]))
                refine ⟨this.1, this.2.1, ?_, ?_⟩
                · rw [this.2.2.1, f3]; exact hstep.2.1
                · intro q hq; exact this.2.2.2 q (f4 q (hq.getOrAdd _ _ _))

/-- `SyntaxNode::first_token` / `SyntaxElementRef::first_token` -/
theorem firstToken_spec (r : Red) (hr : RInv r) (p : Path) (g : Green) (hm : Mat r p) (hg : r.green p = some g) :
    (r.firstToken p).1 = (leafPaths p g).head? := by
  have hfuel : gsize g ≤ Red.walkFuel r p := by simp [Red.walkFuel, hg]; omega
  exact (firstTokenGo_spec _ r p g hr hm hg hfuel).1

end Cst
