import CstModel.Model.RedConc
import CstModel.Proofs.Red
namespace Cst.RedConc

theorem getOrAdd_eq (r : Red) (p : Path) (i o : Nat) : r.getOrAdd p i o = addIfAbsent r (p ++ [i], o) := rfl

/-- operations that keep the tree canonical (every navigation request of `Proofs/Red`, `Proofs/TokenNav`) -/
def KeepsR (f : Red → Red) : Prop := ∀ r, RInv r → RInv (f r) ∧ (f r).root = r.root

theorem keepsR_of_keeps {α : Type} {g : Red → α × Red} (h : Keeps g) : KeepsR (fun r => (g r).2) := h

structure Inv (s : Sys) : Prop where
  red : RInv s.red
  /-- every speculative element carries the canonical offset of its position -/
  pend : ∀ es, es ∈ s.thr → ∀ e, e ∈ es → canon s.red.root e.1 = some e.2

theorem inv_init (g : Green) (h : LenOk g) (n : Nat) : Inv (Sys.init g n) := by
  refine ⟨RInv.new g h, ?_⟩
  intro es hes e he
  simp only [Sys.init, List.mem_replicate] at hes
  rw [hes.2] at he
  cases he

theorem addIfAbsent_root (r : Red) (e : Entry) : (addIfAbsent r e).root = r.root := by
  unfold addIfAbsent; split <;> rfl

theorem addIfAbsent_canon {r : Red} (h : Canon r) (e : Entry) (he : canon r.root e.1 = some e.2) :
    Canon (addIfAbsent r e) := by
  unfold addIfAbsent
  split
  · exact h
  · intro q o hm
    simp only [List.mem_cons] at hm
    rcases hm with rfl | hm
    · exact he
    · exact h q o hm

theorem mem_of_set {α : Type} {l : List α} {i : Nat} {a x : α} (h : x ∈ l.set i a) : x = a ∨ x ∈ l := by
  induction l generalizing i with
  | nil => simp at h
  | cons y ys ih =>
    cases i with
    | zero => simp only [List.set_cons_zero, List.mem_cons] at h; rcases h with h | h; exact Or.inl h; exact Or.inr (List.mem_cons_of_mem _ h)
    | succ n =>
      simp only [List.set_cons_succ, List.mem_cons] at h
      rcases h with h | h
      · exact Or.inr (by simp [h])
      · rcases ih h with h | h
        · exact Or.inl h
        · exact Or.inr (List.mem_cons_of_mem _ h)

/-- **the invariant holds along every interleaving**: whatever the threads do in whatever order, the shared
    cache stays canonical and so does every speculative element in flight -/
theorem inv_step (s s' : Sys) (t : Nat) (a : Act) (hI : Inv s) (hk : ∀ f, a = .read f → KeepsR f)
    (hs : step s t a = some s') : Inv s' ∧ s'.red.root = s.red.root := by
  cases a with
  | spawn =>
    simp only [step, Option.some.injEq] at hs
    subst hs
    refine ⟨⟨hI.red, ?_⟩, rfl⟩
    intro es hes e he
    simp only [List.mem_append, List.mem_singleton] at hes
    rcases hes with hes | rfl
    · exact hI.pend es hes e he
    · cases he
  | read f =>
    simp only [step] at hs
    cases ht : s.thr[t]? with
    | none => simp [ht] at hs
    | some es0 =>
      cases es0 with
      | cons _ _ => simp [ht] at hs
      | nil =>
        simp only [ht, Option.some.injEq] at hs
        subst hs
        refine ⟨⟨hI.red, ?_⟩, rfl⟩
        intro es hes e he
        rcases mem_of_set hes with rfl | hes
        · -- the fresh speculative elements: entries of the canonical cache `f` would produce
          obtain ⟨hr', hroot⟩ := hk f rfl s.red hI.red
          simp only [newEntries, List.mem_filter] at he
          have := hr'.canon e.1 e.2 he.1
          rw [hroot] at this
          exact this
        · exact hI.pend es hes e he
  | write =>
    simp only [step] at hs
    cases ht : s.thr[t]? with
    | none => simp [ht] at hs
    | some es0 =>
      cases es0 with
      | nil => simp [ht] at hs
      | cons e es =>
        simp only [ht, Option.some.injEq] at hs
        subst hs
        have hmem : (e :: es) ∈ s.thr := List.mem_of_getElem? ht
        have he := hI.pend _ hmem e (by simp)
        refine ⟨⟨⟨addIfAbsent_canon hI.red.canon e he, by rw [addIfAbsent_root]; exact hI.red.lens⟩, ?_⟩, addIfAbsent_root _ _⟩
        intro es' hes' e' he'
        simp only [addIfAbsent_root]
        rcases mem_of_set hes' with rfl | hes'
        · exact hI.pend _ hmem e' (List.mem_cons_of_mem _ he')
        · exact hI.pend es' hes' e' he'

theorem inv_run (acts : List (Nat × Act)) : ∀ (s s' : Sys), Inv s → (∀ t f, (t, Act.read f) ∈ acts → KeepsR f) →
    run s acts = some s' → Inv s' ∧ s'.red.root = s.red.root := by
  induction acts with
  | nil => intro s s' hI _ h; simp only [run, Option.some.injEq] at h; subst h; exact ⟨hI, rfl⟩
  | cons x xs ih =>
    intro s s' hI hk h
    obtain ⟨t, a⟩ := x
    simp only [run] at h
    cases hs : step s t a with
    | none => simp [hs] at h
    | some s1 =>
      simp only [hs, Option.bind_some] at h
      obtain ⟨h1, hr1⟩ := inv_step s s1 t a hI (fun f hf => hk t f (by simp [hf])) hs
      obtain ⟨h2, hr2⟩ := ih s1 s' h1 (fun t f hm => hk t f (List.mem_cons_of_mem _ hm)) h
      exact ⟨h2, hr2.trans hr1⟩

/-- a filled slot is never changed: a later `try_write` to it is a no-op (written once) -/
theorem written_once (s s' : Sys) (t : Nat) (a : Act) (hs : step s t a = some s') (q : Path) (o : Nat)
    (h : s.red.slots.lookup q = some o) : s'.red.slots.lookup q = some o := by
  cases a with
  | spawn => simp only [step, Option.some.injEq] at hs; subst hs; exact h
  | read f =>
    simp only [step] at hs
    cases ht : s.thr[t]? with
    | none => simp [ht] at hs
    | some es0 =>
      cases es0 with
      | cons _ _ => simp [ht] at hs
      | nil => simp only [ht, Option.some.injEq] at hs; subst hs; exact h
  | write =>
    simp only [step] at hs
    cases ht : s.thr[t]? with
    | none => simp [ht] at hs
    | some es0 =>
      cases es0 with
      | nil => simp [ht] at hs
      | cons e es =>
        simp only [ht, Option.some.injEq] at hs
        subst hs
        simp only [addIfAbsent]
        cases hl : s.red.slots.lookup e.1 with
        | some _ => exact h
        | none =>
          show List.lookup q (e :: s.red.slots) = some o
          obtain ⟨ek, ev⟩ := e
          rw [List.lookup_cons]
          by_cases hq : q == ek
          · have := eq_of_beq hq
            subst this
            rw [h] at hl; cases hl
          · simp only [hq]; exact h

theorem lookup_mem {l : List Entry} {q : Path} {o : Nat} (h : l.lookup q = some o) : (q, o) ∈ l := by
  induction l with
  | nil => simp at h
  | cons x xs ih =>
    obtain ⟨k, v⟩ := x
    simp only [List.lookup_cons] at h
    by_cases hk : q == k
    · simp [hk] at h; have := eq_of_beq hk; subst this; subst h; simp
    · simp [hk] at h; exact List.mem_cons_of_mem _ (ih h)

/-- **losing a creation race has no observable effect**: the element found in the slot is the very element the
    loser had computed (same position, same offset; kind and length come from the immutable green tree) -/
theorem loser_finds_its_own (s : Sys) (hI : Inv s) (es : List Entry) (hes : es ∈ s.thr) (e : Entry) (he : e ∈ es)
    (o : Nat) (hfilled : s.red.slots.lookup e.1 = some o) : o = e.2 := by
  have h1 := hI.red.canon e.1 o (lookup_mem hfilled)
  have h2 := hI.pend es hes e he
  rw [h1] at h2
  exact Option.some.inj h2

/-- **whatever the interleaving, a filled slot holds what the sequential tree would hold**: if the concurrent cache and
    any sequentially obtained canonical cache over the same green tree both have the position, the offsets agree -/
theorem agrees_with_sequential (s : Sys) (hI : Inv s) (r : Red) (hr : RInv r) (hroot : r.root = s.red.root)
    (q : Path) (o o' : Nat) (h1 : s.red.start q = some o) (h2 : r.start q = some o') : o = o' := by
  have a := hI.red.canon.start h1
  have b := hr.canon.start h2
  rw [hroot, a] at b
  exact Option.some.inj b

theorem lookup_some_of_mem {l : List Entry} {e : Entry} (he : e ∈ l) : ∃ v, l.lookup e.1 = some v := by
  induction l with
  | nil => cases he
  | cons x xs ih =>
    obtain ⟨xk, xv⟩ := x
    rw [List.lookup_cons]
    by_cases hk : e.1 == xk
    · exact ⟨xv, by simp [hk]⟩
    · simp only [hk]
      rcases List.mem_cons.mp he with rfl | h
      · simp at hk
      · exact ih h

theorem newEntries_getOrAdd (r : Red) (p : Path) (i o : Nat) (hempty : r.slots.lookup (p ++ [i]) = none) :
    newEntries r (r.getOrAdd p i o) = [(p ++ [i], o)] := by
  simp only [newEntries, Red.getOrAdd, hempty, List.filter_cons, Option.isNone_none, ↓reduceIte]
  congr 1
  apply List.filter_eq_nil_iff.mpr
  intro e he
  obtain ⟨v, hv⟩ := lookup_some_of_mem he
  simp [hv]

/-- a single-element operation performed without interference is the sequential operation -/
theorem atomic_is_sequential (s : Sys) (t : Nat) (p : Path) (i o : Nat) (ht : s.thr[t]? = some [])
    (hempty : s.red.slots.lookup (p ++ [i]) = none) :
    ∃ s1 s2, step s t (.read (fun r => r.getOrAdd p i o)) = some s1 ∧ step s1 t .write = some s2 ∧
      s2.red = s.red.getOrAdd p i o ∧ s2.thr = s.thr := by
  have hnew := newEntries_getOrAdd s.red p i o hempty
  have hlt : t < s.thr.length := (List.getElem?_eq_some_iff.mp ht).1
  refine ⟨{ s with thr := s.thr.set t [(p ++ [i], o)] }, { red := s.red.getOrAdd p i o, thr := s.thr }, ?_, ?_, rfl, rfl⟩
  · simp only [step, ht, hnew]
  · simp only [step, List.getElem?_set_self hlt, List.set_set, getOrAdd_eq]
    congr 2
    have hg : s.thr[t] = [] := by
      have := List.getElem?_eq_getElem hlt
      rw [this] at ht
      exact Option.some.inj ht
    rw [← hg]
    exact List.set_getElem_self hlt

end Cst.RedConc
