/-
  Proofs/TokenNav — the token hops (`first_token`, `last_token`, `next_token`, `prev_token`) and the
  offset / range queries keep the red tree canonical, for any arguments.
-/
import CstModel.Proofs.Red
import CstModel.Model.Query
namespace Cst
open Red

theorem ItOk.of_root {r r' : Red} {it : It} (h : ItOk r it) (hroot : r'.root = r.root) : ItOk r' it := by
  obtain ⟨g, base, hg, hb, h1, h2⟩ := h
  exact ⟨g, base, by unfold Red.green at hg ⊢; rw [hroot]; exact hg, by rw [hroot]; exact hb, h1, h2⟩

theorem firstTokenGo_keeps (n : Nat) : ∀ p, Keeps (fun r => Red.firstTokenGo n r p) := by
  induction n with
  | zero => intro p r h; show RInv (Red.firstTokenGo 0 r p).2 ∧ _; simp only [Red.firstTokenGo]; exact ⟨h, trivial⟩
  | succ n ih =>
    intro p r h
    show RInv (Red.firstTokenGo (n + 1) r p).2 ∧ (Red.firstTokenGo (n + 1) r p).2.root = r.root
    simp only [Red.firstTokenGo]
    split
    · exact ⟨h, rfl⟩
    · cases hi : iterNew r p with
      | none => exact ⟨h, rfl⟩
      | some it =>
        simp only
        have hit := iterNew_ok h hi
        -- the scan over the children
        suffices ∀ k (it : It) (r : Red), RInv r → ItOk r it →
            RInv (Red.firstTokenGo.scan n it r k).2 ∧ (Red.firstTokenGo.scan n it r k).2.root = r.root from
          this _ it r h hit
        intro k
        induction k with
        | zero => intro it r h _; simp only [Red.firstTokenGo.scan]; exact ⟨h, trivial⟩
        | succ k ihk =>
          intro it r h hit
          simp only [Red.firstTokenGo.scan]
          have hs := nextElem_keeps h hit
          cases hres : it.nextElem r with
          | mk o rest =>
            obtain ⟨it', r'⟩ := rest
            rw [hres] at hs
            cases o with
            | none => exact ⟨hs.1, hs.2.1⟩
            | some c =>
              simp only
              have h1 : RInv (Red.firstTokenGo n r' c).2 ∧ (Red.firstTokenGo n r' c).2.root = r'.root := ih c r' hs.1
              cases hft : Red.firstTokenGo n r' c with
              | mk ot r'' =>
                rw [hft] at h1
                cases ot with
                | some t => exact ⟨h1.1, h1.2.trans hs.2.1⟩
                | none =>
                  simp only
                  have := ihk it' r'' h1.1 (hs.2.2.of_root h1.2)
                  exact ⟨this.1, (this.2.trans h1.2).trans hs.2.1⟩

theorem elemFirstToken_keeps (p : Path) : Keeps (fun r => Red.elemFirstToken r p) := by
  intro r h; exact firstTokenGo_keeps _ p r h

theorem lastTokenGo_keeps (n : Nat) : ∀ p, Keeps (fun r => Red.lastTokenGo n r p) := by
  induction n with
  | zero => intro p r h; show RInv (Red.lastTokenGo 0 r p).2 ∧ _; simp only [Red.lastTokenGo]; exact ⟨h, trivial⟩
  | succ n ih =>
    intro p r h
    show RInv (Red.lastTokenGo (n + 1) r p).2 ∧ (Red.lastTokenGo (n + 1) r p).2.root = r.root
    simp only [Red.lastTokenGo]
    split
    · exact ⟨h, rfl⟩
    · have hl : RInv (r.lastChildOrToken p).2 ∧ (r.lastChildOrToken p).2.root = r.root := lastChildOrToken_keeps p r h
      cases hres : r.lastChildOrToken p with
      | mk o r' =>
        rw [hres] at hl
        cases o with
        | none => exact hl
        | some c =>
          simp only
          suffices ∀ k (c : Path) (r : Red), RInv r →
              RInv (Red.lastTokenGo.scanBack n r c k).2 ∧ (Red.lastTokenGo.scanBack n r c k).2.root = r.root by
            have := this (nSiblings r' c) c r' hl.1
            exact ⟨this.1, this.2.trans hl.2⟩
          intro k
          induction k with
          | zero => intro c r h; simp only [Red.lastTokenGo.scanBack]; exact ⟨h, trivial⟩
          | succ k ihk =>
            intro c r h
            simp only [Red.lastTokenGo.scanBack]
            have h1 : RInv (Red.lastTokenGo n r c).2 ∧ (Red.lastTokenGo n r c).2.root = r.root := ih c r h
            cases hlt : Red.lastTokenGo n r c with
            | mk ot r1 =>
              rw [hlt] at h1
              cases ot with
              | some t => exact h1
              | none =>
                simp only
                have h2 : RInv (r1.prevSiblingOrToken c).2 ∧ (r1.prevSiblingOrToken c).2.root = r1.root :=
                  prevSiblingOrToken_keeps c r1 h1.1
                cases hps : r1.prevSiblingOrToken c with
                | mk oc r2 =>
                  rw [hps] at h2
                  cases oc with
                  | none => exact ⟨h2.1, h2.2.trans h1.2⟩
                  | some c' =>
                    simp only
                    have := ihk c' r2 h2.1
                    exact ⟨this.1, (this.2.trans h2.2).trans h1.2⟩

theorem elemLastToken_keeps (p : Path) : Keeps (fun r => Red.elemLastToken r p) := by
  intro r h; exact lastTokenGo_keeps _ p r h

theorem firstToken_keeps (p : Path) : Keeps (fun r => r.firstToken p) := elemFirstToken_keeps p
theorem lastToken_keeps (p : Path) : Keeps (fun r => r.lastToken p) := elemLastToken_keeps p

theorem nextTokenGo_keeps (n : Nat) : ∀ p, Keeps (fun r => Red.nextTokenGo n r p) := by
  induction n with
  | zero => intro p r h; show RInv (Red.nextTokenGo 0 r p).2 ∧ _; simp only [Red.nextTokenGo]; exact ⟨h, trivial⟩
  | succ n ih =>
    intro p r h
    show RInv (Red.nextTokenGo (n + 1) r p).2 ∧ (Red.nextTokenGo (n + 1) r p).2.root = r.root
    have hup : ∀ (r : Red) (cur : Path), RInv r →
        RInv (Red.nextTokenGo.up n r cur).2 ∧ (Red.nextTokenGo.up n r cur).2.root = r.root := by
      intro r cur h
      simp only [Red.nextTokenGo.up]
      cases parent cur with
      | none => exact ⟨h, rfl⟩
      | some q => exact ih q r h
    have hscan : ∀ k (s : Path) (r : Red), RInv r →
        RInv (Red.nextTokenGo.sibScan r s k).2 ∧ (Red.nextTokenGo.sibScan r s k).2.root = r.root := by
      intro k
      induction k with
      | zero => intro s r h; simp only [Red.nextTokenGo.sibScan]; exact ⟨h, trivial⟩
      | succ k ihk =>
        intro s r h
        simp only [Red.nextTokenGo.sibScan]
        have h1 : RInv (Red.elemFirstToken r s).2 ∧ (Red.elemFirstToken r s).2.root = r.root := elemFirstToken_keeps s r h
        cases hft : Red.elemFirstToken r s with
        | mk ot r1 =>
          rw [hft] at h1
          cases ot with
          | some t => exact h1
          | none =>
            simp only
            have h2 : RInv (r1.nextSiblingOrToken s).2 ∧ (r1.nextSiblingOrToken s).2.root = r1.root :=
              nextSiblingOrToken_keeps s r1 h1.1
            cases hns : r1.nextSiblingOrToken s with
            | mk os r2 =>
              rw [hns] at h2
              cases os with
              | none => exact ⟨h2.1, h2.2.trans h1.2⟩
              | some s' =>
                simp only
                have := ihk s' r2 h2.1
                exact ⟨this.1, (this.2.trans h2.2).trans h1.2⟩
    simp only [Red.nextTokenGo]
    have h0 : RInv (r.nextSiblingOrToken p).2 ∧ (r.nextSiblingOrToken p).2.root = r.root := nextSiblingOrToken_keeps p r h
    cases hns : r.nextSiblingOrToken p with
    | mk os r1 =>
      rw [hns] at h0
      cases os with
      | none =>
        simp only
        have := hup r1 p h0.1
        exact ⟨this.1, this.2.trans h0.2⟩
      | some s =>
        simp only
        have h1 := hscan (nSiblings r1 s) s r1 h0.1
        cases hsc : Red.nextTokenGo.sibScan r1 s (nSiblings r1 s) with
        | mk ot r2 =>
          rw [hsc] at h1
          cases ot with
          | some t => exact ⟨h1.1, h1.2.trans h0.2⟩
          | none =>
            simp only
            have := hup r2 p h1.1
            exact ⟨this.1, (this.2.trans h1.2).trans h0.2⟩

theorem nextToken_keeps (p : Path) : Keeps (fun r => r.nextToken p) := by
  intro r h; exact nextTokenGo_keeps _ p r h

theorem prevTokenGo_keeps (n : Nat) : ∀ p, Keeps (fun r => Red.prevTokenGo n r p) := by
  induction n with
  | zero => intro p r h; show RInv (Red.prevTokenGo 0 r p).2 ∧ _; simp only [Red.prevTokenGo]; exact ⟨h, trivial⟩
  | succ n ih =>
    intro p r h
    show RInv (Red.prevTokenGo (n + 1) r p).2 ∧ (Red.prevTokenGo (n + 1) r p).2.root = r.root
    have hup : ∀ (r : Red) (cur : Path), RInv r →
        RInv (Red.prevTokenGo.up n r cur).2 ∧ (Red.prevTokenGo.up n r cur).2.root = r.root := by
      intro r cur h
      simp only [Red.prevTokenGo.up]
      cases parent cur with
      | none => exact ⟨h, rfl⟩
      | some q => exact ih q r h
    have hscan : ∀ k (s : Path) (r : Red), RInv r →
        RInv (Red.prevTokenGo.sibScan r s k).2 ∧ (Red.prevTokenGo.sibScan r s k).2.root = r.root := by
      intro k
      induction k with
      | zero => intro s r h; simp only [Red.prevTokenGo.sibScan]; exact ⟨h, trivial⟩
      | succ k ihk =>
        intro s r h
        simp only [Red.prevTokenGo.sibScan]
        have h1 : RInv (Red.elemLastToken r s).2 ∧ (Red.elemLastToken r s).2.root = r.root := elemLastToken_keeps s r h
        cases hft : Red.elemLastToken r s with
        | mk ot r1 =>
          rw [hft] at h1
          cases ot with
          | some t => exact h1
          | none =>
            simp only
            have h2 : RInv (r1.prevSiblingOrToken s).2 ∧ (r1.prevSiblingOrToken s).2.root = r1.root :=
              prevSiblingOrToken_keeps s r1 h1.1
            cases hns : r1.prevSiblingOrToken s with
            | mk os r2 =>
              rw [hns] at h2
              cases os with
              | none => exact ⟨h2.1, h2.2.trans h1.2⟩
              | some s' =>
                simp only
                have := ihk s' r2 h2.1
                exact ⟨this.1, (this.2.trans h2.2).trans h1.2⟩
    simp only [Red.prevTokenGo]
    have h0 : RInv (r.prevSiblingOrToken p).2 ∧ (r.prevSiblingOrToken p).2.root = r.root := prevSiblingOrToken_keeps p r h
    cases hns : r.prevSiblingOrToken p with
    | mk os r1 =>
      rw [hns] at h0
      cases os with
      | none =>
        simp only
        have := hup r1 p h0.1
        exact ⟨this.1, this.2.trans h0.2⟩
      | some s =>
        simp only
        have h1 := hscan (nSiblings r1 s) s r1 h0.1
        cases hsc : Red.prevTokenGo.sibScan r1 s (nSiblings r1 s) with
        | mk ot r2 =>
          rw [hsc] at h1
          cases ot with
          | some t => exact ⟨h1.1, h1.2.trans h0.2⟩
          | none =>
            simp only
            have := hup r2 p h1.1
            exact ⟨this.1, (this.2.trans h1.2).trans h0.2⟩

theorem prevToken_keeps (p : Path) : Keeps (fun r => r.prevToken p) := by
  intro r h; exact prevTokenGo_keeps _ p r h

/-! ### the queries -/

theorem tokenAtOffsetGo_keeps (n : Nat) : ∀ p off, Keeps (fun r => Red.tokenAtOffsetGo n r p off) := by
  induction n with
  | zero => intro p off r h; show RInv (Red.tokenAtOffsetGo 0 r p off).2 ∧ _; simp only [Red.tokenAtOffsetGo]; exact ⟨h, trivial⟩
  | succ n ih =>
    intro p off r h
    show RInv (Red.tokenAtOffsetGo (n + 1) r p off).2 ∧ (Red.tokenAtOffsetGo (n + 1) r p off).2.root = r.root
    simp only [Red.tokenAtOffsetGo]
    cases r.range p with
    | none => exact ⟨h, rfl⟩
    | some se =>
      obtain ⟨s, e⟩ := se
      simp only
      split
      · exact ⟨h, rfl⟩
      · split
        · exact ⟨h, rfl⟩
        · split
          · exact ⟨h, rfl⟩
          · have hc : RInv (r.childrenWithTokens p).2 ∧ (r.childrenWithTokens p).2.root = r.root := childrenWithTokens_keeps p r h
            cases hcw : r.childrenWithTokens p with
            | mk cs r1 =>
              rw [hcw] at hc
              simp only
              cases hf : cs.filter (nonEmptyContaining r1 off) with
              | nil => exact hc
              | cons l rest =>
                cases rest with
                | nil =>
                  simp only
                  have : RInv (Red.tokenAtOffsetGo n r1 l off).2 ∧ (Red.tokenAtOffsetGo n r1 l off).2.root = r1.root := ih l off r1 hc.1
                  exact ⟨this.1, this.2.trans hc.2⟩
                | cons rt rest2 =>
                  cases rest2 with
                  | nil =>
                    simp only
                    have h1 : RInv (Red.tokenAtOffsetGo n r1 l off).2 ∧ (Red.tokenAtOffsetGo n r1 l off).2.root = r1.root := ih l off r1 hc.1
                    cases ha : Red.tokenAtOffsetGo n r1 l off with
                    | mk a r2 =>
                      rw [ha] at h1
                      simp only
                      have h2 : RInv (Red.tokenAtOffsetGo n r2 rt off).2 ∧ (Red.tokenAtOffsetGo n r2 rt off).2.root = r2.root := ih rt off r2 h1.1
                      cases hb : Red.tokenAtOffsetGo n r2 rt off with
                      | mk b r3 =>
                        rw [hb] at h2
                        simp only
                        have hfin : RInv r3 ∧ r3.root = r.root := ⟨h2.1, (h2.2.trans h1.2).trans hc.2⟩
                        cases a <;> cases b <;> exact hfin
                  | cons _ _ => exact hc

theorem tokenAtOffset_keeps (p : Path) (off : Nat) : Keeps (fun r => r.tokenAtOffset p off) := by
  intro r h; exact tokenAtOffsetGo_keeps _ p off r h

theorem findCovering_keeps (rg : Nat × Nat) (k : Nat) : ∀ (it : It) (r : Red), RInv r → ItOk r it →
    RInv (Red.findCovering rg it r k).2 ∧ (Red.findCovering rg it r k).2.root = r.root := by
  induction k with
  | zero => intro it r h _; simp only [Red.findCovering]; exact ⟨h, trivial⟩
  | succ k ih =>
    intro it r h hit
    simp only [Red.findCovering]
    have hs := nextElem_keeps h hit
    cases hres : it.nextElem r with
    | mk o rest =>
      obtain ⟨it', r'⟩ := rest
      rw [hres] at hs
      cases o with
      | none => exact ⟨hs.1, hs.2.1⟩
      | some c =>
        simp only
        cases r'.range c with
        | none => exact ⟨hs.1, hs.2.1⟩
        | some cr =>
          simp only
          split
          · exact ⟨hs.1, hs.2.1⟩
          · have := ih it' r' hs.1 hs.2.2
            exact ⟨this.1, this.2.trans hs.2.1⟩

theorem coveringGo_keeps (n : Nat) : ∀ p rg, Keeps (fun r => Red.coveringGo n r p rg) := by
  induction n with
  | zero => intro p rg r h; show RInv (Red.coveringGo 0 r p rg).2 ∧ _; simp only [Red.coveringGo]; exact ⟨h, trivial⟩
  | succ n ih =>
    intro p rg r h
    show RInv (Red.coveringGo (n + 1) r p rg).2 ∧ (Red.coveringGo (n + 1) r p rg).2.root = r.root
    simp only [Red.coveringGo]
    cases r.range p with
    | none => exact ⟨h, rfl⟩
    | some pr =>
      simp only
      split
      · exact ⟨h, rfl⟩
      · split
        · exact ⟨h, rfl⟩
        · cases hi : iterNew r p with
          | none => exact ⟨h, rfl⟩
          | some it =>
            simp only
            have hf := findCovering_keeps rg (it.rest.length + 1) it r h (iterNew_ok h hi)
            cases hfc : Red.findCovering rg it r (it.rest.length + 1) with
            | mk o r' =>
              rw [hfc] at hf
              cases o with
              | none => exact hf
              | some c =>
                simp only
                have : RInv (Red.coveringGo n r' c rg).2 ∧ (Red.coveringGo n r' c rg).2.root = r'.root := ih c rg r' hf.1
                exact ⟨this.1, this.2.trans hf.2⟩

theorem coveringElement_keeps (p : Path) (rg : Nat × Nat) : Keeps (fun r => r.coveringElement p rg) := by
  intro r h; exact coveringGo_keeps _ p rg r h

end Cst
