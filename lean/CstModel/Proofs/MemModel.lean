/-
  Proofs/MemModel — the invariant behind data-race freedom of the teardown.
-/
import CstModel.Model.MemModel
namespace Cst.Mem

theorem le_join_left (a b : VC) (i : Nat) : a i ≤ join a b i := Nat.le_max_left _ _
theorem le_join_right (a b : VC) (i : Nat) : b i ≤ join a b i := Nat.le_max_right _ _
theorem le_tick (a : VC) (t i : Nat) : a i ≤ tick a t i := by unfold tick; split <;> omega

theorem sum_set (l : List Nat) (t n x : Nat) (h : l[t]? = some n) :
    ((l.set t x).sum : Int) = (l.sum : Int) - n + x := by
  induction l generalizing t with
  | nil => simp at h
  | cons a rest ih =>
    cases t with
    | zero =>
      simp only [List.getElem?_cons_zero, Option.some.injEq] at h
      subst h
      simp only [List.set_cons_zero, List.sum_cons]
      omega
    | succ k =>
      simp only [List.getElem?_cons_succ] at h
      have := ih k h
      simp only [List.set_cons_succ, List.sum_cons]
      omega

theorem le_sum_of_getElem? (l : List Nat) (t n : Nat) (h : l[t]? = some n) : n ≤ l.sum := by
  induction l generalizing t with
  | nil => simp at h
  | cons a rest ih =>
    cases t with
    | zero => simp only [List.getElem?_cons_zero, Option.some.injEq] at h; subst h; simp
    | succ k =>
      simp only [List.getElem?_cons_succ] at h
      have := ih k h
      simp only [List.sum_cons]
      omega

/-- the only holder: if the handles of thread `t` are all there are, nobody else has any -/
theorem others_zero (l : List Nat) (t n : Nat) (h : l[t]? = some n) (hs : l.sum = n) :
    ∀ j m, l[j]? = some m → j ≠ t → m = 0 := by
  induction l generalizing t with
  | nil => simp at h
  | cons a rest ih =>
    intro j m hj hne
    cases t with
    | zero =>
      simp only [List.getElem?_cons_zero, Option.some.injEq] at h
      subst h
      simp only [List.sum_cons] at hs
      cases j with
      | zero => exact absurd rfl hne
      | succ k =>
        simp only [List.getElem?_cons_succ] at hj
        have := le_sum_of_getElem? rest k m hj
        omega
    | succ k =>
      simp only [List.getElem?_cons_succ] at h
      simp only [List.sum_cons] at hs
      have hle := le_sum_of_getElem? rest k n h
      have ha : a = 0 := by omega
      cases j with
      | zero => simp only [List.getElem?_cons_zero, Option.some.injEq] at hj; omega
      | succ i =>
        simp only [List.getElem?_cons_succ] at hj
        exact ih k h (by omega) i m hj (by omega)

def Holds (s : Sys) (a : Acc) : Prop :=
  a.ep ≤ s.L a.thr ∨ ∃ j n, s.owned[j]? = some n ∧ 1 ≤ n ∧ (j = a.thr ∨ a.ep ≤ s.C j a.thr)

structure Inv (s : Sys) : Prop where
  rcEq : s.torn = false → s.rc = (s.owned.sum : Int)
  epOwn : ∀ a ∈ s.acc, a.ep ≤ s.C a.thr a.thr
  cover : s.torn = false → ∀ a ∈ s.acc, Holds s a
  tornDone : s.torn = true → ∀ n ∈ s.owned, n = 0
  noRace : s.raced = false

theorem inv_init (l : List Nat) : Inv (Sys.init l) := by
  refine ⟨?_, ?_, ?_, ?_, rfl⟩
  · intro _; rfl
  · intro a h; simp [Sys.init] at h
  · intro _ a h; simp [Sys.init] at h
  · intro h; simp [Sys.init] at h

/-- clocks after an RMW only grow -/
theorem rmw_C_mono (s : Sys) (t : Nat) (rel acq : Bool) (j i : Nat) : s.C j i ≤ (rmw s t rel acq).C j i := by
  unfold rmw updC
  simp only
  by_cases hj : j = t
  · subst hj
    simp only [↓reduceIte]
    cases rel <;> cases acq <;> simp only [Bool.false_eq_true, ↓reduceIte]
    · exact Nat.le_refl _
    · exact le_join_left _ _ _
    · exact le_tick _ _ _
    · exact Nat.le_trans (le_join_left _ _ _) (le_tick _ _ _)
  · simp only [hj, ↓reduceIte]
    exact Nat.le_refl _

theorem rmw_L_mono (s : Sys) (t : Nat) (rel acq : Bool) (i : Nat) : s.L i ≤ (rmw s t rel acq).L i := by
  unfold rmw
  simp only
  cases rel <;> simp only [Bool.false_eq_true, ↓reduceIte]
  · exact Nat.le_refl _
  · exact le_join_left _ _ _

/-- a releasing RMW publishes everything the thread knew -/
theorem rmw_release (s : Sys) (t : Nat) (acq : Bool) (i : Nat) : s.C t i ≤ (rmw s t true acq).L i := by
  unfold rmw
  simp only [↓reduceIte]
  cases acq <;> simp only [Bool.false_eq_true, ↓reduceIte]
  · exact le_join_right _ _ _
  · exact Nat.le_trans (le_join_left _ _ _) (le_join_right _ _ _)

/-- an acquiring RMW learns everything the counter carries -/
theorem rmw_acquire (s : Sys) (t : Nat) (rel : Bool) (i : Nat) : s.L i ≤ (rmw s t rel true).C t i := by
  unfold rmw updC
  simp only [↓reduceIte]
  cases rel <;> simp only [Bool.false_eq_true, ↓reduceIte]
  · exact le_join_right _ _ _
  · exact Nat.le_trans (le_join_right _ _ _) (le_tick _ _ _)

@[simp] theorem rmw_owned (s : Sys) (t : Nat) (rel acq : Bool) : (rmw s t rel acq).owned = s.owned := rfl
@[simp] theorem rmw_acc (s : Sys) (t : Nat) (rel acq : Bool) : (rmw s t rel acq).acc = s.acc := rfl
@[simp] theorem rmw_rc (s : Sys) (t : Nat) (rel acq : Bool) : (rmw s t rel acq).rc = s.rc := rfl
@[simp] theorem rmw_torn (s : Sys) (t : Nat) (rel acq : Bool) : (rmw s t rel acq).torn = s.torn := rfl
@[simp] theorem rmw_raced (s : Sys) (t : Nat) (rel acq : Bool) : (rmw s t rel acq).raced = s.raced := rfl

theorem getElem?_set_cases {α} (l : List α) (i j : Nat) (x y : α) (h : (l.set i x)[j]? = some y) :
    (j = i ∧ y = x) ∨ (j ≠ i ∧ l[j]? = some y) := by
  by_cases hji : j = i
  · subst hji
    rw [List.getElem?_set_self'] at h
    cases hl : l[j]? with
    | none => simp [hl] at h
    | some z => simp [hl] at h; exact Or.inl ⟨rfl, h.symm⟩
  · rw [List.getElem?_set_ne (Ne.symm hji)] at h
    exact Or.inr ⟨hji, h⟩

theorem getElem?_set_self_some {α} (l : List α) (i : Nat) (x y : α) (h : l[i]? = some y) : (l.set i x)[i]? = some x := by
  rw [List.getElem?_set_self']
  simp [h]

theorem torn_blocks {s : Sys} (h : Inv s) (ht : s.torn = true) (t n : Nat) (hn : s.owned[t]? = some n) : n = 0 :=
  h.tornDone ht n (List.mem_of_getElem? hn)

theorem holds_mono {s s' : Sys} {a : Acc} (h : Holds s a)
    (hL : ∀ i, s.L i ≤ s'.L i)
    (hC : ∀ j i, s.C j i ≤ s'.C j i)
    (hO : ∀ (j n : Nat), s.owned[j]? = some n → 1 ≤ n → ∃ n', s'.owned[j]? = some n' ∧ 1 ≤ n') : Holds s' a := by
  rcases h with h | ⟨j, n, hj, hn, hc⟩
  · exact Or.inl (Nat.le_trans h (hL _))
  · obtain ⟨n', hj', hn'⟩ := hO j n hj hn
    refine Or.inr ⟨j, n', hj', hn', ?_⟩
    rcases hc with hc | hc
    · exact Or.inl hc
    · exact Or.inr (Nat.le_trans hc (hC _ _))

theorem mem_getElem? {α} {l : List α} {x : α} (h : x ∈ l) : ∃ k : Nat, l[k]? = some x := by
  obtain ⟨k, hk, hx⟩ := List.getElem_of_mem h
  exact ⟨k, by rw [List.getElem?_eq_getElem hk, hx]⟩

theorem inv_step {O : Ords} (hrel : O.decRel = true) (hacq : O.decAcq = true) {s s' : Sys} (h : Inv s)
    (t : Nat) (a : Act) (hs : step O s t a = some s') : Inv s' := by
  unfold step at hs
  cases hn : s.owned[t]? with
  | none => simp [hn] at hs
  | some n =>
    simp only [hn] at hs
    -- a thread that acts (other than being spawned) holds a handle, so the tree is not torn down
    have htf : 1 ≤ n → s.torn = false := by
      intro h1
      cases ht : s.torn with
      | false => rfl
      | true => have := torn_blocks h ht t n hn; omega
    cases a with
    | spawn =>
      simp only [Option.some.injEq] at hs
      subst hs
      refine ⟨?_, h.epOwn, ?_, ?_, h.noRace⟩
      · intro ht
        simp only [List.sum_append, List.sum_cons, List.sum_nil, Nat.add_zero]
        exact h.rcEq ht
      · intro ht a ha
        refine holds_mono (h.cover ht a ha) (fun _ => Nat.le_refl _) (fun _ _ => Nat.le_refl _) ?_
        intro j m hj hm
        exact ⟨m, by rw [List.getElem?_append_left (by
          have := (List.getElem?_eq_some_iff.mp hj).1; exact this)]; exact hj, hm⟩
      · intro ht m hm
        simp only [List.mem_append, List.mem_singleton] at hm
        rcases hm with hm | hm
        · exact h.tornDone ht m hm
        · exact hm
    | clone =>
      simp only at hs
      split at hs
      · rename_i h1
        have ht := htf h1
        simp only [Option.some.injEq] at hs
        subst hs
        refine ⟨?_, ?_, ?_, ?_, h.noRace⟩
        · intro _
          simp only [rmw_rc, rmw_owned]
          rw [sum_set s.owned t n (n + 1) hn, h.rcEq ht]
          omega
        · intro a ha
          exact Nat.le_trans (h.epOwn a ha) (rmw_C_mono _ _ _ _ _ _)
        · intro _ a ha
          refine holds_mono (h.cover ht a ha) (fun i => rmw_L_mono _ _ _ _ i) (fun j i => rmw_C_mono _ _ _ _ j i) ?_
          intro j m hj hm
          simp only [rmw_owned]
          by_cases hjt : j = t
          · subst hjt
            exact ⟨n + 1, getElem?_set_self_some _ _ _ _ hn, by omega⟩
          · exact ⟨m, by rw [List.getElem?_set_ne (Ne.symm hjt)]; exact hj, hm⟩
        · intro htt
          simp only [rmw_torn] at htt
          rw [ht] at htt
          cases htt
      · cases hs
    | send j =>
      simp only at hs
      split at hs
      · rename_i h1
        have ht := htf h1.1
        have hjt : j ≠ t := h1.2
        cases hm : s.owned[j]? with
        | none => simp [hm] at hs
        | some m =>
          simp only [hm, Option.some.injEq] at hs
          subst hs
          have hj1 : (s.owned.set t (n - 1))[j]? = some m := by
            rw [List.getElem?_set_ne (Ne.symm hjt)]; exact hm
          refine ⟨?_, ?_, ?_, ?_, h.noRace⟩
          · intro _
            simp only
            rw [sum_set _ j m (m + 1) hj1, sum_set s.owned t n (n - 1) hn, h.rcEq ht]
            omega
          · intro a ha
            have := h.epOwn a ha
            simp only [updC]
            by_cases h1t : a.thr = t
            · simp only [h1t, ↓reduceIte]
              rw [h1t] at this
              exact Nat.le_trans this (le_tick _ _ _)
            · simp only [h1t, ↓reduceIte]
              by_cases h1j : a.thr = j
              · simp only [h1j, ↓reduceIte]
                rw [h1j] at this
                exact Nat.le_trans this (le_join_left _ _ _)
              · simp only [h1j, ↓reduceIte]
                exact this
          · intro _ a ha
            have hep := h.epOwn a ha
            rcases h.cover ht a ha with hL | ⟨k, nk, hk, hnk, hc⟩
            · exact Or.inl hL
            · by_cases hkt : k = t
              · -- the holder gives its handle away: the receiver now covers the access
                subst hkt
                refine Or.inr ⟨j, m + 1, getElem?_set_self_some _ _ _ _ hj1, by omega, ?_⟩
                have hCj : ∀ i, (updC (updC s.C j (join (s.C j) (s.C k))) k (tick (s.C k) k)) j i = join (s.C j) (s.C k) i := by
                  intro i; simp [updC, hjt]
                rcases hc with hc | hc
                · refine Or.inr ?_
                  simp only
                  rw [hCj, ← hc]
                  exact Nat.le_trans hep (by rw [← hc]; exact le_join_right _ _ _)
                · refine Or.inr ?_
                  simp only
                  rw [hCj]
                  exact Nat.le_trans hc (le_join_right _ _ _)
              · by_cases hkj : k = j
                · subst hkj
                  refine Or.inr ⟨k, m + 1, getElem?_set_self_some _ _ _ _ hj1, by omega, ?_⟩
                  rcases hc with hc | hc
                  · exact Or.inl hc
                  · refine Or.inr ?_
                    simp only [updC, hkt, ↓reduceIte]
                    exact Nat.le_trans hc (le_join_left _ _ _)
                · refine Or.inr ⟨k, nk, ?_, hnk, ?_⟩
                  · simp only
                    rw [List.getElem?_set_ne (Ne.symm hkj), List.getElem?_set_ne (Ne.symm hkt)]
                    exact hk
                  · rcases hc with hc | hc
                    · exact Or.inl hc
                    · refine Or.inr ?_
                      simp only [updC, hkt, hkj, ↓reduceIte]
                      exact hc
          · intro htt
            simp only at htt
            rw [ht] at htt
            cases htt
      · cases hs
    | access =>
      simp only at hs
      split at hs
      · rename_i h1
        have ht := htf h1
        simp only [Option.some.injEq] at hs
        subst hs
        refine ⟨h.rcEq, ?_, ?_, h.tornDone, h.noRace⟩
        · intro a ha
          simp only [List.mem_cons] at ha
          rcases ha with rfl | ha
          · exact Nat.le_refl _
          · exact h.epOwn a ha
        · intro _ a ha
          simp only [List.mem_cons] at ha
          rcases ha with rfl | ha
          · exact Or.inr ⟨t, n, hn, h1, Or.inl rfl⟩
          · exact h.cover ht a ha
      · cases hs
    | drop =>
      simp only at hs
      split at hs
      · rename_i h1
        have ht := htf h1
        have hsum := h.rcEq ht
        split at hs
        · -- the last handle: teardown
          rename_i hrc1
          simp only [Option.some.injEq] at hs
          subst hs
          have hsn : s.owned.sum = n := by
            have := le_sum_of_getElem? s.owned t n hn
            omega
          have hothers := others_zero s.owned t n hn hsn
          refine ⟨?_, ?_, ?_, ?_, ?_⟩
          · intro htt; simp at htt
          · intro a ha
            simp only [List.mem_cons, rmw_acc] at ha
            rcases ha with rfl | ha
            · exact Nat.le_refl _
            · exact Nat.le_trans (h.epOwn a ha) (rmw_C_mono _ _ _ _ _ _)
          · intro htt; simp at htt
          · intro _ m hm
            simp only [rmw_owned] at hm
            obtain ⟨k, hk⟩ := mem_getElem? hm
            rcases getElem?_set_cases _ _ _ _ _ hk with ⟨_, rfl⟩ | ⟨hkt, hk'⟩
            · omega
            · exact hothers k m hk' hkt
          · simp only [rmw_raced, rmw_acc, h.noRace, Bool.false_or]
            rw [List.any_eq_false]
            intro a ha
            have hord : ordered (rmw { s with rc := s.rc - 1, owned := s.owned.set t (n - 1) } t O.decRel O.decAcq) t a = true := by
              simp only [ordered, Bool.or_eq_true, beq_iff_eq, decide_eq_true_eq]
              by_cases hat : a.thr = t
              · exact Or.inl hat
              · refine Or.inr ?_
                rw [hacq]
                rcases h.cover ht a ha with hL | ⟨k, nk, hk, hnk, hc⟩
                · exact Nat.le_trans hL (rmw_acquire _ t O.decRel a.thr)
                · by_cases hkt : k = t
                  · subst hkt
                    rcases hc with hc | hc
                    · exact absurd hc.symm hat
                    · exact Nat.le_trans hc (rmw_C_mono _ _ _ _ _ _)
                  · have := hothers k nk hk hkt
                    omega
            have hnr : s.raced = false := h.noRace
            simp only [hnr] at hord ⊢
            rw [hord]
            simp
        · rename_i hrc1
          simp only [Option.some.injEq] at hs
          subst hs
          refine ⟨?_, ?_, ?_, ?_, h.noRace⟩
          · intro _
            simp only [rmw_rc, rmw_owned]
            rw [sum_set s.owned t n (n - 1) hn, hsum]
            omega
          · intro a ha
            exact Nat.le_trans (h.epOwn a ha) (rmw_C_mono _ _ _ _ _ _)
          · intro _ a ha
            have hep := h.epOwn a ha
            rw [hrel]
            rcases h.cover ht a ha with hL | ⟨k, nk, hk, hnk, hc⟩
            · exact Or.inl (Nat.le_trans hL (rmw_L_mono _ _ _ _ _))
            · by_cases hkt : k = t
              · subst hkt
                refine Or.inl ?_
                rcases hc with hc | hc
                · rw [← hc]
                  exact Nat.le_trans hep (by rw [← hc]; exact rmw_release _ k O.decAcq k)
                · exact Nat.le_trans hc (rmw_release _ k O.decAcq a.thr)
              · refine Or.inr ⟨k, nk, ?_, hnk, ?_⟩
                · simp only [rmw_owned]
                  rw [List.getElem?_set_ne (Ne.symm hkt)]
                  exact hk
                · rcases hc with hc | hc
                  · exact Or.inl hc
                  · exact Or.inr (Nat.le_trans hc (rmw_C_mono _ _ _ _ _ _))
          · intro htt
            simp only [rmw_torn] at htt
            rw [ht] at htt
            cases htt
      · cases hs

theorem inv_reachable {O : Ords} (hrel : O.decRel = true) (hacq : O.decAcq = true) {s : Sys}
    (h : Reachable O s) : Inv s := by
  induction h with
  | init l => exact inv_init l
  | step t a _ hs ih => exact inv_step hrel hacq ih t a hs

end Cst.Mem
