/- GENERATED once by tools/gen_rs_eqns.py from Model/Rs.lean: the evaluator's cases as rewriting lemmas (all `rfl`). -/
import CstModel.Model.Rs
namespace Cst
namespace Rs
variable (S : Sem) (fuel : Nat) (ρ : Env)

theorem eval_var (x : Nat) :
    eval S (fuel + 1) ρ (.var x) =
      match ρ.get x with | some v => .ok v ρ | none => .stuck := rfl

theorem eval_nat (n : Nat) :
    eval S (fuel + 1) ρ (.nat n) =
      .ok (.nat n) ρ := rfl

theorem eval_bool (b : Bool) :
    eval S (fuel + 1) ρ (.bool b) =
      .ok (.bool b) ρ := rfl

theorem eval_strlit (k : Nat) :
    eval S (fuel + 1) ρ (.strlit k) =
      .ok (.atom k) ρ := rfl

theorem eval_unit  :
    eval S (fuel + 1) ρ .unit =
      .ok .unit ρ := rfl

theorem eval_unknown  :
    eval S (fuel + 1) ρ .unknown =
      .stuck := rfl

theorem eval_brk  :
    eval S (fuel + 1) ρ .brk =
      .brk ρ := rfl

theorem eval_closure (ps : List Pat) (cb : Expr) :
    eval S (fuel + 1) ρ (.closure ps cb) =
      .stuck := rfl

theorem eval_ctor (c : Nat) (args : List Expr) :
    eval S (fuel + 1) ρ (.ctor c args) =
      match evalL S fuel ρ args with
      | .ok vs ρ' => .ok (.ctor c vs) ρ'
      | .ret v ρ' => .ret v ρ' | .brk ρ' => .brk ρ' | .panic => .panic | .stuck => .stuck := rfl

theorem eval_call (f : Nat) (args : List Expr) :
    eval S (fuel + 1) ρ (.call f args) =
      -- `mem::replace(place, v)` / `mem::take(place)`
      if f == N.mem_replace then
        match args with
        | [pl, ve] => match readPlace ρ pl, eval S fuel ρ ve with
          | some old, .ok v ρ' => (match writePlace ρ' pl v with | some ρ'' => .ok old ρ'' | none => .stuck)
          | _, .panic => .panic
          | _, _ => .stuck
        | _ => .stuck
      else match evalL S fuel ρ args with
        | .ok vs ρ' => (match S.call f vs with | .ok v _ => .ok v ρ' | .panic => .panic | .unknown => .stuck)
        | .ret v ρ' => .ret v ρ' | .brk ρ' => .brk ρ' | .panic => .panic | .stuck => .stuck := rfl

theorem eval_app (f : Expr) (args : List Expr) :
    eval S (fuel + 1) ρ (.app f args) =
      match eval S fuel ρ f with
      | .ok (.fn k) ρ' => (match evalL S fuel ρ' args with
        | .ok vs ρ'' => (match S.app k vs with | some v => .ok v ρ'' | none => .stuck)
        | .ret v ρ'' => .ret v ρ'' | .brk ρ'' => .brk ρ'' | .panic => .panic | .stuck => .stuck)
      | .ok _ _ => .stuck
      | r => r := rfl

theorem eval_field (e : Expr) (f : Nat) :
    eval S (fuel + 1) ρ (.field e f) =
      match eval S fuel ρ e with
      | .ok (.strct fs) ρ' => (match recGet fs f with | some v => .ok v ρ' | none => .stuck)
      | .ok (.ctor c vs) ρ' => if c == N.tuple then (match vs[f]? with | some v => .ok v ρ' | none => .stuck) else .stuck
      | .ok _ _ => .stuck
      | r => r := rfl

theorem eval_meth (recv : Expr) (m : Nat) (args : List Expr) :
    eval S (fuel + 1) ρ (.meth recv m args) =
      match eval S fuel ρ recv with
      | .ok rv ρ1 => evalMeth S fuel ρ1 recv rv m args
      | r => r := rfl

theorem eval_mtch (s : Expr) (arms : List Arm) :
    eval S (fuel + 1) ρ (.mtch s arms) =
      match eval S fuel ρ s with
      | .ok v ρ' => evalArms S fuel ρ' v arms
      | r => r := rfl

theorem eval_ite (c t e : Expr) :
    eval S (fuel + 1) ρ (.ite c t e) =
      match eval S fuel ρ c with
      | .ok (.bool true) ρ' => eval S fuel ρ' t
      | .ok (.bool false) ρ' => eval S fuel ρ' e
      | .ok _ _ => .stuck
      | r => r := rfl

theorem eval_iflet (p : Pat) (s t e : Expr) :
    eval S (fuel + 1) ρ (.iflet p s t e) =
      match eval S fuel ρ s with
      | .ok v ρ' => (match matchPat p v ρ' with
        | some ρ'' => eval S fuel ρ'' t
        | none => eval S fuel ρ' e)
      | r => r := rfl

theorem eval_bin (op : Nat) (a b : Expr) :
    eval S (fuel + 1) ρ (.bin op a b) =
      match eval S fuel ρ a with
      | .ok va ρ' =>
        -- `&&` / `||`: evaluation is pure, so the right operand can be evaluated and its outcome discarded where Rust
        -- does not evaluate it; written so that a left operand that is an *opaque* Boolean is not scrutinised when the
        -- right operand evaluates to a Boolean (the theorems then need no case split on it)
        if op == N.and then (match va with
          | .bool x => (match eval S fuel ρ' b with
            | .ok (.bool y) ρ'' => .ok (.bool (x && y)) (if x then ρ'' else ρ')
            | .ok _ _ => if x then .stuck else .ok (.bool false) ρ'
            | r => if x then r else .ok (.bool false) ρ')
          | _ => .stuck)
        else if op == N.or then (match va with
          | .bool x => (match eval S fuel ρ' b with
            | .ok (.bool y) ρ'' => .ok (.bool (x || y)) (if x then ρ' else ρ'')
            | .ok _ _ => if x then .ok (.bool true) ρ' else .stuck
            | r => if x then .ok (.bool true) ρ' else r)
          | _ => .stuck)
        else (match eval S fuel ρ' b with
          | .ok vb ρ'' => (match binop op va vb with
            | some v => .ok v ρ''
            | none => if op == N.sub then .panic else .stuck)
          | r => r)
      | r => r := rfl

theorem eval_neg (a : Expr) :
    eval S (fuel + 1) ρ (.neg a) =
      match eval S fuel ρ a with
      | .ok (.bool b) ρ' => .ok (.bool (!b)) ρ'
      | .ok _ _ => .stuck
      | r => r := rfl

theorem eval_block (ss : List Stmt) (result : Expr) :
    eval S (fuel + 1) ρ (.block ss result) =
      evalStmts S fuel ρ ss result := rfl

theorem eval_ret (e : Expr) :
    eval S (fuel + 1) ρ (.ret e) =
      match eval S fuel ρ e with
      | .ok v ρ' => .ret v ρ'
      | r => r := rfl

theorem eval_try (e : Expr) :
    eval S (fuel + 1) ρ (.try_ e) =
      match eval S fuel ρ e with
      | .ok (.ctor c vs) ρ' =>
        if c == N.Some || c == N.Ok then (match vs with | [v] => .ok v ρ' | _ => .stuck)
        else if c == N.None || c == N.Err then .ret (.ctor c vs) ρ'
        else .stuck
      | .ok _ _ => .stuck
      | r => r := rfl

theorem eval_forRange (x : Nat) (lo hi body : Expr) :
    eval S (fuel + 1) ρ (.forRange x lo hi body) =
      match eval S fuel ρ lo with
      | .ok (.nat l) ρ' => (match eval S fuel ρ' hi with
        | .ok (.nat h) ρ'' => evalFor S fuel ρ'' x l (h - l) body
        | .ok _ _ => .stuck
        | r => r)
      | .ok _ _ => .stuck
      | r => r := rfl

theorem eval_loop (body : Expr) :
    eval S (fuel + 1) ρ (.loop body) =
      match eval S fuel ρ body with
      | .ok _ ρ' => eval S fuel ρ' (.loop body)
      | .brk ρ' => .ok .unit ρ'
      | r => r := rfl

theorem eval_mac (m : Nat) (args : List Expr) :
    eval S (fuel + 1) ρ (.mac m args) =
      if m == N.unreachable || m == N.panic then .panic
      else if m == N.assert || (m == N.debug_assert && S.debug) then
        match args with
        | c :: _ => (match eval S fuel ρ c with
          | .ok (.bool true) ρ' => .ok .unit ρ'
          | .ok (.bool false) _ => .panic
          | .ok _ _ => .stuck
          | r => r)
        | [] => .stuck
      else if m == N.assert_eq || (m == N.debug_assert_eq && S.debug) then
        match args with
        | a :: b :: _ => (match eval S fuel ρ (.bin N.eq a b) with
          | .ok (.bool true) ρ' => .ok .unit ρ'
          | .ok (.bool false) _ => .panic
          | .ok _ _ => .stuck
          | r => r)
        | _ => .stuck
      else if m == N.assert_ne then
        match args with
        | a :: b :: _ => (match eval S fuel ρ (.bin N.ne a b) with
          | .ok (.bool true) ρ' => .ok .unit ρ'
          | .ok (.bool false) _ => .panic
          | .ok _ _ => .stuck
          | r => r)
        | _ => .stuck
      else if m == N.debug_assert || m == N.debug_assert_eq then .ok .unit ρ
      else if m == N.write then
        -- `write!(target, fmt, args…)`: appends `(fmt, args)` to the sink's log; yields `Ok(())`
        match args with
        | tgt :: rest => (match evalL S fuel ρ rest with
          | .ok vs ρ' => (match readPlace ρ' tgt with
            | some (.ctor c log) => (match writePlace ρ' tgt (.ctor c (log ++ [vTuple vs])) with
              | some ρ'' => .ok (.ctor N.Ok [.unit]) ρ''
              | none => .stuck)
            | _ => .stuck)
          | .ret v ρ' => .ret v ρ' | .brk ρ' => .brk ρ' | .panic => .panic | .stuck => .stuck)
        | [] => .stuck
      else if m == N.format then
        match evalL S fuel ρ args with
        | .ok vs ρ' => (match S.call N.format vs with | .ok v _ => .ok v ρ' | .panic => .panic | .unknown => .stuck)
        | .ret v ρ' => .ret v ρ' | .brk ρ' => .brk ρ' | .panic => .panic | .stuck => .stuck
      else .stuck := rfl

theorem evalMeth_succ (recv : Expr) (rv : Val) (m : Nat) (args : List Expr) :
    evalMeth S (fuel + 1) ρ recv rv m args =
    if m == N.clone || m == N.into || m == N.as_ref || m == N.as_mut || m == N.cloned || m == N.copied then
      (match args with | [] => .ok rv ρ | _ => .stuck)
    else if m == N.is_some then (match rv with
      | .ctor c _ => if c == N.Some then .ok (.bool true) ρ else if c == N.None then .ok (.bool false) ρ else .stuck
      | _ => .stuck)
    else if m == N.is_none then (match rv with
      | .ctor c _ => if c == N.Some then .ok (.bool false) ρ else if c == N.None then .ok (.bool true) ρ else .stuck
      | _ => .stuck)
    else if m == N.unwrap || m == N.expect then (match rv with
      | .ctor c vs => if c == N.Some || c == N.Ok then (match vs with | [v] => .ok v ρ | _ => .stuck)
                      else if c == N.None || c == N.Err then .panic else .stuck
      | _ => .stuck)
    else if m == N.or_else then (match rv, args with
      | .ctor c vs, [.closure [] body] =>
        if c == N.Some then .ok (.ctor c vs) ρ else if c == N.None then eval S fuel ρ body else .stuck
      | _, _ => .stuck)
    else if m == N.unwrap_or_else then (match rv, args with
      | .ctor c vs, [.closure [] body] =>
        if c == N.Some then (match vs with | [v] => .ok v ρ | _ => .stuck) else if c == N.None then eval S fuel ρ body else .stuck
      | _, _ => .stuck)
    else if m == N.unwrap_or then (match rv, args with
      | .ctor c vs, [d] =>
        (match eval S fuel ρ d with
         | .ok dv ρ' => if c == N.Some then (match vs with | [v] => .ok v ρ' | _ => .stuck) else if c == N.None then .ok dv ρ' else .stuck
         | r => r)
      | _, _ => .stuck)
    else if m == N.map || m == N.and_then then (match rv, args with
      | .ctor c vs, [.closure [p] body] =>
        if c == N.None then .ok vNone ρ
        else if c == N.Some then (match vs with
          | [v] => (match matchPat p v ρ with
            | some ρ' => (match eval S fuel ρ' body with
              | .ok r ρ'' => if m == N.map then .ok (vSome r) ρ'' else .ok r ρ''
              | r => r)
            | none => .stuck)
          | _ => .stuck)
        else .stuck
      | .ctor c vs, [f] =>
        -- a function value as the argument: `opt.map(f)`
        (match eval S fuel ρ f with
         | .ok (.fn k) ρ' =>
           if c == N.None then .ok vNone ρ'
           else if c == N.Some then (match S.app k vs with
             | some r => if m == N.map then .ok (vSome r) ρ' else .ok r ρ'
             | none => .stuck)
           else .stuck
         | .ok _ _ => .stuck
         | r => r)
      | _, _ => .stuck)
    else match evalL S fuel ρ args with
      | .ok vs ρ' => (match S.meth m rv vs with
        | .ok r rv' =>
          if isPlace recv then (match writePlace ρ' recv rv' with | some ρ'' => .ok r ρ'' | none => .stuck)
          else .ok r ρ'
        | .panic => .panic
        | .unknown => .stuck)
      | .ret v ρ' => .ret v ρ' | .brk ρ' => .brk ρ' | .panic => .panic | .stuck => .stuck := rfl


theorem evalL_nil : evalL S (fuel + 1) ρ [] = .ok [] ρ := rfl
theorem evalL_cons (e : Expr) (es : List Expr) : evalL S (fuel + 1) ρ (e :: es) =
    (match eval S fuel ρ e with
    | .ok v ρ' => (match evalL S fuel ρ' es with
      | .ok vs ρ'' => .ok (v :: vs) ρ''
      | r => r)
    | .ret v ρ' => .ret v ρ'
    | .brk ρ' => .brk ρ'
    | .panic => .panic
    | .stuck => .stuck) := rfl
theorem evalArms_nil (v : Val) : evalArms S (fuel + 1) ρ v [] = .stuck := rfl
theorem evalArms_cons (v : Val) (p : Pat) (g : Option Expr) (body : Expr) (arms : List Arm) :
    evalArms S (fuel + 1) ρ v (.mk p g body :: arms) =
    (match matchPat p v ρ with
    | some ρ' => (match g with
      | none => eval S fuel ρ' body
      | some ge => (match eval S fuel ρ' ge with
        | .ok (.bool true) ρ'' => eval S fuel ρ'' body
        | .ok (.bool false) _ => evalArms S fuel ρ v arms
        | .ok _ _ => .stuck
        | r => r))
    | none => evalArms S fuel ρ v arms) := rfl
theorem evalStmts_nil (result : Expr) : evalStmts S (fuel + 1) ρ [] result = eval S fuel ρ result := rfl
theorem evalStmts_let (p : Pat) (e : Expr) (ss : List Stmt) (result : Expr) :
    evalStmts S (fuel + 1) ρ (.letS p e :: ss) result =
    (match eval S fuel ρ e with
      | .ok v ρ' => (match matchPat p v ρ' with
        | some ρ'' => evalStmts S fuel ρ'' ss result
        | none => .stuck)
      | r => r) := rfl
theorem evalStmts_assign (pl e : Expr) (ss : List Stmt) (result : Expr) :
    evalStmts S (fuel + 1) ρ (.assign pl e :: ss) result =
    (match eval S fuel ρ e with
      | .ok v ρ' => (match writePlace ρ' pl v with
        | some ρ'' => evalStmts S fuel ρ'' ss result
        | none => .stuck)
      | r => r) := rfl
theorem evalStmts_expr (e : Expr) (ss : List Stmt) (result : Expr) :
    evalStmts S (fuel + 1) ρ (.exprS e :: ss) result =
    (match eval S fuel ρ e with
      | .ok _ ρ' => evalStmts S fuel ρ' ss result
      | r => r) := rfl
theorem evalFor_zero (x i : Nat) (body : Expr) : evalFor S (fuel + 1) ρ x i 0 body = .ok .unit ρ := rfl
theorem evalFor_succ (x i k : Nat) (body : Expr) : evalFor S (fuel + 1) ρ x i (k + 1) body =
    (match eval S fuel (ρ.set x (.nat i)) body with
    | .ok _ ρ' => evalFor S fuel ρ' x (i + 1) k body
    | .brk ρ' => .ok .unit ρ'
    | r => r) := rfl

end Rs
end Cst
