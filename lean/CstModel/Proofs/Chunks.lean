/-
  Proofs/Chunks — cutting a token list at a byte range: the concatenation of the per-token cuts is
  the slice of the concatenated text (the pure core of `SyntaxText`'s chunking).
-/
import CstModel.Props.C02
import CstModel.Props.C12
namespace Cst

/-- per-token cut of the range `[a, b]` (offsets relative to the start of the first token's parent;
    `s` = start of the next token): a token whose closed range does not meet `[a, b]` gives no chunk, any
    other gives `&text[lo - s .. hi - s]` (`none` = slice panic) — `TextRange::intersect` + `chunkOf` -/
def cut (a b : Nat) : Nat → List Text → List (Option Text)
  | _, [] => []
  | s, t :: ts =>
    (if min b (s + blen t) < max a s then [] else [sliceBytes t (max a s - s) (min b (s + blen t) - s)]) ++
      cut a b (s + blen t) ts

theorem takeBytes_all (a : Text) : takeBytes a (blen a) = some a := by
  have := C02.takeBytes_append a []
  simpa using this

theorem dropBytes_all (a : Text) : dropBytes a (blen a) = some [] := by
  have := C02.dropBytes_append a []
  simpa using this

theorem blen_dropBytes (t : Text) (a : Nat) (r : Text) (h : dropBytes t a = some r) : blen r + a = blen t := by
  induction t generalizing a with
  | nil =>
    cases a with
    | zero => simp [dropBytes] at h; subst h; simp
    | succ n => simp [dropBytes] at h
  | cons c cs ih =>
    cases a with
    | zero => simp [dropBytes] at h; subst h; simp
    | succ n =>
      simp only [dropBytes] at h
      split at h
      · rename_i hle
        have := ih _ h
        simp only [blen_cons]
        omega
      · cases h

/-- taking no more than the first part only looks at the first part -/
theorem takeBytes_le_append (a b : Text) (n : Nat) (h : n ≤ blen a) : takeBytes (a ++ b) n = takeBytes a n := by
  induction a generalizing n with
  | nil =>
    simp only [blen_nil, Nat.le_zero_eq] at h
    subst h
    cases b <;> simp [takeBytes]
  | cons c cs ih =>
    cases n with
    | zero => simp [takeBytes]
    | succ m =>
      simp only [List.cons_append, takeBytes]
      by_cases hle : c.utf8Size ≤ m + 1
      · simp only [hle, ↓reduceIte]
        rw [ih _ (by simp only [blen_cons] at h; omega)]
      · simp [hle]

/-- taking more than the first part takes all of it -/
theorem takeBytes_ge_append (a b : Text) (n : Nat) (h : blen a ≤ n) :
    takeBytes (a ++ b) n = (takeBytes b (n - blen a)).map (a ++ ·) := by
  induction a generalizing n with
  | nil => simp
  | cons c cs ih =>
    have hp := Char.utf8Size_pos c
    simp only [blen_cons] at h
    obtain ⟨m, rfl⟩ : ∃ m, n = m + 1 := ⟨n - 1, by omega⟩
    simp only [List.cons_append, takeBytes]
    have : c.utf8Size ≤ m + 1 := by omega
    simp only [this, ↓reduceIte, blen_cons]
    rw [ih _ (by omega)]
    have e : m + 1 - c.utf8Size - blen cs = m + 1 - (c.utf8Size + blen cs) := by omega
    rw [e]
    cases takeBytes b (m + 1 - (c.utf8Size + blen cs)) <;> simp

/-- a slice that lies in the first part -/
theorem slice_first (t r : Text) (a b : Nat) (hab : a ≤ b) (hb : b ≤ blen t) :
    sliceBytes (t ++ r) a b = sliceBytes t a b := by
  unfold sliceBytes
  simp only [hab, ↓reduceIte]
  by_cases ha : a < blen t
  · rw [C12.dropBytes_lt_append t r a ha]
    cases hd : dropBytes t a with
    | none => rfl
    | some x =>
      simp only [Option.map_some]
      have := blen_dropBytes t a x hd
      exact takeBytes_le_append x r (b - a) (by omega)
  · have ha' : a = blen t := by omega
    have hb' : b = blen t := by omega
    subst ha'; subst hb'
    rw [C02.dropBytes_append, dropBytes_all]
    cases r <;> simp [takeBytes]

/-- a slice that lies behind the first part -/
theorem slice_second (t r : Text) (a b : Nat) (ha : blen t ≤ a) (hab : a ≤ b) :
    sliceBytes (t ++ r) a b = sliceBytes r (a - blen t) (b - blen t) := by
  unfold sliceBytes
  have : a - blen t ≤ b - blen t := by omega
  simp only [hab, this, ↓reduceIte]
  rw [C12.dropBytes_ge_append t r a ha]
  have e : b - blen t - (a - blen t) = b - a := by omega
  rw [e]

theorem slice_nil (a b : Nat) (x : Text) (h : sliceBytes [] a b = some x) : x = [] := by
  unfold sliceBytes at h
  split at h
  · cases a with
    | zero =>
      simp only [dropBytes] at h
      cases hb : b - 0 with
      | zero => rw [hb] at h; simpa [takeBytes] using h.symm
      | succ n => rw [hb] at h; simp [takeBytes] at h
    | succ n => simp [dropBytes] at h
  · cases h

/-- a slice that starts in the first part and ends behind it splits at the seam -/
theorem slice_across (t r : Text) (a b : Nat) (x : Text) (ha : a ≤ blen t) (hb : blen t ≤ b)
    (h : sliceBytes (t ++ r) a b = some x) :
    ∃ x1 x2, sliceBytes t a (blen t) = some x1 ∧ sliceBytes r 0 (b - blen t) = some x2 ∧ x = x1 ++ x2 := by
  by_cases hlt : a < blen t
  · unfold sliceBytes at h ⊢
    have hab : a ≤ b := by omega
    simp only [hab, ↓reduceIte, ha, Nat.zero_le, dropBytes, Nat.sub_zero] at h ⊢
    rw [C12.dropBytes_lt_append t r a hlt] at h
    cases hd : dropBytes t a with
    | none => simp [hd] at h
    | some y =>
      simp only [hd, Option.map_some] at h ⊢
      have hy := blen_dropBytes t a y hd
      rw [takeBytes_ge_append y r (b - a) (by omega)] at h
      have e1 : blen t - a = blen y := by omega
      have e2 : b - a - blen y = b - blen t := by omega
      rw [e1, takeBytes_all, ← e2]
      cases ht : takeBytes r (b - a - blen y) with
      | none => simp [ht] at h
      | some z =>
        simp only [ht, Option.map_some, Option.some.injEq] at h
        exact ⟨y, z, rfl, rfl, h.symm⟩
  · have ha' : a = blen t := by omega
    subst ha'
    rw [slice_second t r (blen t) b (Nat.le_refl _) hb] at h
    simp only [Nat.sub_self] at h
    refine ⟨[], x, ?_, h, rfl⟩
    unfold sliceBytes
    simp [dropBytes_all, takeBytes]

/-- **the chunks of a range are the slice**: cutting the tokens of a node at a byte range and
    concatenating the cuts gives `&text[a..b]` of the node's text, whenever that slice exists (both ends on
    character boundaries, inside the text) — tokens before, behind and touching the range included -/
theorem cut_spec (a b : Nat) (hab : a ≤ b) : ∀ (ts : List Text) (s : Nat) (x : Text),
    sliceBytes ts.flatten (a - s) (b - s) = some x → chunksConcat (cut a b s ts) = some x := by
  intro ts
  induction ts with
  | nil =>
    intro s x h
    simp only [List.flatten_nil] at h
    have := slice_nil _ _ x h
    subst this
    simp [cut, chunksConcat]
  | cons t ts ih =>
    intro s x h
    simp only [List.flatten_cons] at h
    simp only [cut]
    by_cases hbs : b < s
    · -- the range lies before this token: nothing is cut from here on
      have e1 : a - s = 0 := by omega
      have e2 : b - s = 0 := by omega
      have hskip : min b (s + blen t) < max a s := by omega
      simp only [hskip, ↓reduceIte, List.nil_append]
      apply ih (s + blen t) x
      have e3 : a - (s + blen t) = 0 := by omega
      have e4 : b - (s + blen t) = 0 := by omega
      rw [e1, e2] at h
      rw [e3, e4]
      have : x = [] := by
        unfold sliceBytes at h
        simpa [dropBytes, takeBytes] using h.symm
      subst this
      unfold sliceBytes
      simp [dropBytes, takeBytes]
    · by_cases hea : s + blen t < a
      · -- the token ends before the range starts
        have hskip : min b (s + blen t) < max a s := by omega
        simp only [hskip, ↓reduceIte, List.nil_append]
        apply ih (s + blen t) x
        rw [slice_second t ts.flatten (a - s) (b - s) (by omega) (by omega)] at h
        have e3 : a - s - blen t = a - (s + blen t) := by omega
        have e4 : b - s - blen t = b - (s + blen t) := by omega
        rw [e3, e4] at h
        exact h
      · have hpres : ¬ min b (s + blen t) < max a s := by omega
        simp only [hpres, ↓reduceIte, List.singleton_append]
        have elo : max a s - s = a - s := by omega
        by_cases hbe : b ≤ s + blen t
        · -- the range ends inside (or at the end of) this token
          have ehi : min b (s + blen t) - s = b - s := by omega
          rw [elo, ehi]
          rw [slice_first t ts.flatten (a - s) (b - s) (by omega) (by omega)] at h
          have hrest := ih (s + blen t) [] (by
            have e3 : a - (s + blen t) = 0 := by omega
            have e4 : b - (s + blen t) = 0 := by omega
            rw [e3, e4]
            unfold sliceBytes
            simp [dropBytes, takeBytes])
          simp [chunksConcat, h, hrest]
        · -- the range goes on behind this token
          have ehi : min b (s + blen t) - s = blen t := by omega
          rw [elo, ehi]
          obtain ⟨x1, x2, h1, h2, hx⟩ := slice_across t ts.flatten (a - s) (b - s) x (by omega) (by omega) h
          have hrest := ih (s + blen t) x2 (by
            have e3 : a - (s + blen t) = 0 := by omega
            have e4 : b - (s + blen t) = b - s - blen t := by omega
            rw [e3, e4]
            exact h2)
          simp [chunksConcat, h1, hrest, hx]

/-- the converse of `slice_across`: slices of the two parts that meet at the seam join to a slice of the whole -/
theorem slice_join (t r : Text) (a b : Nat) (x1 x2 : Text) (ha : a ≤ blen t) (hb : blen t ≤ b)
    (h1 : sliceBytes t a (blen t) = some x1) (h2 : sliceBytes r 0 (b - blen t) = some x2) :
    sliceBytes (t ++ r) a b = some (x1 ++ x2) := by
  by_cases hlt : a < blen t
  · unfold sliceBytes at h1 h2 ⊢
    have hab : a ≤ b := by omega
    simp only [hab, ↓reduceIte, ha, Nat.zero_le, dropBytes, Nat.sub_zero] at h1 h2 ⊢
    rw [C12.dropBytes_lt_append t r a hlt]
    cases hd : dropBytes t a with
    | none => simp [hd] at h1
    | some y =>
      simp only [hd, Option.map_some] at h1 ⊢
      have hy := blen_dropBytes t a y hd
      have e1 : blen t - a = blen y := by omega
      rw [e1, takeBytes_all] at h1
      have hyx : y = x1 := Option.some.inj h1
      subst hyx
      rw [takeBytes_ge_append y r (b - a) (by omega)]
      have e2 : b - a - blen y = b - blen t := by omega
      rw [e2, h2]
      rfl
  · have ha' : a = blen t := by omega
    subst ha'
    have : x1 = [] := by
      unfold sliceBytes at h1
      simp only [Nat.le_refl, ↓reduceIte, dropBytes_all, Nat.sub_self, takeBytes] at h1
      exact (Option.some.inj h1).symm
    subst this
    rw [slice_second t r (blen t) b (Nat.le_refl _) hb]
    simpa using h2

theorem chunksConcat_cons_some {c : Option Text} {cs : List (Option Text)} {x : Text}
    (h : chunksConcat (c :: cs) = some x) : ∃ x1 xr, c = some x1 ∧ chunksConcat cs = some xr ∧ x = x1 ++ xr := by
  cases c with
  | none => simp [chunksConcat] at h
  | some x1 =>
    simp only [chunksConcat] at h
    cases hr : chunksConcat cs with
    | none => simp [hr] at h
    | some xr =>
      simp only [hr, Option.map_some, Option.some.injEq] at h
      exact ⟨x1, xr, rfl, rfl, h.symm⟩

/-- **and conversely**: if every cut exists (no chunk panics) and the range ends inside the text, the slice of the
    concatenated text exists and is the concatenation of the cuts — so a range with an end inside a character has a
    panicking chunk -/
theorem cut_spec_conv (a b : Nat) (hab : a ≤ b) : ∀ (ts : List Text) (s : Nat) (x : Text),
    chunksConcat (cut a b s ts) = some x → b ≤ s + blen ts.flatten →
    sliceBytes ts.flatten (a - s) (b - s) = some x := by
  intro ts
  induction ts with
  | nil =>
    intro s x h hb
    simp only [cut, chunksConcat, Option.some.injEq] at h
    subst h
    simp only [List.flatten_nil, blen_nil, Nat.add_zero] at hb ⊢
    have e1 : a - s = 0 := by omega
    have e2 : b - s = 0 := by omega
    rw [e1, e2]
    unfold sliceBytes
    simp [dropBytes, takeBytes]
  | cons t ts ih =>
    intro s x h hb
    simp only [List.flatten_cons, blen_append] at hb ⊢
    simp only [cut] at h
    by_cases hbs : b < s
    · have hskip : min b (s + blen t) < max a s := by omega
      simp only [hskip, ↓reduceIte, List.nil_append] at h
      have := ih (s + blen t) x h (by omega)
      have e3 : a - (s + blen t) = 0 := by omega
      have e4 : b - (s + blen t) = 0 := by omega
      rw [e3, e4] at this
      have hx : x = [] := by
        unfold sliceBytes at this
        simpa [dropBytes, takeBytes] using this.symm
      subst hx
      have e1 : a - s = 0 := by omega
      have e2 : b - s = 0 := by omega
      rw [e1, e2]
      unfold sliceBytes
      simp [dropBytes, takeBytes]
    · by_cases hea : s + blen t < a
      · have hskip : min b (s + blen t) < max a s := by omega
        simp only [hskip, ↓reduceIte, List.nil_append] at h
        have := ih (s + blen t) x h (by omega)
        rw [slice_second t ts.flatten (a - s) (b - s) (by omega) (by omega)]
        have e3 : a - s - blen t = a - (s + blen t) := by omega
        have e4 : b - s - blen t = b - (s + blen t) := by omega
        rw [e3, e4]
        exact this
      · have hpres : ¬ min b (s + blen t) < max a s := by omega
        simp only [hpres, ↓reduceIte, List.singleton_append] at h
        obtain ⟨x1, xr, hc, hrest, hx⟩ := chunksConcat_cons_some h
        have elo : max a s - s = a - s := by omega
        by_cases hbe : b ≤ s + blen t
        · have ehi : min b (s + blen t) - s = b - s := by omega
          rw [elo, ehi] at hc
          have := ih (s + blen t) xr hrest (by omega)
          have e3 : a - (s + blen t) = 0 := by omega
          have e4 : b - (s + blen t) = 0 := by omega
          rw [e3, e4] at this
          have hxr : xr = [] := by
            unfold sliceBytes at this
            simpa [dropBytes, takeBytes] using this.symm
          subst hxr
          rw [slice_first t ts.flatten (a - s) (b - s) (by omega) (by omega), hc, hx]
          simp
        · have ehi : min b (s + blen t) - s = blen t := by omega
          rw [elo, ehi] at hc
          have := ih (s + blen t) xr hrest (by omega)
          have e3 : a - (s + blen t) = 0 := by omega
          have e4 : b - (s + blen t) = b - s - blen t := by omega
          rw [e3, e4] at this
          rw [hx]
          exact slice_join t ts.flatten (a - s) (b - s) x1 xr (by omega) (by omega) hc this

end Cst
