/-
  Proofs/BackN — closed forms of the backward node-only hops: `last_child` is the last child that is a
  node, `prev_sibling` the closest preceding sibling that is a node.
-/
import CstModel.Proofs.WalkN
namespace Cst
open Red

/-- index of the first node in a reversed child list whose original has `n` entries -/
def lastNodeIdx : List Green → Nat → Option Nat
  | [], _ => none
  | c :: rest, n => if c.isNode then some (n - 1) else lastNodeIdx rest (n - 1)

theorem firstNode_back_idx (rs : List Green) (n o : Nat) :
    (firstNode (childrenToGo rs n o)).map (fun e => e.2.1) = lastNodeIdx rs n := by
  induction rs generalizing n o with
  | nil => rfl
  | cons c rest ih =>
    simp only [childrenToGo, firstNode, lastNodeIdx]
    split
    · rfl
    · exact ih (n - 1) (o - c.len)

/-- what `lastNodeIdx` finds: a node, with only tokens behind it; `none` only when there is no node -/
theorem lastNodeIdx_spec (rs : List Green) :
    match lastNodeIdx rs rs.length with
    | some j => (∃ c, rs.reverse[j]? = some c ∧ c.isNode = true) ∧
                (∀ (j' : Nat) (c' : Green), j < j' → rs.reverse[j']? = some c' → c'.isNode = false)
    | none => ∀ c, c ∈ rs → c.isNode = false := by
  induction rs with
  | nil => simp [lastNodeIdx]
  | cons c rest ih =>
    simp only [lastNodeIdx, List.length_cons, Nat.add_sub_cancel]
    by_cases hn : c.isNode = true
    · simp only [hn, ↓reduceIte, List.reverse_cons]
      refine ⟨⟨c, ?_, hn⟩, ?_⟩
      · rw [List.getElem?_append_right (by simp)]; simp
      · intro j' c' hj h
        have : (rest.reverse ++ [c]).length ≤ j' := by simp; omega
        rw [List.getElem?_eq_none this] at h
        cases h
    · simp only [hn, Bool.false_eq_true, ↓reduceIte]
      cases hl : lastNodeIdx rest rest.length with
      | none =>
        rw [hl] at ih
        intro d hd
        simp only [List.mem_cons] at hd
        rcases hd with rfl | hd
        · simpa using hn
        · exact ih d hd
      | some j =>
        rw [hl] at ih
        simp only [List.reverse_cons] at ih ⊢
        obtain ⟨⟨d, hd, hdn⟩, hafter⟩ := ih
        have hjlt : j < rest.reverse.length := (List.getElem?_eq_some_iff.mp hd).1
        refine ⟨⟨d, ?_, hdn⟩, ?_⟩
        · rw [List.getElem?_append_left hjlt]; exact hd
        · intro j' c' hj h
          by_cases hlt : j' < rest.reverse.length
          · rw [List.getElem?_append_left hlt] at h
            exact hafter j' c' hj h
          · rw [List.getElem?_append_right (by omega)] at h
            have hc' : c' = c := by
              cases hi : j' - rest.reverse.length with
              | zero => rw [hi] at h; simpa using h.symm
              | succ m => rw [hi] at h; simp at h
            subst hc'
            simpa using hn

/-- `last_child` is the last child that is a node -/
theorem lastChild_path (r : Red) (p : Path) (t : Green) (o : Nat) (hg : r.green p = some t) (hs : r.start p = some o) :
    (r.lastChild p).1 = (lastNodeIdx t.children.reverse t.children.length).map (fun j => p ++ [j]) := by
  simp only [Red.lastChild, hg, hs, pick_path, childrenTo, List.take_length, Nat.min_self]
  rw [← firstNode_back_idx t.children.reverse t.children.length (o + t.len)]
  cases firstNode (childrenToGo t.children.reverse t.children.length (o + t.len)) <;> rfl

/-- `prev_sibling` is the closest preceding sibling that is a node -/
theorem prevSibling_path (r : Red) (q : Path) (i : Nat) (tq : Green) (se : Nat × Nat)
    (hq : r.green q = some tq) (hi : i < tq.children.length) (hr : r.range (q ++ [i]) = some se) :
    (r.prevSibling (q ++ [i])).1 = (lastNodeIdx (tq.children.take i).reverse (tq.children.take i).length).map (fun j => q ++ [j]) := by
  have hsp : Red.split (q ++ [i]) = some (q, i) := by simp [Red.split]
  have hl : (tq.children.take i).length = min i tq.children.length := List.length_take
  simp only [Red.prevSibling, hsp, hr, Red.prevChildBefore, hq, pick_path, childrenTo, hl]
  rw [← firstNode_back_idx (tq.children.take i).reverse (min i tq.children.length) se.1]
  cases firstNode (childrenToGo (tq.children.take i).reverse (min i tq.children.length) se.1) <;> rfl

/-- read through the specification: the answer of `last_child` is a node child and every later child is a token -/
theorem lastChild_spec (r : Red) (p : Path) (t : Green) (o : Nat) (hg : r.green p = some t) (hs : r.start p = some o) :
    match (r.lastChild p).1 with
    | some x => ∃ j c, x = p ++ [j] ∧ t.children[j]? = some c ∧ c.isNode = true ∧
                ∀ (j' : Nat) (c' : Green), j < j' → t.children[j']? = some c' → c'.isNode = false
    | none => ∀ c, c ∈ t.children → c.isNode = false := by
  rw [lastChild_path r p t o hg hs]
  have := lastNodeIdx_spec t.children.reverse
  simp only [List.length_reverse, List.reverse_reverse] at this
  cases hl : lastNodeIdx t.children.reverse t.children.length with
  | none =>
    rw [hl] at this
    simp only [Option.map_none]
    intro c hc
    exact this c (by simpa using hc)
  | some j =>
    rw [hl] at this
    simp only [Option.map_some]
    obtain ⟨⟨c, h1, h2⟩, h3⟩ := this
    exact ⟨j, c, rfl, h1, h2, h3⟩

/-- the answer of `prev_sibling` is a node before index `i` with only tokens between it and `i` -/
theorem prevSibling_spec (r : Red) (q : Path) (i : Nat) (tq : Green) (se : Nat × Nat)
    (hq : r.green q = some tq) (hi : i < tq.children.length) (hr : r.range (q ++ [i]) = some se) :
    match (r.prevSibling (q ++ [i])).1 with
    | some x => ∃ j c, x = q ++ [j] ∧ j < i ∧ tq.children[j]? = some c ∧ c.isNode = true ∧
                ∀ (j' : Nat) (c' : Green), j < j' → j' < i → tq.children[j']? = some c' → c'.isNode = false
    | none => ∀ (j : Nat) (c : Green), j < i → tq.children[j]? = some c → c.isNode = false := by
  rw [prevSibling_path r q i tq se hq hi hr]
  have := lastNodeIdx_spec (tq.children.take i).reverse
  simp only [List.length_reverse, List.reverse_reverse] at this
  cases hl : lastNodeIdx (tq.children.take i).reverse (tq.children.take i).length with
  | none =>
    rw [hl] at this
    simp only [Option.map_none]
    intro j c hj hc
    refine this c ?_
    simp only [List.mem_reverse]
    have : (tq.children.take i)[j]? = some c := by rw [List.getElem?_take_of_lt hj]; exact hc
    exact List.mem_of_getElem? this
  | some j =>
    rw [hl] at this
    simp only [Option.map_some]
    obtain ⟨⟨c, h1, h2⟩, h3⟩ := this
    have hj : j < i := by
      have := (List.getElem?_eq_some_iff.mp h1).1
      rw [List.length_take] at this; omega
    rw [List.getElem?_take_of_lt hj] at h1
    refine ⟨j, c, rfl, hj, h1, h2, ?_⟩
    intro j' c' hjj hji hc'
    exact h3 j' c' hjj (by rw [List.getElem?_take_of_lt hji]; exact hc')

end Cst
